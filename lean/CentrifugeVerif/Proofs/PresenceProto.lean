import CentrifugeVerif.Model.PresenceProto
/-! Invariant proof for C06 (b) (`Model/PresenceProto.lean`) under the quiet-resubscribe assumption. -/
namespace CentrifugeVerif.PresenceProto

def SThread.pre (t : SThread) : Prop := t.pc = .reserved ∨ t.pc = .toAdd ∨ t.pc = .toCommit

/-- operations that will still remove the presence entry -/
def Pending (s : State) : Prop :=
  (∃ t, s.S = some t ∧ (t.pc = .toCommit ∨ t.pc = .rollback)) ∨
  (∃ u, s.U = some u ∧ u.pc = .toPresence) ∨
  (∃ u, s.C = some (.locked (some u)) ∧ u.pc = .toPresence) ∨
  (∃ t, s.T = some t ∧ (t.pc = .toRemove ∨ (t.pc = .compensate ∧ t.added = true)))

structure Inv (s : State) : Prop where
  res : ∀ g, s.chan = some (g, false) → ∃ t, s.S = some t ∧ t.gen = g ∧ t.pre
  sPre : ∀ t, s.S = some t → t.pre → s.chan = some (t.gen, false)
  sRoll : ∀ t, s.S = some t → t.pc = .rollback → s.chan = none ∧ s.closed = true
  sU : ∀ t u, s.S = some t → s.U = some u → u.pc = .waiting
  sC : ∀ t u, s.S = some t → s.C = some (.locked (some u)) → u.pc = .waiting
  sT : ∀ t, s.T = some t → t.item = true → s.S = none
  tAdd : ∀ t, s.T = some t → (t.pc = .toAdd ∨ t.pc = .toRemove ∨ t.added = true) → t.item = true
  tRem : ∀ t, s.T = some t → t.pc = .toRemove → s.chan = none ∧ t.added = true
  cClosed : ∀ c, s.C = some c → s.closed = true
  uPres : ∀ u, s.U = some u → u.pc = .toPresence → s.chan = none
  cPres : ∀ u, s.C = some (.locked (some u)) → u.pc = .toPresence → s.chan = none
  uRem : ∀ u, s.U = some u → u.pc = .toRemove → u.ctxSub = true
  cRem : ∀ u, s.C = some (.locked (some u)) → u.pc = .toRemove → u.ctxSub = true
  sPres : ∀ t, s.S = some t → t.pc = .toCommit → s.present = true
  p1 : ∀ g, s.chan = some (g, true) → s.present = true
  p2 : s.present = true → (∃ g, s.chan = some (g, true)) ∨ Pending s

theorem inv_init : Inv State.init := by
  constructor <;> simp [State.init, Pending]

theorem inv_sAdd {cfg : Cfg} {s s' : State} (hi : Inv s) (h : next cfg s .sAdd = some s') : Inv s' := by
  simp only [next] at h
  split at h
  · rename_i t hS
    split at h
    · rename_i hpc
      cases h
      obtain ⟨pc, gen⟩ := t
      simp only at hpc
      subst hpc
      obtain ⟨h1, h2, h3, h4, h5, h6, h7, h8, h9, h10, h11, h12, h13, h14, h15, h16⟩ := hi
      have hc := h2 _ hS (Or.inr (Or.inl rfl))
      constructor <;> simp_all [SThread.pre, Pending]
    · cases h
  · cases h




theorem inv_sSpawn {cfg : Cfg} {s s' : State} (hq : cfg.quietResub = true) (hi : Inv s)
    (h : next cfg s .sSpawn = some s') : Inv s' := by
  simp only [next, hq] at h
  split at h
  · rename_i hc
    simp only [Bool.not_true, Bool.false_or, Bool.and_eq_true, Option.isNone_iff_eq_none,
      Bool.not_eq_true'] at hc
    obtain ⟨⟨⟨hS, hC⟩, hcl⟩, hU, hT⟩ := hc
    cases h
    have hCn : s.C = none := by
      cases hcc : s.C with
      | none => rfl
      | some c => have := hi.cClosed c hcc; simp [hcl] at this
    have hp : s.present = false := by
      cases hpp : s.present with
      | false => rfl
      | true =>
        have := hi.p2 hpp
        simp [Pending, hS, hC, hU, hT, hCn] at this
    obtain ⟨h1, h2, h3, h4, h5, h6, h7, h8, h9, h10, h11, h12, h13, h14, h15, h16⟩ := hi
    constructor <;> simp_all [SThread.pre, Pending]
  · cases h

theorem inv_sFail {cfg : Cfg} {s s' : State} (hi : Inv s) (h : next cfg s .sFail = some s') : Inv s' := by
  simp only [next] at h
  split at h
  · rename_i t hS
    split at h
    · rename_i hpc
      cases h
      obtain ⟨pc, gen⟩ := t
      simp only at hpc
      subst hpc
      obtain ⟨h1, h2, h3, h4, h5, h6, h7, h8, h9, h10, h11, h12, h13, h14, h15, h16⟩ := hi
      have hc := h2 _ hS (Or.inl rfl)
      constructor <;> simp_all [SThread.pre, Pending]
    · cases h
  · cases h

theorem inv_sCheck {cfg : Cfg} {s s' : State} (hi : Inv s) (h : next cfg s .sCheck = some s') : Inv s' := by
  simp only [next] at h
  split at h
  · rename_i t hS
    split at h
    · rename_i hpc
      obtain ⟨pc, gen⟩ := t
      simp only at hpc
      subst hpc
      obtain ⟨h1, h2, h3, h4, h5, h6, h7, h8, h9, h10, h11, h12, h13, h14, h15, h16⟩ := hi
      have hc := h2 _ hS (Or.inl rfl)
      simp only [hc] at h
      split at h
      · cases h
        constructor <;> simp_all [SThread.pre, Pending]
      · cases h
        constructor <;> simp_all [SThread.pre, Pending]
    · cases h
  · cases h

theorem inv_sFailLate {cfg : Cfg} {s s' : State} (hi : Inv s) (h : next cfg s .sFailLate = some s') : Inv s' := by
  simp only [next] at h
  split at h
  · rename_i t hS
    split at h
    · rename_i hpc
      cases h
      obtain ⟨pc, gen⟩ := t
      simp only at hpc
      subst hpc
      obtain ⟨h1, h2, h3, h4, h5, h6, h7, h8, h9, h10, h11, h12, h13, h14, h15, h16⟩ := hi
      have hc := h2 _ hS (Or.inr (Or.inr rfl))
      constructor <;> simp_all [SThread.pre, Pending]
    · cases h
  · cases h

theorem inv_sCommit {cfg : Cfg} {s s' : State} (hi : Inv s) (h : next cfg s .sCommit = some s') : Inv s' := by
  simp only [next] at h
  split at h
  · rename_i t hS
    split at h
    · rename_i hpc
      obtain ⟨pc, gen⟩ := t
      simp only at hpc
      subst hpc
      obtain ⟨h1, h2, h3, h4, h5, h6, h7, h8, h9, h10, h11, h12, h13, h14, h15, h16⟩ := hi
      have hc := h2 _ hS (Or.inr (Or.inr rfl))
      have hp := h14 _ hS rfl
      simp only [hc, if_true] at h
      split at h
      · cases h
        constructor <;> simp_all [SThread.pre, Pending]
      · cases h
        constructor <;> simp_all [SThread.pre, Pending]
    · cases h
  · cases h

theorem inv_sRollback {cfg : Cfg} {s s' : State} (hi : Inv s) (h : next cfg s .sRollback = some s') : Inv s' := by
  simp only [next] at h
  split at h
  · rename_i t hS
    split at h
    · rename_i hpc
      cases h
      obtain ⟨pc, gen⟩ := t
      simp only at hpc
      subst hpc
      obtain ⟨h1, h2, h3, h4, h5, h6, h7, h8, h9, h10, h11, h12, h13, h14, h15, h16⟩ := hi
      have hc := h3 _ hS rfl
      constructor <;> simp_all [SThread.pre, Pending]
    · cases h
  · cases h



theorem inv_uSpawn {cfg : Cfg} {s s' : State} (hi : Inv s) (h : next cfg s .uSpawn = some s') : Inv s' := by
  simp only [next] at h
  split at h
  · rename_i hc
    simp only [Bool.and_eq_true, Option.isNone_iff_eq_none, Bool.not_eq_true'] at hc
    obtain ⟨hU, hcl⟩ := hc
    cases h
    obtain ⟨h1, h2, h3, h4, h5, h6, h7, h8, h9, h10, h11, h12, h13, h14, h15, h16⟩ := hi
    cases hch : s.chan with
    | none => constructor <;> simp_all [SThread.pre, Pending, unsubSnap]
    | some p =>
      obtain ⟨g, b⟩ := p
      cases b with
      | true =>
        have hSn : s.S = none := by
          cases hs : s.S with
          | none => rfl
          | some t =>
            obtain ⟨pc, gen⟩ := t
            cases pc
            · have := h2 _ hs (Or.inl rfl); simp [hch] at this
            · have := h2 _ hs (Or.inr (Or.inl rfl)); simp [hch] at this
            · have := h2 _ hs (Or.inr (Or.inr rfl)); simp [hch] at this
            · have := h3 _ hs rfl; simp [hch] at this
        constructor <;> simp_all [SThread.pre, Pending, unsubSnap]
      | false => constructor <;> simp_all [SThread.pre, Pending, unsubSnap]
  · cases h

theorem inv_uWake {cfg : Cfg} {s s' : State} (hi : Inv s) (h : next cfg s .uWake = some s') : Inv s' := by
  simp only [next] at h
  split at h
  · rename_i u hU
    split at h
    · rename_i hc
      simp only [Bool.and_eq_true, decide_eq_true_eq, Option.isNone_iff_eq_none] at hc
      obtain ⟨hpc, hS⟩ := hc
      cases h
      obtain ⟨h1, h2, h3, h4, h5, h6, h7, h8, h9, h10, h11, h12, h13, h14, h15, h16⟩ := hi
      cases hch : s.chan with
      | none => constructor <;> simp_all [SThread.pre, Pending, unsubWake]
      | some p =>
        obtain ⟨g, b⟩ := p
        cases b with
        | true => constructor <;> simp_all [SThread.pre, Pending, unsubWake]
        | false =>
          have := h1 g hch
          simp [hS] at this
    · cases h
  · cases h

theorem inv_uRemove {cfg : Cfg} {s s' : State} (hi : Inv s) (h : next cfg s .uRemove = some s') : Inv s' := by
  simp only [next] at h
  split at h
  · rename_i u hU
    split at h
    · rename_i hpc
      cases h
      obtain ⟨h1, h2, h3, h4, h5, h6, h7, h8, h9, h10, h11, h12, h13, h14, h15, h16⟩ := hi
      have hctx := h12 _ hU hpc
      have hSn : s.S = none := by
        cases hs : s.S with
        | none => rfl
        | some t => have := h4 t u hs hU; simp [hpc] at this
      cases hch : s.chan with
      | none => constructor <;> simp_all [SThread.pre, Pending, unsubRemove]
      | some p =>
        obtain ⟨g, b⟩ := p
        by_cases hg : g = u.target
        · constructor <;> simp_all [SThread.pre, Pending, unsubRemove]
        · constructor <;> simp_all [SThread.pre, Pending, unsubRemove]
    · cases h
  · cases h

theorem inv_uPresence {cfg : Cfg} {s s' : State} (hi : Inv s) (h : next cfg s .uPresence = some s') : Inv s' := by
  simp only [next] at h
  split at h
  · rename_i u hU
    split at h
    · rename_i hpc
      cases h
      obtain ⟨h1, h2, h3, h4, h5, h6, h7, h8, h9, h10, h11, h12, h13, h14, h15, h16⟩ := hi
      have hc := h10 _ hU hpc
      have hSn : s.S = none := by
        cases hs : s.S with
        | none => rfl
        | some t => have := h4 t u hs hU; simp [hpc] at this
      constructor <;> simp_all [SThread.pre, Pending]
    · cases h
  · cases h



theorem s_none_of_sub {s : State} (hi : Inv s) {g : Nat} (hch : s.chan = some (g, true)) : s.S = none := by
  cases hs : s.S with
  | none => rfl
  | some t =>
    obtain ⟨pc, gen⟩ := t
    cases pc
    · have := hi.sPre _ hs (Or.inl rfl); simp [hch] at this
    · have := hi.sPre _ hs (Or.inr (Or.inl rfl)); simp [hch] at this
    · have := hi.sPre _ hs (Or.inr (Or.inr rfl)); simp [hch] at this
    · have := hi.sRoll _ hs rfl; simp [hch] at this

theorem inv_cMark {cfg : Cfg} {s s' : State} (hi : Inv s) (h : next cfg s .cMark = some s') : Inv s' := by
  simp only [next] at h
  split at h
  · rename_i hc
    simp only [Bool.and_eq_true, Option.isNone_iff_eq_none, Bool.not_eq_true'] at hc
    cases h
    obtain ⟨h1, h2, h3, h4, h5, h6, h7, h8, h9, h10, h11, h12, h13, h14, h15, h16⟩ := hi
    constructor <;> simp_all [SThread.pre, Pending]
  · cases h

theorem inv_cLock {cfg : Cfg} {s s' : State} (hi : Inv s) (h : next cfg s .cLock = some s') : Inv s' := by
  simp only [next] at h
  split at h
  · rename_i had hC
    split at h
    · split at h
      · cases h
        obtain ⟨h1, h2, h3, h4, h5, h6, h7, h8, h9, h10, h11, h12, h13, h14, h15, h16⟩ := hi
        have := h9 _ hC
        constructor <;> simp_all [SThread.pre, Pending]
      · cases h
        obtain ⟨h1, h2, h3, h4, h5, h6, h7, h8, h9, h10, h11, h12, h13, h14, h15, h16⟩ := hi
        have := h9 _ hC
        constructor <;> simp_all [SThread.pre, Pending]
    · cases h
  · cases h

theorem inv_cSnap {cfg : Cfg} {s s' : State} (hi : Inv s) (h : next cfg s .cSnap = some s') : Inv s' := by
  simp only [next] at h
  split at h
  · rename_i hC
    have hcl := hi.cClosed _ hC
    cases hch : s.chan with
    | none =>
      simp only [unsubSnap, hch] at h
      cases h
      obtain ⟨h1, h2, h3, h4, h5, h6, h7, h8, h9, h10, h11, h12, h13, h14, h15, h16⟩ := hi
      constructor <;> simp_all [SThread.pre, Pending]
    | some p =>
      obtain ⟨g, b⟩ := p
      simp only [unsubSnap, hch] at h
      cases h
      cases b with
      | true =>
        have hSn := s_none_of_sub hi hch
        obtain ⟨h1, h2, h3, h4, h5, h6, h7, h8, h9, h10, h11, h12, h13, h14, h15, h16⟩ := hi
        constructor <;> simp_all [SThread.pre, Pending]
      | false =>
        obtain ⟨h1, h2, h3, h4, h5, h6, h7, h8, h9, h10, h11, h12, h13, h14, h15, h16⟩ := hi
        constructor <;> simp_all [SThread.pre, Pending]
  · cases h

theorem inv_cWake {cfg : Cfg} {s s' : State} (hi : Inv s) (h : next cfg s .cWake = some s') : Inv s' := by
  simp only [next] at h
  split at h
  · rename_i u hC
    have hcl := hi.cClosed _ hC
    split at h
    · rename_i hc
      simp only [Bool.and_eq_true, decide_eq_true_eq, Option.isNone_iff_eq_none] at hc
      obtain ⟨hpc, hS⟩ := hc
      cases hch : s.chan with
      | none =>
        simp only [unsubWake, hch] at h
        cases h
        obtain ⟨h1, h2, h3, h4, h5, h6, h7, h8, h9, h10, h11, h12, h13, h14, h15, h16⟩ := hi
        constructor <;> simp_all [SThread.pre, Pending]
      | some p =>
        obtain ⟨g, b⟩ := p
        simp only [unsubWake, hch] at h
        cases h
        cases b with
        | true =>
          obtain ⟨h1, h2, h3, h4, h5, h6, h7, h8, h9, h10, h11, h12, h13, h14, h15, h16⟩ := hi
          constructor <;> simp_all [SThread.pre, Pending]
        | false =>
          have := hi.res g hch
          simp [hS] at this
    · cases h
  · cases h

theorem inv_cRemove {cfg : Cfg} {s s' : State} (hi : Inv s) (h : next cfg s .cRemove = some s') : Inv s' := by
  simp only [next] at h
  split at h
  · rename_i u hC
    have hcl := hi.cClosed _ hC
    split at h
    · rename_i hpc
      have hctx := hi.cRem _ hC hpc
      have hSn : s.S = none := by
        cases hs : s.S with
        | none => rfl
        | some t => have := hi.sC t u hs hC; simp [hpc] at this
      cases hch : s.chan with
      | none =>
        simp only [unsubRemove, hch] at h
        cases h
        obtain ⟨h1, h2, h3, h4, h5, h6, h7, h8, h9, h10, h11, h12, h13, h14, h15, h16⟩ := hi
        constructor <;> simp_all [SThread.pre, Pending]
      | some p =>
        obtain ⟨g, b⟩ := p
        by_cases hg : g = u.target
        · simp only [unsubRemove, hch, hg, if_true, hctx] at h
          cases h
          obtain ⟨h1, h2, h3, h4, h5, h6, h7, h8, h9, h10, h11, h12, h13, h14, h15, h16⟩ := hi
          constructor <;> simp_all [SThread.pre, Pending]
        · simp only [unsubRemove, hch, hg, if_false] at h
          cases h
          obtain ⟨h1, h2, h3, h4, h5, h6, h7, h8, h9, h10, h11, h12, h13, h14, h15, h16⟩ := hi
          constructor <;> simp_all [SThread.pre, Pending]
    · cases h
  · cases h

theorem inv_cPresence {cfg : Cfg} {s s' : State} (hi : Inv s) (h : next cfg s .cPresence = some s') : Inv s' := by
  simp only [next] at h
  split at h
  · rename_i u hC
    have hcl := hi.cClosed _ hC
    split at h
    · rename_i hpc
      cases h
      have hc := hi.cPres _ hC hpc
      have hSn : s.S = none := by
        cases hs : s.S with
        | none => rfl
        | some t => have := hi.sC t u hs hC; simp [hpc] at this
      obtain ⟨h1, h2, h3, h4, h5, h6, h7, h8, h9, h10, h11, h12, h13, h14, h15, h16⟩ := hi
      constructor <;> simp_all [SThread.pre, Pending]
    · cases h
  · cases h



theorem inv_tStart {cfg : Cfg} {s s' : State} (hi : Inv s) (h : next cfg s .tStart = some s') : Inv s' := by
  simp only [next] at h
  split at h
  · rename_i hc
    simp only [Bool.and_eq_true, Option.isNone_iff_eq_none] at hc
    split at h
    · cases h; exact hi
    · cases h
      cases hch : s.chan with
      | none =>
        obtain ⟨h1, h2, h3, h4, h5, h6, h7, h8, h9, h10, h11, h12, h13, h14, h15, h16⟩ := hi
        constructor <;> simp_all [SThread.pre, Pending]
      | some p =>
        obtain ⟨g, b⟩ := p
        cases b with
        | true =>
          have hSn := s_none_of_sub hi hch
          obtain ⟨h1, h2, h3, h4, h5, h6, h7, h8, h9, h10, h11, h12, h13, h14, h15, h16⟩ := hi
          constructor <;> simp_all [SThread.pre, Pending]
        | false =>
          obtain ⟨h1, h2, h3, h4, h5, h6, h7, h8, h9, h10, h11, h12, h13, h14, h15, h16⟩ := hi
          constructor <;> simp_all [SThread.pre, Pending]
  · cases h

theorem inv_tCheck {cfg : Cfg} {s s' : State} (hi : Inv s) (h : next cfg s .tCheck = some s') : Inv s' := by
  simp only [next] at h
  split at h
  · rename_i t hT
    split at h
    · rename_i hpc
      obtain ⟨pc, item, added⟩ := t
      simp only at hpc
      subst hpc
      split at h
      · rename_i hc
        simp only [Bool.and_eq_true, Bool.not_eq_true', Option.isSome_iff_ne_none] at hc
        cases h
        obtain ⟨h1, h2, h3, h4, h5, h6, h7, h8, h9, h10, h11, h12, h13, h14, h15, h16⟩ := hi
        constructor <;> simp_all [SThread.pre, Pending]
      · cases h
        obtain ⟨h1, h2, h3, h4, h5, h6, h7, h8, h9, h10, h11, h12, h13, h14, h15, h16⟩ := hi
        constructor <;> (try (simp_all [SThread.pre, Pending]; done))
        intro hp
        have h := h16 hp
        simp only [Pending, hT] at h ⊢
        rcases h with h | h | h | h | h
        · exact Or.inl h
        · exact Or.inr (Or.inl h)
        · exact Or.inr (Or.inr (Or.inl h))
        · exact Or.inr (Or.inr (Or.inr (Or.inl h)))
        · simp at h
    · cases h
  · cases h

theorem inv_tAdd {cfg : Cfg} {s s' : State} (hi : Inv s) (h : next cfg s .tAdd = some s') : Inv s' := by
  simp only [next] at h
  split at h
  · rename_i t hT
    split at h
    · rename_i hpc
      obtain ⟨pc, item, added⟩ := t
      simp only at hpc
      subst hpc
      cases h
      have hitem := hi.tAdd _ hT (Or.inl rfl)
      have hSn := hi.sT _ hT hitem
      obtain ⟨h1, h2, h3, h4, h5, h6, h7, h8, h9, h10, h11, h12, h13, h14, h15, h16⟩ := hi
      constructor <;> simp_all [SThread.pre, Pending]
    · cases h
  · cases h

theorem inv_tCompensate {cfg : Cfg} {s s' : State} (hi : Inv s) (h : next cfg s .tCompensate = some s') : Inv s' := by
  simp only [next] at h
  split at h
  · rename_i t hT
    split at h
    · rename_i hpc
      obtain ⟨pc, item, added⟩ := t
      simp only at hpc
      subst hpc
      split at h
      · rename_i hc
        simp only [Bool.and_eq_true, Option.isNone_iff_eq_none] at hc
        cases h
        have hitem := hi.tAdd _ hT (Or.inr (Or.inr hc.1))
        obtain ⟨h1, h2, h3, h4, h5, h6, h7, h8, h9, h10, h11, h12, h13, h14, h15, h16⟩ := hi
        constructor <;> simp_all [SThread.pre, Pending]
      · rename_i hc
        cases h
        cases added with
        | false =>
          obtain ⟨h1, h2, h3, h4, h5, h6, h7, h8, h9, h10, h11, h12, h13, h14, h15, h16⟩ := hi
          constructor <;> simp_all [SThread.pre, Pending]
        | true =>
          have hitem := hi.tAdd _ hT (Or.inr (Or.inr rfl))
          have hSn := hi.sT _ hT hitem
          cases hch : s.chan with
          | none => simp [hch] at hc
          | some p =>
            obtain ⟨g, b⟩ := p
            cases b with
            | true =>
              obtain ⟨h1, h2, h3, h4, h5, h6, h7, h8, h9, h10, h11, h12, h13, h14, h15, h16⟩ := hi
              constructor <;> simp_all [SThread.pre, Pending]
            | false =>
              have := hi.res g hch
              simp [hSn] at this
    · cases h
  · cases h

theorem inv_tRemove {cfg : Cfg} {s s' : State} (hi : Inv s) (h : next cfg s .tRemove = some s') : Inv s' := by
  simp only [next] at h
  split at h
  · rename_i t hT
    split at h
    · rename_i hpc
      obtain ⟨pc, item, added⟩ := t
      simp only at hpc
      subst hpc
      cases h
      have hr := hi.tRem _ hT rfl
      have hitem := hi.tAdd _ hT (Or.inr (Or.inl rfl))
      have hSn := hi.sT _ hT hitem
      obtain ⟨h1, h2, h3, h4, h5, h6, h7, h8, h9, h10, h11, h12, h13, h14, h15, h16⟩ := hi
      constructor <;> simp_all [SThread.pre, Pending]
    · cases h
  · cases h

theorem inv_next {cfg : Cfg} {s s' : State} (hq : cfg.quietResub = true) (hi : Inv s) (l : Label)
    (h : next cfg s l = some s') : Inv s' := by
  cases l with
  | sSpawn => exact inv_sSpawn hq hi h
  | sFail => exact inv_sFail hi h
  | sCheck => exact inv_sCheck hi h
  | sAdd => exact inv_sAdd hi h
  | sFailLate => exact inv_sFailLate hi h
  | sCommit => exact inv_sCommit hi h
  | sRollback => exact inv_sRollback hi h
  | uSpawn => exact inv_uSpawn hi h
  | uWake => exact inv_uWake hi h
  | uRemove => exact inv_uRemove hi h
  | uPresence => exact inv_uPresence hi h
  | cMark => exact inv_cMark hi h
  | cLock => exact inv_cLock hi h
  | cSnap => exact inv_cSnap hi h
  | cWake => exact inv_cWake hi h
  | cRemove => exact inv_cRemove hi h
  | cPresence => exact inv_cPresence hi h
  | tStart => exact inv_tStart hi h
  | tCheck => exact inv_tCheck hi h
  | tAdd => exact inv_tAdd hi h
  | tCompensate => exact inv_tCompensate hi h
  | tRemove => exact inv_tRemove hi h

theorem inv_run {cfg : Cfg} (hq : cfg.quietResub = true) (ls : List Label) {s s' : State} (hi : Inv s)
    (h : run cfg s ls = some s') : Inv s' := by
  induction ls generalizing s with
  | nil => simp [run] at h; subst h; exact hi
  | cons l r ih =>
    simp only [run] at h
    cases hn : next cfg s l with
    | none => simp [hn] at h
    | some s1 =>
      simp only [hn, Option.bind_some] at h
      exact ih (inv_next hq hi l hn) h

theorem inv_reachable {cfg : Cfg} (hq : cfg.quietResub = true) {s : State} (hr : Reachable cfg s) : Inv s := by
  obtain ⟨ls, h⟩ := hr
  exact inv_run hq ls inv_init h

end CentrifugeVerif.PresenceProto
