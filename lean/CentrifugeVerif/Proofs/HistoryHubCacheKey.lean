import CentrifugeVerif.Model.HistoryHub
/-!
`resultCacheKey(ch, key) = Itoa(len(ch)) + "_" + ch + "_" + key` is injective: two (channel, key)
pairs never share a result-cache entry.
-/
namespace CentrifugeVerif.HistoryHub

/-- splitting at the first separator is unique -/
theorem split_first_sep {α : Type} (x : α) :
    ∀ (a a' b b' : List α), x ∉ a → x ∉ a' → a ++ x :: b = a' ++ x :: b' → a = a' ∧ b = b'
  | [], [], b, b', _, _, h => by simp at h; exact ⟨rfl, h⟩
  | [], y :: a', b, b', _, h2, h => by
    simp at h; exact absurd h.1 (by intro e; apply h2; simp [e])
  | y :: a, [], b, b', h1, _, h => by
    simp at h; exact absurd h.1.symm (by intro e; apply h1; simp [e])
  | y :: a, z :: a', b, b', h1, h2, h => by
    simp at h
    obtain ⟨hyz, ht⟩ := h
    have := split_first_sep x a a' b b' (by intro e; apply h1; simp [e]) (by intro e; apply h2; simp [e]) ht
    exact ⟨by rw [hyz, this.1], this.2⟩

/-- two strings of equal byte length that are prefixes of the same text are equal -/
theorem prefix_same_size (c1 c2 : String) (r1 r2 : List Char)
    (h : c1.toList ++ r1 = c2.toList ++ r2) (hs : c1.utf8ByteSize = c2.utf8ByteSize) :
    c1 = c2 ∧ r1 = r2 := by
  rcases List.append_eq_append_iff.mp h with ⟨e, he, hr⟩ | ⟨e, he, hr⟩
  · have : c2 = c1 ++ String.ofList e := by
      apply String.ext; rw [String.toList_append, String.toList_ofList]; exact he
    rw [this, String.utf8ByteSize_append] at hs
    have h0 : (String.ofList e).utf8ByteSize = 0 := by omega
    have := String.utf8ByteSize_eq_zero_iff.mp h0
    have he0 : e = [] := by
      have := congrArg String.toList this
      simpa [String.toList_ofList] using this
    subst he0
    simp at he hr
    exact ⟨(String.ext he).symm, hr⟩
  · have : c1 = c2 ++ String.ofList e := by
      apply String.ext; rw [String.toList_append, String.toList_ofList]; exact he
    rw [this, String.utf8ByteSize_append] at hs
    have h0 : (String.ofList e).utf8ByteSize = 0 := by omega
    have := String.utf8ByteSize_eq_zero_iff.mp h0
    have he0 : e = [] := by
      have := congrArg String.toList this
      simpa [String.toList_ofList] using this
    subst he0
    simp at he hr
    exact ⟨String.ext he, hr.symm⟩

theorem toDigits_injective {m n : Nat} (h : Nat.toDigits 10 m = Nat.toDigits 10 n) : m = n := by
  have h1 := Nat.ofDigitChars_toDigits (b := 10) (n := m) (by omega) (by omega)
  have h2 := Nat.ofDigitChars_toDigits (b := 10) (n := n) (by omega) (by omega)
  rw [h] at h1; omega

theorem cacheKey_toList (ch key : String) :
    (cacheKey ch key).toList = Nat.toDigits 10 ch.utf8ByteSize ++ '_' :: (ch.toList ++ '_' :: key.toList) := by
  unfold cacheKey
  simp only [String.toList_append]
  have : (toString ch.utf8ByteSize).toList = Nat.toDigits 10 ch.utf8ByteSize := Nat.toList_repr
  rw [this]
  have hu : ("_" : String).toList = ['_'] := by decide
  rw [hu]
  simp

/-- **the result-cache key is injective** in (channel, idempotency key) -/
theorem cacheKey_injective (ch key ch' key' : String) (h : cacheKey ch key = cacheKey ch' key') :
    ch = ch' ∧ key = key' := by
  have hl := congrArg String.toList h
  rw [cacheKey_toList, cacheKey_toList] at hl
  obtain ⟨hd, hrest⟩ := split_first_sep '_' _ _ _ _ Nat.underscore_not_in_toDigits
    Nat.underscore_not_in_toDigits hl
  have hsize := toDigits_injective hd
  obtain ⟨hch, hk⟩ := prefix_same_size ch ch' _ _ hrest hsize
  refine ⟨hch, ?_⟩
  simp at hk
  exact String.ext hk

end CentrifugeVerif.HistoryHub
