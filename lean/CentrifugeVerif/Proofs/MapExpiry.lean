import CentrifugeVerif.Model.MapExpiry
import CentrifugeVerif.Proofs.MapHubAssoc
/-!
Helper lemmas for `Props/C24.lean`: the branches of `phase2`, `popMin`, the phase-1 loop, and the effect of
`add` / `remove` / `clear` on the TTL bookkeeping.
-/
namespace CentrifugeVerif.MapExpiry
open CentrifugeVerif.MapHub

/-! ### `stateOf` -/

theorem stateOf_eq_some_iff {h : Hub} {ch : Nat} {key : Key} {e : Entry} :
    stateOf h ch key = some e ↔ ∃ c, aget h.chans ch = some c ∧ aget c.state key = some e := by
  unfold stateOf
  cases aget h.chans ch <;> simp

theorem stateOf_eq_none_iff {h : Hub} {ch : Nat} {key : Key} :
    stateOf h ch key = none ↔ ∀ c, aget h.chans ch = some c → aget c.state key = none := by
  unfold stateOf
  cases aget h.chans ch <;> simp

theorem stateOf_of_chan {h : Hub} {ch : Nat} {c : Chan} (hc : aget h.chans ch = some c) (key : Key) :
    stateOf h ch key = aget c.state key := by
  simp [stateOf, hc]

theorem stateOf_congr {h h' : Hub} (hc : h'.chans = h.chans) (ch : Nat) (key : Key) :
    stateOf h' ch key = stateOf h ch key := by
  simp [stateOf, hc]

theorem stateOf_setChan (h : Hub) (ch : Nat) (c : Chan) (ch' : Nat) (key : Key) :
    stateOf (h.setChan ch c) ch' key = if ch' = ch then aget c.state key else stateOf h ch' key := by
  simp only [stateOf, Hub.setChan, aget_aset]
  split <;> simp

/-! ### the branches of `phase2` -/

/-- the removal publication built by phase 2 -/
def rmPub (ev : ExpEvent) (now2 : Nat) : Pub :=
  { key := ev.key, data := 0, tag := ev.tag, score := 0, offset := 0, removed := true, time := now2 }

/-- the channel after phase 2 deleted the key (stream not yet appended) -/
def rmChan (c : Chan) (key : Key) : Chan :=
  { c with state := adel c.state key, scores := if c.ordered then adel c.scores key else c.scores }

theorem phase2_noop_chan {h : Hub} {now1 now2 : Nat} {ev : ExpEvent}
    (hc : aget h.chans ev.ch = none) : phase2 h now1 now2 ev = (h, []) := by
  unfold phase2; simp [hc]

theorem phase2_noop_key {h : Hub} {now1 now2 : Nat} {ev : ExpEvent} {c : Chan}
    (hc : aget h.chans ev.ch = some c) (he : aget c.state ev.key = none) :
    phase2 h now1 now2 ev = (h, []) := by
  unfold phase2; simp [hc, he]

theorem phase2_remove_stream {h : Hub} {now1 now2 : Nat} {ev : ExpEvent} {c : Chan} {e : Entry}
    (hc : aget h.chans ev.ch = some c) (he : aget c.state ev.key = some e)
    (hd : e.expireAt = ev.expireAt) (hs : 0 < ev.streamSize) :
    phase2 h now1 now2 ev =
      (({ h with keyExpires := adel h.keyExpires (ev.ch, ev.key) } : Hub).setChan ev.ch
          { rmChan c ev.key with stream := (c.stream.add (rmPub ev now2) ev.streamSize).1 },
       [⟨ev.ch, (c.stream.add (rmPub ev now2) ev.streamSize).2,
         ⟨(c.stream.add (rmPub ev now2) ev.streamSize).2.offset, c.stream.epoch⟩, false, none⟩]) := by
  unfold phase2; simp [hc, he, hd, hs, rmPub, rmChan]

theorem phase2_remove_nostream {h : Hub} {now1 now2 : Nat} {ev : ExpEvent} {c : Chan} {e : Entry}
    (hc : aget h.chans ev.ch = some c) (he : aget c.state ev.key = some e)
    (hd : e.expireAt = ev.expireAt) (hs : ev.streamSize = 0) :
    phase2 h now1 now2 ev =
      (({ h with keyExpires := adel h.keyExpires (ev.ch, ev.key) } : Hub).setChan ev.ch (rmChan c ev.key),
       [⟨ev.ch, rmPub ev now2, c.stream.pos, false, none⟩]) := by
  unfold phase2; simp [hc, he, hd, hs, rmPub, rmChan]

theorem phase2_requeue {h : Hub} {now1 now2 : Nat} {ev : ExpEvent} {c : Chan} {e : Entry}
    (hc : aget h.chans ev.ch = some c) (he : aget c.state ev.key = some e)
    (hd : e.expireAt ≠ ev.expireAt) (hn : now1 < e.expireAt) :
    phase2 h now1 now2 ev =
      ({ h with keyExpires := aset h.keyExpires (ev.ch, ev.key) e.expireAt,
                queue := h.queue ++ [((ev.ch, ev.key), e.expireAt)],
                nextKeyCheck := if h.nextKeyCheck = 0 ∨ e.expireAt < h.nextKeyCheck then e.expireAt
                                else h.nextKeyCheck }, []) := by
  unfold phase2; simp [hc, he, hd, hn]

theorem phase2_stale {h : Hub} {now1 now2 : Nat} {ev : ExpEvent} {c : Chan} {e : Entry}
    (hc : aget h.chans ev.ch = some c) (he : aget c.state ev.key = some e)
    (hd : e.expireAt ≠ ev.expireAt) (hn : e.expireAt ≤ now1) :
    phase2 h now1 now2 ev = (h, []) := by
  unfold phase2
  have : ¬ now1 < e.expireAt := by omega
  simp [hc, he, hd, this]

/-- absent channel or key: phase 2 does nothing -/
theorem phase2_noop {h : Hub} {now1 now2 : Nat} {ev : ExpEvent}
    (hn : stateOf h ev.ch ev.key = none) : phase2 h now1 now2 ev = (h, []) := by
  cases hc : aget h.chans ev.ch with
  | none => exact phase2_noop_chan hc
  | some c => exact phase2_noop_key hc (stateOf_eq_none_iff.mp hn c hc)

/-! ### `popMin` -/

theorem popMin_none {q : List (ChKey × Nat)} (h : popMin q = none) : q = [] := by
  cases q with
  | nil => rfl
  | cons x t =>
    unfold popMin at h
    split at h
    · simp at h
    · split at h <;> simp at h

theorem popMin_some {q : List (ChKey × Nat)} {m : ChKey × Nat} {r : List (ChKey × Nat)}
    (h : popMin q = some (m, r)) :
    m ∈ q ∧ (∀ x ∈ q, m.2 ≤ x.2) ∧ (∀ x, x ∈ q ↔ x = m ∨ x ∈ r) ∧ q.length = r.length + 1 := by
  induction q generalizing m r with
  | nil => simp [popMin] at h
  | cons x t ih =>
    unfold popMin at h
    split at h
    · rename_i hn
      have ht := popMin_none hn
      subst ht
      simp at h
      obtain ⟨h1, h2⟩ := h
      subst h1; subst h2
      simp
    · rename_i m' r' hs
      have ih' := ih hs
      split at h
      · rename_i hle
        simp at h
        obtain ⟨h1, h2⟩ := h
        subst h1; subst h2
        refine ⟨by simp, ?_, ?_, by simp⟩
        · intro y hy
          rcases List.mem_cons.mp hy with hy | hy
          · subst hy; exact Nat.le_refl _
          · exact Nat.le_trans hle (ih'.2.1 y hy)
        · intro y; simp
      · rename_i hle
        simp at h
        obtain ⟨h1, h2⟩ := h
        subst h1; subst h2
        refine ⟨List.mem_cons_of_mem _ ih'.1, ?_, ?_, by simp [ih'.2.2.2]⟩
        · intro y hy
          rcases List.mem_cons.mp hy with hy | hy
          · subst hy; omega
          · exact ih'.2.1 y hy
        · intro y
          simp only [List.mem_cons, ih'.2.2.1 y]
          constructor
          · rintro (h1 | h1 | h1)
            · exact Or.inr (Or.inl h1)
            · exact Or.inl h1
            · exact Or.inr (Or.inr h1)
          · rintro (h1 | h1 | h1)
            · exact Or.inr (Or.inl h1)
            · exact Or.inl h1
            · exact Or.inr (Or.inr h1)

/-! ### membership in `aset` / `adel` -/

theorem mem_aset {κ ν : Type} [DecidableEq κ] {l : List (κ × ν)} {k : κ} {v : ν} {x : κ × ν}
    (h : x ∈ aset l k v) : x ∈ l ∨ x = (k, v) := by
  induction l with
  | nil => simp [aset] at h; exact Or.inr h
  | cons y t ih =>
    obtain ⟨k', v'⟩ := y
    by_cases hk : k' = k
    · simp only [aset, hk, if_true, List.mem_cons] at h
      rcases h with h | h
      · exact Or.inr h
      · exact Or.inl (List.mem_cons_of_mem _ h)
    · simp only [aset, hk, if_false, List.mem_cons] at h
      rcases h with h | h
      · exact Or.inl (by simp [h])
      · rcases ih h with h | h
        · exact Or.inl (List.mem_cons_of_mem _ h)
        · exact Or.inr h

theorem mem_adel {κ ν : Type} [DecidableEq κ] {l : List (κ × ν)} {k : κ} {x : κ × ν}
    (h : x ∈ adel l k) : x ∈ l := by
  induction l with
  | nil => simp [adel] at h
  | cons y t ih =>
    obtain ⟨k', v'⟩ := y
    by_cases hk : k' = k
    · simp only [adel, hk, if_true] at h
      exact List.mem_cons_of_mem _ (ih h)
    · simp only [adel, hk, if_false, List.mem_cons] at h
      rcases h with h | h
      · simp [h]
      · exact List.mem_cons_of_mem _ (ih h)

/-! ### the invariant on the hub -/

/-- a heap item for `(ch, key)` with priority ≤ `d` -/
def QW (q : List (ChKey × Nat)) (ch : Nat) (key : Key) (d : Nat) : Prop := ∃ p, ((ch, key), p) ∈ q ∧ p ≤ d

/-- a pending event for `(ch, key)` with deadline exactly `d` -/
def EW (pend : List ExpEvent) (ch : Nat) (key : Key) (d : Nat) : Prop :=
  ∃ ev ∈ pend, ev.ch = ch ∧ ev.key = key ∧ ev.expireAt = d

def AInv (h : Hub) (pend : List ExpEvent) : Prop :=
  ∀ ch key e, stateOf h ch key = some e → 0 < e.expireAt →
    aget h.keyExpires (ch, key) = some e.expireAt ∧ (QW h.queue ch key e.expireAt ∨ EW pend ch key e.expireAt)

def QInvR (q : List (ChKey × Nat)) (n : Nat) : Prop := (q ≠ [] → n ≠ 0) ∧ ∀ it ∈ q, n ≤ it.2

def QInv (h : Hub) : Prop := QInvR h.queue h.nextKeyCheck

def KInv (h : Hub) : Prop := ∀ it ∈ h.keyExpires, 0 < it.2

def EInv (h : Hub) : Prop := ∀ ch, stateOf h ch [] = none

structure HInv (h : Hub) (pend : List ExpEvent) : Prop where
  a : AInv h pend
  q : QInv h
  k : KInv h
  e : EInv h

theorem hinv_iff (s : Sys) : HInv s.hub s.pending ↔ ExpInv s ∧ ExpAux s := by
  constructor
  · intro hi
    refine ⟨⟨?_, hi.q.1, hi.q.2⟩, hi.k, ?_⟩
    · intro ch c key e hc he hd
      exact hi.a ch key e (stateOf_eq_some_iff.mpr ⟨c, hc, he⟩) hd
    · intro ch c hc
      exact stateOf_eq_none_iff.mp (hi.e ch) c hc
  · rintro ⟨⟨h1, h2, h3⟩, h4, h5⟩
    refine ⟨?_, ⟨h2, h3⟩, h4, ?_⟩
    · intro ch key e hs hd
      obtain ⟨c, hc, he⟩ := stateOf_eq_some_iff.mp hs
      exact h1 ch c key e hc he hd
    · intro ch
      exact stateOf_eq_none_iff.mpr (h5 ch)

theorem qinvR_push {q : List (ChKey × Nat)} {n : Nat} (hq : QInvR q n) (ck : ChKey) {d : Nat} (hd : 0 < d) :
    QInvR (q ++ [(ck, d)]) (if n = 0 ∨ d < n then d else n) := by
  obtain ⟨h1, h2⟩ := hq
  constructor
  · intro _
    split <;> omega
  · intro it hit
    rcases List.mem_append.mp hit with hit | hit
    · have := h2 it hit
      have hne : q ≠ [] := by intro h; subst h; simp at hit
      have := h1 hne
      split <;> omega
    · simp at hit
      subst hit
      split <;> simp <;> omega

theorem kinv_aset {l : List (ChKey × Nat)} (hl : ∀ it ∈ l, 0 < it.2) (ck : ChKey) {d : Nat} (hd : 0 < d) :
    ∀ it ∈ aset l ck d, 0 < it.2 := by
  intro it hit
  rcases mem_aset hit with h | h
  · exact hl it h
  · subst h; exact hd

theorem kinv_adel {l : List (ChKey × Nat)} (hl : ∀ it ∈ l, 0 < it.2) (ck : ChKey) :
    ∀ it ∈ adel l ck, 0 < it.2 := fun it hit => hl it (mem_adel hit)

/-- the master lemma: only the bookkeeping of one `(channel, key)` pair `ck` is touched. -/
theorem ainv_transfer {h h' : Hub} {pend pend' : List ExpEvent} (ck : ChKey) (hA : AInv h pend)
    (hst : ∀ ch key, (ch, key) ≠ ck → stateOf h' ch key = stateOf h ch key)
    (hke : ∀ ck', ck' ≠ ck → aget h'.keyExpires ck' = aget h.keyExpires ck')
    (hq : ∀ it ∈ h.queue, it.1 ≠ ck → it ∈ h'.queue)
    (hp : ∀ ev ∈ pend, (ev.ch, ev.key) ≠ ck → ev ∈ pend')
    (hck : ∀ e, stateOf h' ck.1 ck.2 = some e → 0 < e.expireAt →
      aget h'.keyExpires ck = some e.expireAt ∧
        (QW h'.queue ck.1 ck.2 e.expireAt ∨ EW pend' ck.1 ck.2 e.expireAt)) :
    AInv h' pend' := by
  intro ch key e hs hd
  by_cases hc : (ch, key) = ck
  · subst hc; exact hck e hs hd
  · rw [hst ch key hc] at hs
    obtain ⟨h1, h2⟩ := hA ch key e hs hd
    refine ⟨by rw [hke _ hc]; exact h1, ?_⟩
    rcases h2 with ⟨p, hp1, hp2⟩ | ⟨ev, hev, h3, h4, h5⟩
    · exact Or.inl ⟨p, hq _ hp1 hc, hp2⟩
    · refine Or.inr ⟨ev, hp ev hev ?_, h3, h4, h5⟩
      rw [h3, h4]; exact hc

/-! ### the phase-1 loop -/

/-- what the phase-1 loop guarantees about its result `(h1, next, evs1)` when started on `(h, evs)`. -/
structure LoopPost (now : Nat) (h : Hub) (evs : List ExpEvent) (h1 : Hub) (next : Nat)
    (evs1 : List ExpEvent) : Prop where
  a : AInv h1 evs1
  k : KInv h1
  chans : h1.chans = h.chans
  nz : h1.queue ≠ [] → next ≠ 0
  lb : ∀ it ∈ h1.queue, next ≤ it.2
  fut : ∀ it ∈ h1.queue, now < it.2
  col : ∀ ev ∈ evs1, ev ∈ evs ∨
    (ev.expireAt ≤ now ∧ ∃ e, stateOf h ev.ch ev.key = some e ∧ e.expireAt = ev.expireAt)

theorem LoopPost.of_step {now : Nat} {h : Hub} {evs : List ExpEvent} {h2 : Hub} {evs2 : List ExpEvent}
    {h1 : Hub} {next : Nat} {evs1 : List ExpEvent} (hc : h2.chans = h.chans)
    (hcol : ∀ ev ∈ evs2, ev ∈ evs ∨
      (ev.expireAt ≤ now ∧ ∃ e, stateOf h ev.ch ev.key = some e ∧ e.expireAt = ev.expireAt))
    (P : LoopPost now h2 evs2 h1 next evs1) : LoopPost now h evs h1 next evs1 where
  a := P.a
  k := P.k
  chans := P.chans.trans hc
  nz := P.nz
  lb := P.lb
  fut := P.fut
  col := by
    intro ev hev
    rcases P.col ev hev with h3 | ⟨h3, e, h4, h5⟩
    · exact hcol ev h3
    · exact Or.inr ⟨h3, e, by rw [← stateOf_congr hc]; exact h4, h5⟩

theorem einv_congr {h h' : Hub} (hc : h'.chans = h.chans) (hE : EInv h) : EInv h' := by
  intro ch; rw [stateOf_congr hc]; exact hE ch

theorem qw_pop {q : List (ChKey × Nat)} {m : ChKey × Nat} {r : List (ChKey × Nat)} {ch : Nat} {key : Key}
    {d : Nat} (hp : popMin q = some (m, r)) (hw : QW q ch key d) :
    (m.1 = (ch, key) ∧ m.2 ≤ d) ∨ QW r ch key d := by
  obtain ⟨p, h1, h2⟩ := hw
  rcases ((popMin_some hp).2.2.1 _).mp h1 with h3 | h3
  · left; rw [← h3]; exact ⟨rfl, h2⟩
  · exact Or.inr ⟨p, h3, h2⟩

theorem qw_mono {q q' : List (ChKey × Nat)} {ch : Nat} {key : Key} {d : Nat} (hs : ∀ it ∈ q, it ∈ q')
    (hw : QW q ch key d) : QW q' ch key d := by
  obtain ⟨p, h1, h2⟩ := hw
  exact ⟨p, hs _ h1, h2⟩

theorem ew_mono {l l' : List ExpEvent} {ch : Nat} {key : Key} {d : Nat} (hs : ∀ ev ∈ l, ev ∈ l')
    (hw : EW l ch key d) : EW l' ch key d := by
  obtain ⟨ev, h1, h2⟩ := hw
  exact ⟨ev, hs _ h1, h2⟩

/-- one iteration of the loop that popped `((ch, key), p)`. -/
theorem loop_step_ainv {h : Hub} {evs : List ExpEvent} {ch : Nat} {key : Key} {p : Nat}
    {rest : List (ChKey × Nat)} (hp : popMin h.queue = some (((ch, key), p), rest)) (hA : AInv h evs)
    {h2 : Hub} {evs2 : List ExpEvent} (hc : h2.chans = h.chans)
    (hke : ∀ ck', ck' ≠ (ch, key) → aget h2.keyExpires ck' = aget h.keyExpires ck')
    (hq : ∀ it ∈ rest, it ∈ h2.queue)
    (hev : ∀ ev ∈ evs, ev ∈ evs2)
    (hck : ∀ e, stateOf h ch key = some e → 0 < e.expireAt →
      aget h2.keyExpires (ch, key) = some e.expireAt ∧
        (QW h2.queue ch key e.expireAt ∨ EW evs2 ch key e.expireAt)) : AInv h2 evs2 := by
  refine ainv_transfer (ch, key) hA (fun c k _ => stateOf_congr hc c k) hke ?_ (fun ev h _ => hev ev h) ?_
  · intro it hit hne
    rcases ((popMin_some hp).2.2.1 it).mp hit with h3 | h3
    · exact absurd (by rw [h3]) hne
    · exact hq it h3
  · intro e hs hd
    rw [stateOf_congr hc] at hs
    exact hck e hs hd

theorem phase1Loop_post (cfg : Nat → RawCfg) (now : Nat) :
    ∀ (fuel : Nat) (h : Hub) (evs : List ExpEvent) (h1 : Hub) (next : Nat) (evs1 : List ExpEvent),
      phase1Loop cfg now fuel h evs = some (h1, next, evs1) → AInv h evs → KInv h → EInv h →
      LoopPost now h evs h1 next evs1 := by
  intro fuel
  induction fuel with
  | zero => intro h evs h1 next evs1 hl; simp [phase1Loop] at hl
  | succ n ih =>
    intro h evs h1 next evs1 hl hA hK hE
    simp only [phase1Loop] at hl
    cases hp : popMin h.queue with
    | none =>
      simp only [hp] at hl
      have hq := popMin_none hp
      simp only [Option.some.injEq, Prod.mk.injEq] at hl
      obtain ⟨rfl, rfl, rfl⟩ := hl
      exact ⟨hA, hK, rfl, fun hne => absurd hq hne, by simp [hq], by simp [hq], fun ev hev => Or.inl hev⟩
    | some mr =>
      obtain ⟨⟨⟨ch, key⟩, p⟩, rest⟩ := mr
      simp only [hp] at hl
      have hpm := popMin_some hp
      split at hl
      · -- the minimal deadline is in the future: break
        rename_i hpn
        simp only [Option.some.injEq, Prod.mk.injEq] at hl
        obtain ⟨rfl, rfl, rfl⟩ := hl
        refine ⟨hA, hK, rfl, fun _ => by omega, fun it hit => hpm.2.1 it hit, ?_, fun ev hev => Or.inl hev⟩
        intro it hit
        have := hpm.2.1 it hit
        simp at this
        omega
      · rename_i hpn
        have hpn : p ≤ now := by omega
        -- facts about the entry of `(ch, key)` from the invariant
        have hent : ∀ e, stateOf h ch key = some e → 0 < e.expireAt →
            aget h.keyExpires (ch, key) = some e.expireAt ∧
              ((p ≤ e.expireAt) ∨ QW rest ch key e.expireAt ∨ EW evs ch key e.expireAt) := by
          intro e hs hd
          obtain ⟨h3, h4⟩ := hA ch key e hs hd
          refine ⟨h3, ?_⟩
          rcases h4 with h4 | h4
          · rcases qw_pop hp h4 with h5 | h5
            · exact Or.inl h5.2
            · exact Or.inr (Or.inl h5)
          · exact Or.inr (Or.inr h4)
        split at hl
        · -- no recorded deadline: drop the item
          rename_i hke
          refine LoopPost.of_step (h2 := { h with queue := rest }) rfl (fun ev hev => Or.inl hev)
            (ih _ _ _ _ _ hl ?_ hK (einv_congr rfl hE))
          refine loop_step_ainv hp hA rfl (fun _ _ => rfl) (fun it hit => hit) (fun ev hev => hev) ?_
          intro e hs hd
          have := (hent e hs hd).1
          rw [hke] at this; cases this
        · rename_i stored hke
          split at hl
          · -- the recorded deadline is later: re-queue with it
            rename_i hst
            refine LoopPost.of_step (h2 := { h with queue := rest ++ [((ch, key), stored)] }) rfl
              (fun ev hev => Or.inl hev) (ih _ _ _ _ _ hl ?_ hK (einv_congr rfl hE))
            refine loop_step_ainv hp hA rfl (fun _ _ => rfl) (fun it hit => by simp [hit])
              (fun ev hev => hev) ?_
            intro e hs hd
            have h3 := (hent e hs hd).1
            rw [hke] at h3
            simp only [Option.some.injEq] at h3
            refine ⟨by rw [hke, h3], Or.inl ⟨stored, by simp, by omega⟩⟩
          · rename_i hst
            split at hl
            · -- empty key: forget the deadline
              rename_i hk
              refine LoopPost.of_step (h2 := { h with keyExpires := adel h.keyExpires (ch, key), queue := rest })
                rfl (fun ev hev => Or.inl hev) (ih _ _ _ _ _ hl ?_ (kinv_adel hK _) (einv_congr rfl hE))
              refine loop_step_ainv hp hA rfl (fun ck' hne => aget_adel_ne _ _ _ hne) (fun it hit => hit)
                (fun ev hev => hev) ?_
              intro e hs hd
              rw [hk, hE ch] at hs; cases hs
            · rename_i hk
              split at hl
              · -- no such channel
                rename_i hch
                refine LoopPost.of_step (h2 := { h with keyExpires := adel h.keyExpires (ch, key), queue := rest })
                  rfl (fun ev hev => Or.inl hev) (ih _ _ _ _ _ hl ?_ (kinv_adel hK _) (einv_congr rfl hE))
                refine loop_step_ainv hp hA rfl (fun ck' hne => aget_adel_ne _ _ _ hne) (fun it hit => hit)
                  (fun ev hev => hev) ?_
                intro e hs hd
                simp [stateOf, hch] at hs
              · rename_i c hch
                split at hl
                · -- no such key
                  rename_i hkey
                  refine LoopPost.of_step
                    (h2 := { h with keyExpires := adel h.keyExpires (ch, key), queue := rest })
                    rfl (fun ev hev => Or.inl hev) (ih _ _ _ _ _ hl ?_ (kinv_adel hK _) (einv_congr rfl hE))
                  refine loop_step_ainv hp hA rfl (fun ck' hne => aget_adel_ne _ _ _ hne) (fun it hit => hit)
                    (fun ev hev => hev) ?_
                  intro e hs hd
                  simp [stateOf, hch, hkey] at hs
                · rename_i e0 hkey
                  have hs0 : stateOf h ch key = some e0 := by simp [stateOf, hch, hkey]
                  split at hl
                  · rename_i hne
                    split at hl
                    · -- refreshed to a future deadline: record and re-queue
                      rename_i hfut
                      refine LoopPost.of_step
                        (h2 := { h with keyExpires := aset h.keyExpires (ch, key) e0.expireAt,
                                        queue := rest ++ [((ch, key), e0.expireAt)] })
                        rfl (fun ev hev => Or.inl hev)
                        (ih _ _ _ _ _ hl ?_ (kinv_aset hK _ (by omega)) (einv_congr rfl hE))
                      refine loop_step_ainv hp hA rfl (fun ck' hne => aget_aset_ne _ _ _ _ hne)
                        (fun it hit => by simp [hit]) (fun ev hev => hev) ?_
                      intro e hs hd
                      rw [hs0] at hs
                      simp only [Option.some.injEq] at hs
                      subst hs
                      exact ⟨aget_aset_same _ _ _, Or.inl ⟨e0.expireAt, by simp, Nat.le_refl _⟩⟩
                    · -- a different deadline that has elapsed too: the item is stale
                      rename_i hfut
                      refine LoopPost.of_step (h2 := { h with queue := rest }) rfl (fun ev hev => Or.inl hev)
                        (ih _ _ _ _ _ hl ?_ hK (einv_congr rfl hE))
                      refine loop_step_ainv hp hA rfl (fun _ _ => rfl) (fun it hit => hit) (fun ev hev => hev) ?_
                      intro e hs hd
                      rw [hs0] at hs
                      simp only [Option.some.injEq] at hs
                      subst hs
                      obtain ⟨h3, h4⟩ := hent e0 hs0 hd
                      refine ⟨h3, ?_⟩
                      rw [hke] at h3
                      simp only [Option.some.injEq] at h3
                      rcases h4 with h4 | h4 | h4
                      · exfalso; omega
                      · exact Or.inl h4
                      · exact Or.inr h4
                  · -- the deadline the heap item carries: collect the event
                    rename_i heq
                    have heq : e0.expireAt = p := by
                      by_cases h' : e0.expireAt = p
                      · exact h'
                      · exact absurd h' heq
                    refine LoopPost.of_step (h2 := { h with queue := rest }) rfl ?_
                      (ih _ _ _ _ _ hl ?_ hK (einv_congr rfl hE))
                    · intro ev hev
                      rcases List.mem_append.mp hev with hev | hev
                      · exact Or.inl hev
                      · simp only [List.mem_singleton] at hev
                        subst hev
                        exact Or.inr ⟨hpn, e0, hs0, heq⟩
                    · refine loop_step_ainv hp hA rfl (fun _ _ => rfl) (fun it hit => hit)
                        (fun ev hev => List.mem_append_left _ hev) ?_
                      intro e hs hd
                      rw [hs0] at hs
                      simp only [Option.some.injEq] at hs
                      subst hs
                      refine ⟨(hent e0 hs0 hd).1, Or.inr ⟨_, List.mem_append_right _ (List.mem_singleton.mpr rfl), rfl, rfl, heq.symm⟩⟩

/-- the loop never touches `chans`, and collects only elapsed, unrefreshed deadlines (no invariant needed). -/
theorem phase1Loop_col (cfg : Nat → RawCfg) (now : Nat) :
    ∀ (fuel : Nat) (h : Hub) (evs : List ExpEvent) (h1 : Hub) (next : Nat) (evs1 : List ExpEvent),
      phase1Loop cfg now fuel h evs = some (h1, next, evs1) →
      h1.chans = h.chans ∧ ∀ ev ∈ evs1, ev ∈ evs ∨
        (ev.expireAt ≤ now ∧ ∃ e, stateOf h ev.ch ev.key = some e ∧ e.expireAt = ev.expireAt) := by
  intro fuel
  induction fuel with
  | zero => intro h evs h1 next evs1 hl; simp [phase1Loop] at hl
  | succ n ih =>
    intro h evs h1 next evs1 hl
    simp only [phase1Loop] at hl
    -- every recursive call is on a hub with the same `chans`
    have key : ∀ (h2 : Hub) (evs2 : List ExpEvent), h2.chans = h.chans →
        (∀ ev ∈ evs2, ev ∈ evs ∨
          (ev.expireAt ≤ now ∧ ∃ e, stateOf h ev.ch ev.key = some e ∧ e.expireAt = ev.expireAt)) →
        phase1Loop cfg now n h2 evs2 = some (h1, next, evs1) →
        h1.chans = h.chans ∧ ∀ ev ∈ evs1, ev ∈ evs ∨
          (ev.expireAt ≤ now ∧ ∃ e, stateOf h ev.ch ev.key = some e ∧ e.expireAt = ev.expireAt) := by
      intro h2 evs2 hc hcol hl2
      obtain ⟨h3, h4⟩ := ih _ _ _ _ _ hl2
      refine ⟨h3.trans hc, ?_⟩
      intro ev hev
      rcases h4 ev hev with h5 | ⟨h5, e, h6, h7⟩
      · exact hcol ev h5
      · exact Or.inr ⟨h5, e, by rw [← stateOf_congr hc]; exact h6, h7⟩
    have triv : ∀ ev ∈ evs, ev ∈ evs ∨
        (ev.expireAt ≤ now ∧ ∃ e, stateOf h ev.ch ev.key = some e ∧ e.expireAt = ev.expireAt) :=
      fun ev hev => Or.inl hev
    cases hp : popMin h.queue with
    | none =>
      simp only [hp, Option.some.injEq, Prod.mk.injEq] at hl
      obtain ⟨rfl, rfl, rfl⟩ := hl
      exact ⟨rfl, triv⟩
    | some mr =>
      obtain ⟨⟨⟨ch, k⟩, p⟩, rest⟩ := mr
      simp only [hp] at hl
      split at hl
      · simp only [Option.some.injEq, Prod.mk.injEq] at hl
        obtain ⟨rfl, rfl, rfl⟩ := hl
        exact ⟨rfl, triv⟩
      · rename_i hpn
        split at hl
        · exact key _ _ (by rfl) triv hl
        · split at hl
          · exact key _ _ (by rfl) triv hl
          · split at hl
            · exact key _ _ (by rfl) triv hl
            · split at hl
              · exact key _ _ (by rfl) triv hl
              · rename_i c hch
                split at hl
                · exact key _ _ (by rfl) triv hl
                · rename_i e0 hkey
                  split at hl
                  · split at hl
                    · exact key _ _ (by rfl) triv hl
                    · exact key _ _ (by rfl) triv hl
                  · rename_i heq
                    refine key _ _ (by rfl) ?_ hl
                    intro ev hev
                    rcases List.mem_append.mp hev with hev | hev
                    · exact Or.inl hev
                    · simp only [List.mem_singleton] at hev
                      subst hev
                      refine Or.inr ⟨by simp; omega, e0, by simp [stateOf, hch, hkey], ?_⟩
                      by_cases h' : e0.expireAt = p
                      · exact h'
                      · exact absurd h' heq

/-- what one phase 1 guarantees. -/
structure Phase1Post (now : Nat) (h : Hub) (h' : Hub) (evs : List ExpEvent) : Prop where
  inv : HInv h' evs
  chans : h'.chans = h.chans
  /-- every key whose (positive) deadline has elapsed has an event -/
  due : ∀ ch key e, stateOf h' ch key = some e → 0 < e.expireAt → e.expireAt ≤ now →
    EW evs ch key e.expireAt

theorem minPrio_none {q : List (ChKey × Nat)} (h : minPrio q = none) : q = [] := by
  unfold minPrio at h
  cases hp : popMin q with
  | none => exact popMin_none hp
  | some x => simp [hp] at h

theorem phase1_post {cfg : Nat → RawCfg} {h : Hub} {now : Nat} {h' : Hub} {evs : List ExpEvent}
    (hp : phase1 cfg h now = some (h', evs)) (hi : HInv h []) : Phase1Post now h h' evs := by
  unfold phase1 at hp
  split at hp
  · rename_i hn
    simp only [Option.some.injEq, Prod.mk.injEq] at hp
    obtain ⟨rfl, rfl⟩ := hp
    refine ⟨hi, rfl, ?_⟩
    intro ch key e hs hd hle
    exfalso
    obtain ⟨_, h2⟩ := hi.a ch key e hs hd
    rcases h2 with ⟨p, h3, h4⟩ | ⟨ev, hev, _⟩
    · have h5 := hi.q.2 _ h3
      have h6 := hi.q.1 (by intro hq; rw [hq] at h3; cases h3)
      simp at h5
      omega
    · cases hev
  · rename_i hn
    split at hp
    · cases hp
    · rename_i h1 next evs1 hl
      have P := phase1Loop_post cfg now _ _ _ _ _ _ hl hi.a hi.k hi.e
      have hdue : ∀ ch key e, stateOf h1 ch key = some e → 0 < e.expireAt → e.expireAt ≤ now →
          EW evs1 ch key e.expireAt := by
        intro ch key e hs hd hle
        rcases (P.a ch key e hs hd).2 with ⟨p, h3, h4⟩ | h3
        · have := P.fut _ h3
          simp at this
          omega
        · exact h3
      split at hp
      · -- heap compaction
        rename_i hcomp
        simp only [Option.some.injEq, Prod.mk.injEq] at hp
        obtain ⟨rfl, rfl⟩ := hp
        refine ⟨⟨?_, ?_, P.k, einv_congr rfl (einv_congr P.chans hi.e)⟩, P.chans, hdue⟩
        · intro ch key e hs hd
          have h3 := (P.a ch key e hs hd).1
          exact ⟨h3, Or.inl ⟨e.expireAt, aget_some_mem h3, Nat.le_refl _⟩⟩
        · show QInvR h1.keyExpires _
          cases hm : popMin h1.keyExpires with
          | none =>
            have := popMin_none hm
            rw [this]
            exact ⟨fun h => absurd rfl h, by simp⟩
          | some mr =>
            obtain ⟨m, r⟩ := mr
            have hpm := popMin_some hm
            simp only [minPrio, hm, Option.map_some]
            exact ⟨fun _ => by have := P.k m hpm.1; omega, hpm.2.1⟩
      · simp only [Option.some.injEq, Prod.mk.injEq] at hp
        obtain ⟨rfl, rfl⟩ := hp
        exact ⟨⟨P.a, ⟨P.nz, P.lb⟩, P.k, einv_congr P.chans hi.e⟩, P.chans, hdue⟩

/-! ### hub-level preservation lemmas -/

theorem hinv_congr {h h' : Hub} {pend : List ExpEvent} (hc : h'.chans = h.chans)
    (hk : h'.keyExpires = h.keyExpires) (hq : h'.queue = h.queue) (hn : h'.nextKeyCheck = h.nextKeyCheck)
    (hi : HInv h pend) : HInv h' pend := by
  refine ⟨?_, ?_, ?_, einv_congr hc hi.e⟩
  · intro ch key e hs hd
    rw [stateOf_congr hc] at hs
    rw [hk, hq]
    exact hi.a ch key e hs hd
  · show QInvR _ _
    rw [hq, hn]; exact hi.q
  · show ∀ it ∈ h'.keyExpires, _
    rw [hk]; exact hi.k

/-- the bookkeeping is untouched and the state changes at most at `(ch, key)`, where no positive deadline
appears that was not there. -/
theorem hinv_same {h h' : Hub} {pend : List ExpEvent} (ch : Nat) (key : Key) (hi : HInv h pend)
    (hk : h'.keyExpires = h.keyExpires) (hq : h'.queue = h.queue) (hn : h'.nextKeyCheck = h.nextKeyCheck)
    (hck : ∀ e, stateOf h' ch key = some e →
      key ≠ [] ∧ (0 < e.expireAt → ∃ e0, stateOf h ch key = some e0 ∧ e0.expireAt = e.expireAt))
    (hst : ∀ ch' key', (ch', key') ≠ (ch, key) → stateOf h' ch' key' = stateOf h ch' key') :
    HInv h' pend := by
  refine ⟨?_, ?_, ?_, ?_⟩
  · refine ainv_transfer (ch, key) hi.a hst (fun _ _ => by rw [hk]) (fun it hit _ => by rw [hq]; exact hit)
      (fun ev hev _ => hev) ?_
    intro e hs hd
    obtain ⟨e0, h1, h2⟩ := (hck e hs).2 hd
    rw [hk, hq, ← h2]
    exact hi.a ch key e0 h1 (by omega)
  · show QInvR _ _
    rw [hq, hn]; exact hi.q
  · show ∀ it ∈ h'.keyExpires, _
    rw [hk]; exact hi.k
  · intro ch'
    by_cases hc : (ch', ([] : Key)) = (ch, key)
    · simp only [Prod.mk.injEq] at hc
      obtain ⟨rfl, rfl⟩ := hc
      cases hs : stateOf h' ch' [] with
      | none => rfl
      | some e => exact absurd rfl (hck e hs).1
    · rw [hst _ _ hc]; exact hi.e ch'

theorem hinv_eqv {h h' : Hub} {pend : List ExpEvent} (hi : HInv h pend)
    (hk : h'.keyExpires = h.keyExpires) (hq : h'.queue = h.queue) (hn : h'.nextKeyCheck = h.nextKeyCheck)
    (hst : ∀ ch key, stateOf h' ch key = stateOf h ch key) : HInv h' pend := by
  refine hinv_same 0 [] hi hk hq hn ?_ (fun ch' key' _ => hst ch' key')
  intro e hs
  rw [hst, hi.e] at hs
  cases hs

/-- the deadline `d` of `(ch, key)` is (re-)registered. -/
theorem hinv_track {h h' : Hub} {pend pend' : List ExpEvent} (ch : Nat) (key : Key) (d : Nat)
    (hi : HInv h pend) (hd : 0 < d) (hkey : key ≠ [])
    (hk : h'.keyExpires = aset h.keyExpires (ch, key) d)
    (hq : h'.queue = h.queue ++ [((ch, key), d)])
    (hn : h'.nextKeyCheck = if h.nextKeyCheck = 0 ∨ d < h.nextKeyCheck then d else h.nextKeyCheck)
    (hck : ∀ e, stateOf h' ch key = some e → e.expireAt = d)
    (hst : ∀ ch' key', (ch', key') ≠ (ch, key) → stateOf h' ch' key' = stateOf h ch' key')
    (hp : ∀ ev ∈ pend, (ev.ch, ev.key) ≠ (ch, key) → ev ∈ pend') :
    HInv h' pend' := by
  refine ⟨?_, ?_, ?_, ?_⟩
  · refine ainv_transfer (ch, key) hi.a hst (fun ck' hne => by rw [hk]; exact aget_aset_ne _ _ _ _ hne)
      (fun it hit _ => by rw [hq]; exact List.mem_append_left _ hit) hp ?_
    intro e hs _
    rw [hck e hs, hk, hq]
    exact ⟨aget_aset_same _ _ _, Or.inl ⟨d, by simp, Nat.le_refl _⟩⟩
  · show QInvR _ _
    rw [hq, hn]; exact qinvR_push hi.q _ hd
  · show ∀ it ∈ h'.keyExpires, _
    rw [hk]; exact kinv_aset hi.k _ hd
  · intro ch'
    have hc : (ch', ([] : Key)) ≠ (ch, key) := by
      intro hc; simp only [Prod.mk.injEq] at hc; exact hkey hc.2.symm
    rw [hst _ _ hc]; exact hi.e ch'

/-- the key `(ch, key)` is deleted together with its recorded deadline. -/
theorem hinv_del {h h' : Hub} {pend pend' : List ExpEvent} (ch : Nat) (key : Key)
    (hi : HInv h pend)
    (hk : h'.keyExpires = adel h.keyExpires (ch, key))
    (hq : h'.queue = h.queue) (hn : h'.nextKeyCheck = h.nextKeyCheck)
    (hck : stateOf h' ch key = none)
    (hst : ∀ ch' key', (ch', key') ≠ (ch, key) → stateOf h' ch' key' = stateOf h ch' key')
    (hp : ∀ ev ∈ pend, (ev.ch, ev.key) ≠ (ch, key) → ev ∈ pend') :
    HInv h' pend' := by
  refine ⟨?_, ?_, ?_, ?_⟩
  · refine ainv_transfer (ch, key) hi.a hst (fun ck' hne => by rw [hk]; exact aget_adel_ne _ _ _ hne)
      (fun it hit _ => by rw [hq]; exact hit) hp ?_
    intro e hs _
    rw [hck] at hs; cases hs
  · show QInvR _ _
    rw [hq, hn]; exact hi.q
  · show ∀ it ∈ h'.keyExpires, _
    rw [hk]; exact kinv_adel hi.k _
  · intro ch'
    by_cases hc : (ch', ([] : Key)) = (ch, key)
    · simp only [Prod.mk.injEq] at hc
      obtain ⟨rfl, rfl⟩ := hc
      exact hck
    · rw [hst _ _ hc]; exact hi.e ch'

/-- an event whose deadline is not the entry's current one (or whose key is gone) can be dropped. -/
theorem hinv_drop {h : Hub} {ev : ExpEvent} {rest : List ExpEvent} (hi : HInv h (ev :: rest))
    (hne : ∀ e, stateOf h ev.ch ev.key = some e → e.expireAt ≠ ev.expireAt) : HInv h rest := by
  refine ⟨?_, hi.q, hi.k, hi.e⟩
  refine ainv_transfer (ev.ch, ev.key) hi.a (fun _ _ _ => rfl) (fun _ _ => rfl) (fun it hit _ => hit) ?_ ?_
  · intro ev' hev' hne'
    rcases List.mem_cons.mp hev' with h1 | h1
    · subst h1; exact absurd rfl hne'
    · exact h1
  · intro e hs hd
    obtain ⟨h1, h2⟩ := hi.a _ _ e hs hd
    refine ⟨h1, ?_⟩
    rcases h2 with h2 | ⟨ev', hev', h3, h4, h5⟩
    · exact Or.inl h2
    · rcases List.mem_cons.mp hev' with h6 | h6
      · subst h6; exact absurd h5.symm (hne e hs)
      · exact Or.inr ⟨ev', h6, h3, h4, h5⟩

/-! ### `setChan` on a channel whose state changed at one key -/

theorem stateOf_upd_same {h1 h' : Hub} {ch : Nat} {c c' : Chan} (hc : aget h1.chans ch = some c)
    (hh : h'.chans = aset h1.chans ch c') (hs : c'.state = c.state) :
    ∀ ch' key', stateOf h' ch' key' = stateOf h1 ch' key' := by
  intro ch' key'
  simp only [stateOf, hh, aget_aset]
  split
  · rename_i h; subst h; simp [hc, hs]
  · rfl

theorem stateOf_upd_aset {h1 h' : Hub} {ch : Nat} {c c' : Chan} {key : Key} {en : Entry}
    (hc : aget h1.chans ch = some c)
    (hh : h'.chans = aset h1.chans ch c') (hs : c'.state = aset c.state key en) :
    stateOf h' ch key = some en ∧
      ∀ ch' key', (ch', key') ≠ (ch, key) → stateOf h' ch' key' = stateOf h1 ch' key' := by
  constructor
  · simp [stateOf, hh, aget_aset_same, hs]
  · intro ch' key' hne
    simp only [stateOf, hh, aget_aset]
    split
    · rename_i h; subst h
      have : key' ≠ key := by intro h; subst h; exact hne rfl
      simp [hc, hs, aget_aset_ne _ _ _ _ this]
    · rfl

theorem stateOf_upd_aset_at {h1 h' : Hub} {ch : Nat} {c c' : Chan} {key : Key} {en : Entry}
    (hc : aget h1.chans ch = some c)
    (hh : h'.chans = aset h1.chans ch c') (hs : c'.state = aset c.state key en) :
    stateOf h' ch key = some en := (stateOf_upd_aset hc hh hs).1

theorem stateOf_upd_aset_ne {h1 h' : Hub} {ch : Nat} {c c' : Chan} {key : Key} {en : Entry}
    (hc : aget h1.chans ch = some c)
    (hh : h'.chans = aset h1.chans ch c') (hs : c'.state = aset c.state key en) :
    ∀ ch' key', (ch', key') ≠ (ch, key) → stateOf h' ch' key' = stateOf h1 ch' key' :=
  (stateOf_upd_aset hc hh hs).2

theorem stateOf_upd_adel {h1 h' : Hub} {ch : Nat} {c c' : Chan} {key : Key}
    (hc : aget h1.chans ch = some c)
    (hh : h'.chans = aset h1.chans ch c') (hs : c'.state = adel c.state key) :
    stateOf h' ch key = none ∧
      ∀ ch' key', (ch', key') ≠ (ch, key) → stateOf h' ch' key' = stateOf h1 ch' key' := by
  constructor
  · simp [stateOf, hh, aget_aset_same, hs, aget_adel_same]
  · intro ch' key' hne
    simp only [stateOf, hh, aget_aset]
    split
    · rename_i h; subst h
      have : key' ≠ key := by intro h; subst h; exact hne rfl
      simp [hc, hs, aget_adel_ne _ _ _ this]
    · rfl

theorem stateOf_upd_adel_at {h1 h' : Hub} {ch : Nat} {c c' : Chan} {key : Key}
    (hc : aget h1.chans ch = some c)
    (hh : h'.chans = aset h1.chans ch c') (hs : c'.state = adel c.state key) :
    stateOf h' ch key = none := (stateOf_upd_adel hc hh hs).1

theorem stateOf_upd_adel_ne {h1 h' : Hub} {ch : Nat} {c c' : Chan} {key : Key}
    (hc : aget h1.chans ch = some c)
    (hh : h'.chans = aset h1.chans ch c') (hs : c'.state = adel c.state key) :
    ∀ ch' key', (ch', key') ≠ (ch, key) → stateOf h' ch' key' = stateOf h1 ch' key' :=
  (stateOf_upd_adel hc hh hs).2

/-! ### `phase2` preserves the invariant -/

theorem phase2_hinv {h : Hub} {now1 now2 : Nat} {ev : ExpEvent} {rest : List ExpEvent}
    (hi : HInv h (ev :: rest)) : HInv (phase2 h now1 now2 ev).1 rest := by
  have hdrop : ∀ ev' ∈ ev :: rest, (ev'.ch, ev'.key) ≠ (ev.ch, ev.key) → ev' ∈ rest := by
    intro ev' hev' hne'
    rcases List.mem_cons.mp hev' with h1 | h1
    · subst h1; exact absurd rfl hne'
    · exact h1
  cases hc : aget h.chans ev.ch with
  | none =>
    rw [phase2_noop_chan hc]
    exact hinv_drop hi (fun e hs => by simp [stateOf, hc] at hs)
  | some c =>
    cases he : aget c.state ev.key with
    | none =>
      rw [phase2_noop_key hc he]
      exact hinv_drop hi (fun e hs => by simp [stateOf, hc, he] at hs)
    | some e =>
      have hs : stateOf h ev.ch ev.key = some e := by simp [stateOf, hc, he]
      by_cases hd : e.expireAt = ev.expireAt
      · by_cases hss : 0 < ev.streamSize
        · rw [phase2_remove_stream hc he hd hss]
          obtain ⟨h1, h2⟩ := stateOf_upd_adel (key := ev.key) hc
            (h' := ({ h with keyExpires := adel h.keyExpires (ev.ch, ev.key) } : Hub).setChan ev.ch
              { rmChan c ev.key with stream := (c.stream.add (rmPub ev now2) ev.streamSize).1 })
            (c' := { rmChan c ev.key with stream := (c.stream.add (rmPub ev now2) ev.streamSize).1 }) rfl rfl
          exact hinv_del ev.ch ev.key hi rfl rfl rfl h1 h2 hdrop
        · have hss : ev.streamSize = 0 := by omega
          rw [phase2_remove_nostream hc he hd hss]
          obtain ⟨h1, h2⟩ := stateOf_upd_adel (key := ev.key) hc
            (h' := ({ h with keyExpires := adel h.keyExpires (ev.ch, ev.key) } : Hub).setChan ev.ch
              (rmChan c ev.key)) (c' := rmChan c ev.key) rfl rfl
          exact hinv_del ev.ch ev.key hi rfl rfl rfl h1 h2 hdrop
      · by_cases hn : now1 < e.expireAt
        · rw [phase2_requeue hc he hd hn]
          have hkey : ev.key ≠ [] := by
            intro hk; rw [hk, hi.e] at hs; cases hs
          refine hinv_track ev.ch ev.key e.expireAt hi (by omega) hkey rfl rfl rfl ?_ (fun _ _ _ => rfl) hdrop
          intro e' hs'
          have : stateOf h ev.ch ev.key = some e' := hs'
          rw [hs] at this
          simp only [Option.some.injEq] at this
          rw [this]
        · rw [phase2_stale hc he hd (by omega)]
          refine hinv_drop hi ?_
          intro e' hs'
          rw [hs] at hs'
          simp only [Option.some.injEq] at hs'
          rw [← hs']; exact hd

/-! ### `add`, split into "get or create the channel" and the rest -/

/-- the `prevPub` computed by `add` -/
def addPrev (h : Hub) (ch : Nat) (key : Key) (o : PubOpts) : Option Pub :=
  if o.delta && key != [] then
    match aget h.chans ch with
    | some c => (aget c.state key).map (·.pub)
    | none => none
  else none

/-- get or create the channel (first part of `add`) -/
def getChan (cfg : Cfg) (h : Hub) (ch : Nat) : Hub × Chan :=
  match aget h.chans ch with
  | some c =>
    if cfg.ordered && !c.ordered then
      let c' := { c with ordered := true }
      (h.setChan ch c', c')
    else (h, c)
  | none =>
    let c := h.newChan cfg.ordered
    ({ h with chans := aset h.chans ch c, nextEpoch := h.nextEpoch + 1 }, c)

/-- the rest of `add` on the hub `h1` in which `ch` is bound to `c` (a verbatim copy; `add_eq` checks it
by `rfl`). -/
def addRest (cfg : Cfg) (h1 : Hub) (c : Chan) (now : Nat) (ch : Nat) (key : Key) (o : PubOpts)
    (prev : Option Pub) : Hub × Pos × Option Pub × Suppress × Pub :=
  let pub0 : Pub := { key := key, data := o.data, tag := o.tag, score := o.score, offset := 0,
                      removed := false, time := now }
  let pos := c.stream.pos
  if versionBlocked cfg c key o then (h1, pos, none, .version, pub0) else
  match keyModeBlocked c key o with
  | some .keyExists =>
    let h2 :=
      if o.refresh && decide (cfg.keyTTL > 0) then
        match aget c.state key with
        | some e =>
          let c' := { c with state := aset c.state key { e with expireAt := now + cfg.keyTTL } }
          (h1.setChan ch c').trackTTL (ch, key) (now + cfg.keyTTL)
        | none => h1
      else h1
    (h2, pos, none, .keyExists, pub0)
  | some r => (h1, pos, none, r, pub0)
  | none =>
  match (if key != [] then casBlocked c key o.cas else none) with
  | some cur => (h1, pos, cur, .positionMismatch, pub0)
  | none =>
  let sp : Stream × Pub × Pos :=
    if cfg.hasStream then
      let r := c.stream.add pub0 cfg.streamSize
      (r.1, r.2, ⟨r.2.offset, c.stream.epoch⟩)
    else (c.stream, { pub0 with offset := c.stream.top }, c.stream.pos)
  let stream' := sp.1
  let spos := sp.2.2
  if key == [] then
    let pubOut := if cfg.hasStream then sp.2.1 else pub0
    (h1.setChan ch { c with stream := stream' }, spos, prev, .none, pubOut)
  else
    let pub := sp.2.1
    let expireAt := if cfg.keyTTL > 0 then now + cfg.keyTTL else 0
    let ve : Nat × Nat :=
      if o.version = 0 then
        match aget c.state key with
        | some e => (e.version, e.vepoch)
        | none => (o.version, o.vepoch)
      else (o.version, o.vepoch)
    let entry : Entry := { pub := pub, score := o.score, expireAt := expireAt, version := ve.1, vepoch := ve.2 }
    let c' : Chan := { c with stream := stream', state := aset c.state key entry,
                              scores := if cfg.ordered then aset c.scores key o.score else c.scores }
    let h2 := h1.setChan ch c'
    let h3 := if cfg.keyTTL > 0 then h2.trackTTL (ch, key) expireAt else h2
    (h3, spos, prev, .none, pub)

theorem add_eq (cfg : Cfg) (h : Hub) (now : Nat) (ch : Nat) (key : Key) (o : PubOpts) :
    add cfg h now ch key o =
      addRest cfg (getChan cfg h ch).1 (getChan cfg h ch).2 now ch key o (addPrev h ch key o) := rfl

theorem getChan_spec (cfg : Cfg) (h : Hub) (ch : Nat) :
    aget (getChan cfg h ch).1.chans ch = some (getChan cfg h ch).2 ∧
    (getChan cfg h ch).1.keyExpires = h.keyExpires ∧ (getChan cfg h ch).1.queue = h.queue ∧
    (getChan cfg h ch).1.nextKeyCheck = h.nextKeyCheck ∧
    ∀ ch' key', stateOf (getChan cfg h ch).1 ch' key' = stateOf h ch' key' := by
  unfold getChan
  cases hc : aget h.chans ch with
  | none =>
    refine ⟨by simp [aget_aset_same], rfl, rfl, rfl, ?_⟩
    intro ch' key'
    simp only [stateOf, aget_aset]
    split
    · rename_i h'; subst h'; simp [hc, Hub.newChan]
    · rfl
  | some c =>
    by_cases ho : (cfg.ordered && !c.ordered) = true
    · simp only [ho, if_true]
      refine ⟨by simp [Hub.setChan, aget_aset_same], rfl, rfl, rfl, ?_⟩
      exact stateOf_upd_same hc rfl rfl
    · simp only [ho]
      exact ⟨hc, rfl, rfl, rfl, fun _ _ => rfl⟩

theorem keyModeBlocked_some {c : Chan} {key : Key} {o : PubOpts} {r : Suppress}
    (h : keyModeBlocked c key o = some r) : key ≠ [] := by
  unfold keyModeBlocked at h
  split at h
  · rename_i hk
    intro hke; subst hke; simp at hk
  · cases h

theorem addRest_hinv {cfg : Cfg} {h1 : Hub} {c : Chan} {now ch : Nat} {key : Key} {o : PubOpts}
    {prev : Option Pub} {pend : List ExpEvent} (hc : aget h1.chans ch = some c) (hi : HInv h1 pend) :
    HInv (addRest cfg h1 c now ch key o prev).1 pend := by
  unfold addRest
  simp only []
  split
  · exact hi
  · split
    · -- keyExists, with the optional TTL refresh
      rename_i hkm
      have hkey := keyModeBlocked_some hkm
      split
      · rename_i hr
        simp only [Bool.and_eq_true, decide_eq_true_eq] at hr
        split
        · rename_i e he
          obtain ⟨h2, h3⟩ := stateOf_upd_aset (key := key) (en := { e with expireAt := now + cfg.keyTTL }) hc
            (h' := (h1.setChan ch { c with state := aset c.state key { e with expireAt := now + cfg.keyTTL } }).trackTTL
              (ch, key) (now + cfg.keyTTL))
            (c' := { c with state := aset c.state key { e with expireAt := now + cfg.keyTTL } }) rfl rfl
          refine hinv_track ch key (now + cfg.keyTTL) hi (by omega) hkey rfl rfl rfl ?_ h3 (fun ev hev _ => hev)
          intro e' he'
          rw [h2] at he'
          simp only [Option.some.injEq] at he'
          rw [← he']
        · exact hi
      · exact hi
    · exact hi
    · split
      · exact hi
      · split
        · -- empty key: only the stream changes
          refine hinv_eqv hi rfl rfl rfl ?_
          exact stateOf_upd_same hc rfl rfl
        · rename_i hkey
          have hkey : key ≠ [] := by intro hk; subst hk; simp at hkey
          by_cases httl : cfg.keyTTL > 0
          · simp only [httl, if_true]
            refine hinv_track ch key (now + cfg.keyTTL) hi (by omega) hkey rfl rfl rfl ?_
              (stateOf_upd_aset_ne hc (by rfl) (by rfl)) (fun ev hev _ => hev)
            intro e' he'
            rw [stateOf_upd_aset_at hc (by rfl) (by rfl)] at he'
            simp only [Option.some.injEq] at he'
            rw [← he']
          · simp only [httl, if_false]
            refine hinv_same ch key hi rfl rfl rfl ?_ (stateOf_upd_aset_ne hc (by rfl) (by rfl))
            intro e' he'
            rw [stateOf_upd_aset_at hc (by rfl) (by rfl)] at he'
            simp only [Option.some.injEq] at he'
            refine ⟨hkey, ?_⟩
            rw [← he']
            intro h0; simp at h0

theorem add_hinv {cfg : Cfg} {h : Hub} {now ch : Nat} {key : Key} {o : PubOpts} {pend : List ExpEvent}
    (hi : HInv h pend) : HInv (add cfg h now ch key o).1 pend := by
  rw [add_eq]
  obtain ⟨h1, h2, h3, h4, h5⟩ := getChan_spec cfg h ch
  exact addRest_hinv h1 (hinv_eqv hi h2 h3 h4 h5)

theorem cachePut_hinv {h : Hub} {now ch idem : Nat} {p : Pos} {ittl : Nat} {pend : List ExpEvent}
    (hi : HInv h pend) : HInv (cachePut h now ch idem p ittl) pend :=
  hinv_congr (h := h) rfl rfl rfl rfl hi

theorem publish_hinv {rc : RawCfg} {h : Hub} {now ch : Nat} {key : Key} {o : PubOpts} {pend : List ExpEvent}
    (hi : HInv h pend) : HInv (publish rc h now ch key o).1 pend := by
  unfold publish
  split
  · exact hi
  · split
    · exact hi
    · split
      · exact hi
      · split
        · exact hi
        · simp only []
          split
          · exact add_hinv hi
          · split
            · exact cachePut_hinv (add_hinv hi)
            · exact add_hinv hi

/-! ### `remove` -/

theorem remove_hinv {cfg : Cfg} {h : Hub} {now ch : Nat} {key : Key} {o : RmOpts} {pend : List ExpEvent}
    (hi : HInv h pend) : HInv (remove cfg h now ch key o).1 pend := by
  unfold remove
  split
  · split <;> exact hi
  · rename_i c hc
    simp only []
    split
    · exact hi
    · split
      · exact hi
      · split
        · exact hinv_del ch key hi rfl rfl rfl (stateOf_upd_adel_at hc (by rfl) (by rfl))
            (stateOf_upd_adel_ne hc (by rfl) (by rfl)) (fun ev hev _ => hev)
        · exact hinv_del ch key hi rfl rfl rfl (stateOf_upd_adel_at hc (by rfl) (by rfl))
            (stateOf_upd_adel_ne hc (by rfl) (by rfl)) (fun ev hev _ => hev)

theorem removeOp_hinv {rc : RawCfg} {h : Hub} {now ch : Nat} {key : Key} {o : RmOpts} {pend : List ExpEvent}
    (hi : HInv h pend) : HInv (removeOp rc h now ch key o).1 pend := by
  unfold removeOp
  split
  · exact hi
  · split
    · exact hi
    · split
      · exact hi
      · simp only []
        split
        · exact remove_hinv hi
        · split
          · split
            · exact cachePut_hinv (remove_hinv hi)
            · exact remove_hinv hi
          · split
            · exact cachePut_hinv (remove_hinv hi)
            · exact remove_hinv hi

/-! ### `clear` -/

theorem foldl_adel_spec (ch : Nat) (st : List (Key × Entry)) :
    ∀ (ke : List (ChKey × Nat)),
      (∀ it ∈ st.foldl (fun ke kv => adel ke (ch, kv.1)) ke, it ∈ ke) ∧
      (∀ ch' key', ch' ≠ ch →
        aget (st.foldl (fun ke kv => adel ke (ch, kv.1)) ke) (ch', key') = aget ke (ch', key')) := by
  induction st with
  | nil => intro ke; exact ⟨fun _ h => h, fun _ _ _ => rfl⟩
  | cons kv t ih =>
    intro ke
    simp only [List.foldl_cons]
    obtain ⟨h1, h2⟩ := ih (adel ke (ch, kv.1))
    refine ⟨fun it hit => mem_adel (h1 it hit), ?_⟩
    intro ch' key' hne
    rw [h2 ch' key' hne]
    exact aget_adel_ne _ _ _ (by intro hc; simp only [Prod.mk.injEq] at hc; exact hne hc.1)

theorem clear_hinv {h : Hub} {ch : Nat} {pend : List ExpEvent} (hi : HInv h pend) :
    HInv (clear h ch) pend := by
  unfold clear
  split
  · exact hinv_congr (h := h) rfl rfl rfl rfl hi
  · rename_i c hc
    obtain ⟨f1, f2⟩ := foldl_adel_spec ch c.state h.keyExpires
    have hst : ∀ ch' key', stateOf ({ h with
        keyExpires := c.state.foldl (fun ke kv => adel ke (ch, kv.1)) h.keyExpires,
        chans := adel h.chans ch, cache := h.cache.filter (fun e => e.1.1 != ch) } : Hub) ch' key' =
        if ch' = ch then none else stateOf h ch' key' := by
      intro ch' key'
      simp only [stateOf, aget_adel]
      split <;> rfl
    refine ⟨?_, hi.q, fun it hit => hi.k it (f1 it hit), ?_⟩
    · intro ch' key' e hs hd
      rw [hst] at hs
      split at hs
      · cases hs
      · rename_i hne
        obtain ⟨h1, h2⟩ := hi.a ch' key' e hs hd
        exact ⟨by rw [← h1]; exact f2 ch' key' hne, h2⟩
    · intro ch'
      rw [hst]
      split
      · rfl
      · exact hi.e ch'

/-! ### the transition system preserves the invariant -/

theorem hinv_init : HInv Sys.init.hub Sys.init.pending := by
  refine ⟨?_, ⟨fun h => absurd rfl h, ?_⟩, ?_, ?_⟩
  · intro ch key e hs; simp [Sys.init, Hub.init, stateOf] at hs
  · intro it hit; simp [Sys.init, Hub.init] at hit
  · intro it hit; simp [Sys.init, Hub.init] at hit
  · intro ch; simp [Sys.init, Hub.init, stateOf]

theorem step_hinv {cfg : Nat → RawCfg} {s s' : Sys} {l : Label} (hi : HInv s.hub s.pending)
    (hs : s.step cfg l = some s') : HInv s'.hub s'.pending := by
  cases l with
  | pub ch key o =>
    simp only [Sys.step, Option.some.injEq] at hs
    subst hs
    exact publish_hinv hi
  | rm ch key o =>
    simp only [Sys.step, Option.some.injEq] at hs
    subst hs
    exact removeOp_hinv hi
  | clear ch =>
    simp only [Sys.step, Option.some.injEq] at hs
    subst hs
    exact clear_hinv hi
  | tick d =>
    simp only [Sys.step, Option.some.injEq] at hs
    subst hs
    exact hi
  | phase1 =>
    simp only [Sys.step] at hs
    split at hs
    · rename_i hpend
      split at hs
      · cases hs
      · rename_i h' evs hp
        simp only [Option.some.injEq] at hs
        subst hs
        rw [hpend] at hi
        exact (phase1_post hp hi).inv
    · cases hs
  | phase2 =>
    simp only [Sys.step] at hs
    split at hs
    · cases hs
    · rename_i ev rest hpend
      simp only [Option.some.injEq] at hs
      subst hs
      rw [hpend] at hi
      exact phase2_hinv hi

theorem run_hinv {cfg : Nat → RawCfg} : ∀ (ls : List Label) (s s' : Sys), HInv s.hub s.pending →
    Sys.run cfg s ls = some s' → HInv s'.hub s'.pending := by
  intro ls
  induction ls with
  | nil =>
    intro s s' hi hr
    simp only [Sys.run, Option.some.injEq] at hr
    subst hr; exact hi
  | cons l ls ih =>
    intro s s' hi hr
    simp only [Sys.run] at hr
    split at hr
    · cases hr
    · rename_i s1 hs
      exact ih s1 s' (step_hinv hi hs) hr

/-! ### the removing branch of `phase2`, spelled out -/

theorem streamOf_setChan (h : Hub) (ch : Nat) (c : Chan) : streamOf (h.setChan ch c) ch = some c.stream := by
  simp [streamOf, Hub.setChan, aget_aset_same]

theorem phase2_expired_spec {h : Hub} (now1 now2 : Nat) {ev : ExpEvent} {c : Chan} {e : Entry}
    (hc : aget h.chans ev.ch = some c) (he : aget c.state ev.key = some e)
    (hd : e.expireAt = ev.expireAt) :
    stateOf (phase2 h now1 now2 ev).1 ev.ch ev.key = none ∧
    aget (phase2 h now1 now2 ev).1.keyExpires (ev.ch, ev.key) = none ∧
    (∀ key, key ≠ ev.key → stateOf (phase2 h now1 now2 ev).1 ev.ch key = stateOf h ev.ch key) ∧
    (∀ ch, ch ≠ ev.ch → aget (phase2 h now1 now2 ev).1.chans ch = aget h.chans ch) ∧
    (phase2 h now1 now2 ev).2.length = 1 ∧
    ∃ b, (phase2 h now1 now2 ev).2 = [b] ∧ b.ch = ev.ch ∧ b.pub.key = ev.key ∧ b.pub.removed = true ∧
      b.pub.tag = ev.tag ∧ b.pub.time = now2 ∧ b.pos.epoch = c.stream.epoch ∧
      (0 < ev.streamSize →
        b.pub.offset = c.stream.top + 1 ∧ b.pos = ⟨c.stream.top + 1, c.stream.epoch⟩ ∧
        streamOf (phase2 h now1 now2 ev).1 ev.ch = some
          { top := c.stream.top + 1,
            items := (c.stream.items ++ [b.pub]).drop ((c.stream.items ++ [b.pub]).length - ev.streamSize),
            epoch := c.stream.epoch }) ∧
      (ev.streamSize = 0 →
        b.pub.offset = 0 ∧ b.pos = c.stream.pos ∧
        streamOf (phase2 h now1 now2 ev).1 ev.ch = some c.stream) := by
  by_cases hss : 0 < ev.streamSize
  · rw [phase2_remove_stream hc he hd hss]
    refine ⟨stateOf_upd_adel_at hc (by rfl) (by rfl), aget_adel_same _ _, ?_, ?_, rfl, _, rfl, rfl, rfl, rfl,
      rfl, rfl, rfl, ?_, ?_⟩
    · intro key hk
      exact stateOf_upd_adel_ne hc (by rfl) (by rfl) ev.ch key
        (by intro h'; simp only [Prod.mk.injEq] at h'; exact hk h'.2)
    · intro ch hch
      exact aget_aset_ne _ _ _ _ hch
    · intro _
      refine ⟨rfl, rfl, ?_⟩
      rw [streamOf_setChan]
      rfl
    · intro h0; omega
  · have hss : ev.streamSize = 0 := by omega
    rw [phase2_remove_nostream hc he hd hss]
    refine ⟨stateOf_upd_adel_at hc (by rfl) (by rfl), aget_adel_same _ _, ?_, ?_, rfl, _, rfl, rfl, rfl, rfl,
      rfl, rfl, rfl, ?_, ?_⟩
    · intro key hk
      exact stateOf_upd_adel_ne hc (by rfl) (by rfl) ev.ch key
        (by intro h'; simp only [Prod.mk.injEq] at h'; exact hk h'.2)
    · intro ch hch
      exact aget_aset_ne _ _ _ _ hch
    · intro h0; omega
    · intro _
      refine ⟨rfl, rfl, ?_⟩
      rw [streamOf_setChan]
      rfl

/-! ### an uninterrupted sweep is complete -/

theorem phase2_state_some {h : Hub} {now1 now2 : Nat} {ev : ExpEvent} {ch : Nat} {key : Key} {e : Entry}
    (hs : stateOf (phase2 h now1 now2 ev).1 ch key = some e) :
    stateOf h ch key = some e ∧ ¬ ((ch, key) = (ev.ch, ev.key) ∧ e.expireAt = ev.expireAt) := by
  cases hc : aget h.chans ev.ch with
  | none =>
    rw [phase2_noop_chan hc] at hs
    refine ⟨hs, ?_⟩
    rintro ⟨h1, _⟩
    simp only [Prod.mk.injEq] at h1
    obtain ⟨rfl, rfl⟩ := h1
    simp [stateOf, hc] at hs
  | some c =>
    cases he : aget c.state ev.key with
    | none =>
      rw [phase2_noop_key hc he] at hs
      refine ⟨hs, ?_⟩
      rintro ⟨h1, _⟩
      simp only [Prod.mk.injEq] at h1
      obtain ⟨rfl, rfl⟩ := h1
      simp [stateOf, hc, he] at hs
    | some e0 =>
      have hs0 : stateOf h ev.ch ev.key = some e0 := by simp [stateOf, hc, he]
      by_cases hd : e0.expireAt = ev.expireAt
      · have sp := phase2_expired_spec now1 now2 hc he hd
        by_cases hck : (ch, key) = (ev.ch, ev.key)
        · simp only [Prod.mk.injEq] at hck
          obtain ⟨rfl, rfl⟩ := hck
          rw [sp.1] at hs; cases hs
        · refine ⟨?_, fun h1 => hck h1.1⟩
          by_cases hch : ch = ev.ch
          · subst hch
            have hk : key ≠ ev.key := by intro hk; subst hk; exact hck rfl
            rw [sp.2.2.1 key hk] at hs; exact hs
          · simp only [stateOf, sp.2.2.2.1 ch hch] at hs
            exact hs
      · have hch : (phase2 h now1 now2 ev).1.chans = h.chans := by
          by_cases hn : now1 < e0.expireAt
          · rw [phase2_requeue hc he hd hn]
          · rw [phase2_stale hc he hd (by omega)]
        rw [stateOf_congr hch] at hs
        refine ⟨hs, ?_⟩
        rintro ⟨h1, h2⟩
        simp only [Prod.mk.injEq] at h1
        obtain ⟨rfl, rfl⟩ := h1
        rw [hs0] at hs
        simp only [Option.some.injEq] at hs
        subst hs
        exact hd h2

theorem phase2All_complete (now now1 now2 : Nat) : ∀ (evs : List ExpEvent) (h : Hub),
    (∀ ch key e, stateOf h ch key = some e → 0 < e.expireAt → e.expireAt ≤ now → EW evs ch key e.expireAt) →
    ∀ ch key e, stateOf (phase2All now1 now2 h evs).1 ch key = some e → ¬ (0 < e.expireAt ∧ e.expireAt ≤ now) := by
  intro evs
  induction evs with
  | nil =>
    intro h hdue ch key e hs hd
    obtain ⟨ev, hev, _⟩ := hdue ch key e hs hd.1 hd.2
    cases hev
  | cons ev evs ih =>
    intro h hdue ch key e hs
    simp only [phase2All] at hs
    refine ih (phase2 h now1 now2 ev).1 ?_ ch key e hs
    intro ch' key' e' hs' hd' hle'
    obtain ⟨h1, h2⟩ := phase2_state_some hs'
    obtain ⟨ev', hev', h3, h4, h5⟩ := hdue ch' key' e' h1 hd' hle'
    rcases List.mem_cons.mp hev' with h6 | h6
    · subst h6
      exact absurd ⟨by rw [h3, h4], h5.symm⟩ h2
    · exact ⟨ev', h6, h3, h4, h5⟩

/-! ### the fuel of phase 1 suffices -/

/-- how many more loop iterations a heap item can cause: none if its priority is in the future (popping it
ends the loop); two if it will be re-queued with a recorded deadline that has elapsed too; one otherwise. -/
def wt (now : Nat) (ke : List (ChKey × Nat)) (it : ChKey × Nat) : Nat :=
  if it.2 > now then 0
  else match aget ke it.1 with
    | some stored => if it.2 < stored ∧ stored ≤ now then 2 else 1
    | none => 1

def wsum (now : Nat) (ke : List (ChKey × Nat)) : List (ChKey × Nat) → Nat
  | [] => 0
  | it :: t => wt now ke it + wsum now ke t

theorem wsum_append (now : Nat) (ke : List (ChKey × Nat)) (a b : List (ChKey × Nat)) :
    wsum now ke (a ++ b) = wsum now ke a + wsum now ke b := by
  induction a with
  | nil => simp [wsum]
  | cons x t ih => simp [wsum, ih]; omega

theorem wsum_popMin (now : Nat) (ke : List (ChKey × Nat)) {q : List (ChKey × Nat)} {m : ChKey × Nat}
    {r : List (ChKey × Nat)} (hp : popMin q = some (m, r)) : wsum now ke q = wt now ke m + wsum now ke r := by
  induction q generalizing m r with
  | nil => simp [popMin] at hp
  | cons x t ih =>
    unfold popMin at hp
    split at hp
    · rename_i hn
      have := popMin_none hn
      subst this
      simp only [Option.some.injEq, Prod.mk.injEq] at hp
      obtain ⟨rfl, rfl⟩ := hp
      rfl
    · rename_i m' r' hs
      split at hp
      · simp only [Option.some.injEq, Prod.mk.injEq] at hp
        obtain ⟨rfl, rfl⟩ := hp
        rfl
      · simp only [Option.some.injEq, Prod.mk.injEq] at hp
        obtain ⟨rfl, rfl⟩ := hp
        simp only [wsum, ih hs]
        omega

theorem wsum_mono (now : Nat) {ke ke' : List (ChKey × Nat)} (hw : ∀ it, wt now ke' it ≤ wt now ke it) :
    ∀ q, wsum now ke' q ≤ wsum now ke q := by
  intro q
  induction q with
  | nil => exact Nat.le_refl _
  | cons x t ih => simp only [wsum]; have := hw x; omega

theorem wt_le_two (now : Nat) (ke : List (ChKey × Nat)) (it : ChKey × Nat) : wt now ke it ≤ 2 := by
  unfold wt
  split
  · omega
  · split
    · split <;> omega
    · omega

theorem wsum_le (now : Nat) (ke : List (ChKey × Nat)) : ∀ q, wsum now ke q ≤ 2 * q.length := by
  intro q
  induction q with
  | nil => simp [wsum]
  | cons x t ih => simp only [wsum, List.length_cons]; have := wt_le_two now ke x; omega

theorem wt_adel (now : Nat) (ke : List (ChKey × Nat)) (ck : ChKey) (it : ChKey × Nat) :
    wt now (adel ke ck) it ≤ wt now ke it := by
  unfold wt
  split
  · omega
  · by_cases hk : it.1 = ck
    · rw [hk, aget_adel_same]
      simp only []
      split
      · split <;> omega
      · omega
    · rw [aget_adel_ne _ _ _ hk]
      exact Nat.le_refl _

theorem wt_aset (now : Nat) (ke : List (ChKey × Nat)) (ck : ChKey) {v : Nat} (hv : now < v) (it : ChKey × Nat) :
    wt now (aset ke ck v) it ≤ wt now ke it := by
  unfold wt
  split
  · omega
  · by_cases hk : it.1 = ck
    · rw [hk, aget_aset_same]
      simp only []
      have : ¬ (it.2 < v ∧ v ≤ now) := by omega
      simp only [this, if_false]
      split
      · split <;> omega
      · omega
    · rw [aget_aset_ne _ _ _ _ hk]
      exact Nat.le_refl _

theorem phase1Loop_fuel (cfg : Nat → RawCfg) (now : Nat) : ∀ (fuel : Nat) (h : Hub) (evs : List ExpEvent),
    wsum now h.keyExpires h.queue < fuel → phase1Loop cfg now fuel h evs ≠ none := by
  intro fuel
  induction fuel with
  | zero => intro h evs hlt; omega
  | succ n ih =>
    intro h evs hlt
    simp only [phase1Loop]
    cases hp : popMin h.queue with
    | none => simp
    | some mr =>
      obtain ⟨⟨⟨ch, key⟩, p⟩, rest⟩ := mr
      simp only []
      have hsum := wsum_popMin now h.keyExpires hp
      split
      · simp
      · rename_i hpn
        have hpn : ¬ p > now := hpn
        split
        · rename_i hke
          apply ih
          show wsum now h.keyExpires rest < n
          have : wt now h.keyExpires ((ch, key), p) = 1 := by simp [wt, hpn, hke]
          omega
        · rename_i stored hke
          split
          · rename_i hst
            apply ih
            show wsum now h.keyExpires (rest ++ [((ch, key), stored)]) < n
            rw [wsum_append]
            simp only [wsum]
            by_cases hsn : stored ≤ now
            · have h1 : wt now h.keyExpires ((ch, key), p) = 2 := by
                have : p < stored ∧ stored ≤ now := ⟨hst, hsn⟩
                simp [wt, hpn, hke, this]
              have h2 : wt now h.keyExpires ((ch, key), stored) = 1 := by
                have : ¬ stored > now := by omega
                simp [wt, this, hke]
              omega
            · have h1 : wt now h.keyExpires ((ch, key), p) = 1 := by
                have : ¬ (p < stored ∧ stored ≤ now) := by omega
                simp [wt, hpn, hke, this]
              have h2 : wt now h.keyExpires ((ch, key), stored) = 0 := by
                have : stored > now := by omega
                simp [wt, this]
              omega
          · rename_i hst
            have hw1 : wt now h.keyExpires ((ch, key), p) = 1 := by
              have : ¬ (p < stored ∧ stored ≤ now) := by omega
              simp [wt, hpn, hke, this]
            have hdel : wsum now (adel h.keyExpires (ch, key)) rest < n := by
              have := wsum_mono now (wt_adel now h.keyExpires (ch, key)) rest
              omega
            split
            · apply ih; exact hdel
            · split
              · apply ih; exact hdel
              · split
                · apply ih; exact hdel
                · rename_i e0 _
                  split
                  · split
                    · rename_i hfut
                      apply ih
                      show wsum now (aset h.keyExpires (ch, key) e0.expireAt)
                        (rest ++ [((ch, key), e0.expireAt)]) < n
                      rw [wsum_append]
                      simp only [wsum]
                      have h2 : wt now (aset h.keyExpires (ch, key) e0.expireAt) ((ch, key), e0.expireAt) = 0 := by
                        simp [wt, hfut]
                      have := wsum_mono now (wt_aset now h.keyExpires (ch, key) hfut) rest
                      omega
                    · apply ih
                      show wsum now h.keyExpires rest < n
                      omega
                  · apply ih
                    show wsum now h.keyExpires rest < n
                    omega

theorem phase1_ne_none (cfg : Nat → RawCfg) (h : Hub) (now : Nat) : phase1 cfg h now ≠ none := by
  unfold phase1
  split
  · simp
  · have := phase1Loop_fuel cfg now (3 * h.queue.length + 3) h []
      (by have := wsum_le now h.keyExpires h.queue; omega)
    split
    · rename_i hn; exact absurd hn this
    · split <;> simp

end CentrifugeVerif.MapExpiry
