import CentrifugeVerif.Model.Merge
/-! Helper lemmas for C39 (property theorems are in `Props/C39.lean`). -/
namespace CentrifugeVerif.Merge

theorem mem_ins (p q : MPub) (l : List MPub) : q ∈ ins p l ↔ q = p ∨ q ∈ l := by
  induction l with
  | nil => simp [ins]
  | cons x xs ih =>
    unfold ins
    split
    · simp
    · simp only [List.mem_cons, ih]
      constructor
      · rintro (h | h | h) <;> simp [h]
      · rintro (h | h | h) <;> simp [h]

theorem mem_sorted (l : List MPub) (p : MPub) : p ∈ isort l ↔ p ∈ l := by
  induction l with
  | nil => simp [isort]
  | cons x xs ih => simp only [isort, mem_ins, ih, List.mem_cons]

theorem ins_pairwise (p : MPub) (l : List MPub)
    (h : l.Pairwise (fun a b => a.offset ≤ b.offset)) :
    (ins p l).Pairwise (fun a b => a.offset ≤ b.offset) := by
  induction l with
  | nil => simp [ins]
  | cons x xs ih =>
    unfold ins
    rw [List.pairwise_cons] at h
    split
    · rename_i hle
      refine List.pairwise_cons.mpr ⟨?_, List.pairwise_cons.mpr h⟩
      intro b hb
      rcases List.mem_cons.mp hb with rfl | hb
      · exact hle
      · have := h.1 b hb; omega
    · rename_i hgt
      refine List.pairwise_cons.mpr ⟨?_, ih h.2⟩
      intro b hb
      rcases (mem_ins p b xs).mp hb with rfl | hb
      · omega
      · exact h.1 b hb

theorem sorted_pairwise (l : List MPub) :
    (isort l).Pairwise (fun a b => a.offset ≤ b.offset) := by
  induction l with
  | nil => simp [isort]
  | cons x xs ih => exact ins_pairwise x _ ih

/-- everything `uniq` keeps is an unfiltered input entry whose offset was not seen before. -/
theorem uniq_mem {seen : List Nat} {l : List MPub} {p : MPub} (h : p ∈ uniq seen l) :
    p ∈ l ∧ p.filtered = false ∧ p.offset ∉ seen := by
  induction l generalizing seen with
  | nil => simp [uniq] at h
  | cons q qs ih =>
    unfold uniq at h
    split at h
    · have := ih h; exact ⟨List.mem_cons_of_mem _ this.1, this.2⟩
    · split at h
      · have := ih h; exact ⟨List.mem_cons_of_mem _ this.1, this.2⟩
      · rcases List.mem_cons.mp h with rfl | h'
        · refine ⟨List.mem_cons_self, ?_, ?_⟩
          · simpa using ‹¬ p.filtered = true›
          · assumption
        · have := ih h'
          refine ⟨List.mem_cons_of_mem _ this.1, this.2.1, ?_⟩
          intro hm; exact this.2.2 (List.mem_cons_of_mem _ hm)

theorem uniq_sublist (seen : List Nat) (l : List MPub) : (uniq seen l).Sublist l := by
  induction l generalizing seen with
  | nil => simp [uniq]
  | cons q qs ih =>
    unfold uniq
    split
    · exact (ih seen).cons _
    · split
      · exact (ih seen).cons _
      · exact (ih _).cons_cons _

theorem uniq_offsets_distinct (seen : List Nat) (l : List MPub) :
    (uniq seen l).Pairwise (fun a b => a.offset ≠ b.offset) := by
  induction l generalizing seen with
  | nil => simp [uniq]
  | cons q qs ih =>
    unfold uniq
    split
    · exact ih seen
    · split
      · exact ih seen
      · refine List.pairwise_cons.mpr ⟨?_, ih _⟩
        intro b hb heq
        have := (uniq_mem hb).2.2
        exact this (by simp [heq])

/-- every unfiltered, not-yet-seen offset of the input survives in the result. -/
theorem uniq_complete {seen : List Nat} {l : List MPub} {p : MPub}
    (hp : p ∈ l) (hf : p.filtered = false) (hs : p.offset ∉ seen) :
    ∃ q ∈ uniq seen l, q.offset = p.offset := by
  induction l generalizing seen with
  | nil => cases hp
  | cons q qs ih =>
    unfold uniq
    rcases List.mem_cons.mp hp with rfl | hp'
    · simp [hf, hs]
    · split
      · exact ih hp' hs
      · split
        · exact ih hp' hs
        · by_cases hq : q.offset = p.offset
          · exact ⟨q, List.mem_cons_self, hq⟩
          · have : p.offset ∉ q.offset :: seen := by
              simp only [List.mem_cons, not_or]; exact ⟨fun h => hq h.symm, hs⟩
            obtain ⟨r, hr, hro⟩ := ih hp' this
            exact ⟨r, List.mem_cons_of_mem _ hr, hro⟩

theorem strict_of_le_ne {l : List MPub}
    (h1 : l.Pairwise (fun a b => a.offset ≤ b.offset))
    (h2 : l.Pairwise (fun a b => a.offset ≠ b.offset)) :
    l.Pairwise (fun a b => a.offset < b.offset) := by
  induction l with
  | nil => exact List.Pairwise.nil
  | cons a l ih =>
    rw [List.pairwise_cons] at h1 h2 ⊢
    exact ⟨fun b hb => Nat.lt_of_le_of_ne (h1.1 b hb) (h2.1 b hb), ih h1.2 h2.2⟩

theorem uniq_sorted_strict (l : List MPub) :
    (uniq [] (isort l)).Pairwise (fun a b => a.offset < b.offset) :=
  strict_of_le_ne ((sorted_pairwise l).sublist (uniq_sublist _ _)) (uniq_offsets_distinct _ _)

theorem between_iff (sk : List Nat) (a b : Nat) :
    between sk a b = true ↔ ∀ o, a < o → o < b → o ∈ sk := by
  simp only [between, List.all_eq_true, List.mem_range'_1, decide_eq_true_eq]
  constructor
  · intro h o h1 h2; exact h o (by omega)
  · intro h o ho; exact h o (by omega) (by omega)

/-- on a strictly increasing list the Go gap loop fails exactly when there is an uncovered hole. -/
theorem gapsCovered_false_iff (sk : List Nat) (l : List MPub)
    (hs : l.Pairwise (fun a b => a.offset < b.offset)) :
    gapsCovered sk l = false ↔
      ∃ a ∈ l, ∃ c ∈ l, ∃ o, a.offset < o ∧ o < c.offset ∧ (∀ q ∈ l, q.offset ≠ o) ∧ o ∉ sk := by
  induction l with
  | nil => simp [gapsCovered]
  | cons x rest ih =>
    cases rest with
    | nil =>
      simp only [gapsCovered, List.mem_singleton]
      constructor
      · intro h; cases h
      · rintro ⟨a, rfl, c, rfl, o, h1, h2, _⟩; omega
    | cons y rest =>
      have hxy : x.offset < y.offset := (List.pairwise_cons.mp hs).1 y List.mem_cons_self
      have hs' := (List.pairwise_cons.mp hs).2
      have hxall : ∀ q ∈ y :: rest, x.offset < q.offset := (List.pairwise_cons.mp hs).1
      have hyall : ∀ q ∈ rest, y.offset < q.offset := (List.pairwise_cons.mp hs').1
      have ih' := ih hs'
      -- the head test is `between` when x < y
      have hhead : (y.offset == x.offset + 1 || (!sk.isEmpty && between sk x.offset y.offset)) = true ↔
          ∀ o, x.offset < o → o < y.offset → o ∈ sk := by
        constructor
        · intro h o h1 h2
          simp only [Bool.or_eq_true, beq_iff_eq, Bool.and_eq_true] at h
          rcases h with h | h
          · omega
          · exact (between_iff sk _ _).mp h.2 o h1 h2
        · intro h
          by_cases hc : y.offset = x.offset + 1
          · simp [hc]
          · have hm := h (x.offset + 1) (by omega) (by omega)
            have hne : sk.isEmpty = false := by
              cases sk with
              | nil => cases hm
              | cons _ _ => rfl
            simp only [Bool.or_eq_true, beq_iff_eq, Bool.and_eq_true, hne, Bool.not_false, true_and]
            right; exact (between_iff sk _ _).mpr h
      unfold gapsCovered
      rw [Bool.and_eq_false_iff]
      constructor
      · rintro (h | h)
        · -- hole between x and y
          have : ¬ ∀ o, x.offset < o → o < y.offset → o ∈ sk := by
            intro hall; rw [hhead.mpr hall] at h; cases h
          have ⟨o, ho⟩ := Classical.not_forall.mp this
          have ⟨h1, ho⟩ := Classical.not_imp.mp ho
          have ⟨h2, h3⟩ := Classical.not_imp.mp ho
          refine ⟨x, List.mem_cons_self, y, by simp, o, h1, h2, ?_, h3⟩
          intro q hq
          rcases List.mem_cons.mp hq with rfl | hq
          · omega
          · rcases List.mem_cons.mp hq with rfl | hq
            · omega
            · have := hyall q hq; omega
        · obtain ⟨a, ha, c, hc, o, h1, h2, h3, h4⟩ := ih'.mp h
          refine ⟨a, List.mem_cons_of_mem _ ha, c, List.mem_cons_of_mem _ hc, o, h1, h2, ?_, h4⟩
          intro q hq
          rcases List.mem_cons.mp hq with rfl | hq
          · have := hxall a ha; omega
          · exact h3 q hq
      · rintro ⟨a, ha, c, hc, o, h1, h2, h3, h4⟩
        by_cases hoy : o < y.offset
        · -- then a must be x
          left
          have hax : a = x := by
            rcases List.mem_cons.mp ha with rfl | ha'
            · rfl
            · exfalso
              rcases List.mem_cons.mp ha' with rfl | ha''
              · omega
              · have := hyall a ha''; omega
          subst hax
          cases hb : (y.offset == a.offset + 1 || (!sk.isEmpty && between sk a.offset y.offset)) with
          | false => rfl
          | true => exact absurd (hhead.mp hb o h1 hoy) h4
        · right
          have hoy' : y.offset < o := by
            have := h3 y (by simp); omega
          apply ih'.mpr
          have hc' : c ∈ y :: rest := by
            rcases List.mem_cons.mp hc with rfl | hc'
            · exfalso; omega
            · exact hc'
          exact ⟨y, List.mem_cons_self, c, hc', o, hoy', h2, fun q hq => h3 q (List.mem_cons_of_mem _ hq), h4⟩

theorem mem_skipped (l : List MPub) (o : Nat) :
    o ∈ skipped l ↔ ∃ p ∈ l, p.filtered = true ∧ p.offset = o := by
  simp [skipped, List.mem_map, List.mem_filter, and_assoc]

theorem maxSeen_foldl_ge (l : List MPub) (m : Nat) :
    m ≤ l.foldl (fun m p => max m p.offset) m ∧
    ∀ p ∈ l, p.offset ≤ l.foldl (fun m p => max m p.offset) m := by
  induction l generalizing m with
  | nil => simp
  | cons q qs ih =>
    simp only [List.foldl_cons, List.mem_cons, forall_eq_or_imp]
    have := ih (max m q.offset)
    refine ⟨by omega, by omega, this.2⟩

theorem maxSeen_foldl_attained (l : List MPub) (m : Nat) :
    l.foldl (fun m p => max m p.offset) m = m ∨
    ∃ p ∈ l, p.offset = l.foldl (fun m p => max m p.offset) m := by
  induction l generalizing m with
  | nil => simp
  | cons q qs ih =>
    simp only [List.foldl_cons, List.mem_cons]
    rcases ih (max m q.offset) with h | ⟨p, hp, h⟩
    · rw [h]
      by_cases hm : q.offset ≤ m
      · left; omega
      · right; exact ⟨q, Or.inl rfl, by omega⟩
    · right; exact ⟨p, Or.inr hp, h⟩

end CentrifugeVerif.Merge
