import CentrifugeVerif.Proofs.RedisLua
import CentrifugeVerif.Gen.Lua.BrokerHistoryAddStream
/-
Symbolic execution of the *translated* `broker_history_add_stream.lua` (`Gen/Lua/BrokerHistoryAddStream.lean`,
regenerated from /repo on every run), part by part.  Each lemma holds for all keys, all argument strings
and all Redis states satisfying the stated (typing) hypotheses.  When the script changes, the parts
change and these proofs stop checking — that is the tie.
-/
namespace CentrifugeVerif.AddStream
open CentrifugeVerif CentrifugeVerif.Redis CentrifugeVerif.Lua CentrifugeVerif.LuaRedis CentrifugeVerif.Gen.Lua

structure AddArgs where
  payload : String
  size : String
  ttl : String
  chan : String
  metaExp : String
  fresh : String
  pcmd : String
  rexp : String
  delta : String
  ver : String
  vep : String

def AddArgs.argv (a : AddArgs) : LVal :=
  .tbl [.str a.payload, .str a.size, .str a.ttl, .str a.chan, .str a.metaExp, .str a.fresh, .str a.pcmd,
        .str a.rexp, .str a.delta, .str a.ver, .str a.vep]

def keysT (sk mk rk : String) : LVal := .tbl [.str sk, .str mk, .str rk]

abbrev P1 (sk mk rk : String) (a : AddArgs) : RedisM LVal :=
  broker_history_add_stream_p1 (keysT sk mk rk) a.argv (.str sk) (.str mk) (.str rk) (.str a.payload) (.str a.size)
    (.str a.ttl) (.str a.chan) (.str a.metaExp) (.str a.fresh) (.str a.pcmd) (.str a.rexp) (.str a.delta)
    (.str a.ver) (.str a.vep)
abbrev P2 (sk mk rk : String) (a : AddArgs) : RedisM LVal :=
  broker_history_add_stream_p2 (keysT sk mk rk) a.argv (.str sk) (.str mk) (.str rk) (.str a.payload) (.str a.size)
    (.str a.ttl) (.str a.chan) (.str a.metaExp) (.str a.fresh) (.str a.pcmd) (.str a.rexp) (.str a.delta)
    (.str a.ver) (.str a.vep)
abbrev P4 (sk mk rk : String) (a : AddArgs) (ep : LVal) : RedisM LVal :=
  broker_history_add_stream_p4 (keysT sk mk rk) a.argv (.str sk) (.str mk) (.str rk) (.str a.payload) (.str a.size)
    (.str a.ttl) (.str a.chan) (.str a.metaExp) (.str a.fresh) (.str a.pcmd) (.str a.rexp) (.str a.delta)
    (.str a.ver) (.str a.vep) ep
abbrev P5 (sk mk rk : String) (a : AddArgs) (ep : LVal) : RedisM LVal :=
  broker_history_add_stream_p5 (keysT sk mk rk) a.argv (.str sk) (.str mk) (.str rk) (.str a.payload) (.str a.size)
    (.str a.ttl) (.str a.chan) (.str a.metaExp) (.str a.fresh) (.str a.pcmd) (.str a.rexp) (.str a.delta)
    (.str a.ver) (.str a.vep) ep

/-- the hash stored at `k` (`[]` when the key is absent), provided the key does not hold another type -/
def HashAt (s : Redis) (k : String) (h : List (String × String)) : Prop := getHash s k = .ok h

theorem script_eq_p1 (sk mk rk : String) (a : AddArgs) (s : Redis) :
    run (broker_history_add_stream (keysT sk mk rk) a.argv) s = run (P1 sk mk rk a) s := by
  simp [broker_history_add_stream, broker_history_add_stream_p0, AddArgs.argv, keysT, run_bind, Lua.index, P1]

theorem p1_hit (sk mk rk : String) (a : AddArgs) (s : Redis) (h : List (String × String)) (ep : String)
    (hrexp : a.rexp ≠ "") (hk : HashAt s rk h) (he : hlookup h "e" = some ep) :
    run (P1 sk mk rk a) s
      = (.ok (.tbl [respToLua (optBulk (hlookup h "s")), .str ep, .str "1", .str "0"]), s) := by
  unfold HashAt at hk
  cases ho : hlookup h "s" <;>
  simp [broker_history_add_stream_p1, run_bind, Lua.index, Lua.eq, Lua.truthy, Lua.ofBool, hrexp,
    callFn, argToString, exec_hmget2, hk, he, ho, optBulk, respToLua, respsToLua, mkTable]

theorem p1_miss (sk mk rk : String) (a : AddArgs) (s : Redis) (h : List (String × String))
    (hk : HashAt s rk h) (hmiss : a.rexp = "" ∨ hlookup h "e" = none) :
    run (P1 sk mk rk a) s = run (P2 sk mk rk a) s := by
  unfold HashAt at hk
  by_cases hrexp : a.rexp = ""
  · simp [P1, P2, broker_history_add_stream_p1, Lua.eq, Lua.truthy, Lua.ofBool, hrexp]
  · have he : hlookup h "e" = none := by rcases hmiss with h1 | h1; exact absurd h1 hrexp; exact h1
    cases ho : hlookup h "s" <;>
    simp [broker_history_add_stream_p1, run_bind, Lua.index, Lua.eq, Lua.truthy, Lua.ofBool, hrexp,
      callFn, argToString, exec_hmget2, hk, he, ho, optBulk, respToLua, respsToLua]

theorem p2_epoch_present (sk mk rk : String) (a : AddArgs) (s : Redis) (hm : List (String × String)) (e : String)
    (hk : HashAt s mk hm) (he : hlookup hm "e" = some e) :
    run (P2 sk mk rk a) s = run (P4 sk mk rk a (.str e)) s := by
  unfold HashAt at hk
  simp [P2, P4, broker_history_add_stream_p2, broker_history_add_stream_p3, run_bind, Lua.eq, Lua.truthy,
    Lua.ofBool, callFn, argToString, exec_hget, hk, he, optBulk, respToLua]

theorem p2_epoch_absent (sk mk rk : String) (a : AddArgs) (s : Redis) (hm : List (String × String))
    (hk : HashAt s mk hm) (he : hlookup hm "e" = none) :
    run (P2 sk mk rk a) s = run (P4 sk mk rk a (.str a.fresh)) (putHash s mk (hset1 hm "e" a.fresh)) := by
  unfold HashAt at hk
  simp [P2, P4, broker_history_add_stream_p2, broker_history_add_stream_p3, run_bind, Lua.eq, Lua.truthy,
    Lua.ofBool, callFn, argToString, exec_hget, exec_hset1, hk, he, optBulk, respToLua]

/-- the offset a version-suppressed publish reports: `tonumber(s)` of the meta hash, 0 when absent -/
def suppressedOffset (hm : List (String × String)) : Except LuaErr LVal :=
  match hlookup hm "s" with
  | none => .ok (.num 0)
  | some x => tonumber (.str x)

theorem p4_unversioned (sk mk rk : String) (a : AddArgs) (s : Redis) (ep : LVal) (hver : a.ver = "0") :
    run (P4 sk mk rk a ep) s = run (P5 sk mk rk a ep) s := by
  simp [P4, P5, broker_history_add_stream_p4, Lua.eq, Lua.truthy, Lua.ofBool, hver]

theorem p4_suppressed (sk mk rk : String) (a : AddArgs) (s : Redis) (hm : List (String × String)) (ep : String)
    (pv : String) (x y n : Int)
    (hk : HashAt s mk hm) (hver : a.ver ≠ "0")
    (hv : hlookup hm "v" = some pv)
    (hep : a.vep = "" ∨ hlookup hm "ve" = some a.vep)
    (hx : tonumber (.str pv) = .ok (.num x)) (hy : tonumber (.str a.ver) = .ok (.num y)) (hle : y ≤ x)
    (hoff : suppressedOffset hm = .ok (.num n)) :
    run (P4 sk mk rk a (.str ep)) s = (.ok (.tbl [.num n, .str ep, .str "0", .str "1"]), s) := by
  unfold HashAt at hk
  unfold suppressedOffset at hoff
  by_cases h0 : a.vep = ""
  · cases hve : hlookup hm "ve" <;> cases hs : hlookup hm "s" <;> simp [hs] at hoff <;>
    simp [P4, broker_history_add_stream_p4, run_bind, Lua.index, Lua.eq, Lua.truthy, Lua.ofBool, hver,
      callFn, argToString, exec_hmget3, hk, hv, hve, hs, optBulk, respToLua, respsToLua, mkTable, hx, hy, Lua.le,
      hle, h0, hoff]
  · have hve : hlookup hm "ve" = some a.vep := by rcases hep with h1 | h1; exact absurd h1 h0; exact h1
    have hb : (a.vep == "") = false := by simp [h0]
    cases hs : hlookup hm "s" <;> simp [hs] at hoff <;>
    simp [P4, broker_history_add_stream_p4, run_bind, Lua.index, Lua.eq, Lua.truthy, Lua.ofBool, hver,
      callFn, argToString, exec_hmget3, hk, hv, hve, hs, optBulk, respToLua, respsToLua, mkTable, hx, hy, Lua.le,
      hle, hb, hoff]

end CentrifugeVerif.AddStream
