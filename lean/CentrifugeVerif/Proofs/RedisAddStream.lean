import CentrifugeVerif.Proofs.RedisLua
import CentrifugeVerif.Gen.Lua.BrokerHistoryAddStream
/-
Symbolic execution of the *translated* `broker_history_add_stream.lua` (`Gen/Lua/BrokerHistoryAddStream.lean`,
regenerated from /repo on every run), part by part.  Each lemma holds for all keys, all argument strings
and all Redis states satisfying the stated (typing) hypotheses.  When the script changes, the parts
change and these proofs stop checking — that is the tie.
-/
namespace CentrifugeVerif.AddStream
open CentrifugeVerif CentrifugeVerif.Redis CentrifugeVerif.Lua CentrifugeVerif.LuaRedis CentrifugeVerif.Gen.Lua

structure AddArgs where
  payload : String
  size : String
  ttl : String
  chan : String
  metaExp : String
  fresh : String
  pcmd : String
  rexp : String
  delta : String
  ver : String
  vep : String

def AddArgs.argv (a : AddArgs) : LVal :=
  .tbl [.str a.payload, .str a.size, .str a.ttl, .str a.chan, .str a.metaExp, .str a.fresh, .str a.pcmd,
        .str a.rexp, .str a.delta, .str a.ver, .str a.vep]

def keysT (sk mk rk : String) : LVal := .tbl [.str sk, .str mk, .str rk]

abbrev P1 (sk mk rk : String) (a : AddArgs) : RedisM LVal :=
  broker_history_add_stream_p1 (keysT sk mk rk) a.argv (.str sk) (.str mk) (.str rk) (.str a.payload) (.str a.size)
    (.str a.ttl) (.str a.chan) (.str a.metaExp) (.str a.fresh) (.str a.pcmd) (.str a.rexp) (.str a.delta)
    (.str a.ver) (.str a.vep)
abbrev P2 (sk mk rk : String) (a : AddArgs) : RedisM LVal :=
  broker_history_add_stream_p2 (keysT sk mk rk) a.argv (.str sk) (.str mk) (.str rk) (.str a.payload) (.str a.size)
    (.str a.ttl) (.str a.chan) (.str a.metaExp) (.str a.fresh) (.str a.pcmd) (.str a.rexp) (.str a.delta)
    (.str a.ver) (.str a.vep)
abbrev P4 (sk mk rk : String) (a : AddArgs) (ep : LVal) : RedisM LVal :=
  broker_history_add_stream_p4 (keysT sk mk rk) a.argv (.str sk) (.str mk) (.str rk) (.str a.payload) (.str a.size)
    (.str a.ttl) (.str a.chan) (.str a.metaExp) (.str a.fresh) (.str a.pcmd) (.str a.rexp) (.str a.delta)
    (.str a.ver) (.str a.vep) ep
abbrev P5 (sk mk rk : String) (a : AddArgs) (ep : LVal) : RedisM LVal :=
  broker_history_add_stream_p5 (keysT sk mk rk) a.argv (.str sk) (.str mk) (.str rk) (.str a.payload) (.str a.size)
    (.str a.ttl) (.str a.chan) (.str a.metaExp) (.str a.fresh) (.str a.pcmd) (.str a.rexp) (.str a.delta)
    (.str a.ver) (.str a.vep) ep

/-- the hash stored at `k` (`[]` when the key is absent), provided the key does not hold another type -/
def HashAt (s : Redis) (k : String) (h : List (String × String)) : Prop := getHash s k = .ok h

theorem script_eq_p1 (sk mk rk : String) (a : AddArgs) (s : Redis) :
    run (broker_history_add_stream (keysT sk mk rk) a.argv) s = run (P1 sk mk rk a) s := by
  simp [broker_history_add_stream, broker_history_add_stream_p0, AddArgs.argv, keysT, run_bind, Lua.index, P1]

theorem p1_hit (sk mk rk : String) (a : AddArgs) (s : Redis) (h : List (String × String)) (ep : String)
    (hrexp : a.rexp ≠ "") (hk : HashAt s rk h) (he : hlookup h "e" = some ep) :
    run (P1 sk mk rk a) s
      = (.ok (.tbl [respToLua (optBulk (hlookup h "s")), .str ep, .str "1", .str "0"]), s) := by
  unfold HashAt at hk
  cases ho : hlookup h "s" <;>
  simp [broker_history_add_stream_p1, run_bind, Lua.index, Lua.eq, Lua.truthy, Lua.ofBool, hrexp,
    callFn, argToString, exec_hmget2, hk, he, ho, optBulk, respToLua, respsToLua, mkTable]

theorem p1_miss (sk mk rk : String) (a : AddArgs) (s : Redis) (h : List (String × String))
    (hk : HashAt s rk h) (hmiss : a.rexp = "" ∨ hlookup h "e" = none) :
    run (P1 sk mk rk a) s = run (P2 sk mk rk a) s := by
  unfold HashAt at hk
  by_cases hrexp : a.rexp = ""
  · simp [P1, P2, broker_history_add_stream_p1, Lua.eq, Lua.truthy, Lua.ofBool, hrexp]
  · have he : hlookup h "e" = none := by rcases hmiss with h1 | h1; exact absurd h1 hrexp; exact h1
    cases ho : hlookup h "s" <;>
    simp [broker_history_add_stream_p1, run_bind, Lua.index, Lua.eq, Lua.truthy, Lua.ofBool, hrexp,
      callFn, argToString, exec_hmget2, hk, he, ho, optBulk, respToLua, respsToLua]

theorem p2_epoch_present (sk mk rk : String) (a : AddArgs) (s : Redis) (hm : List (String × String)) (e : String)
    (hk : HashAt s mk hm) (he : hlookup hm "e" = some e) :
    run (P2 sk mk rk a) s = run (P4 sk mk rk a (.str e)) s := by
  unfold HashAt at hk
  simp [P2, P4, broker_history_add_stream_p2, broker_history_add_stream_p3, run_bind, Lua.eq, Lua.truthy,
    Lua.ofBool, callFn, argToString, exec_hget, hk, he, optBulk, respToLua]

theorem p2_epoch_absent (sk mk rk : String) (a : AddArgs) (s : Redis) (hm : List (String × String))
    (hk : HashAt s mk hm) (he : hlookup hm "e" = none) :
    run (P2 sk mk rk a) s = run (P4 sk mk rk a (.str a.fresh)) (putHash s mk (hset1 hm "e" a.fresh)) := by
  unfold HashAt at hk
  simp [P2, P4, broker_history_add_stream_p2, broker_history_add_stream_p3, run_bind, Lua.eq, Lua.truthy,
    Lua.ofBool, callFn, argToString, exec_hget, exec_hset1, hk, he, optBulk, respToLua]

/-- the offset a version-suppressed publish reports: `tonumber(s)` of the meta hash, 0 when absent -/
def suppressedOffset (hm : List (String × String)) : Except LuaErr LVal :=
  match hlookup hm "s" with
  | none => .ok (.num 0)
  | some x => tonumber (.str x)

theorem p4_unversioned (sk mk rk : String) (a : AddArgs) (s : Redis) (ep : LVal) (hver : a.ver = "0") :
    run (P4 sk mk rk a ep) s = run (P5 sk mk rk a ep) s := by
  simp [P4, P5, broker_history_add_stream_p4, Lua.eq, Lua.truthy, Lua.ofBool, hver]

theorem p4_suppressed (sk mk rk : String) (a : AddArgs) (s : Redis) (hm : List (String × String)) (ep : String)
    (pv : String) (x y n : Int)
    (hk : HashAt s mk hm) (hver : a.ver ≠ "0")
    (hv : hlookup hm "v" = some pv)
    (hep : a.vep = "" ∨ hlookup hm "ve" = some a.vep)
    (hx : tonumber (.str pv) = .ok (.num x)) (hy : tonumber (.str a.ver) = .ok (.num y)) (hle : y ≤ x)
    (hoff : suppressedOffset hm = .ok (.num n)) :
    run (P4 sk mk rk a (.str ep)) s = (.ok (.tbl [.num n, .str ep, .str "0", .str "1"]), s) := by
  unfold HashAt at hk
  unfold suppressedOffset at hoff
  by_cases h0 : a.vep = ""
  · cases hve : hlookup hm "ve" <;> cases hs : hlookup hm "s" <;> simp [hs] at hoff <;>
    simp [P4, broker_history_add_stream_p4, run_bind, Lua.index, Lua.eq, Lua.truthy, Lua.ofBool, hver,
      callFn, argToString, exec_hmget3, hk, hv, hve, hs, optBulk, respToLua, respsToLua, mkTable, hx, hy, Lua.le,
      hle, h0, hoff]
  · have hve : hlookup hm "ve" = some a.vep := by rcases hep with h1 | h1; exact absurd h1 h0; exact h1
    have hb : (a.vep == "") = false := by simp [h0]
    cases hs : hlookup hm "s" <;> simp [hs] at hoff <;>
    simp [P4, broker_history_add_stream_p4, run_bind, Lua.index, Lua.eq, Lua.truthy, Lua.ofBool, hver,
      callFn, argToString, exec_hmget3, hk, hv, hve, hs, optBulk, respToLua, respsToLua, mkTable, hx, hy, Lua.le,
      hle, hb, hoff]

/-! ### the store path: what a stored publication is answered with -/

/-- whenever `m` finishes without a Lua error, its value is `v` -/
def OkRet (m : RedisM LVal) (v : LVal) : Prop := ∀ s r s', run m s = (.ok r, s') → r = v

theorem okret_bind {α : Type} {m : RedisM α} {f : α → RedisM LVal} {v : LVal}
    (h : ∀ x, OkRet (f x) v) : OkRet (m >>= f) v := by
  intro s r s' hr
  rw [run_bind] at hr
  rcases hm : run m s with ⟨(e | x), s1⟩
  · simp [hm] at hr
  · simp [hm] at hr; exact h x s1 r s' hr

theorem okret_ite {c : Prop} [Decidable c] {a b : RedisM LVal} {v : LVal}
    (ha : OkRet a v) (hb : OkRet b v) : OkRet (if c then a else b) v := by
  split <;> assumption

theorem okret_pure (v : LVal) : OkRet (pure v) v := by
  intro s r s' h; simp at h; exact h.1.symm

/-- the reply of a stored publication -/
def storedReply (top ep : LVal) : LVal := .tbl [top, ep, .str "0", .str "0"]

abbrev Q (p : LVal → LVal → LVal → LVal → LVal → LVal → LVal → LVal → LVal → LVal → LVal → LVal → LVal → LVal →
    LVal → LVal → LVal → LVal → LVal → RedisM LVal) (sk mk rk : String) (a : AddArgs) (ep top prev : LVal) : RedisM LVal :=
  p (keysT sk mk rk) a.argv (.str sk) (.str mk) (.str rk) (.str a.payload) (.str a.size)
    (.str a.ttl) (.str a.chan) (.str a.metaExp) (.str a.fresh) (.str a.pcmd) (.str a.rexp) (.str a.delta)
    (.str a.ver) (.str a.vep) ep top prev

theorem p13_ok (sk mk rk : String) (a : AddArgs) (ep : String) (n : Int) (prev : LVal) :
    OkRet (Q broker_history_add_stream_p13 sk mk rk a (.str ep) (.num n) prev) (storedReply (.num n) (.str ep)) := by
  intro s r s' h
  simp [Q, broker_history_add_stream_p13, run_bind, mkTable] at h
  exact h.1.symm

theorem p12_ok (sk mk rk : String) (a : AddArgs) (ep : String) (n : Int) (prev : LVal) :
    OkRet (Q broker_history_add_stream_p12 sk mk rk a (.str ep) (.num n) prev) (storedReply (.num n) (.str ep)) := by
  unfold Q broker_history_add_stream_p12
  dsimp only
  apply okret_ite
  · apply okret_bind; intro _; apply okret_bind; intro _; exact p13_ok sk mk rk a ep n prev
  · exact p13_ok sk mk rk a ep n prev

macro "okret_auto " t:term : tactic =>
  `(tactic| ((try dsimp only); repeat (first | exact $t | apply okret_ite | (apply okret_bind; intro _; try dsimp only))))

theorem p11_ok (sk mk rk : String) (a : AddArgs) (ep : String) (n : Int) (prev : LVal) :
    OkRet (Q broker_history_add_stream_p11 sk mk rk a (.str ep) (.num n) prev) (storedReply (.num n) (.str ep)) := by
  unfold Q broker_history_add_stream_p11
  okret_auto (p12_ok sk mk rk a ep n prev)

theorem p10_ok (sk mk rk : String) (a : AddArgs) (ep : String) (n : Int) (prev : LVal) :
    OkRet (Q broker_history_add_stream_p10 sk mk rk a (.str ep) (.num n) prev) (storedReply (.num n) (.str ep)) := by
  unfold Q broker_history_add_stream_p10
  okret_auto (p11_ok sk mk rk a ep n prev)

theorem p9_ok (sk mk rk : String) (a : AddArgs) (ep : String) (n : Int) (prev : LVal) :
    OkRet (Q broker_history_add_stream_p9 sk mk rk a (.str ep) (.num n) prev) (storedReply (.num n) (.str ep)) := by
  unfold Q broker_history_add_stream_p9
  dsimp only
  apply okret_ite
  · apply okret_bind; intro _; exact p10_ok sk mk rk a ep n (.str "")
  · exact p10_ok sk mk rk a ep n prev


theorem p8_ok (sk mk rk : String) (a : AddArgs) (ep : String) (n : Int) (prev : LVal) :
    OkRet (Q broker_history_add_stream_p8 sk mk rk a (.str ep) (.num n) prev) (storedReply (.num n) (.str ep)) := by
  unfold Q broker_history_add_stream_p8
  dsimp only
  apply okret_bind; intro t2
  apply okret_ite
  · apply okret_bind; intro t4
    apply okret_bind; intro t5
    apply okret_bind; intro t6
    apply okret_ite
    · apply okret_bind; intro t7
      apply okret_bind; intro t8
      apply okret_bind; intro t9
      apply okret_bind; intro t10
      apply okret_bind; intro t11
      apply okret_bind; intro t12
      apply okret_bind; intro t13
      apply okret_bind; intro prev'
      exact p9_ok sk mk rk a ep n prev'
    · exact p9_ok sk mk rk a ep n prev
  · exact p9_ok sk mk rk a ep n prev

/-- parts 6 and 7 (meta `EXPIRE`, initial previous payload) -/
theorem p7_ok (sk mk rk : String) (a : AddArgs) (ep : String) (n : Int) :
    OkRet (broker_history_add_stream_p7 (keysT sk mk rk) a.argv (.str sk) (.str mk) (.str rk) (.str a.payload)
      (.str a.size) (.str a.ttl) (.str a.chan) (.str a.metaExp) (.str a.fresh) (.str a.pcmd) (.str a.rexp)
      (.str a.delta) (.str a.ver) (.str a.vep) (.str ep) (.num n)) (storedReply (.num n) (.str ep)) := by
  unfold broker_history_add_stream_p7
  exact p8_ok sk mk rk a ep n (.str "")

theorem p6_ok (sk mk rk : String) (a : AddArgs) (ep : String) (n : Int) :
    OkRet (broker_history_add_stream_p6 (keysT sk mk rk) a.argv (.str sk) (.str mk) (.str rk) (.str a.payload)
      (.str a.size) (.str a.ttl) (.str a.chan) (.str a.metaExp) (.str a.fresh) (.str a.pcmd) (.str a.rexp)
      (.str a.delta) (.str a.ver) (.str a.vep) (.str ep) (.num n)) (storedReply (.num n) (.str ep)) := by
  unfold broker_history_add_stream_p6
  dsimp only
  apply okret_ite
  · apply okret_bind; intro _; exact p7_ok sk mk rk a ep n
  · exact p7_ok sk mk rk a ep n

theorem round53_of_lt (i : Int) (h : i.natAbs < 2 ^ 53) : round53 i = i := by
  unfold round53
  have hb : (if i.natAbs = 0 then 0 else i.natAbs.log2 + 1) ≤ 53 := by
    split
    · omega
    · rename_i h0
      have := (Nat.log2_lt h0).2 h
      omega
  simp only [hb, ↓reduceIte]

/-- `tonumber`-free reading of the meta hash's `s` field as HINCRBY sees it -/
def curOffset (hm : List (String × String)) : Option Int :=
  match hlookup hm "s" with
  | none => some 0
  | some x => parseDecInt x

/-- Part 5 (HINCRBY) and everything after it: a stored publication is answered with the old offset + 1 and
the epoch the earlier parts determined — provided the script does not abort with a Lua/Redis error. -/
theorem p5_ok (sk mk rk : String) (a : AddArgs) (s : Redis) (hm : List (String × String)) (ep : String) (c : Int)
    (hk : HashAt s mk hm) (hc : curOffset hm = some c) (hsmall : (c + 1).natAbs < 2 ^ 53)
    (r : LVal) (s' : Redis) (hrun : run (P5 sk mk rk a (.str ep)) s = (.ok r, s')) :
    r = storedReply (.num (c + 1)) (.str ep) := by
  unfold HashAt at hk
  unfold curOffset at hc
  have hr53 : round53 (c + 1) = c + 1 := round53_of_lt _ hsmall
  unfold P5 broker_history_add_stream_p5 at hrun
  rw [run_bind] at hrun
  have h1 : numToArg 1 = "1" := by decide
  have h2 : parseDecInt "1" = some 1 := by decide
  have hov : ¬ (c + 1 > 9223372036854775807 ∨ c + 1 < -9223372036854775808) := by omega
  cases hs : hlookup hm "s" with
  | none =>
    simp [hs] at hc
    subst hc
    simp [callFn, argToString, exec_hincrby, parseInt, h1, h2, hk, hs, respToLua] at hrun
    exact p6_ok sk mk rk a ep 1 _ _ _ hrun
  | some x =>
    simp [hs] at hc
    simp [callFn, argToString, exec_hincrby, parseInt, h1, h2, hk, hs, hc, hov, respToLua, hr53] at hrun
    exact p6_ok sk mk rk a ep (c + 1) _ _ _ hrun

end CentrifugeVerif.AddStream
