/-!
# Specification of the Redis Cluster key → slot mapping (independent of the Go code)

* `crc16` — CRC-16/XMODEM (polynomial 0x1021, initial value 0, no reflection, no final xor),
  written bit by bit exactly as the standard defines it (Redis Cluster spec, appendix A).
* `hashTag` — the hash-tag rule of `keyHashSlot`: if the key contains a `{` and, to its right,
  a `}` with at least one byte in between, only the bytes between the **first** `{` and the
  **first following** `}` are hashed; otherwise the whole key.
* `slot key = crc16 (hashTag key) mod 16384`.
Core Lean only; all arithmetic on `Nat` with explicit 16-bit masks.
-/
namespace CentrifugeVerif.Spec.RedisSlot

abbrev Bytes := List UInt8

/-- one shift of the CRC register: shift left, xor the polynomial in when the bit shifted out is 1 -/
def crcStep (c : Nat) : Nat :=
  ((c <<< 1) ^^^ (if c &&& 0x8000 = 0 then 0 else 0x1021)) &&& 0xFFFF

def crcStep8 (c : Nat) : Nat :=
  crcStep (crcStep (crcStep (crcStep (crcStep (crcStep (crcStep (crcStep c)))))))

/-- feed one byte: xor it into the high byte of the register, then eight shifts -/
def crcByte (c : Nat) (b : UInt8) : Nat := crcStep8 (c ^^^ (b.toNat <<< 8))

def crc16 (bs : Bytes) : Nat := bs.foldl crcByte 0

def indexOf (c : UInt8) : Bytes → Option Nat
  | [] => none
  | b :: bs => if b = c then some 0 else (indexOf c bs).map (· + 1)

def hashTag (key : Bytes) : Bytes :=
  match indexOf 123 key with
  | none => key
  | some s =>
    let after := key.drop (s + 1)
    match indexOf 125 after with
    | none => key
    | some 0 => key
    | some e => after.take e

def totalSlots : Nat := 16384

def slot (key : Bytes) : Nat := crc16 (hashTag key) % totalSlots

end CentrifugeVerif.Spec.RedisSlot
