import CentrifugeVerif.Model.MapHub
/-!
# RefMap — the reference map of C20

The specification side of "the in-memory map broker behaves like the reference map".  A reference channel is
just `(epoch, top, stream, key ↦ entry)`; there is no heap, no `keyExpires`, no `scores`, no `ordered` flag,
no `sortedKeys`.  The reference map is the *fold of the unsuppressed operations*:

* `verdict` — is the publish suppressed, and why: the **first failing check in the order
  version → key mode → compare-and-swap** (`checkVersion <|> checkKeyMode <|> checkCAS`);
* a suppressed operation changes nothing (a missing channel may come into existence, empty, with a fresh
  epoch; `if_new` + `RefreshTTLOnSuppress` moves the deadline of the existing entry — the one documented
  effect), appends nothing, broadcasts nothing;
* an unsuppressed operation of a stream-backed channel appends exactly one entry with offset `top + 1`
  (`append`), stores / deletes the key, and is broadcast once with that offset.

`Proofs/MapHubRefine.lean` proves that `MapHub.step` refines `RefMap.step` under the abstraction `abs`
(forget heap, deadlines table, scores, ordered flag) for publish / remove / clear / read-stream / single-key
and position-only read-state.  Core Lean only.
-/
namespace CentrifugeVerif.RefMap
open CentrifugeVerif.MapHub

structure RChan where
  epoch : Nat
  top : Nat
  stream : List Pub
  state : List (Key × Entry)
deriving Repr, DecidableEq, Inhabited

structure RefMap where
  chans : List (Nat × RChan)
  /-- idempotency results: (channel, idempotency key) ↦ (position, expireAt) -/
  cache : List ((Nat × Nat) × (Pos × Nat))
  nextEpoch : Nat
deriving Repr, DecidableEq, Inhabited

def RChan.pos (c : RChan) : Pos := ⟨c.top, c.epoch⟩
def RChan.fresh (epoch : Nat) : RChan := ⟨epoch, 0, [], []⟩

/-! ### the three checks (each returns the reason when it fails) -/

/-- 1. version: only stream-backed channels, non-empty key, `Version > 0`, an existing entry whose version
epoch is comparable (request epoch empty or equal) and whose version is not older. -/
def checkVersion (cfg : Cfg) (c : RChan) (key : Key) (o : PubOpts) : Option Suppress :=
  match aget c.state key with
  | some e =>
    if cfg.hasStream = true ∧ key ≠ [] ∧ 0 < o.version ∧ (o.vepoch = 0 ∨ o.vepoch = e.vepoch) ∧ o.version ≤ e.version
    then some .version else none
  | none => none

/-- 2. key mode. -/
def checkKeyMode (c : RChan) (key : Key) (o : PubOpts) : Option Suppress :=
  if key = [] then none else
  match o.mode, aget c.state key with
  | .ifNew, some _ => some .keyExists
  | .ifExists, none => some .keyNotFound
  | _, _ => none

/-- 3. compare-and-swap: the key's stored offset and the channel epoch must both match. -/
def checkCAS (c : RChan) (key : Key) (cas : Option Pos) : Option Suppress :=
  match cas with
  | none => none
  | some exp =>
    match aget c.state key with
    | some e => if e.pub.offset = exp.offset ∧ c.epoch = exp.epoch then none else some .positionMismatch
    | none => some .positionMismatch

/-- the first failing check in the canonical order version → key mode → CAS (`.none` = not suppressed).
The empty key skips all three. -/
def verdict (cfg : Cfg) (c : RChan) (key : Key) (o : PubOpts) : Suppress :=
  match checkVersion cfg c key o with
  | some r => r
  | none =>
    match checkKeyMode c key o with
    | some r => r
    | none =>
      match (if key = [] then none else checkCAS c key o.cas) with
      | some r => r
      | none => .none

/-! ### effects -/

/-- append exactly one entry: offset `top + 1`, then trim the front to `size`. -/
def append (c : RChan) (p : Pub) (size : Nat) : RChan × Pub :=
  let p' := { p with offset := c.top + 1 }
  ({ c with top := c.top + 1, stream := (c.stream ++ [p']).drop ((c.stream ++ [p']).length - size) }, p')

/-- the effect of an unsuppressed publish on a channel; returns the broadcast publication. -/
def applyPub (cfg : Cfg) (c : RChan) (now : Nat) (key : Key) (o : PubOpts) : RChan × Pub :=
  let pub0 : Pub := { key := key, data := o.data, tag := o.tag, score := o.score, offset := 0,
                      removed := false, time := now }
  let r : RChan × Pub :=
    if cfg.hasStream then append c pub0 cfg.streamSize
    else (c, if key = [] then pub0 else { pub0 with offset := c.top })
  if key = [] then r
  else
    let ve : Nat × Nat :=
      if o.version = 0 then
        match aget c.state key with
        | some e => (e.version, e.vepoch)      -- an unversioned publish keeps the stored version
        | none => (o.version, o.vepoch)
      else (o.version, o.vepoch)
    let entry : Entry := { pub := r.2, score := o.score, expireAt := if cfg.keyTTL > 0 then now + cfg.keyTTL else 0,
                           version := ve.1, vepoch := ve.2 }
    ({ r.1 with state := aset r.1.state key entry }, r.2)

def cacheGet (m : RefMap) (now ch idem : Nat) : Option Pos :=
  match aget m.cache (ch, idem) with
  | some (p, exp) => if exp ≤ now then none else some p
  | none => none

def cachePut (m : RefMap) (now ch idem : Nat) (p : Pos) (ittl : Nat) : RefMap :=
  { m with cache := aset m.cache (ch, idem) (p, now + (if ittl ≠ 0 then ittl else 300000)) }

/-- reference `Publish`. -/
def publish (rc : RawCfg) (m : RefMap) (now ch : Nat) (key : Key) (o : PubOpts) : RefMap × MOut :=
  match resolve rc with
  | none => (m, ⟨.err .config, []⟩)
  | some cfg =>
    if cfg.isEphemeral && o.cas.isSome then (m, ⟨.err .casEphemeral, []⟩)
    else if cfg.isEphemeral && decide (o.version > 0) then (m, ⟨.err .versionEphemeral, []⟩)
    else
    match (if o.idem ≠ 0 then cacheGet m now ch o.idem else none) with
    | some p => (m, ⟨.update p .idempotency none, []⟩)
    | none =>
      -- a missing channel comes into existence (empty, fresh epoch) whatever the outcome
      let mc : RefMap × RChan :=
        match aget m.chans ch with
        | some c => (m, c)
        | none => ({ m with chans := aset m.chans ch (RChan.fresh m.nextEpoch), nextEpoch := m.nextEpoch + 1 },
                   RChan.fresh m.nextEpoch)
      let m1 := mc.1
      let c := mc.2
      match verdict cfg c key o with
      | .none =>
        let r := applyPub cfg c now key o
        let prev := if o.delta && key != [] then (aget c.state key).map (·.pub) else none
        let m2 := { m1 with chans := aset m1.chans ch r.1 }
        let m3 := if o.idem ≠ 0 then cachePut m2 now ch o.idem r.1.pos o.ittl else m2
        (m3, ⟨.update r.1.pos .none none, [⟨ch, r.2, r.1.pos, o.delta, prev⟩]⟩)
      | .keyExists =>
        -- the documented effect of a suppressed publish: the deadline of the existing entry moves
        let m2 :=
          if o.refresh && decide (cfg.keyTTL > 0) then
            match aget c.state key with
            | some e => { m1 with chans := aset m1.chans ch { c with state := aset c.state key { e with expireAt := now + cfg.keyTTL } } }
            | none => m1
          else m1
        (m2, ⟨.update c.pos .keyExists none, []⟩)
      | .positionMismatch =>
        (m1, ⟨.update c.pos .positionMismatch ((aget c.state key).map (fun e => (e.pub.offset, e.pub.data))), []⟩)
      | r => (m1, ⟨.update c.pos r none, []⟩)

/-- reference `Remove` (CAS is checked before key existence). -/
def remove (rc : RawCfg) (m : RefMap) (now ch : Nat) (key : Key) (o : RmOpts) : RefMap × MOut :=
  match resolve rc with
  | none => (m, ⟨.err .config, []⟩)
  | some cfg =>
    if cfg.isEphemeral && o.cas.isSome then (m, ⟨.err .casEphemeral, []⟩)
    else
    match (if o.idem ≠ 0 then cacheGet m now ch o.idem else none) with
    | some p => (m, ⟨.update p .idempotency none, []⟩)
    | none =>
      match aget m.chans ch with
      | none =>
        (m, ⟨.update ⟨0, 0⟩ (if o.cas.isSome then .positionMismatch else .keyNotFound) none, []⟩)
      | some c =>
        match checkCAS c key o.cas with
        | some _ =>
          (m, ⟨.update c.pos .positionMismatch ((aget c.state key).map (fun e => (e.pub.offset, e.pub.data))), []⟩)
        | none =>
          match aget c.state key with
          | none => (m, ⟨.update c.pos .keyNotFound none, []⟩)
          | some e =>
            let pub0 : Pub := { key := key, data := 0, tag := if o.tag ≠ 0 then o.tag else e.pub.tag, score := 0,
                                offset := 0, removed := true, time := now }
            let c1 : RChan := { c with state := adel c.state key }
            let r : RChan × Pub := if cfg.hasStream then append c1 pub0 cfg.streamSize else (c1, pub0)
            let m2 := { m with chans := aset m.chans ch r.1 }
            let m3 := if o.idem ≠ 0 then cachePut m2 now ch o.idem r.1.pos o.ittl else m2
            (m3, ⟨.update r.1.pos .none none, [⟨ch, r.2, r.1.pos, false, none⟩]⟩)

/-- reference `Clear`. -/
def clear (m : RefMap) (ch : Nat) : RefMap :=
  { m with chans := adel m.chans ch, cache := m.cache.filter (fun e => e.1.1 != ch) }

/-- a read of a missing channel brings it into existence (empty, fresh epoch). -/
def touch (m : RefMap) (ch : Nat) : RefMap × RChan :=
  match aget m.chans ch with
  | some c => (m, c)
  | none => ({ m with chans := aset m.chans ch (RChan.fresh m.nextEpoch), nextEpoch := m.nextEpoch + 1 },
             RChan.fresh m.nextEpoch)

/-- reference `ReadStream`. -/
def readStream (m : RefMap) (ch : Nat) (o : StreamOpts) : RefMap × MOut :=
  match aget m.chans ch with
  | none => ((touch m ch).1, ⟨.stream [] (touch m ch).2.pos, []⟩)
  | some c =>
    let s : Stream := ⟨c.top, c.stream, c.epoch⟩
    match o.since with
    | none =>
      if o.limit = 0 then (m, ⟨.stream [] c.pos, []⟩)
      else (m, ⟨.stream (s.get 0 false o.limit o.reverse) c.pos, []⟩)
    | some sn =>
      if sn.epoch ≠ 0 ∧ sn.epoch ≠ c.epoch then (m, ⟨.err .unrecoverable, []⟩)
      else if !o.reverse && c.top == sn.offset then (m, ⟨.stream [] c.pos, []⟩)
      else
        let off := if o.reverse then (if sn.offset = 0 then 2 ^ 64 - 1 else sn.offset - 1) else sn.offset + 1
        (m, ⟨.stream (s.get off true o.limit o.reverse) c.pos, []⟩)

/-- reference `ReadState` for a single key (`o.key ≠ []`) or the position only (`o.limit = 0`). -/
def readKey (rc : RawCfg) (m : RefMap) (ch : Nat) (o : StateOpts) (ordered : Bool) : RefMap × MOut :=
  match resolve rc with
  | none => (m, ⟨.err .config, []⟩)
  | some _ =>
    match aget m.chans ch with
    | none =>
      let t := touch m ch
      match o.rev with
      | some rv => if rv.epoch ≠ 0 then (t.1, ⟨.stateErr t.2.pos, []⟩) else (t.1, ⟨.state [] t.2.pos none false, []⟩)
      | none => (t.1, ⟨.state [] t.2.pos none false, []⟩)
    | some c =>
      if (match o.rev with | some rv => decide (c.epoch ≠ rv.epoch) | none => false) then (m, ⟨.stateErr c.pos, []⟩)
      else if o.key != [] then
        match aget c.state o.key with
        | none => (m, ⟨.state [] c.pos none ordered, []⟩)
        | some e => (m, ⟨.state [e.pub] c.pos none ordered, []⟩)
      else (m, ⟨.state [] c.pos none ordered, []⟩)

/-- the operations covered by the reference step. -/
def Supported : MOp → Prop
  | .publish _ _ _ => True
  | .remove _ _ _ => True
  | .clear _ => True
  | .readStream _ _ => True
  | .readState _ o => o.key ≠ [] ∨ o.limit = 0
  | .sweep => False

/-- the reference map as a state machine (`ordered` only labels the reply of a read, it is the channel's
current flag in the implementation). -/
def step (cfg : Nat → RawCfg) (ordered : Nat → Bool) (m : RefMap) (now : Nat) : MOp → RefMap × MOut
  | .publish ch key o => publish (cfg ch) m now ch key o
  | .remove ch key o => remove (cfg ch) m now ch key o
  | .clear ch => (clear m ch, ⟨.done, []⟩)
  | .readStream ch o => readStream m ch o
  | .readState ch o => readKey (cfg ch) m ch o (ordered ch)
  | .sweep => (m, ⟨.done, []⟩)

end CentrifugeVerif.RefMap
