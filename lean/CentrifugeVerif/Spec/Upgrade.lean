import CentrifugeVerif.Model.Handshake
/-
Specification side of C31: what RFC 6455 §4.2.1 / RFC 7230 §7 require of an opening handshake,
stated declaratively (no scanner): a header field "contains the token v" when one of its lines,
split at commas, has an element `OWS token OWS` whose token equals `v` ignoring ASCII case.
The character classes are RFC 7230's `tchar` and `OWS`; `tchar_table` / `ows_table` below check the
Go tables (`isTokenOctet`, `skipSpace`) against them for all 256 octets, `foldEq_iff` characterises
`equalASCIIFold`.
-/
namespace CentrifugeVerif.UpgradeSpec
open CentrifugeVerif.Sha1 (Bytes ascii)
open CentrifugeVerif.Handshake

/-- RFC 7230 §3.2.6: tchar = "!" / "#" / "$" / "%" / "&" / "'" / "*" / "+" / "-" / "." / "^" / "_" /
"`" / "|" / "~" / DIGIT / ALPHA -/
def tcharList : Bytes :=
  ascii "!#$%&'*+-.^_`|~0123456789ABCDEFGHIJKLMNOPQRSTUVWXYZabcdefghijklmnopqrstuvwxyz"

theorem tchar_table_nat : ∀ n < 256, isTokenOctet (UInt8.ofNat n) = tcharList.contains (UInt8.ofNat n) := by
  decide +kernel

/-- the Go table `isTokenOctet` is exactly RFC 7230 `tchar`, for every octet -/
theorem tchar_table (c : UInt8) : isTokenOctet c = tcharList.contains c := by
  have h := tchar_table_nat c.toNat (by have := c.toNat_lt; omega)
  simpa using h

/-- `skipSpace` skips exactly OWS = SP / HTAB -/
theorem ows_table (c : UInt8) : isLWS c = true ↔ c = 32 ∨ c = 9 := by
  simp [isLWS]

/-- `equalASCIIFold` is equality after mapping `A`–`Z` to `a`–`z` -/
theorem foldEq_iff (a b : Bytes) : foldEq a b = true ↔ a.map lower = b.map lower := by
  induction a generalizing b with
  | nil => cases b <;> simp [foldEq]
  | cons x xs ih =>
    cases b with
    | nil => simp [foldEq]
    | cons y ys =>
      simp only [foldEq, Bool.and_eq_true, Bool.or_eq_true, beq_iff_eq, ih, List.map_cons, List.cons.injEq]
      constructor
      · rintro ⟨h | h, h2⟩
        · subst h; exact ⟨rfl, h2⟩
        · exact ⟨h, h2⟩
      · rintro ⟨h1, h2⟩; exact ⟨Or.inr h1, h2⟩

/-- optional white space of RFC 7230: SP / HTAB -/
def IsOWS (ws : Bytes) : Prop := ∀ c ∈ ws, isLWS c = true
/-- RFC 7230 `token` = 1*tchar -/
def IsToken (t : Bytes) : Prop := t ≠ [] ∧ ∀ c ∈ t, isTokenOctet c = true
/-- `e` is a list element `OWS token OWS` whose token is `t` -/
def IsElem (e t : Bytes) : Prop := ∃ ws1 ws2, e = ws1 ++ t ++ ws2 ∧ IsOWS ws1 ∧ IsOWS ws2 ∧ IsToken t
/-- the field value is a well-formed `1#token` list -/
def WellFormedList (l : Bytes) : Prop := ∀ e ∈ splitComma l, ∃ t, IsElem e t
/-- some element of the comma separated list is a token equal to `v` up to ASCII case -/
def ListHas (l v : Bytes) : Prop := ∃ e ∈ splitComma l, ∃ t, IsElem e t ∧ foldEq t v = true
/-- … in some line of the (possibly repeated) header field -/
def HeaderHas (lines : List Bytes) (v : Bytes) : Prop := ∃ l ∈ lines, ListHas l v

end CentrifugeVerif.UpgradeSpec
