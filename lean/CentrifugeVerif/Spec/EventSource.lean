/-
Client-side decoders a standards-conforming consumer applies to the response bodies of C32.
Core Lean only; everything is on bytes.

* `EventSource.parse` — the WHATWG HTML "server-sent events" event-stream interpretation
  (§9.2.5/9.2.6): optional BOM, lines ended by CRLF, LF or CR, comment lines, `field: value` with
  one optional space stripped, `data` (joined with LF), `event`, `id` (ignored when it contains
  NUL), `retry`/unknown fields (no effect on what is dispatched), dispatch on an empty line, no
  dispatch when the data buffer is empty, incomplete trailing event discarded.
  The UTF-8 decoding step of the standard is the identity on well-formed UTF-8, which is all the JSON
  protocol produces; it is not modelled.
* `Lines.split` — newline-delimited records (the JSON HTTP-stream): records are ended by LF, a
  trailing unterminated record is incomplete and not delivered.
* `Varint.decodeFrames` — Protobuf HTTP-stream: base-128 varint length prefix, then that many bytes.
-/
namespace CentrifugeVerif.EventSource

abbrev Bytes := List UInt8

def ascii (s : String) : Bytes := s.toList.map (fun c => UInt8.ofNat c.toNat)

structure Event where
  /-- event type buffer (`[]` = the default type `message`) -/
  type : Bytes
  data : Bytes
  lastEventId : Bytes
deriving Repr, DecidableEq

structure St where
  /-- bytes of the current line, reversed -/
  line : Bytes := []
  /-- data buffer, reversed -/
  data : Bytes := []
  etype : Bytes := []
  lastId : Bytes := []
  /-- dispatched events, reversed -/
  out : List Event := []
  /-- the previous byte was CR (a directly following LF belongs to the same line end) -/
  skipLF : Bool := false
deriving Repr, DecidableEq

/-- split a line at its first colon: field name and, if there was a colon, the rest -/
def splitColon : Bytes → Bytes × Option Bytes
  | [] => ([], none)
  | c :: cs =>
    if c == 58 then ([], some cs)
    else let r := splitColon cs; (c :: r.1, r.2)

def stripSpace (v : Bytes) : Bytes :=
  match v with
  | [] => []
  | c :: cs => if c == 32 then cs else c :: cs

def processField (st : St) (field value : Bytes) : St :=
  if field == ascii "data" then { st with data := 10 :: (value.reverse ++ st.data) }
  else if field == ascii "event" then { st with etype := value }
  else if field == ascii "id" then (if value.contains 0 then st else { st with lastId := value })
  else st

def dispatch (st : St) : St :=
  match st.data with
  | [] => { st with etype := [] }
  | d :: ds =>
    let data := if d == 10 then ds else d :: ds
    { st with out := { type := st.etype, data := data.reverse, lastEventId := st.lastId } :: st.out,
              data := [], etype := [] }

def processLine (st : St) : St :=
  let line := st.line.reverse
  let st := { st with line := [] }
  match line with
  | [] => dispatch st
  | c :: _ =>
    if c == 58 then st
    else
      let r := splitColon line
      match r.2 with
      | none => processField st line []
      | some v => processField st r.1 (stripSpace v)

def step (st : St) (b : UInt8) : St :=
  if b == 10 then (if st.skipLF then { st with skipLF := false } else processLine st)
  else if b == 13 then { processLine { st with skipLF := false } with skipLF := true }
  else { st with line := b :: st.line, skipLF := false }

def stripBOM (body : Bytes) : Bytes :=
  match body with
  | 0xEF :: 0xBB :: 0xBF :: rest => rest
  | _ => body

/-- the events a conforming EventSource client dispatches for a complete response body -/
def parse (body : Bytes) : List Event := ((stripBOM body).foldl step {}).out.reverse

end CentrifugeVerif.EventSource

namespace CentrifugeVerif.Lines
open CentrifugeVerif.EventSource (Bytes)

/-- LF-terminated records (`acc` = current record reversed) -/
def splitAcc : Bytes → Bytes → List Bytes
  | [], _ => []
  | b :: bs, acc => if b == 10 then acc.reverse :: splitAcc bs [] else splitAcc bs (b :: acc)

def split (body : Bytes) : List Bytes := splitAcc body []

end CentrifugeVerif.Lines

namespace CentrifugeVerif.Varint
open CentrifugeVerif.EventSource (Bytes)

/-- base-128 varint reader: value and rest, `none` when the input ends inside the varint.
`mult` = 128^(bytes read so far). -/
def readUvarint : Bytes → Nat → Nat → Option (Nat × Bytes)
  | [], _, _ => none
  | b :: bs, mult, acc =>
    if b.toNat < 128 then some (acc + b.toNat * mult, bs)
    else readUvarint bs (mult * 128) (acc + (b.toNat - 128) * mult)

/-- length-prefixed frames; `none` = truncated / malformed stream -/
def decodeFramesAux : Nat → Bytes → Option (List Bytes)
  | _, [] => some []
  | 0, _ :: _ => none
  | f + 1, b :: bs =>
    match readUvarint (b :: bs) 1 0 with
    | none => none
    | some (n, rest) =>
      if rest.length < n then none
      else (decodeFramesAux f (rest.drop n)).map (fun l => rest.take n :: l)

def decodeFrames (body : Bytes) : Option (List Bytes) := decodeFramesAux body.length body

end CentrifugeVerif.Varint
