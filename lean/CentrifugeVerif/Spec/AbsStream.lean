import CentrifugeVerif.Model.Stream
/-
Specification: a channel history is a **bounded append-only log with an epoch**.

An abstract channel is `(epoch, top, log)`: `log` holds the retained publications, oldest first;
their offsets are *implicit* — the last one has offset `top`, the one before `top − 1`, … — so
"offsets start at 1 and grow by one per stored publication" and "the retained offsets are a
contiguous suffix" hold by construction.  Operations: `append` (bounded by `size`), `read` (a pure
filter), `clear` (drop the log, keep top and epoch); a channel that does not exist is created
on first use with a fresh epoch and top 0.  Time does not occur: expiry is the relation `Tick`
("each channel is kept, cleared, or dropped entirely").

Uses `Item`, `Pos`, `Filter`, `takeLim` from `Model/Stream.lean` as vocabulary only.
-/
namespace CentrifugeVerif.AbsStream
open CentrifugeVerif.MemStream

structure AbsChan (α : Type) where
  epoch : Nat
  top : Nat
  log : List α
deriving Repr, DecidableEq

variable {α : Type}

/-- the retained publications with their (implicit) offsets -/
def AbsChan.entries (c : AbsChan α) : List (Item α) :=
  List.zipWith (fun o v => { offset := o, value := v })
    (List.range' (c.top - c.log.length + 1) c.log.length) c.log

def AbsChan.pos (c : AbsChan α) : Pos := ⟨c.top, c.epoch⟩

/-- store one publication, keep at most `size` -/
def AbsChan.append (c : AbsChan α) (v : α) (size : Nat) : AbsChan α :=
  { c with top := c.top + 1, log := (c.log ++ [v]).drop ((c.log ++ [v]).length - size) }

def AbsChan.clear (c : AbsChan α) : AbsChan α := { c with log := [] }

/-- **history = the retained suffix filtered by since, limit and direction**:
no `since`: everything, oldest first (newest first when reversed);
forward `since p`: the entries with offset > `p.offset`;
reverse `since p`: the entries with offset < `p.offset`, newest first;
then at most `limit` of them (`limit < 0`: all). -/
def AbsChan.read (c : AbsChan α) (f : Filter) : List (Item α) :=
  match f.since with
  | none => takeLim f.limit (if f.reverse then c.entries.reverse else c.entries)
  | some p =>
    if f.reverse then takeLim f.limit (c.entries.filter (fun it => it.offset < p.offset)).reverse
    else takeLim f.limit (c.entries.filter (fun it => p.offset < it.offset))

structure Abs (α : Type) where
  chans : String → Option (AbsChan α)
  /-- the next fresh epoch -/
  nextEpoch : Nat

def Abs.setChan (a : Abs α) (ch : String) (c : Option (AbsChan α)) : Abs α :=
  { a with chans := fun x => if x = ch then c else a.chans x }

/-- the channel, created with a fresh epoch when missing -/
def Abs.ensure (a : Abs α) (ch : String) : Abs α × AbsChan α :=
  match a.chans ch with
  | some c => (a, c)
  | none =>
    let c : AbsChan α := ⟨a.nextEpoch, 0, []⟩
    ({ (a.setChan ch (some c)) with nextEpoch := a.nextEpoch + 1 }, c)

def Abs.append (a : Abs α) (ch : String) (v : α) (size : Nat) : Abs α × Pos :=
  let r := a.ensure ch
  let c := r.2.append v size
  (r.1.setChan ch (some c), c.pos)

def Abs.read (a : Abs α) (ch : String) (f : Filter) : Abs α × List (Item α) × Pos :=
  let r := a.ensure ch
  (r.1, r.2.read f, r.2.pos)

def Abs.clear (a : Abs α) (ch : String) : Abs α :=
  a.setChan ch ((a.chans ch).map AbsChan.clear)

/-- expiry: every channel is kept, cleared (data TTL) or dropped (meta TTL); no epoch is handed out -/
def Abs.Tick (a a' : Abs α) : Prop :=
  a'.nextEpoch = a.nextEpoch ∧
    ∀ ch, a'.chans ch = a.chans ch ∨ a'.chans ch = (a.chans ch).map AbsChan.clear ∨ a'.chans ch = none

/-- well-formedness of the abstract state: a log is never longer than `top`, epochs are positive,
already handed out, and pairwise distinct across channels -/
def Abs.Inv (a : Abs α) : Prop :=
  (∀ ch c, a.chans ch = some c → c.log.length ≤ c.top ∧ 1 ≤ c.epoch ∧ c.epoch < a.nextEpoch) ∧
  (∀ c1 c2 x y, c1 ≠ c2 → a.chans c1 = some x → a.chans c2 = some y → x.epoch ≠ y.epoch) ∧
  1 ≤ a.nextEpoch

end CentrifugeVerif.AbsStream
