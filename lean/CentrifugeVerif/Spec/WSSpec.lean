import CentrifugeVerif.Model.WS.Basic
/-!
# Receiver specification: RFC 6455 §5 (framing), §7.4 (close codes), RFC 7692 §6/§7.2.2

`decode cfg accept bytes` is the list of events a conforming receiver reports for the byte stream
`bytes` received so far.  It is written from the RFC text, frame by frame:

* §5.2  RSV2/RSV3 must be 0 (no extension defines them); RSV1 only when permessage-deflate is
        negotiated and — RFC 7692 §6 — only on the **first** frame of a data message ("An endpoint
        MUST NOT set the Per-Message Compressed bit of control frames and non-first fragments of
        a data message.  An endpoint receiving such a frame MUST Fail the WebSocket Connection");
* §5.2  opcodes 3–7 and 11–15 are reserved: fail;
* §5.5  control frames: FIN set, payload ≤ 125 (hence never an extended length form);
* §5.4  a continuation needs a started message, a new data frame must not start inside one;
        control frames may be interleaved;
* §5.1/§5.3  frames to a server are masked, frames to a client are not;
* §5.2  the 64-bit length has its most significant bit 0;
* §5.5.1 a Close body is empty or starts with a 2-byte status code; the reason is UTF-8;
* §7.4.1 the codes 1005, 1006, 1015 and everything below 1000 never appear on the wire;
* RFC 7692 §7.2.2: a compressed message is the concatenation of its fragments' payloads followed
  by `00 00 ff ff`, inflated.

Permissive where the RFC does not tell the receiver to fail: non-minimal length encodings of data
frames are accepted; which of the close codes the RFC leaves undefined (1004, 1012…1014, 1016…2999,
≥ 5000) are accepted is a parameter `accept` constrained by `CodePolicy`.

Out of scope (stated in the property meta): UTF-8 validity of *text messages* (§8.1) is left to
the application by this library, as in gorilla/websocket.

Truncation: the RFC does not say at which prefix a violation has to be noticed.  The specification
reports a violation as soon as the header field carrying it is complete (first two bytes, extended
length, masking key) and a payload once it is complete; a stream that ends earlier yields
`incomplete`.  Message size limits (RFC 6455 §10.4 allows them; 1009) are applied to the announced
payload lengths when a data frame header is complete.
-/
namespace CentrifugeVerif.WS.Spec
open CentrifugeVerif.WS

/-- §7.4.1: codes that MUST NOT be set in a Close frame. -/
def mustRejectCode (c : Nat) : Bool := c < 1000 || c == 1005 || c == 1006 || c == 1015

/-- §7.4.1 defined codes and the §7.4.2 library/private ranges: a receiver has to understand them. -/
def mustAcceptCode (c : Nat) : Bool :=
  (1000 ≤ c && c ≤ 1003) || (1007 ≤ c && c ≤ 1011) || (3000 ≤ c && c ≤ 4999)

/-- A close-code acceptance policy conforms when it respects both lists. -/
def CodePolicy (accept : Nat → Bool) : Prop :=
  ∀ c, (mustRejectCode c = true → accept c = false) ∧ (mustAcceptCode c = true → accept c = true)

/-- Relaxations of the receiver rules.  `Quirks.rfc` (none) is the specification; `Quirks.go` names
exactly the places where the Go reader is known to deviate (see `Props/C29.lean`): after the fixes
a4ffe486 and 13f4dfc8 in /repo only `msbAsTooBig` is left. -/
structure Quirks where
  /-- RSV1 is tolerated on control frames and continuation frames once permessage-deflate is
  negotiated (RFC 7692 §6 says fail) -/
  rsv1Anywhere : Bool
  /-- a Close frame with a 1-byte body is treated like an empty one (RFC 6455 §5.5.1 says fail) -/
  close1AsEmpty : Bool
  /-- a 64-bit length with the most significant bit set is reported as "too big" instead of as a
  protocol violation -/
  msbAsTooBig : Bool
deriving Repr, DecidableEq

def Quirks.rfc : Quirks := ⟨false, false, false⟩
def Quirks.go : Quirks := ⟨false, false, true⟩

/-- Violations visible in the first two header bytes. -/
def hdrViolation (q : Quirks) (cfg : Cfg) (inMsg : Bool) (h : Hdr) : Bool :=
  h.rsv2 || h.rsv3
  || (h.rsv1 && !(cfg.deflate && (isDataOp h.opcode || q.rsv1Anywhere)))
  || !(h.opcode == 0 || isDataOp h.opcode || isControlOp h.opcode)
  || (isControlOp h.opcode && (!h.fin || h.len7 > 125))
  || (h.opcode == 0 && !inMsg)
  || (isDataOp h.opcode && inMsg)
  || (h.masked != cfg.server)

/-- Extended payload length; `none` = more bytes needed. -/
def extLen (len7 : Nat) (bs : Bytes) : Option (Nat × Bytes) :=
  if len7 < 126 then some (len7, bs)
  else if len7 == 126 then
    if bs.length < 2 then none else some (beVal (bs.take 2), bs.drop 2)
  else
    if bs.length < 8 then none else some (beVal (bs.take 8), bs.drop 8)

/-- Masking key when present; `none` = more bytes needed. -/
def takeKey (masked : Bool) (bs : Bytes) : Option (Key × Bytes) :=
  if !masked then some (Key.zero, bs)
  else match bs with
    | a :: b :: c :: d :: r => some (⟨a, b, c, d⟩, r)
    | _ => none

/-- A complete data message is handed to the application (RFC 7692 §7.2.2 for compressed ones). -/
def deliver (cfg : Cfg) (typ : Nat) (compressed : Bool) (acc : Bytes) : Event :=
  if compressed then
    match cfg.inflate (acc ++ deflateTail) with
    | none => .badData
    | some out =>
      if cfg.inflatedLimit > 0 && out.length > cfg.inflatedLimit then .tooBig else .msg typ out
  else .msg typ acc

/-- §5.5.1 / §7.4: the event for a Close frame with (unmasked) body `p`. -/
def closeEvent (q : Quirks) (accept : Nat → Bool) (p : Bytes) : Event :=
  match p with
  | [] => .close 1005 []
  | [_] => if q.close1AsEmpty then .close 1005 [] else .protoError
  | a :: b :: reason =>
    let code := a.toNat * 256 + b.toNat
    if !accept code then .protoError
    else if !utf8Valid reason then .protoError
    else .close code reason

/-- the message size announced so far exceeds the limit (or the implementation bound 2^63-1) -/
def overLimit (cfg : Cfg) (total : Nat) : Bool :=
  (cfg.readLimit > 0 && total > cfg.readLimit) || total ≥ two63

def decodeQ (q : Quirks) (cfg : Cfg) (accept : Nat → Bool) : Nat → Option Frag → Bytes → List Event
  | 0, _, _ => [.incomplete]
  | fuel + 1, frag, b0 :: b1 :: r1 =>
    let h := parseHdr b0 b1
    if hdrViolation q cfg frag.isSome h then [.protoError] else
    match extLen h.len7 r1 with
    | none => [.incomplete]
    | some (len, r2) =>
      if len ≥ two63 then [if q.msbAsTooBig then .tooBig else .protoError] else
      match takeKey h.masked r2 with
      | none => [.incomplete]
      | some (key, r3) =>
        if isControlOp h.opcode then
          if r3.length < len then [.incomplete] else
          let p := xorMask key 0 (r3.take len)
          let rest := r3.drop len
          if h.opcode == 9 then .ping p :: decodeQ q cfg accept fuel frag rest
          else if h.opcode == 10 then .pong p :: decodeQ q cfg accept fuel frag rest
          else [closeEvent q accept p]
        else
          -- data frame: first frame of a message or a continuation
          let typ := match frag with | some f => f.typ | none => h.opcode
          let compressed := match frag with | some f => f.compressed | none => h.rsv1
          let acc := match frag with | some f => f.acc | none => []
          if overLimit cfg (acc.length + len) then [.tooBig] else
          if r3.length < len then [.incomplete] else
          let acc' := acc ++ xorMask key 0 (r3.take len)
          let rest := r3.drop len
          if h.fin then
            let e := deliver cfg typ compressed acc'
            if e.terminal then [e] else e :: decodeQ q cfg accept fuel none rest
          else decodeQ q cfg accept fuel (some ⟨typ, compressed, acc'⟩) rest
  | _ + 1, _, _ => [.incomplete]

/-- The events a conforming receiver reports for the bytes received so far. -/
def decode (cfg : Cfg) (accept : Nat → Bool) (bs : Bytes) : List Event :=
  decodeQ Quirks.rfc cfg accept (bs.length + 1) none bs

/-- The same with the relaxations `q` (used to describe how far the Go reader deviates). -/
def decodeWith (q : Quirks) (cfg : Cfg) (accept : Nat → Bool) (bs : Bytes) : List Event :=
  decodeQ q cfg accept (bs.length + 1) none bs

end CentrifugeVerif.WS.Spec
