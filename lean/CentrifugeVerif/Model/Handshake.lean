import CentrifugeVerif.Model.Base64
/-
Model of the WebSocket opening handshake of `internal/websocket`:
`util.go` (`skipSpace`, `nextToken`, `nextTokenOrQuoted`, `equalASCIIFold`,
`tokenListContainsValue`, `parseExtensions`, `isValidChallengeKey`, `computeAcceptKey`) and
`server.go` (`checkSameOrigin`, `selectSubprotocol`, `Upgrade`, the response written by
`upgradeH1` / the headers set by `upgradeH2`).  Core Lean only.

Inputs are what `Upgrade` reads from `*http.Request`: `ProtoMajor`, `Method`, `Host` and the header
map (keys already canonical, as `net/http` / `Header.Add` store them; the model keeps the lines in
arrival order, `header[name]` = all values of that name, `Get` = the first one).
Strings are Go strings, i.e. byte lists.

Outside the model (assumptions, see `props/C31/meta.json`):
* `url.Parse` of the `Origin` value is the standard library's; the request carries its result
  (`originHost = none` ⇔ parse error).  Hosts are compared bytewise with ASCII folding, which
  equals Go's rune-wise `equalASCIIFold` for valid UTF-8 (all tokens are ASCII anyway).
* `responseHeader = nil` (the only way `handler_websocket.go` calls `Upgrade`), the
  `ResponseWriter` is a `Hijacker`, the client sent no bytes after the request head, the network
  write of the response succeeds.
-/
namespace CentrifugeVerif.Handshake
open CentrifugeVerif.Sha1 (Bytes ascii sha1)
open CentrifugeVerif.Base64

/-! ### util.go -/

/-- `isTokenOctet` (RFC 2616 token characters). -/
def isTokenOctet (c : UInt8) : Bool :=
  let n := c.toNat
  (decide (48 ≤ n) && decide (n ≤ 57)) || (decide (65 ≤ n) && decide (n ≤ 90)) ||
  (decide (97 ≤ n) && decide (n ≤ 122)) ||
  n == 33 || n == 35 || n == 36 || n == 37 || n == 38 || n == 39 || n == 42 || n == 43 ||
  n == 45 || n == 46 || n == 94 || n == 95 || n == 96 || n == 124 || n == 126

def isLWS (c : UInt8) : Bool := c == 32 || c == 9

/-- `skipSpace` -/
def skipSpace : Bytes → Bytes
  | [] => []
  | c :: cs => if isLWS c then skipSpace cs else c :: cs

/-- `nextToken` -/
def nextToken : Bytes → Bytes × Bytes
  | [] => ([], [])
  | c :: cs => if isTokenOctet c then let (t, r) := nextToken cs; (c :: t, r) else ([], c :: cs)

def lower (c : UInt8) : UInt8 := if 65 ≤ c.toNat ∧ c.toNat ≤ 90 then c + 32 else c

/-- `equalASCIIFold` (bytewise; see header comment). -/
def foldEq : Bytes → Bytes → Bool
  | [], [] => true
  | a :: as, b :: bs => (a == b || lower a == lower b) && foldEq as bs
  | _, _ => false

/-- one header line of `tokenListContainsValue` (the inner `for`); `fuel` bounds the number of
list elements (each iteration consumes at least the comma). -/
def lineContains (value : Bytes) : Nat → Bytes → Bool
  | 0, _ => false
  | f + 1, s =>
    let (t, s1) := nextToken (skipSpace s)
    if t.isEmpty then false
    else
      let s2 := skipSpace s1
      match s2 with
      | [] => foldEq t value
      | c :: rest =>
        if c ≠ 44 then false
        else if foldEq t value then true
        else lineContains value f rest

/-- `tokenListContainsValue(header, name, value)` over the values of that name. -/
def tokenListContains (lines : List Bytes) (value : Bytes) : Bool :=
  lines.any (fun s => lineContains value (s.length + 1) s)

/-- the escaped part of `nextTokenOrQuoted` after the first backslash (`p` collected reversed). -/
def quotedEsc : Bytes → Bool → Bytes → Bytes × Bytes
  | [], _, _ => ([], [])
  | b :: bs, escape, acc =>
    if escape then quotedEsc bs false (b :: acc)
    else if b == 92 then quotedEsc bs true acc
    else if b == 34 then (acc.reverse, bs)
    else quotedEsc bs false (b :: acc)

/-- the quoted-string part of `nextTokenOrQuoted` after the opening quote. -/
def quoted : Bytes → Bytes → Bytes × Bytes
  | [], _ => ([], [])
  | b :: bs, acc =>
    if b == 34 then (acc.reverse, bs)
    else if b == 92 then quotedEsc bs true acc
    else quoted bs (b :: acc)

/-- `nextTokenOrQuoted` -/
def nextTokenOrQuoted (s : Bytes) : Bytes × Bytes :=
  match s with
  | 34 :: rest => quoted rest []
  | _ => nextToken s

/-- an extension: its token and its parameters (in order; a Go map, so a later duplicate key
overrides an earlier one — only the name is ever read by `Upgrade`). -/
structure Ext where
  name : Bytes
  params : List (Bytes × Bytes)
deriving Repr, DecidableEq

inductive ParamsRes where
  /-- `continue headers`: the rest of this header line (and the extension being parsed) is dropped -/
  | abort
  | ok (params : List (Bytes × Bytes)) (rest : Bytes)

/-- the parameter loop of `parseExtensions` (`acc` reversed). -/
def parseParams : Nat → Bytes → List (Bytes × Bytes) → ParamsRes
  | 0, _, _ => .abort
  | f + 1, s, acc =>
    let s := skipSpace s
    match s with
    | 59 :: r =>
      let (k, s1) := nextToken (skipSpace r)
      if k.isEmpty then .abort
      else
        let s2 := skipSpace s1
        let (v, s3) :=
          match s2 with
          | 61 :: r2 =>
            let (v, s') := nextTokenOrQuoted (skipSpace r2)
            (v, skipSpace s')
          | _ => ([], s2)
        match s3 with
        | [] => parseParams f s3 ((k, v) :: acc)
        | c :: _ => if c ≠ 44 ∧ c ≠ 59 then .abort else parseParams f s3 ((k, v) :: acc)
    | _ => .ok acc.reverse s

/-- one header line of `parseExtensions`. -/
def parseExtLine : Nat → Bytes → List Ext
  | 0, _ => []
  | f + 1, s =>
    let (t, s1) := nextToken (skipSpace s)
    if t.isEmpty then []
    else
      match parseParams (s1.length + 1) s1 [] with
      | .abort => []
      | .ok ps s2 =>
        match s2 with
        | [] => [{ name := t, params := ps }]
        | c :: rest => if c ≠ 44 then [] else { name := t, params := ps } :: parseExtLine f rest

/-- `parseExtensions(header)` over the `Sec-Websocket-Extensions` values. -/
def parseExtensions (lines : List Bytes) : List Ext :=
  lines.flatMap (fun s => parseExtLine (s.length + 1) s)

inductive KeyRes where
  | valid
  | invalid
  /-- `base64.StdEncoding.Decode` indexes past its destination buffer (proved unreachable since the
  buffer has `DecodedLen(len(s))` bytes; before commit 9d680c6d it had 16 and 24-character keys
  decoding to 17/18 bytes, e.g. `AAAAAAAAAAAAAAAAAAAAAAAA`, panicked) -/
  | panic
deriving Repr, DecidableEq

/-- `base64.StdEncoding.DecodedLen` (padded encoding) -/
def decodedLen (n : Nat) : Nat := n / 4 * 3

/-- `isValidChallengeKey` -/
def isValidChallengeKey (s : Bytes) : KeyRes :=
  if s.length ≠ 24 then .invalid
  else match goDecode (decodedLen s.length) s with
    | .ok n => if n = 16 then .valid else .invalid
    | .err => .invalid
    | .panic => .panic

def keyGUID : Bytes := ascii "258EAFA5-E914-47DA-95CA-C5AB0DC85B11"

/-- `computeAcceptKey` / `encodeAcceptKey` -/
def computeAcceptKey (challengeKey : Bytes) : Bytes := encode (sha1 (challengeKey ++ keyGUID))

/-! ### server.go -/

structure Request where
  protoMajor : Nat
  method : Bytes
  host : Bytes
  /-- canonical header name, value — in arrival order -/
  headers : List (Bytes × Bytes)
  /-- `url.Parse(Origin[0])`: `none` = error, `some h` = `u.Host` (meaningful only when an
  `Origin` header is present) -/
  originHost : Option Bytes
deriving Repr, DecidableEq

/-- `r.Header[name]` -/
def Request.values (r : Request) (name : String) : List Bytes :=
  (r.headers.filter (fun kv => kv.1 == ascii name)).map (·.2)

/-- `r.Header.Get(name)` -/
def Request.get (r : Request) (name : String) : Bytes :=
  match r.values name with
  | [] => []
  | v :: _ => v

structure Config where
  /-- `Upgrader.Subprotocols` (`none` = nil) -/
  subprotocols : Option (List Bytes)
  enableCompression : Bool
  disableHTTP1Upgrade : Bool
  /-- `Upgrader.CheckOrigin`: `none` = nil (default same-origin check), `some b` = a custom
  function answering `b` for this request -/
  checkOrigin : Option Bool
deriving Repr, DecidableEq

/-- `checkSameOrigin` -/
def checkSameOrigin (r : Request) : Bool :=
  match r.values "Origin" with
  | [] => true
  | _ :: _ =>
    match r.originHost with
    | none => false
    | some h => foldEq h r.host

/-- `checkSameHost` of `handler_websocket.go`, the `CheckOrigin` that `NewWebsocketHandler` installs
when the application does not provide one: an empty/absent first `Origin` value passes, otherwise
the parsed origin host must equal `Host` (`strings.EqualFold`; hosts are ASCII, where Unicode and
ASCII case folding coincide). -/
def checkSameHost (r : Request) : Bool :=
  if (r.get "Origin").isEmpty then true
  else match r.originHost with
    | none => false
    | some h => foldEq r.host h

/-! `strings.TrimSpace`: Unicode White_Space, i.e. ASCII `\t \n \v \f \r ␠`, U+0085, U+00A0,
U+1680, U+2000…U+200A, U+2028, U+2029, U+202F, U+205F, U+3000 in their UTF-8 encodings. -/

def isAsciiSpace (c : UInt8) : Bool := c == 32 || (decide (9 ≤ c.toNat) && decide (c.toNat ≤ 13))

/-- length of a white-space rune at the head of `s` (0 = none) -/
def leadingSpaceLen (s : Bytes) : Nat :=
  match s with
  | [] => 0
  | c :: rest =>
    if isAsciiSpace c then 1
    else match c, rest with
      | 0xC2, 0x85 :: _ => 2
      | 0xC2, 0xA0 :: _ => 2
      | 0xE1, 0x9A :: 0x80 :: _ => 3
      | 0xE2, 0x80 :: x :: _ =>
        if (decide (0x80 ≤ x.toNat) && decide (x.toNat ≤ 0x8A)) || x == 0xA8 || x == 0xA9 || x == 0xAF then 3 else 0
      | 0xE2, 0x81 :: 0x9F :: _ => 3
      | 0xE3, 0x80 :: 0x80 :: _ => 3
      | _, _ => 0

def trimLeft : Nat → Bytes → Bytes
  | 0, s => s
  | f + 1, s => let k := leadingSpaceLen s; if k = 0 then s else trimLeft f (s.drop k)

/-- length of a white-space rune at the end of `s`, given `s` reversed (0 = none) -/
def trailingSpaceLen (rs : Bytes) : Nat :=
  match rs with
  | [] => 0
  | c :: rest =>
    if isAsciiSpace c then 1
    else match c, rest with
      | 0x85, 0xC2 :: _ => 2
      | 0xA0, 0xC2 :: _ => 2
      | 0x80, 0x9A :: 0xE1 :: _ => 3
      | 0x9F, 0x81 :: 0xE2 :: _ => 3
      | 0x80, 0x80 :: 0xE3 :: _ => 3
      | x, 0x80 :: 0xE2 :: _ =>
        if (decide (0x80 ≤ x.toNat) && decide (x.toNat ≤ 0x8A)) || x == 0xA8 || x == 0xA9 || x == 0xAF then 3 else 0
      | _, _ => 0

def trimRightRev : Nat → Bytes → Bytes
  | 0, s => s
  | f + 1, s => let k := trailingSpaceLen s; if k = 0 then s else trimRightRev f (s.drop k)

/-- `strings.TrimSpace` -/
def trimSpace (s : Bytes) : Bytes :=
  let l := trimLeft (s.length + 1) s
  (trimRightRev (l.length + 1) l.reverse).reverse

/-- split on `,` (byte 0x2C; never part of a multi-byte UTF-8 sequence, so this is what
`for i, c := range header` with `c == ','` sees). -/
def splitComma : Bytes → List Bytes
  | [] => [[]]
  | c :: cs =>
    match splitComma cs with
    | [] => [[]]  -- unreachable
    | e :: es => if c == 44 then [] :: e :: es else (c :: e) :: es

/-- `selectSubprotocol` with `responseHeader = nil`: `[]` = no subprotocol. -/
def selectSubprotocol (cfg : Config) (r : Request) : Bytes :=
  match cfg.subprotocols with
  | none => []
  | some server =>
    let header := r.get "Sec-Websocket-Protocol"
    if header.isEmpty then []
    else
      -- the element after the last comma is only looked at when it is non-empty
      -- (`if start < len(header)`); an empty element never equals a server protocol unless the
      -- server list contains "", which is the difference mirrored by `elems`.
      let all := splitComma header
      let last := all.getLast?.getD []
      let elems := if last.isEmpty then all.dropLast else all
      match (elems.map trimSpace).find? (fun p => server.contains p) with
      | some p => p
      | none => []

inductive Reason where
  | h1Disabled | noUpgradeToken | noWebsocketToken | methodNotGet | badVersion | badKey
  | h2NoProtocol | h2NotConnect | badProto | originDenied
deriving Repr, DecidableEq

inductive Outcome where
  | reject (status : Nat) (why : Reason)
  /-- run-time panic inside `Upgrade` (net/http recovers it, logs and drops the connection: the
  client gets no HTTP response) -/
  | panic
  | acceptH1 (acceptKey : Bytes) (subprotocol : Bytes) (compress : Bool)
  | acceptH2 (subprotocol : Bytes) (compress : Bool)
deriving Repr, DecidableEq

def negotiateCompression (cfg : Config) (r : Request) : Bool :=
  cfg.enableCompression &&
    (parseExtensions (r.values "Sec-Websocket-Extensions")).any (fun e => e.name == ascii "permessage-deflate")

def originOK (cfg : Config) (r : Request) : Bool :=
  match cfg.checkOrigin with
  | none => checkSameOrigin r
  | some b => b

/-- `Upgrader.Upgrade(w, r, nil)` -/
def upgrade (cfg : Config) (r : Request) : Outcome :=
  let common (k : Bytes → Bool → Outcome) : Outcome :=
    if !originOK cfg r then .reject 403 .originDenied
    else k (selectSubprotocol cfg r) (negotiateCompression cfg r)
  if r.protoMajor = 1 then
    if cfg.disableHTTP1Upgrade then .reject 400 .h1Disabled
    else if !tokenListContains (r.values "Connection") (ascii "upgrade") then .reject 400 .noUpgradeToken
    else if !tokenListContains (r.values "Upgrade") (ascii "websocket") then .reject 400 .noWebsocketToken
    else if r.method ≠ ascii "GET" then .reject 405 .methodNotGet
    else if !tokenListContains (r.values "Sec-Websocket-Version") (ascii "13") then .reject 400 .badVersion
    else
      let key := r.get "Sec-Websocket-Key"
      match isValidChallengeKey key with
      | .panic => .panic
      | .invalid => .reject 400 .badKey
      | .valid => common (fun sub c => .acceptH1 (computeAcceptKey key) sub c)
  else if r.protoMajor = 2 then
    if r.get ":protocol" ≠ ascii "websocket" then .reject 400 .h2NoProtocol
    else if r.method ≠ ascii "CONNECT" then .reject 405 .h2NotConnect
    else if !tokenListContains (r.values "Sec-Websocket-Version") (ascii "13") then .reject 400 .badVersion
    else common (fun sub c => .acceptH2 sub c)
  else .reject 400 .badProto

def crlf : Bytes := [13, 10]

/-- the bytes `upgradeH1` writes to the hijacked connection -/
def responseH1 (acceptKey sub : Bytes) (compress : Bool) : Bytes :=
  ascii "HTTP/1.1 101 Switching Protocols\r\nUpgrade: websocket\r\nConnection: Upgrade\r\nSec-WebSocket-Accept: "
    ++ acceptKey ++ crlf
    ++ (if sub.isEmpty then [] else ascii "Sec-WebSocket-Protocol: " ++ sub ++ crlf)
    ++ (if compress then ascii "Sec-WebSocket-Extensions: permessage-deflate; server_no_context_takeover; client_no_context_takeover\r\n" else [])
    ++ crlf

/-! ### `textproto.CanonicalMIMEHeaderKey` (what `http.Header.Add/Get` apply to a field name) -/

def canonLoop : Bytes → Bool → Bytes
  | [], _ => []
  | c :: cs, upper =>
    let c' : UInt8 :=
      if upper && decide (97 ≤ c.toNat) && decide (c.toNat ≤ 122) then c - 32
      else if !upper && decide (65 ≤ c.toNat) && decide (c.toNat ≤ 90) then c + 32
      else c
    c' :: canonLoop cs (c' == 45)

/-- names with a byte that is not a token character are left unchanged -/
def canonicalKey (name : Bytes) : Bytes :=
  if name.all isTokenOctet then canonLoop name true else name

end CentrifugeVerif.Handshake
