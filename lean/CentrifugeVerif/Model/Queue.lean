/-
Model of `internal/queue/queue.go` (`queue.Queue`), the per-connection ring buffer.  Core Lean only.

Go facts mirrored here (line by line where it matters):
* `nodes` is a slice used as a ring: `head` is the next slot to read, `tail` the next slot to write,
  `cnt` the number of live items, `size` the sum of `len(item.Data)` of the live items;
* `resize n` allocates a fresh slice of length `n`, copies the live items to its front (one segment when
  `head < tail`, two segments otherwise), sets `head = 0`, `tail = cnt % n`; an empty queue only swaps
  the slice and zeroes `head`/`tail`;
* `Add` doubles the slice when it is full (`cnt == len(nodes)`), `AddMany` resizes once to the first
  `len·2^k ≥ cnt + len(items)`;
* `Remove` shrinks by exactly one halving step; `RemoveMany`, `RemoveManyIntoShrink` and `FinishCollect(0)`
  (and the delayed-shrink timer) shrink by the repeated-halving loop; `RemoveManyInto` never shrinks but
  zeroes `head`/`tail` when the queue became empty; `RemoveMany` does *not* zero them (unless it resizes);
* the `RemoveMany*` family clears the vacated slots, `Remove` and `CloseRemaining` do not;
* `Close`/`CloseRemaining` set `closed`, `cnt = 0`, `nodes = nil`, `size = 0` and leave `head`/`tail`.

An item is abstracted to an identity and the length of its `Data` (the queue never looks at anything
else).  Slice indexing that would panic in Go (`nodes[tail]` on a zero-length slice, which happens for
`New(0)` followed by `Add`) is an explicit outcome of `add`; `Proofs/Queue.lean` shows it cannot occur in
a state satisfying `RingQ.Inv`.  `New(0)` followed by `AddMany`/`FinishCollect(0)` does not terminate in
Go (the doubling/halving loops spin on 0); `newWriter` never passes 0, and the model is only claimed for
`initCap ≥ 1`.
-/
namespace CentrifugeVerif.Queue

structure Item where
  /-- identity of the payload (stands for `Data`, `Channel`, `Key`, `FrameType`) -/
  id : Nat
  /-- `len(Data)` -/
  size : Nat
deriving Repr, DecidableEq, Inhabited

/-- `Item{}` — what cleared / freshly allocated slots hold. -/
def Item.zero : Item := ⟨0, 0⟩

structure RingQ where
  nodes : List Item
  head : Nat
  tail : Nat
  cnt : Nat
  size : Nat
  initCap : Nat
  closed : Bool
deriving Repr, DecidableEq

namespace RingQ

/-- `queue.New(initialCapacity)` -/
def new (initCap : Nat) : RingQ :=
  { nodes := List.replicate initCap Item.zero, head := 0, tail := 0, cnt := 0, size := 0,
    initCap := initCap, closed := false }

/-- `len(q.nodes)` (= `cap(q.nodes)`: every slice is made with `make([]Item, n)`). -/
abbrev cap (q : RingQ) : Nat := q.nodes.length

/-- `q.nodes[i]` for an index known to be in range. -/
abbrev slot (q : RingQ) (i : Nat) : Item := q.nodes.getD i Item.zero

/-- The live items, oldest first (abstraction function). -/
def toList (q : RingQ) : List Item :=
  (List.range q.cnt).map fun i => q.slot ((q.head + i) % q.cap)

/-- the items `resize` copies: `nodes[head:tail]` or `nodes[head:] ++ nodes[:tail]` -/
def live (q : RingQ) : List Item :=
  if q.head < q.tail then (q.nodes.drop q.head).take (q.tail - q.head)
  else q.nodes.drop q.head ++ q.nodes.take q.tail

/-- `q.resize(n)` -/
def resize (q : RingQ) (n : Nat) : RingQ :=
  if q.cnt = 0 then { q with head := 0, tail := 0, nodes := List.replicate n Item.zero }
  else
    let copied := q.live.take n
    { q with nodes := copied ++ List.replicate (n - copied.length) Item.zero,
             tail := q.cnt % n, head := 0 }

/-- the four statements shared by `Add` and the loop body of `AddMany` -/
def push (q : RingQ) (x : Item) : RingQ :=
  { q with nodes := q.nodes.set q.tail x, tail := (q.tail + 1) % q.cap,
           size := q.size + x.size, cnt := q.cnt + 1 }

inductive AddRes | ok | closed | panic
deriving Repr, DecidableEq

/-- `q.Add(i)` -/
def add (q : RingQ) (x : Item) : RingQ × AddRes :=
  if q.closed then (q, .closed) else
  let q1 := if q.cnt = q.cap then q.resize (q.cnt * 2) else q
  if q1.tail < q1.cap then (q1.push x, .ok) else (q1, .panic)

/-- `for newCap < spaceNeeded { newCap *= 2 }` with fuel (each round at least doubles a positive
`newCap`, so `need` rounds suffice). -/
def growLoop : Nat → Nat → Nat → Nat
  | 0, c, _ => c
  | fuel + 1, c, need => if c < need then growLoop fuel (c * 2) need else c

/-- `q.AddMany(items...)` (for `initCap ≥ 1`) -/
def addMany (q : RingQ) (xs : List Item) : RingQ × AddRes :=
  if q.closed then (q, .closed) else
  let need := q.cnt + xs.length
  let q1 :=
    if need > q.cap then
      let c0 := if q.cap = 0 then q.initCap else q.cap
      q.resize (growLoop need c0 need)
    else q
  (xs.foldl push q1, .ok)

/-- the halving loop `k := len/2; for k >= initCap && cnt <= k { n = k; k /= 2 }` with fuel. -/
def shrinkLoop : Nat → Nat → Nat → Nat → Option Nat → Option Nat
  | 0, _, _, _, n => n
  | fuel + 1, k, initCap, cnt, n =>
    if initCap ≤ k ∧ cnt ≤ k then shrinkLoop fuel (k / 2) initCap cnt (some k) else n

def shrinkTarget (q : RingQ) : Option Nat :=
  shrinkLoop (q.cap + 1) (q.cap / 2) q.initCap q.cnt none

/-- "Find n to resize to … if n != -1 { q.resize(n) }" -/
def shrinkOnly (q : RingQ) : RingQ :=
  match q.shrinkTarget with
  | some n => q.resize n
  | none => q

/-- `q.doShrinkLocked()` -/
def doShrink (q : RingQ) : RingQ :=
  let q1 := if q.cnt = 0 then { q with head := 0, tail := 0 } else q
  q1.shrinkOnly

/-- `q.Remove()` -/
def remove (q : RingQ) : RingQ × Option Item :=
  if q.cnt = 0 then (q, none) else
  let i := q.slot q.head
  let q1 := { q with head := (q.head + 1) % q.cap, cnt := q.cnt - 1, size := q.size - i.size }
  let n := q1.cap / 2
  let q2 := if q1.initCap ≤ n ∧ q1.cnt ≤ n then q1.resize n else q1
  (q2, some i)

/-- loop body of the `RemoveMany*` family: read, clear the slot, advance. -/
def pop1 (q : RingQ) : RingQ × Item :=
  let i := q.slot q.head
  ({ q with nodes := q.nodes.set q.head Item.zero, head := (q.head + 1) % q.cap,
            cnt := q.cnt - 1, size := q.size - i.size }, i)

def popN : Nat → RingQ → RingQ × List Item
  | 0, q => (q, [])
  | n + 1, q =>
    let (q1, i) := q.pop1
    let (q2, is) := popN n q1
    (q2, i :: is)

/-- `count` of the `RemoveMany*` family; `maxItems = -1` is "all".  (Other negative values make
`RemoveMany` panic in `make` and are outside the model; the writer never passes them.) -/
def count (q : RingQ) (maxItems : Int) : Nat :=
  if maxItems = -1 ∨ (q.cnt : Int) < maxItems then q.cnt else maxItems.toNat

/-- `q.RemoveMany(maxItems)`; `none` is `(nil, false)`. -/
def removeMany (q : RingQ) (maxItems : Int) : RingQ × Option (List Item) :=
  if q.cnt = 0 then (q, none) else
  let (q1, is) := popN (q.count maxItems) q
  (q1.shrinkOnly, some is)

/-- `q.RemoveManyInto(buf, maxItems)` with `len(buf) = bufLen`; `none` is `(0, false)`. -/
def removeManyInto (q : RingQ) (bufLen : Nat) (maxItems : Int) : RingQ × Option (List Item) :=
  if q.cnt = 0 then (q, none) else
  let (q1, is) := popN (min (q.count maxItems) bufLen) q
  let q2 := if q1.cnt = 0 then { q1 with head := 0, tail := 0 } else q1
  (q2, some is)

/-- `q.RemoveManyIntoShrink(buf, maxItems)` -/
def removeManyIntoShrink (q : RingQ) (bufLen : Nat) (maxItems : Int) : RingQ × Option (List Item) :=
  if q.cnt = 0 then (q, none) else
  let (q1, is) := popN (min (q.count maxItems) bufLen) q
  (q1.doShrink, some is)

/-- `q.FinishCollect(0)` (immediate shrink).  With a positive delay the method only (re)arms the
shrink timer unless the queue is closed; the timer callback is `doShrink` (see `TimedQ`). -/
def finishCollect0 (q : RingQ) : RingQ := if q.closed then q else q.doShrink

/-- `q.Close()` -/
def close (q : RingQ) : RingQ := { q with closed := true, cnt := 0, nodes := [], size := 0 }

/-- the collecting loop of `CloseRemaining` (reads without clearing). -/
def drain : Nat → RingQ → RingQ × List Item
  | 0, q => (q, [])
  | n + 1, q =>
    let i := q.slot q.head
    let q1 := { q with head := (q.head + 1) % q.cap, cnt := q.cnt - 1 }
    let (q2, is) := drain n q1
    (q2, i :: is)

/-- `q.CloseRemaining()` -/
def closeRemaining (q : RingQ) : RingQ × List Item :=
  if q.closed then (q, []) else
  let (q1, is) := drain q.cnt q
  (q1.close, is)

end RingQ

/-! ## Operations as data, the ring step function, and the FIFO specification -/

inductive Op
  | add (x : Item)
  | addMany (xs : List Item)
  | remove
  | removeMany (maxItems : Int)
  | removeManyInto (bufLen : Nat) (maxItems : Int)
  | removeManyIntoShrink (bufLen : Nat) (maxItems : Int)
  /-- `FinishCollect(0)` or the delayed-shrink timer firing (`fromTimer`: the timer callback does not
  look at `closed`) -/
  | shrink (fromTimer : Bool)
  | close
  | closeRemaining
  | len
  | size
  | closed
deriving Repr, DecidableEq

/-- What a caller can observe from one operation. -/
inductive Out
  | added (ok : Bool)
  | item (i : Option Item)
  | items (is : Option (List Item))
  | rem (is : List Item)
  | nat (n : Nat)
  | bool (b : Bool)
  | unit
  | panic
deriving Repr, DecidableEq

def addOut : RingQ.AddRes → Out
  | .ok => .added true
  | .closed => .added false
  | .panic => .panic

def RingQ.step (q : RingQ) : Op → RingQ × Out
  | .add x => let (q', r) := q.add x; (q', addOut r)
  | .addMany xs => let (q', r) := q.addMany xs; (q', addOut r)
  | .remove => let (q', r) := q.remove; (q', .item r)
  | .removeMany m => let (q', r) := q.removeMany m; (q', .items r)
  | .removeManyInto b m => let (q', r) := q.removeManyInto b m; (q', .items r)
  | .removeManyIntoShrink b m => let (q', r) := q.removeManyIntoShrink b m; (q', .items r)
  | .shrink true => (q.doShrink, .unit)
  | .shrink false => (q.finishCollect0, .unit)
  | .close => (q.close, .unit)
  | .closeRemaining => let (q', r) := q.closeRemaining; (q', .rem r)
  | .len => (q, .nat q.cnt)
  | .size => (q, .nat q.size)
  | .closed => (q, .bool q.closed)

/-- The specification: an unbounded FIFO of items with a closed flag. -/
structure Fifo where
  items : List Item
  closed : Bool
deriving Repr, DecidableEq

def bytes (l : List Item) : Nat := (l.map (·.size)).sum

/-- how many items a `RemoveMany*` call takes from a FIFO of `n` items -/
def takeCount (n : Nat) (maxItems : Int) : Nat :=
  if maxItems = -1 ∨ (n : Int) < maxItems then n else maxItems.toNat

def Fifo.step (f : Fifo) : Op → Fifo × Out
  | .add x => if f.closed then (f, .added false) else ({ f with items := f.items ++ [x] }, .added true)
  | .addMany xs => if f.closed then (f, .added false) else ({ f with items := f.items ++ xs }, .added true)
  | .remove =>
    match f.items with
    | [] => (f, .item none)
    | x :: rest => ({ f with items := rest }, .item (some x))
  | .removeMany m =>
    if f.items = [] then (f, .items none) else
    let k := takeCount f.items.length m
    ({ f with items := f.items.drop k }, .items (some (f.items.take k)))
  | .removeManyInto b m | .removeManyIntoShrink b m =>
    if f.items = [] then (f, .items none) else
    let k := min (takeCount f.items.length m) b
    ({ f with items := f.items.drop k }, .items (some (f.items.take k)))
  | .shrink _ => (f, .unit)
  | .close => ({ items := [], closed := true }, .unit)
  | .closeRemaining => if f.closed then (f, .rem []) else ({ items := [], closed := true }, .rem f.items)
  | .len => (f, .nat f.items.length)
  | .size => (f, .nat (bytes f.items))
  | .closed => (f, .bool f.closed)

def RingQ.run (q : RingQ) : List Op → RingQ × List Out
  | [] => (q, [])
  | op :: ops => let (q1, o) := q.step op; let (q2, os) := RingQ.run q1 ops; (q2, o :: os)

def Fifo.run (f : Fifo) : List Op → Fifo × List Out
  | [] => (f, [])
  | op :: ops => let (f1, o) := f.step op; let (f2, os) := Fifo.run f1 ops; (f2, o :: os)

/-! ## The delayed-shrink timer (`FinishCollect(d)` with `d > 0`), on a virtual clock

Used by the drivers only: `deadline` is the instant the `time.AfterFunc` timer is due.  `Close` and
`CloseRemaining` stop the timer; `FinishCollect(d)` on an open queue (re)arms it. -/
structure TimedQ where
  q : RingQ
  now : Nat
  deadline : Option Nat
deriving Repr

namespace TimedQ

def finishCollect (t : TimedQ) (delay : Nat) : TimedQ :=
  if t.q.closed then t
  else if delay = 0 then { t with q := t.q.doShrink }
  else { t with deadline := some (t.now + delay) }

/-- virtual time advances by `d`; a due shrink timer fires (once). -/
def sleep (t : TimedQ) (d : Nat) : TimedQ :=
  let now := t.now + d
  match t.deadline with
  | some dl => if dl ≤ now then { q := t.q.doShrink, now := now, deadline := none } else { t with now := now }
  | none => { t with now := now }

def stopTimer (t : TimedQ) : TimedQ := { t with deadline := none }

end TimedQ

end CentrifugeVerif.Queue
