import CentrifugeVerif.Model.Recovery
/-!
A single-channel model of `MemoryBroker`'s `historyHub` (broker_memory.go) with its two sweepers,
just enough to replay the histories the C02/C03 harness drives through the real broker:
publish with per-call history size / TTL, `RemoveHistory`, history TTL expiry (stream cleared, top
and epoch kept), meta TTL expiry (stream deleted; the next access creates a fresh epoch with top 0)
and the `History` accesses made by a subscribe.

Time is the Unix second.  The harness performs every operation at `x.5 s` and the sweepers wake at
whole seconds, so `tick` (one sweeper wake-up of both sweepers at second `now + 1`) never ties
with an operation.  With one channel each of the two priority queues holds at most one item (an
item is pushed only when the channel has no deadline entry, and a popped item is either dropped
together with the entry or replaced), hence `Option Nat`.
-/
namespace CentrifugeVerif.Recovery
open CentrifugeVerif.Merge

structure Hub where
  stream : Option RStream := none
  nextEpoch : Nat := 1
  nextId : Nat := 1
  now : Nat
  /-- `Config.HistoryMetaTTL` in seconds (never 0: `New` substitutes 30 days) -/
  cfgMeta : Nat
  /-- `Config.RecoveryMaxPublicationLimit` (0 = unlimited) -/
  cfgLimit : Nat
  expires : Option Nat := none
  expItem : Option Nat := none
  nextExp : Nat := 0
  removes : Option Nat := none
  remItem : Option Nat := none
  nextRem : Nat := 0
deriving Repr

/-- the meta-TTL bookkeeping at the start of `getLocked` and inside `add` -/
def Hub.touchMeta (h : Hub) (mttl : Nat) : Hub :=
  let m := if mttl = 0 then h.cfgMeta else mttl
  if m = 0 then h else
  let removeAt := h.now + m
  { h with
    remItem := if h.removes.isNone then some removeAt else h.remItem
    removes := some removeAt
    nextRem := if h.nextRem = 0 ∨ h.nextRem > removeAt then removeAt else h.nextRem }

/-- `getLocked` up to the stream lookup: refresh meta deadline, create the stream when absent. -/
def Hub.access (h : Hub) (mttl : Nat) : Hub × RStream :=
  let h := h.touchMeta mttl
  match h.stream with
  | some s => (h, s)
  | none =>
    let s := RStream.new h.nextEpoch
    ({ h with stream := some s, nextEpoch := h.nextEpoch + 1 }, s)

/-- `historyHub.add` (no version, no delta). Returns the new hub and the added publication. -/
def Hub.publish (h : Hub) (tag size ttl mttl : Nat) : Hub × Pub × Nat :=
  let expireAt := h.now + ttl
  let h := { h with
    expItem := if h.expires.isNone then some expireAt else h.expItem
    expires := some expireAt
    nextExp := if h.nextExp = 0 ∨ h.nextExp > expireAt then expireAt else h.nextExp }
  let h := h.touchMeta mttl
  let (s, h) := match h.stream with
    | some s => (s, h)
    | none => (RStream.new h.nextEpoch, { h with nextEpoch := h.nextEpoch + 1 })
  let s' := s.add tag h.nextId size
  let p : Pub := ⟨s'.top, tag, h.nextId⟩
  ({ h with stream := some s', nextId := h.nextId + 1 }, p, s'.epoch)

/-- `historyHub.remove` -/
def Hub.remove (h : Hub) : Hub := { h with stream := h.stream.map RStream.clear }

/-- one wake-up of `expireStreams` at second `s` -/
def Hub.sweepExpire (h : Hub) (s : Nat) : Hub :=
  if h.nextExp = 0 ∨ h.nextExp > s then h else
  match h.expItem with
  | none => { h with nextExp := 0 }
  | some p =>
    if p > s then { h with nextExp := p }
    else match h.expires with
      | none => { h with expItem := none, nextExp := 0 }
      | some e =>
        if e ≤ p then
          { h with expires := none, expItem := none, nextExp := 0, stream := h.stream.map RStream.clear }
        else if e > s then { h with expItem := some e, nextExp := e }
        else { h with expires := none, expItem := none, nextExp := 0, stream := h.stream.map RStream.clear }

/-- one wake-up of `removeStreams` at second `s` -/
def Hub.sweepRemove (h : Hub) (s : Nat) : Hub :=
  if h.nextRem = 0 ∨ h.nextRem > s then h else
  match h.remItem with
  | none => { h with nextRem := 0 }
  | some p =>
    if p > s then { h with nextRem := p }
    else match h.removes with
      | none => { h with remItem := none, nextRem := 0 }
      | some e =>
        if e ≤ p then { h with removes := none, remItem := none, nextRem := 0, stream := none }
        else if e > s then { h with remItem := some e, nextRem := e }
        else { h with removes := none, remItem := none, nextRem := 0, stream := none }

/-- the clock reaches the next whole second: both sweepers run (they commute) -/
def Hub.tick (h : Hub) : Hub :=
  let s := h.now + 1
  (({ h with now := s }).sweepExpire s).sweepRemove s

def Hub.ticks : Nat → Hub → Hub
  | 0, h => h
  | n + 1, h => Hub.ticks n h.tick

/-- something that happens on the channel while a subscribe is in flight, right after its history
read returned (so it is not part of the read) and before the buffer is taken: a fresh publication, or
a late PUB/SUB copy of the publication `k` below the top that the read saw -/
inductive WEvent
  | pub (tag size ttl : Nat)
  | stale (k : Nat)

/-- parameters of one subscribe -/
structure SubParams where
  cacheMode : Bool
  recover : Bool
  autoRec : Bool
  req : Req
  delta : Bool
  filt : Filt
  /-- cache-empty handler: `none` = not registered; `some (err, populated, publishes)` with
  publishes = `(tag, size, ttl)` -/
  handler : Option (Bool × Bool × List (Nat × Nat × Nat))
  /-- in-window events (stream mode only) -/
  window : List WEvent := []

/-- run the cache-empty handler's publishes; returns hub, the buffered entries (every
publication reaches the subscribing client's buffer; filtered ones as placeholders) and the
publications themselves -/
def Hub.handlerPubs (h : Hub) (pass : Pub → Bool) : List (Nat × Nat × Nat) → Hub × List MPub × List Pub
  | [] => (h, [], [])
  | (tag, size, ttl) :: rest =>
    let (h', p, _) := h.publish tag size ttl 0
    let (h'', l, ps) := Hub.handlerPubs h' pass rest
    (h'', toM pass p :: l, p :: ps)

/-- run the in-window events against the hub; `s1` is the stream the history read saw. Returns hub,
the subscriber's buffer (placeholders for filtered entries) and the fresh publications. -/
def Hub.windowEvents (h : Hub) (s1 : RStream) (pass : Pub → Bool) : List WEvent → Hub × List MPub × List Pub
  | [] => (h, [], [])
  | .pub tag size ttl :: rest =>
    let (h', p, _) := h.publish tag size ttl 0
    let (h'', l, ps) := Hub.windowEvents h' s1 pass rest
    (h'', toM pass p :: l, p :: ps)
  | .stale k :: rest =>
    let (h'', l, ps) := Hub.windowEvents h s1 pass rest
    match s1.log.find? (fun p => p.offset + k == s1.top) with
    | some p => (h'', toM pass p :: l, ps)
    | none => (h'', l, ps)

structure SubResult where
  hub : Hub
  out : Outcome
  /-- the cache-empty handler was invoked -/
  invoked : Bool
  /-- what it published -/
  hpubs : List Pub

/-- one client subscribe against the hub (`subscribeCmd` with `EnableRecovery`). -/
def Hub.subscribe (h : Hub) (sp : SubParams) : SubResult :=
  let (h1, s1) := h.access 0
  let autoCache := sp.autoRec && sp.cacheMode
  if !sp.cacheMode then
    -- stream mode: the in-window events happen after the history read
    let (h2, buffered, ps) := h1.windowEvents s1 sp.filt.pass sp.window
    if !sp.recover then ⟨h2, plainSubscribe false sp.delta s1 sp.req buffered, false, ps⟩
    else ⟨h2, streamSubscribe h.cfgLimit s1 sp.req sp.filt.pass buffered, false, ps⟩
  else if !(sp.recover || autoCache) then
    ⟨h1, plainSubscribe sp.cacheMode sp.delta s1 sp.req [], false, []⟩
  else
    let lr1 := recoverCache h.cfgLimit s1 sp.filt
    match lr1, sp.handler with
    | none, some (err, populated, pubs) =>
      -- the handler is invoked: its publishes run before it returns
      let (h2, buffered, ps) := h1.handlerPubs sp.filt.pass pubs
      let (h3, s2) := h2.access 0
      let hr : HandlerReply := if err then some none else some (some populated)
      ⟨h3, cacheSubscribe h.cfgLimit s1 s2 sp.filt sp.req sp.delta hr buffered, true, ps⟩
    | _, _ => ⟨h1, cacheSubscribe h.cfgLimit s1 s1 sp.filt sp.req sp.delta none [], false, []⟩

end CentrifugeVerif.Recovery
