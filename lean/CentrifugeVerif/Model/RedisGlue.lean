import CentrifugeVerif.Model.LuaRedis
import CentrifugeVerif.Gen.Lua.BrokerHistoryAddStream
import CentrifugeVerif.Gen.Lua.BrokerHistoryAddList
import CentrifugeVerif.Gen.Lua.BrokerHistoryStream
import CentrifugeVerif.Gen.Lua.BrokerHistoryList
import CentrifugeVerif.Gen.Lua.BrokerPublishIdempotent
/-
Hand model of the Go side of `RedisBroker` (`/repo/broker_redis.go`): `publish`, `historyStream`,
`historyList`, `removeHistory` — argument marshalling for the Lua scripts, reply parsing
(`rueidis` `ToArray`/`AsInt64`/`ToString` rules), the post-processing of `historyList`, and the
PUB/SUB leg (`handleRedisClientMessage` for publication pushes).  The scripts themselves are the
*translated* ones (`Gen/Lua/*`).  Core Lean only.

Configuration modelled: a single non-cluster shard, plain (not sharded) PUB/SUB, so the publish
command is `"publish"`, keys are `prefix.stream.ch`, `prefix.list.ch`, `prefix.stream.meta.ch` /
`prefix.list.meta.ch`, `prefix.result.ch.key`, and the PUB/SUB channel is `prefix.client.ch`
(the key builders themselves are C34's subject).

Protobuf: `protocol.Publication.MarshalVT/UnmarshalVT` are not modelled.  A publication on the wire
is the stand-in text `data,version,delta` (`encodeWire`), for which `decodeWire (encodeWire p) = some p`
whenever `data` has no comma — the only property of protobuf the glue relies on (round trip).
`epoch.Generate()` is an input (`fresh`), as is the clock (`now`, ms).
Durations are milliseconds; `int(d.Seconds())` is `d / 1000`.
-/
namespace CentrifugeVerif.RedisGlue
open CentrifugeVerif.Lua CentrifugeVerif.Redis CentrifugeVerif.LuaRedis

/-- `StreamPosition` with the epoch string -/
structure RPos where
  offset : Nat := 0
  epoch : String := ""
deriving Repr, DecidableEq, Inhabited

structure RFilter where
  since : Option RPos := none
  limit : Int := 0
  reverse : Bool := false
deriving Repr, DecidableEq, Inhabited

/-- the fields of `PublishOptions` the broker reads (durations in ms) -/
structure POpts where
  size : Int := 0
  ttl : Nat := 0
  metaTTL : Nat := 0
  idemKey : String := ""
  idemTTL : Nat := 0
  version : Nat := 0
  versionEpoch : String := ""
  useDelta : Bool := false
deriving Repr, DecidableEq, Inhabited

structure Cfg where
  useLists : Bool := false
  /-- `node.config.HistoryMetaTTL` (ms) -/
  nodeMetaTTL : Nat := 0
  pfx : String := "centrifuge"
  skipPubSub : Bool := false
deriving Repr, DecidableEq, Inhabited

/-- what travels as `message_payload` -/
structure WirePub where
  data : String
  version : Nat := 0
  delta : Bool := false
deriving Repr, DecidableEq, Inhabited

def encodeWire (p : WirePub) : String :=
  p.data ++ "," ++ toString p.version ++ "," ++ (if p.delta then "1" else "0")

def decodeWire (s : String) : Option WirePub :=
  -- a protobuf message cannot start with '_' (0x5f = field 11, wire type 7, which is invalid):
  -- `UnmarshalVT` fails on it; the stand-in keeps that fact
  if hasPrefix s "_" then none else
  match splitStr s "," with
  | [d, v, f] =>
    match parseNat v with
    | some n => if f == "1" then some ⟨d, n, true⟩ else if f == "0" then some ⟨d, n, false⟩ else none
    | none => none
  | _ => none

/-- a `Publication` as returned by `History` / handed to `HandlePublication` -/
structure RPub where
  offset : Nat
  data : String
  version : Nat := 0
deriving Repr, DecidableEq, Inhabited

inductive GoErr
  /-- the script raised an error / Redis replied with an error -/
  | redis (msg : String)
  | wrongReply (what : String)
  /-- the model was left (`LuaErr.unsupported`) -/
  | unsupported (msg : String)
deriving Repr, DecidableEq, Inhabited

inductive Suppress | none | idempotency | version
deriving Repr, DecidableEq, Inhabited

structure PubRes where
  pos : RPos := {}
  suppress : Suppress := .none
deriving Repr, DecidableEq, Inhabited

/-! ### keys -/

def streamKey (c : Cfg) (ch : String) : String := c.pfx ++ ".stream." ++ ch
def listKey (c : Cfg) (ch : String) : String := c.pfx ++ ".list." ++ ch
def metaKey (c : Cfg) (ch : String) : String :=
  c.pfx ++ (if c.useLists then ".list.meta." else ".stream.meta.") ++ ch
def resultKey (c : Cfg) (ch key : String) : String := c.pfx ++ ".result." ++ ch ++ "." ++ key
def messageChannel (c : Cfg) (ch : String) : String := c.pfx ++ ".client." ++ ch

/-! ### rueidis reply accessors -/

inductive AccErr | nil | parse
deriving Repr, DecidableEq

def toArray : Resp → Except AccErr (List Resp)
  | .arr l => .ok l
  | .nil => .error .nil
  | _ => .error .parse

def toStr : Resp → Except AccErr String
  | .bulk s => .ok s
  | .status s => .ok s
  | .nil => .error .nil
  | _ => .error .parse

def inInt64 (i : Int) : Bool := -9223372036854775808 ≤ i && i ≤ 9223372036854775807

def asInt64 : Resp → Except AccErr Int
  | .int i => .ok i
  | r =>
    match toStr r with
    | .error e => .error e
    | .ok s =>
      match parseDecInt s with
      | some i => if inInt64 i then .ok i else .error .parse
      | none => .error .parse

/-- `uint64(int64)` -/
def toU64 (i : Int) : Nat := if i < 0 then (i + 18446744073709551616).toNat else i.toNat

/-- `strconv.Itoa(int(v))` for a `uint64` -/
def itoaU64 (v : Nat) : String :=
  if v < 9223372036854775808 then toString v else "-" ++ toString (18446744073709551616 - v)

def scriptErr : LuaErr → GoErr
  | .runtime m => .redis m
  | .unsupported m => .unsupported m

/-! ### publish -/

def resultExpire (o : POpts) : String :=
  if o.idemKey ≠ "" then (if o.idemTTL ≠ 0 then toString (o.idemTTL / 1000) else "300") else ""

def effMeta (c : Cfg) (m : Nat) : Nat := if m = 0 then c.nodeMetaTTL else m

/-- `RedisBroker.publish` -/
def publish (c : Cfg) (ch : String) (data : String) (o : POpts) (fresh : String) (now : Nat) (r : Redis) :
    Except GoErr PubRes × Redis :=
  let noHistory := o.size ≤ 0 ∨ o.ttl = 0
  let wire := encodeWire { data := data, version := o.version, delta := noHistory ∧ o.useDelta }
  let pubChan := if c.skipPubSub then "" else messageChannel c ch
  let rexp := resultExpire o
  let rkey := resultKey c ch o.idemKey
  if noHistory then
    if rexp = "" then
      if pubChan = "" then (.ok {}, r)
      else
        let r0 := r.setNow now
        (.ok {}, { r0 with out := r0.out ++ [⟨"publish", messageChannel c ch, wire⟩] })
    else
      match runScript Gen.Lua.broker_publish_idempotent [rkey] [wire, pubChan, "publish", rexp] now r with
      | (.ok _, r') => (.ok {}, r')
      | (.error e, r') => (.error (scriptErr e), r')
  else
    let keys := [if c.useLists then listKey c ch else streamKey c ch, metaKey c ch, rkey]
    let size : Int := if c.useLists then o.size - 1 else o.size
    let version := if o.version > 0 then itoaU64 o.version else "0"
    let argv := [wire, toString size, toString (o.ttl / 1000), pubChan,
      toString (effMeta c o.metaTTL / 1000), fresh, "publish", rexp, (if o.useDelta then "1" else ""),
      version, o.versionEpoch]
    let script := if c.useLists then Gen.Lua.broker_history_add_list else Gen.Lua.broker_history_add_stream
    match runScript script keys argv now r with
    | (.error e, r') => (.error (scriptErr e), r')
    | (.ok reply, r') =>
      let res : Except GoErr PubRes :=
        match toArray reply with
        | .error _ => .error (.wrongReply "not an array")
        | .ok replies =>
          if replies.length ≠ 2 ∧ replies.length ≠ 3 ∧ replies.length ≠ 4 then .error (.wrongReply "length") else
          match asInt64 replies[0]! with
          | .error _ => .error (.wrongReply "offset")
          | .ok off =>
            match toStr replies[1]! with
            | .error _ => .error (.wrongReply "epoch")
            | .ok ep =>
              let res : PubRes := { pos := ⟨toU64 off, ep⟩ }
              let res3 : Except GoErr PubRes :=
                if replies.length ≥ 3 then
                  match toStr replies[2]! with
                  | .error _ => .error (.wrongReply "from cache flag")
                  | .ok s => .ok (if s = "1" then { res with suppress := .idempotency } else res)
                else .ok res
              match res3 with
              | .error e => .error e
              | .ok res =>
                if replies.length ≥ 4 then
                  match toStr replies[3]! with
                  | .error _ => .error (.wrongReply "skipped flag")
                  | .ok s => .ok (if s = "1" then { res with suppress := .version } else res)
                else .ok res
      (res, r')

/-! ### history (stream storage) -/

/-- one `[id, [field, value, …]]` entry of an `XRANGE` reply → publication -/
def parseStreamEntry (v : Resp) : Except GoErr RPub :=
  match toArray v with
  | .error _ => .error (.wrongReply "entry not an array")
  | .ok vals =>
    if vals.length ≠ 2 then .error (.wrongReply "got n, wanted 2") else
    match toStr vals[0]!, toArray vals[1]! with
    | .ok id, .ok fvs =>
      -- first field named "d"
      let rec findD : List Resp → Option String
        | k :: v :: rest =>
          if (match toStr k with | .ok s => s | .error _ => "") = "d" then
            some (match toStr v with | .ok s => s | .error _ => "")
          else findD rest
        | _ => none
      match findD fvs with
      | none => .error (.wrongReply "no push data found in entry")
      | some push =>
        match splitStr id "-" with
        | [] => .error (.wrongReply "unexpected offset format")
        | first :: rest =>
          if rest.isEmpty ∨ first.isEmpty then .error (.wrongReply "unexpected offset format") else
          match parseNat first with
          | none => .error (.wrongReply "offset parse")
          | some off =>
            if off ≥ 18446744073709551616 then .error (.wrongReply "offset parse") else
            match decodeWire push with
            | none => .error (.wrongReply "can not unmarshal value to Publication")
            | some w => .ok ⟨off, w.data, w.version⟩
    | _, _ => .error (.wrongReply "entry shape")

/-- position part of a history reply: `(offs, epoch)` -/
def parsePosition (replies : List Resp) : Except GoErr RPos :=
  if replies.length < 2 then .error (.wrongReply "reply number") else
  let offs : Except GoErr Int :=
    match asInt64 replies[0]! with
    | .ok i => .ok i
    | .error .nil => .ok 0
    | .error .parse => .error (.wrongReply "offset")
  match offs with
  | .error e => .error e
  | .ok offs =>
    match toStr replies[1]! with
    | .error _ => .error (.wrongReply "epoch")
    | .ok ep => .ok ⟨toU64 offs, ep⟩

/-- `RedisBroker.historyStream` -/
def historyStream (c : Cfg) (ch : String) (f : RFilter) (metaTTL : Nat) (fresh : String) (now : Nat)
    (r : Redis) : Except GoErr (List RPub × RPos) × Redis :=
  let (includePubs, offset) : String × Nat :=
    match f.since with
    | none => ("1", 0)
    | some s =>
      if f.reverse then
        -- uint64 `since.Offset - 1`
        let off := if s.offset = 0 then 18446744073709551615 else s.offset - 1
        (if off = 0 then "0" else "1", off)
      else ("1", (s.offset + 1) % 18446744073709551616)
  let includePubs := if f.limit = 0 then "0" else includePubs
  let limit : Int := if f.limit > 0 then f.limit else 0
  let argv := [includePubs, toString offset, toString limit, (if f.reverse then "1" else "0"),
    toString (effMeta c metaTTL / 1000), fresh]
  match runScript Gen.Lua.broker_history_stream [streamKey c ch, metaKey c ch] argv now r with
  | (.error e, r') => (.error (scriptErr e), r')
  | (.ok reply, r') =>
    let res : Except GoErr (List RPub × RPos) :=
      match toArray reply with
      | .error _ => .error (.wrongReply "not an array")
      | .ok replies =>
        match parsePosition replies with
        | .error e => .error e
        | .ok pos =>
          if includePubs = "1" ∧ replies.length = 3 then
            match toArray replies[2]! with
            | .error _ => .error (.wrongReply "publications not an array")
            | .ok vals =>
              match vals.mapM parseStreamEntry with
              | .error e => .error e
              | .ok pubs => .ok (pubs, pos)
          else .ok ([], pos)
    (res, r')

/-! ### history (list storage) -/

/-- the `'p'` branch of `extractPushData` on `__p1:offset:epoch__payload` (the only shape
`broker_history_add_list.lua` stores): payload and offset.  (The complete function is C33's
`RedisPush.extractPushData`.) -/
def extractListValue (s : String) : Option (String × Nat) :=
  if !hasPrefix s "__p1:" then none else
  let body := dropN s 2
  match splitStr body "__" with
  | [] => none
  | header :: restParts =>
    if restParts.isEmpty ∨ header.isEmpty then none else
    let payload := joinStr "__" restParts
    let h := dropN header 3
    match splitStr h ":" with
    | [] => none
    | offS :: ep =>
      if ep.isEmpty ∨ offS.isEmpty then none else
      match parseNat offS with
      | some off => if off < 18446744073709551616 then some (payload, off) else none
      | none => none

def takeLimit {α : Type} (l : List α) (limit : Int) : List α :=
  if limit ≥ 0 then l.take limit.toNat else l

/-- position of the first publication with offset `since` (→ index + 1) or `since + 1` (→ index) -/
def findPosition (pubs : List RPub) (sinceOff nextOff : Nat) (i : Nat := 0) : Option Nat :=
  match pubs with
  | [] => none
  | p :: rest =>
    if p.offset = sinceOff then some (i + 1)
    else if p.offset = nextOff then some i
    else findPosition rest sinceOff nextOff (i + 1)

/-- `RedisBroker.historyList` (takes only the filter: `HistoryOptions.MetaTTL` is ignored there) -/
def historyList (c : Cfg) (ch : String) (f : RFilter) (fresh : String) (now : Nat) (r : Redis) :
    Except GoErr (List RPub × RPos) × Redis :=
  let (includePubs, rightBound) := if f.limit = 0 then ("0", "0") else ("1", "-1")
  let argv := [includePubs, rightBound, toString (c.nodeMetaTTL / 1000), fresh]
  match runScript Gen.Lua.broker_history_list [listKey c ch, metaKey c ch] argv now r with
  | (.error e, r') => (.error (scriptErr e), r')
  | (.ok reply, r') =>
    let res : Except GoErr (List RPub × RPos) :=
      match toArray reply with
      | .error _ => .error (.wrongReply "not an array")
      | .ok replies =>
        match parsePosition replies with
        | .error e => .error e
        | .ok latest =>
          if includePubs = "0" ∨ replies.length = 2 then .ok ([], latest) else
          match toArray replies[2]! with
          | .error _ => .error (.wrongReply "publications not an array")
          | .ok vals =>
            let conv : Resp → Except GoErr RPub := fun v =>
              match toStr v with
              | .error _ => .error (.wrongReply "error getting value")
              | .ok s =>
                match extractListValue s with
                | none => .error (.wrongReply "malformed publication value")
                | some (payload, off) =>
                  match decodeWire payload with
                  | none => .error (.wrongReply "can not unmarshal value to Pub")
                  | some w => .ok ⟨off, w.data, w.version⟩
            match vals.reverse.mapM conv with
            | .error e => .error e
            | .ok pubs =>
              match f.since with
              | none =>
                if f.limit ≥ 0 ∧ (pubs.length : Int) ≥ f.limit then .ok (pubs.take f.limit.toNat, latest)
                else .ok (pubs, latest)
              | some since =>
                if latest.offset = since.offset ∧ since.epoch = latest.epoch then .ok ([], latest)
                else if latest.offset < since.offset then .ok ([], latest)
                else
                  let nextOffset := (since.offset + 1) % 18446744073709551616
                  match findPosition pubs since.offset nextOffset with
                  | some p => .ok (takeLimit (pubs.drop p) f.limit, latest)
                  | none => .ok (takeLimit pubs f.limit, latest)
    (res, r')

/-- `RedisBroker.history` -/
def history (c : Cfg) (ch : String) (f : RFilter) (metaTTL : Nat) (fresh : String) (now : Nat) (r : Redis) :
    Except GoErr (List RPub × RPos) × Redis :=
  if c.useLists then historyList c ch f fresh now r else historyStream c ch f metaTTL fresh now r

/-- `RedisBroker.removeHistory`: `DEL` of the list/stream key -/
def removeHistory (c : Cfg) (ch : String) (now : Nat) (r : Redis) : Redis :=
  (r.setNow now).put (if c.useLists then listKey c ch else streamKey c ch) none

/-! ### PUB/SUB leg: `handleRedisClientMessage` for publication pushes -/

/-- one `HandlePublication(channel, pub, sp, delta, prevPub)` call -/
structure Delivery where
  ch : String
  pub : RPub
  sp : RPos
  delta : Bool
  prev : Option String
deriving Repr, DecidableEq, Inhabited

/-- split `s` at the first `:` -/
def cutColon (s : String) : Option (String × String) :=
  match splitStr s ":" with
  | a :: b :: rest => some (a, joinStr ":" (b :: rest))
  | _ => none

def parseU64 (s : String) : Option Nat :=
  match parseNat s with
  | some n => if n < 18446744073709551616 then some n else none
  | none => none

/-- `d1:offset:epoch:prev_len:prev:len:payload` (after the leading `__`), the non-panicking paths of
`parseDeltaPush`; the panicking inputs are C33's finding and cannot be produced by the scripts -/
def parseDelta (content : String) : Option (Nat × String × String × String) := do
  if !hasPrefix content "d1:" then none
  let (offS, rest) ← cutColon (dropN content 3)
  let off ← parseU64 offS
  let (ep, rest) ← cutColon rest
  let (plS, rest) ← cutColon rest
  let pl ← parseNat plS
  if rest.length < pl + 1 then none
  let prev := takeN rest pl
  let rest := dropN rest (pl + 1)
  let (lS, rest) ← cutColon rest
  let l ← parseNat lS
  if rest.length < l then none
  pure (off, ep, prev, takeN rest l)

/-- `handleRedisClientMessage` restricted to publication pushes coming from the history scripts or
from a plain `PUBLISH` of the marshalled publication -/
def deliver (c : Cfg) (m : PubMsg) : Option Delivery :=
  let pfx := c.pfx ++ ".client."
  if !hasPrefix m.chan pfx then none else
  let ch := dropN m.chan pfx.length
  if !hasPrefix m.payload "__" then
    (decodeWire m.payload).map fun w => ⟨ch, ⟨0, w.data, w.version⟩, {}, w.delta, none⟩
  else if hasPrefix m.payload "__p1:" then
    match extractListValue m.payload with
    | none => none
    | some (payload, off) =>
      -- epoch = everything after the first ':' of `offset:epoch`
      let header := dropN ((splitStr (dropN m.payload 2) "__").headD "") 3
      let ep := match cutColon header with | some (_, e) => e | none => ""
      (decodeWire payload).map fun w => ⟨ch, ⟨off, w.data, w.version⟩, ⟨off, ep⟩, w.delta, none⟩
  else if hasPrefix m.payload "__d1:" then
    match parseDelta (dropN m.payload 2) with
    | none => none
    | some (off, ep, prev, payload) =>
      match decodeWire payload with
      | none => none
      | some w =>
        if prev.length > 0 then
          match decodeWire prev with
          | none => none
          | some pw => some ⟨ch, ⟨off, w.data, w.version⟩, ⟨off, ep⟩, true, some pw.data⟩
        else some ⟨ch, ⟨off, w.data, w.version⟩, ⟨off, ep⟩, true, none⟩
  else none

end CentrifugeVerif.RedisGlue
