/-
Model of the three power-of-two buffer pools of centrifuge:

* `internal/bpool/bpool.go`      : `GetByteBuffer` / `PutByteBuffer`         (19 buckets, max 2^18)
* `internal/bpool/byte_slices.go`: `GetByteSlicesBuf` / `PutByteSlicesBuf`   (13 buckets, max 2^12)
* `writer.go`                    : `getItemBuf` / `putItemBuf`               (13 buckets, max 2^12)

Core Lean only.  Go facts mirrored here (including quirks):

* the bucket index of a request is `nextLogBase2(uint32(length))` = `bits.Len32(v-1)` (uint32
  arithmetic, `v-1` wraps for `v = 0`); the bucket of a returned buffer is `prevLogBase2(cap)`;
  `bpool.go`'s variant has no `v == 0` guard, the two other files have one;
* `GetByteBuffer(0)` returns a nil slice, requests above the maximum get a fresh exact allocation,
  a negative length is converted with `uint32(length)` and then indexes `pools[…]` (index out of
  range = panic when the bucket does not exist);
* `GetByteBuffer` hands out a pooled item *as it is* (it relies on `PutByteBuffer` having reset it),
  the two others re-slice on `Get` (`B[:0]`, resp. `B[:length]` for item buffers — that re-slice
  panics when `cap < length`);
* `Put…` drops capacity 0 and capacity > max; `PutByteBuffer` only re-slices to length 0,
  `PutByteSlicesBuf` zeroes the elements `[0, len)` (and only those), `putItemBuf` zeroes the whole
  backing array `[0, cap)` (since the fix of C42-1; before it only `[0, len)`); both re-slice to 0;
* `sync.Pool` is a bag that may return any stored item of the bucket, or nothing, and may forget
  items at any time: modelled by an explicit choice on `get` and a `forget` operation.

A buffer is abstracted to the dirtiness of its backing array elements: `vis` are the elements
`[0, len)`, `hid` the elements `[len, cap)`; `true` = holds non-zero data.
-/
namespace CentrifugeVerif.BPool

/-! ## index arithmetic (uint32) -/

def bitLenAux : Nat → Nat → Nat
  | 0, _ => 0
  | f + 1, x => if x = 0 then 0 else 1 + bitLenAux f (x / 2)

/-- `bits.Len32` (argument < 2^32). -/
def len32 (x : Nat) : Nat := bitLenAux 32 x

def two32 : Nat := 4294967296

/-- uint32 `v - 1` (wraps at 0). -/
def dec32 (v : Nat) : Nat := if v = 0 then two32 - 1 else v - 1

/-- uint32 `1 << n` (Go: shift counts ≥ 32 give 0). -/
def shl1 (n : Nat) : Nat := (2 ^ n) % two32

/-- `uint32(length)` for a Go `int`. -/
def toU32 (length : Int) : Nat := (length % (two32 : Int)).toNat

/-- bpool.go `nextLogBase2`: `uint32(bits.Len32(v - 1))` (no guard for 0). -/
def nextLogBase2 (v : Nat) : Nat := len32 (dec32 v)

/-- bpool.go `prevLogBase2`. -/
def prevLogBase2 (num : Nat) : Nat :=
  let next := nextLogBase2 num
  if num = shl1 next then next else dec32 next

/-- byte_slices.go `nextLogBase2ByteSlices` and writer.go `nextLogBase2`:
`if v == 0 {return 0}; 32 - bits.LeadingZeros32(v-1)`. -/
def nextLogBase2G (v : Nat) : Nat := if v = 0 then 0 else 32 - (32 - len32 (dec32 v))

/-- byte_slices.go `prevLogBase2ByteSlices` and writer.go `prevLogBase2`. -/
def prevLogBase2G (v : Nat) : Nat :=
  if v = 0 then 0 else
  let next := nextLogBase2G v
  if v = shl1 next then next else dec32 next

/-! ## buffers and pools -/

structure Buf where
  /-- elements `[0, len)`: `true` = non-zero -/
  vis : List Bool
  /-- elements `[len, cap)` -/
  hid : List Bool
deriving Repr, DecidableEq, Inhabited

def Buf.len (b : Buf) : Nat := b.vis.length
def Buf.cap (b : Buf) : Nat := b.vis.length + b.hid.length

/-- `make([]T, len, cap)` (zeroed). -/
def Buf.fresh (len cap : Nat) : Buf := ⟨List.replicate len false, List.replicate (cap - len) false⟩

/-- `b.B = b.B[:0]` -/
def Buf.reslice0 (b : Buf) : Buf := ⟨[], b.vis ++ b.hid⟩

/-- `for i := range b.B { b.B[i] = zero }` -/
def Buf.clearVis (b : Buf) : Buf := ⟨List.replicate b.vis.length false, b.hid⟩

/-- `clear(b.B[:cap(b.B)])` -/
def Buf.clearAll (b : Buf) : Buf := ⟨List.replicate b.vis.length false, List.replicate b.hid.length false⟩

/-- `b.B = b.B[:n]`; `none` = slice bounds out of range panic. -/
def Buf.reslice (b : Buf) (n : Nat) : Option Buf :=
  if n ≤ b.cap then some ⟨(b.vis ++ b.hid).take n, (b.vis ++ b.hid).drop n⟩ else none

/-- the buckets: bucket index ↦ bag of pooled buffers -/
abbrev Pools := Nat → List Buf

def Pools.empty : Pools := fun _ => []

def Pools.add (p : Pools) (i : Nat) (b : Buf) : Pools := fun j => if j = i then b :: p j else p j

def Pools.remove (p : Pools) (i pos : Nat) : Pools := fun j => if j = i then (p j).eraseIdx pos else p j

inductive Res where
  | buf (b : Buf)
  | panic
deriving Repr, DecidableEq

/-- `pools[idx].Get()` with the nondeterminism resolved by `choice` (`none` or an out-of-range
position = the pool returns nil). -/
def poolGet (p : Pools) (i : Nat) (choice : Option Nat) : Option (Buf × Pools) :=
  match choice with
  | none => none
  | some pos =>
    match (p i)[pos]? with
    | none => none
    | some b => some (b, p.remove i pos)

/-! ### bpool.go -/

def maxBufferLength : Nat := 262144
def nBytePools : Nat := 19

def getByteBuffer (p : Pools) (length : Int) (choice : Option Nat) : Pools × Res :=
  if length = 0 then (p, .buf ⟨[], []⟩)
  else if length > (maxBufferLength : Int) then (p, .buf (Buf.fresh 0 length.toNat))
  else
    let idx := nextLogBase2 (toU32 length)
    if idx ≥ nBytePools then (p, .panic)          -- pools[idx]: index out of range
    else
      match poolGet p idx choice with
      | some (b, p') => (p', .buf b)              -- returned as is
      | none => (p, .buf (Buf.fresh 0 (2 ^ idx)))

def putByteBuffer (p : Pools) (b : Buf) : Pools × Res :=
  let capacity := b.cap
  if capacity = 0 ∨ capacity > maxBufferLength then (p, .buf b)
  else
    let idx := prevLogBase2 capacity
    let b := b.reslice0
    if idx ≥ nBytePools then (p, .panic) else (p.add idx b, .buf b)

/-- `if length <= 0 { length = dflt }` -/
def effLen (dflt length : Int) : Int := if length ≤ 0 then dflt else length

/-! ### byte_slices.go -/

def maxByteSlicesBufLength : Nat := 4096
def nSlicePools : Nat := 13

def getByteSlicesBuf (p : Pools) (length : Int) (choice : Option Nat) : Pools × Res :=
  let length : Int := effLen 16 length
  if length > (maxByteSlicesBufLength : Int) then (p, .buf (Buf.fresh 0 length.toNat))
  else
    let idx := nextLogBase2G (toU32 length)
    if idx ≥ nSlicePools then (p, .panic)
    else
      match poolGet p idx choice with
      | some (b, p') => (p', .buf b.reslice0)
      | none => (p, .buf (Buf.fresh 0 (2 ^ idx)))

def putByteSlicesBuf (p : Pools) (b : Buf) : Pools × Res :=
  let capacity := b.cap
  if capacity = 0 ∨ capacity > maxByteSlicesBufLength then (p, .buf b)
  else
    let idx := prevLogBase2G capacity
    let b := b.clearVis.reslice0
    if idx ≥ nSlicePools then (p, .panic) else (p.add idx b, .buf b)

/-! ### writer.go -/

def maxItemBufLength : Nat := 4096
def nItemPools : Nat := 13
def defaultMaxMessagesInFrame : Int := 16

def getItemBuf (p : Pools) (length : Int) (choice : Option Nat) : Pools × Res :=
  let length : Int := effLen defaultMaxMessagesInFrame length
  if length > (maxItemBufLength : Int) then (p, .buf (Buf.fresh length.toNat length.toNat))
  else
    let idx := nextLogBase2G (toU32 length)
    if idx ≥ nItemPools then (p, .panic)
    else
      match poolGet p idx choice with
      | some (b, p') =>
        match b.reslice length.toNat with           -- buf.B = buf.B[:length]
        | some b' => (p', .buf b')
        | none => (p', .panic)
      | none => (p, .buf (Buf.fresh length.toNat (2 ^ idx)))

/-- `putItemBuf`.  `clearToCap = true` is the code as it is (`clear(buf.B[:capacity])`);
`false` is the code before the fix of C42-1 (zeroed `[0, len)` only). -/
def putItemBufV (clearToCap : Bool) (p : Pools) (b : Buf) : Pools × Res :=
  let capacity := b.cap
  if capacity = 0 ∨ capacity > maxItemBufLength then (p, .buf b)
  else
    let idx := prevLogBase2G capacity
    let b := (if clearToCap then b.clearAll else b.clearVis).reslice0
    if idx ≥ nItemPools then (p, .panic) else (p.add idx b, .buf b)

/-- Which variant `/repo` has (flipped to `true` together with the `fix:` commit for C42-1:
`clear(buf.B[:capacity])`). -/
def itemFixApplied : Bool := true

def putItemBuf : Pools → Buf → Pools × Res := putItemBufV itemFixApplied

/-! ## operation sequences -/

inductive Kind where
  | bytes | slices | items
deriving Repr, DecidableEq

inductive Op where
  /-- `Get(length)`; `choice` resolves what `sync.Pool.Get` returns -/
  | get (length : Int) (choice : Option Nat)
  /-- `Put(b)` of an arbitrary buffer (any capacity, any length, any content) -/
  | put (b : Buf)
  /-- the pool forgets the item at position `pos` of bucket `i` (GC) -/
  | forget (i pos : Nat)
deriving Repr, DecidableEq

def stepV (fix : Bool) (k : Kind) (p : Pools) : Op → Pools × Option (Int × Res)
  | .get n c =>
    let r := match k with
      | .bytes => getByteBuffer p n c
      | .slices => getByteSlicesBuf p n c
      | .items => getItemBuf p n c
    (r.1, some (n, r.2))
  | .put b =>
    let r := match k with
      | .bytes => putByteBuffer p b
      | .slices => putByteSlicesBuf p b
      | .items => putItemBufV fix p b
    (r.1, none)
  | .forget i pos => (p.remove i pos, none)

/-- run a sequence from pools `p`, collecting `(requested length, result)` of every `get`. -/
def runV (fix : Bool) (k : Kind) (p : Pools) : List Op → Pools × List (Int × Res)
  | [] => (p, [])
  | op :: ops =>
    let (p', o) := stepV fix k p op
    let (p'', os) := runV fix k p' ops
    (p'', match o with | some x => x :: os | none => os)

def run : Kind → Pools → List Op → Pools × List (Int × Res) := runV itemFixApplied

end CentrifugeVerif.BPool
