/-
Model of the per-connection timer multiplexer and the liveness decisions it drives (client.go):
`scheduleNextTimer` / `onTimerOp` / `sendPing` / `checkPong` / `closeStale` / `expire` / `checkExpired` /
`updatePresence` (alive callback + `checkSubscriptionExpiration`) / `scheduleOnConnectTimers` /
`Client.Refresh` / `handleRefresh` / `handleSubRefresh` / pong handling in `dispatchCommand`.
Core Lean only.  Time is a `Nat` in arbitrary units, `Cfg.sec` units per second (the Go code mixes
`UnixNano` deadlines with `Unix()` second-granular expiry stamps: `unix now = now / sec`).

Go facts mirrored:
* ONE timer per client.  `scheduleNextTimer` (under `c.mu`): no-op when closed; stops the timer; picks
  the minimum of the non-zero `nextExpire, nextPresence, nextPing, nextPong` scanning in that order with
  strict `<` (ties go to the earlier kind); stores the kind in `c.timerOp`, arms the timer for
  `min - now` (≤ 0 fires at once).  `onTimerOp` reads `c.timerOp` when it runs.
* `NewClient`: `ClientStaleCloseDelay > 0` → `timerOp = stale`, timer armed.
* stale: `closeStale` closes with DisconnectStale iff not authenticated or `unusable`; otherwise
  nothing — in particular NO re-arm.
* a connect command answered with an error reply marks the connection `unusable` (it may already be
  `authenticated`: e.g. a connect-time server-side subscription refused); the timers of a connected client
  are never scheduled, the stale timer stays armed; every later command → DisconnectBadRequest.
* ping: `lastPing = now`; ping frame; `pongTimeout > 0 && !unidirectional` → `nextPong = now + pongTimeout`;
  `nextPing = now + pingInterval`; reschedule.
* pong command: before authentication → DisconnectBadRequest; `lastPing ≤ 0` (no ping outstanding,
  a pong flips the sign) → DisconnectBadRequest; else sign flip and `lastSeen = now`.
* pong check: `lastSeen < |lastPing|` → DisconnectNoPong; else `nextPong = 0`, reschedule.
* presence tick: `nextPresence = now + interval`, reschedule, alive callback, then for every
  subscription with `expireAt > 0 ∧ unix now > expireAt + ⌊ExpiredSubCloseDelay⌋s`: client-side-refresh
  subscription or no SubRefreshHandler → unsubscribe(expired); else the handler's answer: error /
  Expired / a past ExpireAt → unsubscribe(expired), otherwise `expireAt := answer` (0 = never).
* `disableExpiration` (fix dc7a0abf): `exp := 0; nextExpire := 0; scheduleNextTimer()`.
* expire: `closed ∨ exp = 0` → RETURN (no re-arm; unreachable with a pending deadline since the fix of
  C36-1: `exp = 0` now always comes with `nextExpire = 0`); server-side refresh
  (`¬clientSideRefresh ∧ handler`) → handler answer: error → ServerError, Expired → DisconnectExpired,
  `ExpireAt > 0` → `exp := ExpireAt`, `ExpireAt = 0` → `disableExpiration` (fix of C36-2b);
  then `checkExpired`: `ttl = exp - unix now`; server-side refresh and `ttl > 0` → `nextExpire = now + ttl`,
  reschedule; `ttl > 0` → return; else DisconnectExpired.
* connect: `exp = credentials.ExpireAt`; on success presence first-tick jitter, `exp > 0` →
  `nextExpire = now + (exp - unix now)s (+ ClientExpiredCloseDelay when clientSideRefresh)`,
  `pingInterval > 0` → first ping jitter; ONE reschedule.  The connect reply carries expires/ttl only
  with clientSideRefresh.
* `Client.Refresh` (server API; no status check): Expired → close(DisconnectExpired);
  `ExpireAt > 0`: `ttl > 0` → `exp := ExpireAt; nextExpire = now + ttl s + ClientExpiredCloseDelay`, reschedule;
  else close(DisconnectExpired); `ExpireAt = 0` → `disableExpiration` (fix of C36-1).
* refresh command: no handler → ErrorNotAvailable; not clientSideRefresh → DisconnectBadRequest; handler
  answer error → error reply (internal), Expired → DisconnectExpired, `ExpireAt > 0`: `ttl > 0` →
  as `Client.Refresh`; else ErrorExpired reply; `ExpireAt = 0` → `disableExpiration`, reply `expires=false`
  (fix of C36-2a).
* sub refresh command: not subscribed → ErrorPermissionDenied; no handler → ErrorNotAvailable; subscription
  not client-side-refresh → DisconnectBadRequest; handler error → error reply; `reply.Expired` →
  DisconnectExpired (fix 0280a82e of C36-3); `ExpireAt > 0 ∧ ExpireAt < unix now` → ErrorExpired; else `expireAt := ExpireAt`.
* `close`: status closed, timer stopped, transport gets the disconnect code.
Not modelled: connect errors before authentication, server-side subscriptions (DisconnectSubExpired), presence
manager / position checks on the tick, TimerScheduler offloading (same outcome once settled),
`maxTTLSeconds` capping, callbacks that answer asynchronously.
-/
namespace CentrifugeVerif.Timers

inductive TOp | stale | presence | expire | ping | pong
deriving Repr, DecidableEq, Inhabited

inductive Status | connecting | connected | closed
deriving Repr, DecidableEq, Inhabited

/-- handler answers / API arguments for an expiry stamp -/
inductive Ans
  | at (d : Int)     -- ExpireAt = unix now + d   (assumed > 0 as an absolute stamp)
  | zero             -- ExpireAt = 0
  | expired          -- Expired = true
  | error            -- handler returned an error
deriving Repr, DecidableEq, Inhabited

structure Cfg where
  sec : Nat := 1000
  pingInterval : Nat := 0
  pongTimeout : Nat := 0
  staleDelay : Nat := 0
  ecd : Nat := 0
  escd : Nat := 0
  presInterval : Nat := 1
  csr : Bool := false
  hasRH : Bool := false
  hasSRH : Bool := false
  uni : Bool := false       -- Transport.Unidirectional(): the client cannot answer pings
deriving Repr, DecidableEq, Inhabited

structure SubC where
  ch : Nat
  expireAt : Nat      -- unix seconds, 0 = never
  csr : Bool
deriving Repr, DecidableEq, Inhabited

structure St where
  status : Status := .connecting
  auth : Bool := false
  unusable : Bool := false         -- the connect command was answered with an error (after authentication or not)
  timerOp : TOp := .stale
  armed : Option Nat := none       -- deadline the single timer is armed for
  nextExpire : Nat := 0
  nextPresence : Nat := 0
  nextPing : Nat := 0
  nextPong : Nat := 0
  lastPing : Nat := 0              -- |lastPing|
  ponged : Bool := false           -- sign of lastPing flipped by a pong
  lastSeen : Nat := 0
  exp : Nat := 0                   -- unix seconds, 0 = no expiry
  subs : List SubC := []
  rhr : List Ans := []             -- scripted answers of timer-driven RefreshHandler calls
  srhr : List Ans := []            -- scripted answers of timer-driven SubRefreshHandler calls
deriving Repr, DecidableEq, Inhabited

inductive Out
  | ping | alive
  | disc (code : Nat)
  | unsub (ch : Nat) (code : Nat)
  | connected (expires : Bool) (ttl : Nat)
  | subscribed (expires : Bool) (ttl : Nat)
  | rrefresh (expires : Bool) (ttl : Nat)
  | prefresh (expires : Bool) (ttl : Nat)
  | rsubrefresh (expires : Bool) (ttl : Nat)
  | err (code : Nat)
  | rh (a : Ans)
  | srh (ch : Nat) (a : Ans)
deriving Repr, DecidableEq

inductive Op
  | new
  | fire
  | connect (exp : Nat) (jp jr : Nat)   -- credentials ExpireAt = unix now + exp (0: none); jitters drawn
  | connectFail                          -- connect command that fails AFTER authentication (a connect-time
                                         -- server-side subscription is refused with ErrorExpired)
  | pong
  | refresh (a : Ans)
  | srefresh (a : Ans)
  | sub (ch : Nat) (ttl : Nat) (csr : Bool)
  | subrefresh (ch : Nat) (a : Ans)
deriving Repr, DecidableEq

def dNoPong : Nat := 3012
def dStale : Nat := 3502
def dExpired : Nat := 3005
def dBadRequest : Nat := 3501
def dServerError : Nat := 3004
def uExpired : Nat := 2501
def eInternal : Nat := 100
def ePermissionDenied : Nat := 103
def eAlreadySubscribed : Nat := 105
def eNotAvailable : Nat := 108
def eExpired : Nat := 110

def unix (c : Cfg) (now : Nat) : Nat := now / c.sec

/-- one `if c.nextX > 0 && (minEventTime == 0 || c.nextX < minEventTime)` step of `scheduleNextTimer` -/
def upd (r : Option (TOp × Nat)) (o : TOp) (v : Nat) : Option (TOp × Nat) :=
  match r with
  | none => if v > 0 then some (o, v) else none
  | some (o', m) => if v > 0 ∧ v < m then some (o, v) else some (o', m)

/-- the scan of `scheduleNextTimer`: (kind, deadline) of the earliest pending deadline -/
def pick (s : St) : Option (TOp × Nat) :=
  upd (upd (upd (upd none .expire s.nextExpire) .presence s.nextPresence) .ping s.nextPing) .pong s.nextPong

/-- `scheduleNextTimer` -/
def schedule (s : St) : St :=
  if s.status = .closed then s
  else match pick s with
    | some (o, t) => { s with timerOp := o, armed := some t }
    | none => { s with armed := none }

/-- `close(disconnect)` -/
def close (s : St) (code : Nat) : St × List Out :=
  if s.status = .closed then (s, [])
  else ({ s with status := .closed, armed := none, subs := [] }, [.disc code])

def popAns : List Ans → Ans × List Ans
  | [] => (.expired, [])
  | a :: as => (a, as)

/-- `disableExpiration` -/
def disableExpiration (s : St) : St := schedule { s with exp := 0, nextExpire := 0 }

/-- `checkExpired` -/
def checkExpired (c : Cfg) (s : St) (now : Nat) : St × List Out :=
  if s.status = .closed ∨ s.exp = 0 then (s, [])
  else if s.exp > unix c now then
    -- ttl > 0
    if !c.csr && c.hasRH then
      (schedule { s with nextExpire := now + (s.exp - unix c now) * c.sec }, [])
    else (s, [])
  else close s dExpired

/-- `expire` -/
def expire (c : Cfg) (s : St) (now : Nat) : St × List Out :=
  if s.status = .closed ∨ s.exp = 0 then (s, [])
  else if !c.csr && c.hasRH then
    let (a, rest) := popAns s.rhr
    let s := { s with rhr := rest }
    match a with
    | .error => let (s', o) := close s dServerError; (s', .rh a :: o)
    | .expired => let (s', o) := close s dExpired; (s', .rh a :: o)
    | .zero =>
      -- zero ExpireAt means no expiration (the connection is not closed here)
      let (s', o) := checkExpired c (disableExpiration s) now; (s', .rh a :: o)
    | .at d =>
      -- `if expireAt > 0 { c.exp = expireAt }`
      let ea := (Int.ofNat (unix c now) + d).toNat
      let s := if ea > 0 then { s with exp := ea } else s
      let (s', o) := checkExpired c s now
      (s', .rh a :: o)
  else checkExpired c s now

/-- one subscription on a presence tick: (kept subscription?, outputs, remaining script) -/
def tickSub (c : Cfg) (now : Nat) (sb : SubC) (script : List Ans) : Option SubC × List Out × List Ans :=
  if sb.expireAt > 0 ∧ unix c now > sb.expireAt + c.escd / c.sec then
    if sb.csr || !c.hasSRH then (none, [.unsub sb.ch uExpired], script)
    else
      let (a, rest) := popAns script
      match a with
      | .error => (none, [.srh sb.ch a, .unsub sb.ch uExpired], rest)
      | .expired => (none, [.srh sb.ch a, .unsub sb.ch uExpired], rest)
      | .zero => (some { sb with expireAt := 0 }, [.srh sb.ch a], rest)
      | .at d =>
        if d < 0 then (none, [.srh sb.ch a, .unsub sb.ch uExpired], rest)
        else (some { sb with expireAt := (Int.ofNat (unix c now) + d).toNat }, [.srh sb.ch a], rest)
  else (some sb, [], script)

def tickSubs (c : Cfg) (now : Nat) : List SubC → List Ans → List SubC × List Out × List Ans
  | [], script => ([], [], script)
  | sb :: rest, script =>
    let (k, o1, script1) := tickSub c now sb script
    let (ks, o2, script2) := tickSubs c now rest script1
    (match k with | some x => x :: ks | none => ks, o1 ++ o2, script2)

/-- `updatePresence` -/
def presenceTick (c : Cfg) (s : St) (now : Nat) : St × List Out :=
  let s := schedule { s with nextPresence := now + c.presInterval }
  let r := tickSubs c now s.subs s.srhr
  ({ s with subs := r.1, srhr := r.2.2 }, .alive :: r.2.1)

/-- `sendPing` -/
def sendPing (c : Cfg) (s : St) (now : Nat) : St × List Out :=
  let s := { s with lastPing := now, ponged := false }
  let s := if c.pongTimeout > 0 ∧ c.uni = false then { s with nextPong := now + c.pongTimeout } else s
  (schedule { s with nextPing := now + c.pingInterval }, [.ping])

/-- `checkPong` -/
def checkPong (s : St) : St × List Out :=
  if s.lastSeen < s.lastPing then close s dNoPong
  else (schedule { s with nextPong := 0 }, [])

/-- the operation `onTimerOp` dispatches to (the timer has just been consumed) -/
def fireOp (c : Cfg) (s : St) (now : Nat) : St × List Out :=
  match s.timerOp with
  | .stale => if !s.auth || s.unusable then close s dStale else (s, [])
  | .presence => presenceTick c s now
  | .expire => expire c s now
  | .ping => sendPing c s now
  | .pong => checkPong s

/-- `onTimerOp` — the armed timer fires at `now` -/
def fire (c : Cfg) (s : St) (now : Nat) : St × List Out :=
  match s.armed with
  | none => (s, [])
  | some d =>
    if d > now then (s, [])
    else if s.status = .closed then ({ s with armed := none }, [])
    else fireOp c { s with armed := none } now

/-- refresh with a new stamp, shared by `Client.Refresh` and the refresh command -/
def applyRefresh (c : Cfg) (s : St) (now : Nat) (d : Int) : St :=
  schedule { s with exp := (Int.ofNat (unix c now) + d).toNat,
                    nextExpire := now + d.toNat * c.sec + c.ecd }

def step (c : Cfg) (s : St) (now : Nat) : Op → St × List Out
  | .new =>
    if c.staleDelay > 0 then ({ s with timerOp := .stale, armed := some (now + c.staleDelay) }, [])
    else (s, [])
  | .fire => fire c s now
  | .connect e jp jr =>
    if s.status = .closed then (s, [])
    else if s.unusable then close s dBadRequest      -- HandleCommand: unusable → DisconnectBadRequest
    else if s.auth then close s dBadRequest
    else
      let exp := if e > 0 then unix c now + e else 0
      let s := { s with auth := true, status := .connected, exp := exp,
                        nextPresence := now + jr,
                        nextExpire := if exp > 0 then now + e * c.sec + (if c.csr then c.ecd else 0) else s.nextExpire,
                        nextPing := if c.pingInterval > 0 then now + jp else s.nextPing }
      (schedule s, [.connected (decide (exp > 0) && c.csr) (if c.csr then e else 0)])
  | .connectFail =>
    if s.status = .closed then (s, [])
    else if s.unusable then close s dBadRequest
    else if s.auth then close s dBadRequest
    else if c.uni then close s dExpired      -- Client.Connect turns the error into a disconnect
    else ({ s with auth := true, unusable := true }, [.err eExpired])
  | .pong =>
    if s.status = .closed then (s, [])
    else if s.unusable then close s dBadRequest      -- HandleCommand: unusable → DisconnectBadRequest
    else if !s.auth then close s dBadRequest
    else if s.lastPing = 0 ∨ s.ponged then close s dBadRequest
    else ({ s with ponged := true, lastSeen := now }, [])
  | .refresh a =>
    if s.status = .closed then (s, [])
    else if s.unusable then close s dBadRequest      -- HandleCommand: unusable → DisconnectBadRequest
    else if !s.auth then close s dBadRequest
    else if !c.hasRH then (s, [.err eNotAvailable])
    else if !c.csr then close s dBadRequest
    else match a with
      | .error => (s, [.err eInternal])
      | .expired => close s dExpired
      | .zero => (disableExpiration s, [.rrefresh false 0])
      | .at d =>
        if d > 0 then (applyRefresh c s now d, [.rrefresh true d.toNat])
        else (s, [.err eExpired])
  | .srefresh a =>
    match a with
    | .expired => close s dExpired
    | .error => (s, [])
    | .zero =>
      if s.status = .closed then (s, []) else (disableExpiration s, [.prefresh false 0])
    | .at d =>
      if d > 0 then
        if s.status = .closed then (s, []) else (applyRefresh c s now d, [.prefresh true d.toNat])
      else close s dExpired
  | .sub ch ttl csr =>
    if s.status = .closed then (s, [])
    else if s.unusable then close s dBadRequest      -- HandleCommand: unusable → DisconnectBadRequest
    else if !s.auth then close s dBadRequest
    else if s.subs.any (·.ch == ch) then (s, [.err eAlreadySubscribed])
    else
      let ea := if ttl > 0 then unix c now + ttl else 0
      ({ s with subs := s.subs ++ [{ ch := ch, expireAt := ea, csr := csr }] },
       [.subscribed (decide (ttl > 0) && csr) (if csr then ttl else 0)])
  | .subrefresh ch a =>
    if s.status = .closed then (s, [])
    else if s.unusable then close s dBadRequest      -- HandleCommand: unusable → DisconnectBadRequest
    else if !s.auth then close s dBadRequest
    else match s.subs.find? (·.ch == ch) with
      | none => (s, [.err ePermissionDenied])
      | some sb =>
        if !c.hasSRH then (s, [.err eNotAvailable])
        else if !sb.csr then close s dBadRequest
        else
          let set := fun (ea : Nat) =>
            { s with subs := s.subs.map fun x => if x.ch == ch then { x with expireAt := ea } else x }
          match a with
          | .error => (s, [.err eInternal])
          | .expired => close s dExpired
          | .zero => (set 0, [.rsubrefresh false 0])
          | .at d =>
            if d < 0 then (s, [.err eExpired])
            else (set (Int.ofNat (unix c now) + d).toNat, [.rsubrefresh true d.toNat])

/-- the pending (non-zero) deadlines -/
def pending (s : St) : List Nat :=
  [s.nextExpire, s.nextPresence, s.nextPing, s.nextPong].filter (· > 0)

end CentrifugeVerif.Timers
