import CentrifugeVerif.Model.Queue
/-
Model of `writer.go` (`writer`: the per-connection flush loop over `queue.Queue`) as a labelled
transition system with an executable step function, plus a deterministic scheduler (`Sim`) used by the
driver.  Core Lean only.

Atomicity mirrors the Go locks: every `queue.Queue` method is one atomic step (it holds `q.mu`);
`w.mu` is modelled by `holder` — the flusher holds it from `Lock` over the queue removal and the
transport write to `Unlock`, `close` holds it over `CloseRemaining`/`Close` and the final `WriteManyFn`.
Producers (`enqueue`/`enqueueMany`) do *not* take `w.mu` for `Add` and for the `Size()` check, so those
interleave freely with a flusher that is inside its critical section; in timer mode they take `w.mu`
afterwards to schedule a flush.

Modes (`run`): `direct` = dedicated goroutine, no write delay (`RemoveManyIntoShrink`); `delay` =
dedicated goroutine with write delay (`RemoveManyInto` + `FinishCollect`); `timer` = timer driven
(`flush` from `time.AfterFunc`).  Time is virtual: `tick` advances `now`, a timer may fire whenever its
deadline has passed (so every real timing is one of the label sequences).
-/
namespace CentrifugeVerif.Writer
open Queue

inductive Mode | direct | delay | timer
deriving DecidableEq, Repr

structure Cfg where
  mode : Mode
  /-- write delay in ms (> 0 in `delay`/`timer` mode) -/
  writeDelay : Nat
  /-- `maxMessagesInFrame` after `0 ↦ 16`; negative = unlimited (`-1` additionally waits for the delay) -/
  maxFrame : Int
  /-- `effectiveShrinkDelay` in ms; 0 = shrink immediately -/
  shrinkDelay : Nat
  /-- `MaxQueueSize`; 0 = unlimited -/
  maxQueueSize : Nat
  /-- queue initial capacity after `0 ↦ 2` -/
  initCap : Nat
deriving Repr

def Cfg.default : Cfg :=
  { mode := .direct, writeDelay := 0, maxFrame := 16, shrinkDelay := 1000, maxQueueSize := 0, initCap := 2 }

/-- one transport interaction -/
inductive TEntry
  /-- `WriteFn(item)` (`many = false`) or `WriteManyFn(items...)` from the flusher or from `close` -/
  | call (items : List Item) (many : Bool) (ok : Bool)
  /-- `config.WriteFn(item)` called by the client directly (`ReplyWithoutQueue`) -/
  | direct (x : Item)
deriving Repr, DecidableEq

inductive Res | ok | slow | connClosed
deriving Repr, DecidableEq

/-- who holds `w.mu`, and where it is -/
inductive Holder
  | free
  | gLocked
  | gBuf (n : Nat)
  | gWrite (items : List Item)
  | tStart
  | tBuf (n : Nat)
  | tWrite (items : List Item)
  | tAfter (err : Bool)
  | cStart (flush : Bool)
  | cWrite (items : List Item) (flush : Bool)
  | cEnd (flush : Bool)
deriving Repr, DecidableEq

/-- the flusher goroutine (`run` → `waitSendMessage` loop) outside its critical section -/
inductive GPc
  | wait
  | checkLen
  | sleeping
  | lock
  | inMu
  | finish (next : Nat)   -- about to `FinishCollect`; then 0 = loop, 1 = `return !Closed()`, 2 = exit
  | retClosed
  | done
deriving Repr, DecidableEq

structure W where
  q : RingQ
  closed : Bool := false
  closeChClosed : Bool := false
  timerScheduled : Bool := false
  now : Nat := 0
  /-- deadline of the armed flush timer (`flushTimer`) -/
  flushAt : Option Nat := none
  /-- flush goroutines started by the timer that have not yet obtained `w.mu` -/
  flushPending : Nat := 0
  /-- flush goroutines past `Unlock`, about to call `FinishCollect` -/
  tFinish : Nat := 0
  /-- deadline of the write-delay timer the flusher goroutine sleeps on -/
  sleepAt : Nat := 0
  /-- deadline of the queue's delayed-shrink timer -/
  shrinkAt : Option Nat := none
  holder : Holder := .free
  g : GPc
  /-- producers between `Add` and the `Size()` check -/
  pendCheck : List (List Item) := []
  /-- producers (timer mode) between the `Size()` check and `w.mu.Lock()` -/
  pendSched : Nat := 0
  -- observations (ghost state)
  /-- items accepted by `Add`/`AddMany`, in queue order -/
  enq : List Item := []
  tx : List TEntry := []
  /-- per enqueue call: items, returned disconnect, queued bytes at the moment of the `Size()` read -/
  results : List (List Item × Res × Nat) := []
  failed : Bool := false
  dropped : Bool := false
  closeDone : Option Bool := none
  slowSeen : Bool := false
deriving Repr

def W.init (c : Cfg) : W :=
  { q := RingQ.new c.initCap, g := if c.mode = .timer then .done else .wait }

/-- items of successful queued writes, flattened: what the transport received from the queue -/
def txq : List TEntry → List Item
  | [] => []
  | .call items _ true :: rest => items ++ txq rest
  | _ :: rest => txq rest

/-- items the holder of `w.mu` has removed from the queue and not yet handed to the transport -/
def Holder.inflight : Holder → List Item
  | .gWrite items | .tWrite items | .cWrite items _ => items
  | _ => []

inductive Lbl
  /-- a producer calls `messages.Add` (`many = false`, `xs = [x]`) or `messages.AddMany` -/
  | add (xs : List Item) (many : Bool)
  /-- the `i`-th producer between `Add` and `Size()` performs its `MaxQueueSize` check -/
  | check (i : Nat)
  /-- a timer-mode producer takes `w.mu` and schedules a flush -/
  | sched
  /-- the client calls `config.WriteFn` itself (`ReplyWithoutQueue`); `ok`: outcome of that write -/
  | direct (x : Item) (ok : Bool)
  | tick (d : Nat)
  /-- the flusher goroutine advances outside its critical section (`choice`: `Wait()` result /
  timer-vs-closeCh in the `select`) -/
  | g (choice : Bool)
  /-- the holder of `w.mu` advances (`ok`: outcome of the transport write, if it is at one) -/
  | h (ok : Bool)
  | fire
  | tLock
  | tFin
  | close (flush : Bool)
  | shrinkFire
deriving Repr, DecidableEq

/-- `messages.FinishCollect(shrinkDelay)` -/
def finishCollect (c : Cfg) (w : W) : W :=
  if w.q.closed then w
  else if c.shrinkDelay = 0 then { w with q := w.q.doShrink }
  else { w with shrinkAt := some (w.now + c.shrinkDelay) }

/-- `scheduleFlushLocked` / `scheduleFlushImmediateLocked` -/
def schedule (w : W) (delay : Nat) : W :=
  if w.timerScheduled then w else { w with timerScheduled := true, flushAt := some (w.now + delay) }

def bufSize (c : Cfg) (w : W) : Nat := if c.maxFrame < 0 then w.q.cnt else c.maxFrame.toNat

def gStep (c : Cfg) (w : W) (choice : Bool) : Option W :=
  match w.g with
  | .wait =>
    if choice then some { w with g := if c.mode = .delay then .checkLen else .lock }
    else if w.q.closed then some { w with g := .done } else none
  | .checkLen =>
    if c.maxFrame = -1 ∨ (w.q.cnt : Int) < c.maxFrame then
      some { w with g := .sleeping, sleepAt := w.now + c.writeDelay }
    else some { w with g := .lock }
  | .sleeping =>
    if choice then (if w.sleepAt ≤ w.now then some { w with g := .lock } else none)
    else (if w.closeChClosed then some { w with g := .finish 2 } else none)
  | .lock => if w.holder = .free then some { w with holder := .gLocked, g := .inMu } else none
  | .finish n =>
    some { finishCollect c w with g := match n with | 0 => .wait | 1 => .retClosed | _ => .done }
  | .retClosed => some { w with g := if w.q.closed then .done else .wait }
  | .inMu | .done => none

def hStep (c : Cfg) (w : W) (ok : Bool) : Option W :=
  match w.holder with
  | .free => none
  | .gLocked =>
    if c.maxFrame < 0 ∧ w.q.cnt = 0 then
      some { w with holder := .free, g := if c.mode = .delay then .wait else .retClosed }
    else some { w with holder := .gBuf (bufSize c w) }
  | .gBuf n =>
    let (q', r) := if c.mode = .delay then w.q.removeManyInto n n else w.q.removeManyIntoShrink n n
    match r with
    | none => some { w with q := q', holder := .free, g := if c.mode = .delay then .finish 1 else .retClosed }
    | some items => some { w with q := q', holder := .gWrite items }
  | .gWrite items =>
    if ok then
      some { w with tx := w.tx ++ [.call items (items.length != 1) true], holder := .free,
                    g := if c.mode = .delay then .finish 0 else .wait }
    else
      some { w with tx := w.tx ++ [.call items (items.length != 1) false], failed := true, holder := .free,
                    g := if c.mode = .delay then .finish 2 else .done }
  | .tStart =>
    if w.q.cnt = 0 then some { w with holder := .free } else some { w with holder := .tBuf (bufSize c w) }
  | .tBuf n =>
    let (q', r) := w.q.removeManyInto n n
    match r with
    | none => some { w with q := q', holder := .free, tFinish := w.tFinish + 1 }
    | some items => some { w with q := q', holder := .tWrite items }
  | .tWrite items =>
    if ok then some { w with tx := w.tx ++ [.call items (items.length != 1) true], holder := .tAfter false }
    else some { w with tx := w.tx ++ [.call items (items.length != 1) false], failed := true,
                       holder := .tAfter true }
  | .tAfter err =>
    let w1 :=
      if !err ∧ 0 < w.q.cnt ∧ !w.closed then
        schedule w (if 0 < c.maxFrame ∧ c.maxFrame ≤ (w.q.cnt : Int) then 0 else c.writeDelay)
      else w
    some { w1 with holder := .free, tFinish := w1.tFinish + 1 }
  | .cStart flush =>
    if flush then
      let (q', items) := w.q.closeRemaining
      some { w with q := q', shrinkAt := none,
                    holder := if items.isEmpty then .cEnd flush else .cWrite items flush }
    else
      some { w with q := w.q.close, shrinkAt := none, dropped := w.dropped || (0 < w.q.cnt),
                    holder := .cEnd flush }
  | .cWrite items flush =>
    if ok then some { w with tx := w.tx ++ [.call items true true], holder := .cEnd flush }
    else some { w with tx := w.tx ++ [.call items true false], failed := true, holder := .cEnd flush }
  | .cEnd flush => some { w with closeChClosed := true, closeDone := some flush, holder := .free }

def step (c : Cfg) (w : W) : Lbl → Option W
  | .add xs many =>
    let (q', r) := if many then w.q.addMany xs else
      (match xs with | [x] => w.q.add x | _ => (w.q, .panic))
    match r with
    | .ok => some { w with q := q', enq := w.enq ++ xs, pendCheck := w.pendCheck ++ [xs] }
    | .closed => some { w with results := w.results ++ [(xs, .connClosed, 0)] }
    | .panic => none
  | .check i =>
    match w.pendCheck[i]? with
    | none => none
    | some xs =>
      let w1 := { w with pendCheck := w.pendCheck.eraseIdx i }
      if 0 < c.maxQueueSize ∧ c.maxQueueSize < w.q.size then
        some { w1 with results := w.results ++ [(xs, .slow, bytes w.q.toList)], slowSeen := true }
      else
        some { w1 with results := w.results ++ [(xs, .ok, bytes w.q.toList)],
                       pendSched := if c.mode = .timer then w.pendSched + 1 else w.pendSched }
  | .sched =>
    if w.holder = .free ∧ 0 < w.pendSched then
      let w1 := { w with pendSched := w.pendSched - 1 }
      some (if !w.closed ∧ !w.timerScheduled then schedule w1 c.writeDelay else w1)
    else none
  | .direct x ok => some { w with tx := w.tx ++ [if ok then .direct x else .call [x] false false] }
  | .tick d => some { w with now := w.now + d }
  | .g choice => gStep c w choice
  | .h ok => hStep c w ok
  | .fire =>
    match w.flushAt with
    | some t => if t ≤ w.now then some { w with flushAt := none, flushPending := w.flushPending + 1 } else none
    | none => none
  | .tLock =>
    if w.holder = .free ∧ 0 < w.flushPending then
      some { w with flushPending := w.flushPending - 1, timerScheduled := false, holder := .tStart }
    else none
  | .tFin => if 0 < w.tFinish then some { finishCollect c w with tFinish := w.tFinish - 1 } else none
  | .close flush =>
    if w.holder = .free then
      (if w.closed then some w
       else some { w with closed := true, flushAt := none, holder := .cStart flush })
    else none
  | .shrinkFire =>
    match w.shrinkAt with
    | some t => if t ≤ w.now then some { w with shrinkAt := none, q := w.q.doShrink } else none
    | none => none

/-- run a label sequence from a state (`none`: some label was not enabled) -/
def run (c : Cfg) (w : W) : List Lbl → Option W
  | [] => some w
  | l :: ls => match step c w l with
    | some w' => run c w' ls
    | none => none

/-- every state the writer can be in, under any interleaving and any timing -/
def Reachable (c : Cfg) (w : W) : Prop := ∃ ls, run c (W.init c) ls = some w

/-! ## Deterministic scheduler for the driver

The harness performs one op at a time and lets the real writer come to rest (`synctest.Wait`) before the
next one; `quiesce` does the same with the model: it fires enabled internal labels in a fixed priority
until none is enabled.  A `sleep` advances virtual time from deadline to deadline. -/

structure Sim where
  cfg : Cfg
  w : W
  /-- the next transport write is made to fail -/
  failNext : Bool := false
  /-- concurrent scenario: the model does not predict (outputs `skip`) -/
  conc : Bool := false
deriving Repr

def Sim.init (c : Cfg) : Sim := { cfg := c, w := W.init c }

def atWrite : Holder → Bool
  | .gWrite _ | .tWrite _ | .cWrite _ _ => true
  | _ => false

/-- the next internal label by priority, if any is enabled -/
def nextInternal (s : Sim) : Option Lbl :=
  let w := s.w
  if !w.pendCheck.isEmpty then some (.check 0)
  else if w.holder ≠ .free then some (.h (!(s.failNext && atWrite w.holder)))
  else if 0 < w.pendSched then some .sched
  else if 0 < w.flushPending then some .tLock
  else if 0 < w.tFinish then some .tFin
  else
    let gl : Option Lbl :=
      match w.g with
      | .wait => if w.q.closed then some (.g false) else if w.q.cnt ≠ 0 then some (.g true) else none
      | .checkLen | .lock | .finish _ | .retClosed => some (.g true)
      | .sleeping => if w.closeChClosed then some (.g false) else if w.sleepAt ≤ w.now then some (.g true) else none
      | .inMu | .done => none
    match gl with
    | some l => some l
    | none =>
      match w.flushAt with
      | some t => if t ≤ w.now then some .fire else
        (match w.shrinkAt with | some t' => if t' ≤ w.now then some .shrinkFire else none | none => none)
      | none =>
        (match w.shrinkAt with | some t' => if t' ≤ w.now then some .shrinkFire else none | none => none)

def quiesce : Nat → Sim → Sim
  | 0, s => s
  | fuel + 1, s =>
    match nextInternal s with
    | none => s
    | some l =>
      match step s.cfg s.w l with
      | none => s
      | some w' =>
        let usedFail := match l with | .h false => true | _ => false
        quiesce fuel { s with w := w', failNext := s.failNext && !usedFail }

def simFuel (s : Sim) : Nat := 64 + 8 * (s.w.q.cnt + s.w.pendCheck.length)

/-- apply an external label and come to rest -/
def Sim.ext (s : Sim) (l : Lbl) : Sim :=
  match step s.cfg s.w l with
  | none => s
  | some w' => let s' := { s with w := w' }; quiesce (simFuel s') s'

/-- `enqueue`/`enqueueMany` from the harness.  `AddMany` with no items still signals the condition
variable, which wakes a flusher blocked in `Wait()` although the queue is empty (`Wait` then returns
true): the `g true` label from `wait`. -/
def Sim.add (s : Sim) (xs : List Item) (many : Bool) : Sim :=
  match step s.cfg s.w (.add xs many) with
  | none => s
  | some w' =>
    let s1 := { s with w := w' }
    let s2 := quiesce (simFuel s1) s1
    if xs.isEmpty ∧ s.w.g = .wait ∧ !s.w.q.closed then
      match step s2.cfg s2.w (.g true) with
      | some w'' => let s3 := { s2 with w := w'' }; quiesce (simFuel s3) s3
      | none => s2
    else s2

/-- apply labels in order, skipping those that are not enabled -/
def applyLabels (c : Cfg) (w : W) : List Lbl → W
  | [] => w
  | l :: ls => match step c w l with
    | some w' => applyLabels c w' ls
    | none => applyLabels c w ls

/-- The schedule of the harness op `gclose x1 … xn` (direct mode, queue empty, at rest): `x1` is
enqueued and the flusher takes it and is inside the transport write (holding `w.mu`) while `x2 … xn`
are enqueued and `close(true)` is called; the closer has to wait for `w.mu`, so the write of `x1`
completes first and then `close` flushes the rest. -/
def Sim.gclose (s : Sim) (xs : List Item) : Sim :=
  match xs with
  | [] => s
  | x1 :: rest =>
    let take : List Lbl := [.add [x1] false, .check 0, .g true, .g true, .h true, .h true]
    let more : List Lbl := rest.flatMap fun x => [.add [x] false, .check 0]
    let fin : List Lbl := [.h true, .close true, .h true, .h true, .h true]
    let s1 := { s with w := applyLabels s.cfg s.w (take ++ more ++ fin) }
    quiesce (simFuel s1) s1

def minOpt (a : Option Nat) (b : Option Nat) : Option Nat :=
  match a, b with
  | some x, some y => some (min x y)
  | some x, none => some x
  | none, b => b

/-- earliest pending deadline -/
def nextDeadline (w : W) : Option Nat :=
  minOpt (minOpt w.flushAt w.shrinkAt) (if w.g = .sleeping then some w.sleepAt else none)

def Sim.sleep : Nat → Sim → Nat → Sim
  | 0, s, _ => s
  | fuel + 1, s, target =>
    match nextDeadline s.w with
    | some t =>
      if t ≤ target then
        Sim.sleep fuel (s.ext (.tick (t - s.w.now))) target
      else s.ext (.tick (target - s.w.now))
    | none => s.ext (.tick (target - s.w.now))

end CentrifugeVerif.Writer
