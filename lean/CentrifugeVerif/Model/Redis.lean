import CentrifugeVerif.Model.LuaVal
/-
An executable model of the part of Redis the centrifuge Lua scripts talk to.  Core Lean only.
TRUSTED MODEL: hand-written from the Redis command reference and `t_hash.c`, `t_list.c`, `t_zset.c`,
`t_stream.c`, `expire.c`, `script_lua.c` (Redis 7.x); there is no Redis server in the sandbox to
compare it with.

State: a key space `String → Option Key` (value + absolute expiry in ms), a clock `now` (ms, an
*input*: the driver sets it before every script run and `purge`s the keys whose expiry has passed —
scripts run atomically at one instant, so lazy expiry inside a script never matters), and the list
of messages handed to `PUBLISH`/`SPUBLISH` (the model's output towards subscribers).

Data types: hashes (field list in insertion order), lists, sorted sets (kept sorted by
`(score, member)`; scores are integer-valued doubles, see `LuaVal`), streams (entries in id order,
plus `last-generated-id`, which survives trimming but not `DEL`).  A hash/list/zset that becomes
empty disappears together with its TTL; a stream may be empty.

Deliberate limits (each is loud, `LuaErr.unsupported`, never a silently wrong reply):
* `HPEXPIRE` (per-field TTL, Redis ≥ 7.4) — the drivers configure `use_hpexpire = "0"`;
* `XADD` with `*` ids, exclusive `(` stream ranges, `COUNT 0`;
* sorted-set scores that are not integers, and printing a score with `|score| ≥ 2^52`
  (beyond that Redis switches to `%.17g`/shortest formatting, which differs between versions);
* `MAXLEN ~ n` is modelled as exact trimming (the strongest behaviour Redis may show);
* `HSCAN` returns the whole hash with cursor `"0"` (what Redis does for listpack-encoded hashes);
* key eviction (`maxmemory`) is not modelled — only TTL expiry.
-/
namespace CentrifugeVerif.Redis
open CentrifugeVerif.Lua

/-- a RESP reply as `redis.call` sees it before the conversion to a Lua value -/
inductive Resp
  | int (i : Int)
  | bulk (s : String)
  | nil
  | arr (l : List Resp)
  | status (s : String)
deriving Repr, Inhabited

structure SEntry where
  ms : Nat
  seq : Nat
  /-- flat `field, value, field, value, …` -/
  fields : List String
deriving Repr, DecidableEq, Inhabited

inductive RVal
  | hash (f : List (String × String))
  | list (l : List String)
  | zset (m : List (String × Int))
  | stream (es : List SEntry) (lastMs lastSeq : Nat)
deriving Repr, DecidableEq, Inhabited

structure Key where
  val : RVal
  /-- absolute expiry time (ms) -/
  exp : Option Nat := none
deriving Repr, DecidableEq, Inhabited

structure PubMsg where
  cmd : String
  chan : String
  payload : String
deriving Repr, DecidableEq, Inhabited

structure Redis where
  db : String → Option Key := fun _ => none
  now : Nat := 0
  out : List PubMsg := []

instance : Inhabited Redis := ⟨{}⟩

def Key.alive (now : Nat) (k : Key) : Bool :=
  match k.exp with
  | some e => decide (now < e)
  | none => true

/-- set the clock and drop every key whose expiry time has passed -/
def Redis.setNow (r : Redis) (now : Nat) : Redis :=
  { r with now := now, db := fun k => (r.db k).filter (Key.alive now) }

def Redis.put (r : Redis) (k : String) (v : Option Key) : Redis :=
  { r with db := fun x => if x = k then v else r.db x }

/-- write a value keeping the key's TTL (new keys have none) -/
def Redis.setVal (r : Redis) (k : String) (v : RVal) : Redis :=
  r.put k (some { val := v, exp := (r.db k).bind (·.exp) })

abbrev R := Except LuaErr

def wrongType {α : Type} : R α :=
  .error (.runtime "WRONGTYPE Operation against a key holding the wrong kind of value")

def rerr {α : Type} (msg : String) : R α := .error (.runtime msg)
def unsup {α : Type} (msg : String) : R α := .error (.unsupported msg)

def getHash (r : Redis) (k : String) : R (List (String × String)) :=
  match r.db k with
  | none => pure []
  | some ⟨.hash f, _⟩ => pure f
  | some _ => wrongType

def getList (r : Redis) (k : String) : R (List String) :=
  match r.db k with
  | none => pure []
  | some ⟨.list l, _⟩ => pure l
  | some _ => wrongType

def getZset (r : Redis) (k : String) : R (List (String × Int)) :=
  match r.db k with
  | none => pure []
  | some ⟨.zset m, _⟩ => pure m
  | some _ => wrongType

/-- `none` = the key does not exist -/
def getStream (r : Redis) (k : String) : R (Option (List SEntry × Nat × Nat)) :=
  match r.db k with
  | none => pure none
  | some ⟨.stream es a b, _⟩ => pure (some (es, a, b))
  | some _ => wrongType

def putHash (r : Redis) (k : String) (f : List (String × String)) : Redis :=
  if f.isEmpty then r.put k none else r.setVal k (.hash f)

def putList (r : Redis) (k : String) (l : List String) : Redis :=
  if l.isEmpty then r.put k none else r.setVal k (.list l)

def putZset (r : Redis) (k : String) (m : List (String × Int)) : Redis :=
  if m.isEmpty then r.put k none else r.setVal k (.zset m)

def hlookup (f : List (String × String)) (x : String) : Option String :=
  (f.find? (·.1 == x)).map (·.2)

def hset1 (f : List (String × String)) (x v : String) : List (String × String) :=
  if f.any (·.1 == x) then f.map (fun p => if p.1 == x then (x, v) else p) else f ++ [(x, v)]

def parseInt (s : String) : R Int :=
  match parseDecInt s with
  | some i => pure i
  | none => rerr "ERR value is not an integer or out of range"

def optBulk : Option String → Resp
  | some s => .bulk s
  | none => .nil

/-- pairs `(field, value)` of a flat argument list -/
def pairs : List String → Option (List (String × String))
  | [] => some []
  | [_] => none
  | a :: b :: r => (pairs r).map ((a, b) :: ·)

/-! ### sorted sets -/

def zless (a b : String × Int) : Bool := a.2 < b.2 || (a.2 == b.2 && a.1 < b.1)

def zinsert (x : String × Int) : List (String × Int) → List (String × Int)
  | [] => [x]
  | y :: ys => if zless x y then x :: y :: ys else y :: zinsert x ys

def zaddOne (m : List (String × Int)) (member : String) (score : Int) : List (String × Int) :=
  zinsert (member, score) (m.filter (·.1 != member))

def parseScore (s : String) : R Int :=
  match parseNumInt s with
  | some i => pure (round53 i)
  | none =>
    if looksNumeric s then unsup s!"non-integer sorted-set score {s.quote}"
    else rerr "ERR value is not a valid float"

/-- a score in a reply (`d2string`): exact decimal for integers in (−2^52, 2^52) -/
def fmtScore (i : Int) : R String :=
  if i.natAbs < 4503599627370496 then pure (toString i)
  else unsup "printing a sorted-set score with |score| ≥ 2^52"

inductive Bnd
  | ninf | pinf
  | val (i : Int) (excl : Bool)
deriving Repr

def parseBnd (s : String) : R Bnd :=
  if s == "-inf" then pure .ninf
  else if s == "+inf" || s == "inf" then pure .pinf
  else
    let (excl, body) := if hasPrefix s "(" then (true, dropN s 1) else (false, s)
    if body == "-inf" then pure .ninf
    else if body == "+inf" || body == "inf" then pure .pinf
    else match parseNumInt body with
      | some i => pure (.val (round53 i) excl)
      | none =>
        if looksNumeric body then unsup s!"non-integer score bound {s.quote}"
        else rerr "ERR min or max is not a float"

/-- `score ≥ min` (resp. `>` when exclusive) -/
def geMin (b : Bnd) (s : Int) : Bool :=
  match b with
  | .ninf => true | .pinf => false
  | .val i excl => if excl then i < s else i ≤ s

def leMax (b : Bnd) (s : Int) : Bool :=
  match b with
  | .ninf => false | .pinf => true
  | .val i excl => if excl then s < i else s ≤ i

def zreply (withScores : Bool) (l : List (String × Int)) : R Resp := do
  if withScores then
    let mut out : List Resp := []
    for p in l do
      out := out ++ [.bulk p.1, .bulk (← fmtScore p.2)]
    pure (.arr out)
  else pure (.arr (l.map (fun p => .bulk p.1)))

/-- the index window of `LRANGE`/`ZRANGE`/`LTRIM` over a sequence of length `n`:
`(start, count)` -/
def idxWindow (n : Nat) (a b : Int) : Nat × Nat :=
  let len : Int := n
  let a := if a < 0 then max (len + a) 0 else a
  let b := if b < 0 then len + b else b
  let b := if b ≥ len then len - 1 else b
  if a > b ∨ a ≥ len then (0, 0) else (a.toNat, (b - a + 1).toNat)

def slice {α : Type} (l : List α) (w : Nat × Nat) : List α := (l.drop w.1).take w.2

/-- trailing options of `Z(REV)RANGEBYSCORE`: `WITHSCORES`, `LIMIT off cnt` -/
def zrbsOpts : List String → R (Bool × Option (Nat × Int))
  | [] => pure (false, none)
  | x :: rest =>
    if (strLower x) == "withscores" then do
      let (_, l) ← zrbsOpts rest
      pure (true, l)
    else if (strLower x) == "limit" then
      match rest with
      | o :: c :: rest' => do
        let off ← parseInt o
        let cnt ← parseInt c
        let (w, _) ← zrbsOpts rest'
        if off < 0 then pure (w, some (0, 0)) else pure (w, some (off.toNat, cnt))
      | _ => rerr "ERR syntax error"
    else rerr "ERR syntax error"

def applyLimit {α : Type} (l : List α) : Option (Nat × Int) → List α
  | none => l
  | some (off, cnt) => if cnt < 0 then l.drop off else (l.drop off).take cnt.toNat

/-! ### streams -/

/-- a stream id bound; `isEnd` selects the default sequence part (`0` for a start, max for an end) -/
def parseSid (s : String) (isEnd : Bool) : R (Nat × Option Nat) :=
  if hasPrefix s "(" then unsup "exclusive stream range" else
  match splitStr s "-" with
  | [a] =>
    match parseNat a with
    | some ms => pure (ms, if isEnd then none else some 0)
    | none => rerr "ERR Invalid stream ID specified as stream command argument"
  | [a, b] =>
    match parseNat a, parseNat b with
    | some ms, some sq => pure (ms, some sq)
    | _, _ => rerr "ERR Invalid stream ID specified as stream command argument"
  | _ => rerr "ERR Invalid stream ID specified as stream command argument"

/-- `lo ≤ id` where `lo` comes from `parseSid … false`, or `-` -/
def sidGe (lo : Option (Nat × Option Nat)) (e : SEntry) : Bool :=
  match lo with
  | none => true
  | some (ms, sq) => e.ms > ms || (e.ms == ms && e.seq ≥ sq.getD 0)

/-- `id ≤ hi` where a missing sequence part means the maximal one, or `+` -/
def sidLe (hi : Option (Nat × Option Nat)) (e : SEntry) : Bool :=
  match hi with
  | none => true
  | some (ms, sq) =>
    e.ms < ms || (e.ms == ms && (match sq with | none => true | some q => e.seq ≤ q))

def sentryResp (e : SEntry) : Resp :=
  .arr [.bulk s!"{e.ms}-{e.seq}", .arr (e.fields.map .bulk)]

def rangeCount : List String → R (Option Nat)
  | [] => pure none
  | [c, n] =>
    if (strLower c) == "count" then do
      let k ← parseInt n
      if k ≤ 0 then unsup "XRANGE COUNT ≤ 0" else pure (some k.toNat)
    else rerr "ERR syntax error"
  | _ => rerr "ERR syntax error"

def takeOpt {α : Type} (l : List α) : Option Nat → List α
  | none => l
  | some n => l.take n

def xrangeCore (r : Redis) (key lo hi : String) (opts : List String) (rev : Bool) : R Resp := do
  let cnt ← rangeCount opts
  let lo' ← if lo == "-" then pure none else (some <$> parseSid lo false)
  let hi' ← if hi == "+" then pure none else (some <$> parseSid hi true)
  match ← getStream r key with
  | none => pure (.arr [])
  | some (es, _, _) =>
    let sel := es.filter (fun e => sidGe lo' e && sidLe hi' e)
    let sel := if rev then sel.reverse else sel
    pure (.arr ((takeOpt sel cnt).map sentryResp))

/-! ### command dispatch -/

/-- one Redis command (name already lower-cased) on string arguments -/
def exec (r : Redis) (name : String) (a : List String) : R (Resp × Redis) :=
  match name, a with
  | "hget", [k, f] => do
    let h ← getHash r k
    pure (optBulk (hlookup h f), r)
  | "hmget", k :: fs => do
    if fs.isEmpty then rerr "ERR wrong number of arguments for 'hmget' command" else
    let h ← getHash r k
    pure (.arr (fs.map (fun f => optBulk (hlookup h f))), r)
  | "hset", k :: fvs => do
    match pairs fvs with
    | none => rerr "ERR wrong number of arguments for 'hset' command"
    | some [] => rerr "ERR wrong number of arguments for 'hset' command"
    | some ps =>
      let h ← getHash r k
      let added := (ps.map (·.1)).eraseDups.filter (fun f => (hlookup h f).isNone)
      let h' := ps.foldl (fun h p => hset1 h p.1 p.2) h
      pure (.int added.length, putHash r k h')
  | "hincrby", [k, f, n] => do
    let d ← parseInt n
    let h ← getHash r k
    let cur ← match hlookup h f with
      | none => pure (0 : Int)
      | some s => match parseDecInt s with
        | some i => pure i
        | none => rerr "ERR hash value is not an integer"
    let v := cur + d
    if v > 9223372036854775807 ∨ v < -9223372036854775808 then
      rerr "ERR increment or decrement would overflow"
    else pure (.int v, putHash r k (hset1 h f (toString v)))
  | "hlen", [k] => do
    let h ← getHash r k
    pure (.int h.length, r)
  | "hexists", [k, f] => do
    let h ← getHash r k
    pure (.int (if (hlookup h f).isSome then 1 else 0), r)
  | "hdel", k :: fs => do
    if fs.isEmpty then rerr "ERR wrong number of arguments for 'hdel' command" else
    let h ← getHash r k
    let h' := h.filter (fun p => !fs.contains p.1)
    pure (.int (h.length - h'.length), putHash r k h')
  | "hgetall", [k] => do
    let h ← getHash r k
    pure (.arr (h.foldr (fun p acc => .bulk p.1 :: .bulk p.2 :: acc) []), r)
  | "hscan", k :: _cursor :: _ => do
    let h ← getHash r k
    pure (.arr [.bulk "0", .arr (h.foldr (fun p acc => .bulk p.1 :: .bulk p.2 :: acc) [])], r)
  | "hpexpire", _ => unsup "HPEXPIRE (per-field TTL) is not modelled"
  | "exists", ks =>
    pure (.int (ks.filter (fun k => (r.db k).isSome)).length, r)
  | "del", ks =>
    pure (.int (ks.eraseDups.filter (fun k => (r.db k).isSome)).length,
          ks.foldl (fun r k => r.put k none) r)
  | "expire", [k, s] => do
    let n ← parseInt s
    match r.db k with
    | none => pure (.int 0, r)
    | some key =>
      if n ≤ 0 then pure (.int 1, r.put k none)
      else pure (.int 1, r.put k (some { key with exp := some (r.now + n.toNat * 1000) }))
  | "pexpire", [k, s] => do
    let n ← parseInt s
    match r.db k with
    | none => pure (.int 0, r)
    | some key =>
      if n ≤ 0 then pure (.int 1, r.put k none)
      else pure (.int 1, r.put k (some { key with exp := some (r.now + n.toNat) }))
  | "publish", [c, m] => pure (.int 0, { r with out := r.out ++ [⟨"publish", c, m⟩] })
  | "spublish", [c, m] => pure (.int 0, { r with out := r.out ++ [⟨"spublish", c, m⟩] })
  -- lists
  | "lpush", k :: vs => do
    if vs.isEmpty then rerr "ERR wrong number of arguments for 'lpush' command" else
    let l ← getList r k
    let l' := vs.reverse ++ l
    pure (.int l'.length, putList r k l')
  | "ltrim", [k, a, b] => do
    let a ← parseInt a
    let b ← parseInt b
    let l ← getList r k
    pure (.status "OK", putList r k (slice l (idxWindow l.length a b)))
  | "lrange", [k, a, b] => do
    let a ← parseInt a
    let b ← parseInt b
    let l ← getList r k
    pure (.arr ((slice l (idxWindow l.length a b)).map .bulk), r)
  | "lindex", [k, i] => do
    let i ← parseInt i
    let l ← getList r k
    let j : Int := if i < 0 then (l.length : Int) + i else i
    pure (if j < 0 then .nil else optBulk l[j.toNat]?, r)
  -- sorted sets
  | "zadd", k :: svs => do
    match pairs svs with
    | none => rerr "ERR syntax error"
    | some [] => rerr "ERR wrong number of arguments for 'zadd' command"
    | some ps =>
      let m ← getZset r k
      let mut m' := m
      let mut added : Nat := 0
      for p in ps do
        let sc ← parseScore p.1
        if !(m'.any (·.1 == p.2)) then added := added + 1
        m' := zaddOne m' p.2 sc
      pure (.int added, putZset r k m')
  | "zrem", k :: ms => do
    if ms.isEmpty then rerr "ERR wrong number of arguments for 'zrem' command" else
    let m ← getZset r k
    let m' := m.filter (fun p => !ms.contains p.1)
    pure (.int (m.length - m'.length), putZset r k m')
  | "zscore", [k, x] => do
    let m ← getZset r k
    match m.find? (·.1 == x) with
    | none => pure (.nil, r)
    | some p => pure (.bulk (← fmtScore p.2), r)
  | "zcard", [k] => do
    let m ← getZset r k
    pure (.int m.length, r)
  | "zrange", k :: a :: b :: opts => do
    let ws ← match opts with
      | [] => pure false
      | [w] => if (strLower w) == "withscores" then pure true else rerr "ERR syntax error"
      | _ => unsup "ZRANGE options"
    let a ← parseInt a
    let b ← parseInt b
    let m ← getZset r k
    pure (← zreply ws (slice m (idxWindow m.length a b)), r)
  | "zrevrange", k :: a :: b :: opts => do
    let ws ← match opts with
      | [] => pure false
      | [w] => if (strLower w) == "withscores" then pure true else rerr "ERR syntax error"
      | _ => rerr "ERR syntax error"
    let a ← parseInt a
    let b ← parseInt b
    let m ← getZset r k
    pure (← zreply ws (slice m.reverse (idxWindow m.length a b)), r)
  | "zrangebyscore", k :: lo :: hi :: opts => do
    let lo ← parseBnd lo
    let hi ← parseBnd hi
    let (ws, lim) ← zrbsOpts opts
    let m ← getZset r k
    let sel := m.filter (fun p => geMin lo p.2 && leMax hi p.2)
    pure (← zreply ws (applyLimit sel lim), r)
  | "zrevrangebyscore", k :: hi :: lo :: opts => do
    let lo ← parseBnd lo
    let hi ← parseBnd hi
    let (ws, lim) ← zrbsOpts opts
    let m ← getZset r k
    let sel := (m.filter (fun p => geMin lo p.2 && leMax hi p.2)).reverse
    pure (← zreply ws (applyLimit sel lim), r)
  -- streams
  | "xadd", k :: rest => do
    -- optional MAXLEN [~|=] n
    let (maxlen, rest) ← match rest with
      | m :: t =>
        if (strLower m) == "maxlen" then
          match t with
          | "~" :: n :: t' => do pure (some (← parseInt n), t')
          | "=" :: n :: t' => do pure (some (← parseInt n), t')
          | n :: t' => do pure (some (← parseInt n), t')
          | [] => rerr "ERR syntax error"
        else pure (none, rest)
      | [] => rerr "ERR wrong number of arguments for 'xadd' command"
    match rest with
    | id :: fvs =>
      if id == "*" then unsup "XADD with an auto-generated id" else
      if fvs.isEmpty || fvs.length % 2 ≠ 0 then rerr "ERR wrong number of arguments for 'xadd' command" else
      match maxlen with
      | some n => if n < 0 then rerr "ERR The MAXLEN argument must be >= 0." else pure ()
      | none => pure ()
      let (ms, sq) ← parseSid id false
      let sq := sq.getD 0
      let cur ← getStream r k
      let (es, lm, ls) := cur.getD ([], 0, 0)
      if ms = 0 ∧ sq = 0 then rerr "ERR The ID specified in XADD must be greater than 0-0" else
      if !(ms > lm || (ms == lm && sq > ls)) then
        rerr "ERR The ID specified in XADD is equal or smaller than the target stream top item"
      else
        let es' := es ++ [⟨ms, sq, fvs⟩]
        let es' := match maxlen with
          | some n => es'.drop (es'.length - n.toNat)
          | none => es'
        pure (.bulk s!"{ms}-{sq}", r.setVal k (.stream es' ms sq))
    | [] => rerr "ERR wrong number of arguments for 'xadd' command"
  | "xrange", k :: lo :: hi :: opts => do
    pure (← xrangeCore r k lo hi opts false, r)
  | "xrevrange", k :: hi :: lo :: opts => do
    pure (← xrangeCore r k lo hi opts true, r)
  | n, _ => unsup s!"Redis command {n.quote} (or its arity) is not modelled"

/-! ### RESP ↔ Lua -/

mutual
/-- what `redis.call` returns for a reply (RESP2 conversion rules of `script_lua.c`) -/
def respToLua : Resp → LVal
  | .int i => .num (round53 i)
  | .bulk s => .str s
  | .nil => .bool false
  | .status s => .status s
  | .arr l => .tbl (respsToLua l)
def respsToLua : List Resp → List LVal
  | [] => []
  | x :: xs => respToLua x :: respsToLua xs
end

mutual
/-- what a script's return value becomes on the wire: number → integer (truncated), string → bulk,
`false`/`nil` → nil, `true` → 1, table → array **up to the first nil** -/
def luaToResp : LVal → Resp
  | .num i => .int i
  | .str s => .bulk s
  | .nil => .nil
  | .bool false => .nil
  | .bool true => .int 1
  | .status s => .status s
  | .tbl a => .arr (luasToResp a)
def luasToResp : List LVal → List Resp
  | [] => []
  | .nil :: _ => []
  | x :: xs => luaToResp x :: luasToResp xs
end

/-- a `redis.call` argument: strings as they are, numbers as exact integers; anything else is the
Redis error "Lua redis lib command arguments must be strings or integers" -/
def argToString : LVal → R String
  | .str s => pure s
  | .num i => pure (numToArg i)
  | _ => rerr "Lua redis lib command arguments must be strings or integers"

end CentrifugeVerif.Redis
