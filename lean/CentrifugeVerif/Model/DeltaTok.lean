import CentrifugeVerif.Model.Delta
/-
A symbolic codec for C14 (core Lean only): byte strings are terms — payload number `i`, or "the
patch that turns `a` into `t`".  `apply` succeeds exactly on the base the patch was created
against (what a fossil delta with its target checksum does, up to collisions).  Sizes and the
JSON-escape behaviour of each (base, target) pair come from a table measured on the real
`fdelta.Create` by the Go harness on every run:
  0 = patch not smaller than the target, 1 = smaller, 2 = smaller and not valid UTF-8
  (`json.Escape` replaces the offending bytes by U+FFFD, the client receives junk).
The driver (Drivers/C14.lean) instantiates the generic model of Model/Delta.lean with it.
-/
namespace CentrifugeVerif.Delta

inductive Tok
  | pay (i : Nat)
  | patch (a t : Tok)
  | junk
deriving DecidableEq, Repr, Inhabited

def Tok.entry (tbl : Nat → Nat → Nat) : Tok → Tok → Nat
  | .pay i, .pay j => tbl i j
  | _, _ => 0

def tokCodec (tbl : Nat → Nat → Nat) (json : Bool) : Codec Tok where
  create := fun b t => .patch b t
  apply := fun b d =>
    match d with
    | .patch a t => if a = b then some t else none
    | _ => none
  len := fun x =>
    match x with
    | .patch a t => if Tok.entry tbl a t = 0 then 1 else 0
    | _ => 1
  escape := fun x =>
    match x with
    | .patch a t => if json && Tok.entry tbl a t = 2 then .junk else x
    | _ => x
  unescape := fun x => x

theorem tokCodec_roundTrip (tbl : Nat → Nat → Nat) (json : Bool) : (tokCodec tbl json).RoundTrip := by
  intro b t; simp [tokCodec]

theorem tokCodec_escOK_pb (tbl : Nat → Nat → Nat) : (tokCodec tbl false).EscOK := by
  intro x; cases x <;> simp [tokCodec]

end CentrifugeVerif.Delta
