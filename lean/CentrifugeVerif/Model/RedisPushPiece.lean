/-!
Pieces of the string-concatenation expressions with which the Redis Lua scripts frame a PUB/SUB
payload (`"__" .. "p1:" .. top_offset .. ":" .. current_epoch .. "__" .. message_payload` …).
The concrete piece lists are *generated* from the `.lua` files into `Gen/RedisPushFmt.lean` by
`props/C33/lua_fmt.py`; this file only fixes the vocabulary.  Core Lean only.
-/
namespace CentrifugeVerif.RedisPush

abbrev Bytes := List UInt8

/-- One operand of a Lua `..` chain. -/
inductive Piece where
  | lit (bs : Bytes)      -- a string literal
  | offset                -- `top_offset`            (Lua number → string)
  | epoch                 -- `current_epoch`
  | prevLen               -- `#prev_message_payload` (Lua number → string)
  | prev                  -- `prev_message_payload`
  | payloadLen            -- `#message_payload`      (Lua number → string)
  | payload               -- `message_payload`
deriving DecidableEq, Repr

end CentrifugeVerif.RedisPush
