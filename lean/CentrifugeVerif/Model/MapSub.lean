import CentrifugeVerif.Model.Merge
/-
Model for C22 (map subscriptions converge to the broker state).

* `Broker`: the abstract map broker of one channel: the *complete* change log of the current epoch (ghost:
  offsets are positions in the log), the retained stream window `(lo, top]`, the epoch, and the key state
  (derived from the log, kept for execution).  Trimming and stream expiry are explicit operations.
* reads: `readState` (mapHub.getState, unordered key-cursor pagination, revision epoch check),
  `readStream` (mapHub.getStream + memstream.Get) and `nodeStreamRead` (Node.MapStreamRead's trim detection).
* server: `handle` = handleMapStatePhase / handleMapStreamPhase / handleMapLivePhase /
  handleMapTransitionToLive of client_map.go as a function of the request, the per-connection
  subscription state and the broker read results obtained so far (it says which read comes next or what
  the reply is); live delivery = writePublicationUpdatePosition (offset = position+1 or insufficient state).
* `Ref`: the reference client (state pages, stream pages, live reply, pushes).

Core Lean only.
-/
namespace CentrifugeVerif.MapSub

structure Change where
  key : String
  val : Option Nat            -- none = removal
  deriving Repr, DecidableEq, Inhabited

structure Entry where
  key : String
  val : Nat
  off : Nat
  deriving Repr, DecidableEq, Inhabited

structure Pub where
  off : Nat
  key : String
  val : Option Nat
  deriving Repr, DecidableEq, Inhabited

def insEntry (e : Entry) : List Entry → List Entry
  | [] => [e]
  | x :: r => if e.key < x.key then e :: x :: r else x :: insEntry e r

/-- key state after one more change at offset `off` (sorted by key). -/
def applyChange (st : List Entry) (c : Change) (off : Nat) : List Entry :=
  let rest := st.filter (·.key ≠ c.key)
  match c.val with
  | none => rest
  | some v => insEntry { key := c.key, val := v, off := off } rest

/-- state after replaying `log` whose first change has offset `base+1`. -/
def replay (st : List Entry) (base : Nat) : List Change → List Entry
  | [] => st
  | c :: r => replay (applyChange st c (base + 1)) (base + 1) r

structure Broker where
  log : List Change := []
  lo : Nat := 0
  epoch : Nat := 1
  st : List Entry := []        -- = replay [] 0 log
  deriving Repr, DecidableEq

def Broker.top (b : Broker) : Nat := b.log.length

inductive BOp where
  | publish (k : String) (v : Nat)
  | remove (k : String)           -- also key expiry; no-op when the key is absent
  | trimTo (n : Nat)              -- stream keeps offsets > n (never grows the window)
  | expireStream                  -- stream TTL: stream cleared, top kept
  | clear                         -- Clear / meta TTL: channel dropped, next access starts a new epoch
  deriving Repr, DecidableEq

def Broker.append (b : Broker) (c : Change) : Broker :=
  { b with log := b.log ++ [c], st := applyChange b.st c (b.top + 1) }

def Broker.apply (b : Broker) : BOp → Broker
  | .publish k v => b.append { key := k, val := some v }
  | .remove k => if b.st.any (·.key = k) then b.append { key := k, val := none } else b
  | .trimTo n => { b with lo := min b.top (max b.lo n) }
  | .expireStream => { b with lo := b.top }
  | .clear => { log := [], lo := 0, epoch := b.epoch + 1, st := [] }

/-- memstream.Add's size trimming after an append -/
def Broker.sizeTrim (b : Broker) (size : Nat) : Broker := b.apply (.trimTo (b.top - size))

/-- position = (offset, epoch); request epochs: 0 stands for "" -/
structure Pos where
  off : Nat
  ep : Nat
  deriving Repr, DecidableEq, Inhabited

def Broker.pos (b : Broker) : Pos := { off := b.top, ep := b.epoch }

/-- the log as publications with their offsets -/
def pubsFrom (base : Nat) : List Change → List Pub
  | [] => []
  | c :: r => { off := base + 1, key := c.key, val := c.val } :: pubsFrom (base + 1) r

def Broker.pubs (b : Broker) : List Pub := pubsFrom 0 b.log

def takeOpt (lim : Option Nat) (l : List Pub) : List Pub :=
  match lim with | none => l | some n => l.take n

/-- mapHub.getStream with a `Since` filter (limit < 0 encoded as none). `none` = ErrorUnrecoverablePosition. -/
def readStream (b : Broker) (since : Pos) (limit : Option Nat) : Option (List Pub × Pos) :=
  if since.ep ≠ 0 ∧ since.ep ≠ b.epoch then none
  else if b.top = since.off then some ([], b.pos)
  else
    let start := max since.off b.lo          -- first returned offset is start+1
    some (takeOpt limit (b.pubs.filter (fun p => p.off > start)), b.pos)

/-- Node.MapStreamRead: broker read + detection of a lost range (after fix 5b9907a0: also for position 0 and
for an empty result below the stream top; skipped only for Limit = 0). -/
def nodeStreamRead (b : Broker) (since : Pos) (limit : Option Nat) : Option (List Pub × Pos) :=
  match readStream b since limit with
  | none => none
  | some (pubs, pos) =>
    if limit = some 0 then some (pubs, pos) else
    match pubs with
    | p :: _ => if p.off > since.off + 1 then none else some (pubs, pos)
    | [] => if since.off < pos.off then none else some (pubs, pos)

/-- the changes after `since` were lost by the stream (trimmed or expired) -/
def gap (b : Broker) (since : Pos) : Prop := since.off < b.lo

/-- the two situations the detection missed before fix 5b9907a0 (empty result, or client offset 0);
kept to state that they are now detected as well. -/
def undetectedGap (b : Broker) (since : Pos) : Prop :=
  since.off < b.lo ∧ (b.lo = b.top ∨ since.off = 0)

instance (b : Broker) (s : Pos) : Decidable (undetectedGap b s) := by unfold undetectedGap; exact inferInstance

structure StateRes where
  entries : List Entry
  pos : Pos
  cursor : String            -- "" = last page
  deriving Repr, DecidableEq

/-- mapHub.getState, unordered: keys after the cursor, at most `limit`.  `none` = unrecoverable (revision epoch). -/
def readState (b : Broker) (cursor : String) (limit : Nat) (rev : Option Pos) : Option StateRes :=
  match rev with
  | some r => if r.ep ≠ b.epoch then none else go
  | none => go
where
  go : Option StateRes :=
    let after := b.st.filter (fun e => cursor = "" ∨ e.key > cursor)
    let page := after.take limit
    let cur := if limit < after.length then (match page.getLast? with | some e => e.key | none => "") else ""
    some { entries := page, pos := b.pos, cursor := cur }

/-! ## server side -/

structure Cfg where
  size : Nat := 100
  page : Nat := 100          -- state page size requested by the client (after clamping)
  slim : Nat := 100          -- stream page size
  tlim : Nat := 1000         -- live transition publication limit
  flt : Bool := false        -- client tags filter: only keys whose first letter is a, c, e, g … are admitted
  deriving Repr, DecidableEq

def admitted (cfg : Cfg) (k : String) : Bool :=
  !cfg.flt || (match k.toList with | c :: _ => (c.toNat - 'a'.toNat) % 2 == 0 | [] => false)

/-- mapSubscribeState -/
structure SubSt where
  epoch : Nat := 0
  offset : Nat := 0
  offsetCaptured : Bool := false
  streamStart : Option Nat := none
  deriving Repr, DecidableEq

inductive Req where
  | state (cursor : String) (off : Nat) (ep : Nat)
  | stream (off : Nat) (ep : Nat) (recover : Bool)
  | live (off : Nat) (ep : Nat)
  deriving Repr, DecidableEq

inductive ReadRes where
  | st (r : Option StateRes)
  | ps (p : Pos)
  | tr (r : Option (List Pub × Pos))
  deriving Repr, DecidableEq

inductive Reply where
  | statePage (cursor : String) (off : Nat) (ep : Nat) (entries : List Entry)
  | streamPage (off : Nat) (ep : Nat) (pubs : List Pub)
  | live (off : Nat) (ep : Nat) (recovered : Bool) (state : List Entry) (pubs : List Pub)
  | err (code : Nat)
  | disc (code : Nat)
  deriving Repr, DecidableEq

inductive Action where
  | needState (cursor : String) (limit : Nat) (rev : Option Pos)
  | needPos
  | needStream (since : Pos) (limit : Option Nat) (transition : Bool)
  | reply (r : Reply) (sub : Option SubSt) (goLive : Option Pos)   -- new mapSubscribing entry; committed position
  deriving Repr, DecidableEq

def toMPub (_cfg : Cfg) (p : Pub) : Merge.MPub := { offset := p.off, filtered := false, id := p.off }
def toMPubBuf (cfg : Cfg) (p : Pub) : Merge.MPub := { offset := p.off, filtered := !admitted cfg p.key, id := p.off }

/-- handleMapTransitionToLive after the stream read returned (`buf` = publications buffered by PubSubSync). -/
def transition (cfg : Cfg) (since : Pos) (isRecovery : Bool) (recoverFlag : Bool) (statePubs : List Entry)
    (t : Option (List Pub × Pos)) (buf : List Pub) : Action :=
  match t with
  | none => .reply (.err 112) none none
  | some (pubs, pos) =>
    if (isRecovery || since.ep != 0) && since.ep != pos.ep then .reply (.err 112) none none
    else if pubs.length > cfg.tlim then .reply (.err 112) none none
    else
      match Merge.merge (pubs.map (toMPub cfg)) (buf.map (toMPubBuf cfg)) with
      | none => .reply (.disc 3010) none none
      | some (merged, maxSeen) =>
        let all := pubs ++ buf
        let mergedPubs := merged.filterMap (fun m => all.find? (·.off == m.offset))
        let last := match mergedPubs.getLast? with | some p => p.off | none => 0
        let latest := max (max pos.off maxSeen) last
        let out := mergedPubs.filter (fun p => admitted cfg p.key)
        .reply (.live latest pos.ep (isRecovery && recoverFlag) statePubs out) none (some { off := latest, ep := pos.ep })

def filterEntries (cfg : Cfg) (es : List Entry) : List Entry := es.filter (fun e => admitted cfg e.key)
def filterPubs (cfg : Cfg) (ps : List Pub) : List Pub := ps.filter (fun p => admitted cfg p.key)

/-- the three phase handlers: what to do next given the reads performed so far for this request. -/
def handle (cfg : Cfg) (sub : Option SubSt) (req : Req) (reads : List ReadRes) (buf : List Pub) : Action :=
  match req with
  | .state cursor off ep =>
    if cursor ≠ "" ∧ sub.isNone then .reply (.err 103) none none else
    let rev : Option Pos := if off > 0 ∨ ep ≠ 0 then some { off := off, ep := ep } else none
    match reads with
    | [] => .needState cursor cfg.page rev
    | .st none :: _ => .reply (.err 112) none none
    | .st (some r) :: rest =>
      let sub0 : SubSt := if cursor = "" then {} else sub.getD {}
      let sub1 : SubSt := if cursor = "" then { sub0 with epoch := r.pos.ep, offset := r.pos.off, offsetCaptured := true } else sub0
      let pubs0 := match rev with
        | some rv => r.entries.filter (fun e => e.off ≤ rv.off)
        | none => r.entries
      let pubs := filterEntries cfg pubs0
      let responseOffset := if sub1.offsetCaptured ∧ cursor ≠ "" then sub1.offset else r.pos.off
      let stateReply := Action.reply (.statePage r.cursor responseOffset r.pos.ep pubs) (some sub1) none
      if r.cursor = "" then
        let eff : Pos := if sub1.offsetCaptured ∧ cursor ≠ "" then { off := sub1.offset, ep := sub1.epoch } else r.pos
        match rest with
        | [] => .needPos
        | .ps p :: rest2 =>
          if eff.off + cfg.page ≥ p.off then
            match rest2 with
            | [] => .needStream eff (some (cfg.tlim + 1)) true
            | .tr t :: _ => transition cfg eff false false pubs t buf
            | _ => .reply (.err 100) none none
          else stateReply
        | _ => .reply (.err 100) none none
      else stateReply
    | _ => .reply (.err 100) none none
  | .stream off ep recover =>
    match sub, recover with
    | none, false => .reply (.err 103) none none
    | _, _ =>
      let s0 : SubSt := match sub with | some s => s | none => { epoch := ep }
      if ep ≠ 0 ∧ s0.epoch ≠ 0 ∧ ep ≠ s0.epoch then .reply (.err 112) none none else
      let since : Pos := { off := off, ep := ep }
      let cont (s1 : SubSt) (start : Nat) (rest : List ReadRes) : Action :=
        if off + cfg.slim ≥ start then
          match rest with
          | [] => .needStream since (some (cfg.tlim + 1)) true
          | .tr t :: _ => transition cfg since true recover [] t buf
          | _ => .reply (.err 100) none none
        else
          match rest with
          | [] => .needStream since (some cfg.slim) false
          | .tr none :: _ => .reply (.err 112) none none
          | .tr (some (pubs, pos)) :: _ =>
            let ro := match pubs.getLast? with | some p => p.off | none => off
            .reply (.streamPage ro pos.ep (filterPubs cfg pubs)) (some s1) none
          | _ => .reply (.err 100) none none
      match s0.streamStart with
      | some start => cont s0 start reads
      | none =>
        match reads with
        | [] => .needPos
        | .ps p :: rest => cont { s0 with streamStart := some p.off } p.off rest
        | _ => .reply (.err 100) none none
  | .live off ep =>
    match sub with
    | some s =>
      if ep ≠ 0 ∧ s.epoch ≠ 0 ∧ ep ≠ s.epoch then .reply (.err 112) none none
      else
        match reads with
        | [] => .needStream { off := off, ep := ep } (some (cfg.tlim + 1)) true
        | .tr t :: _ => transition cfg { off := off, ep := ep } true true [] t buf
        | _ => .reply (.err 100) none none
    | none =>
      match reads with
      | [] => .needStream { off := off, ep := ep } (some (cfg.tlim + 1)) true
      | .tr t :: _ => transition cfg { off := off, ep := ep } true true [] t buf
      | _ => .reply (.err 100) none none

/-! ## live delivery (writePublicationUpdatePosition for a positioned map subscription) -/

inductive LiveOut where
  | deliver (p : Pub)
  | filtered                 -- position advanced, nothing written
  | skip                     -- stale
  | insufficient             -- unsubscribe push 2500
  deriving Repr, DecidableEq

def liveStep (cfg : Cfg) (pos : Pos) (p : Pub) (pubEp : Nat) : Pos × LiveOut :=
  if pubEp ≠ pos.ep ∧ pos.ep ≠ 0 then (pos, .insufficient)
  else
    let pos1 : Pos := if pos.ep = 0 then { pos with ep := pubEp } else pos
    if p.off > pos1.off + 1 then (pos1, .insufficient)
    else if p.off < pos1.off + 1 then (pos1, .skip)
    else ({ pos1 with off := p.off }, if admitted cfg p.key then .deliver p else .filtered)

/-! ## reference client -/

structure Ref where
  m : List (String × Nat) := []      -- sorted by key
  off : Nat := 0
  ep : Nat := 0
  cursor : String := ""
  phase : String := "state"          -- state | stream | reclive | live | done
  first : Bool := true
  told : Bool := false
  recovering : Bool := false
  lastRec : Option Bool := none
  deriving Repr, DecidableEq

def insKV (k : String) (v : Nat) : List (String × Nat) → List (String × Nat)
  | [] => [(k, v)]
  | x :: r => if k < x.1 then (k, v) :: x :: r else if k = x.1 then (k, v) :: r else x :: insKV k v r

def Ref.applyPub (c : Ref) (p : Pub) : Ref :=
  match p.val with
  | none => { c with m := c.m.filter (·.1 ≠ p.key) }
  | some v => { c with m := insKV p.key v c.m }

def Ref.applyEntry (c : Ref) (e : Entry) : Ref := { c with m := insKV e.key e.val c.m }

def Ref.onReply (c : Ref) : Reply → Ref
  | .statePage cursor off ep entries =>
    let c1 := entries.foldl Ref.applyEntry c
    let c2 := if c1.first then { c1 with off := off, ep := ep, first := false } else c1
    { c2 with cursor := cursor, phase := if cursor = "" then "stream" else c2.phase }
  | .streamPage off ep pubs =>
    let c1 := pubs.foldl Ref.applyPub c
    { c1 with off := off, ep := if c1.ep = 0 then ep else c1.ep }
  | .live off ep rec state pubs =>
    let c1 := state.foldl Ref.applyEntry c
    let c2 := pubs.foldl Ref.applyPub c1
    { c2 with off := off, ep := ep, phase := "live", lastRec := some rec }
  | .err _ => { c with told := true, phase := "done" }
  | .disc _ => { c with told := true, phase := "done" }

def Ref.onPush (c : Ref) (p : Pub) : Ref :=
  let c1 := c.applyPub p
  if p.off > 0 then { c1 with off := p.off } else c1

/-- the next request of a protocol-following client -/
def Ref.next (c : Ref) : Option Req :=
  if c.told then none else
  if c.phase = "state" then some (if c.cursor = "" then .state "" 0 0 else .state c.cursor c.off c.ep)
  else if c.phase = "stream" then some (.stream c.off c.ep c.recovering)
  else if c.phase = "reclive" then some (.live c.off c.ep)
  else none

/-- the broker state as the client should see it -/
def expected (cfg : Cfg) (b : Broker) : List (String × Nat) :=
  (b.st.filter (fun e => admitted cfg e.key)).map (fun e => (e.key, e.val))

end CentrifugeVerif.MapSub
