import CentrifugeVerif.Model.Decimal
/-
Model of `internal/filter/filter.go`: `Match`, `Validate`, and the input of `Hash` (the
deterministic vtproto encoding of `protocol.FilterNode`).  Core Lean only.

A `Node` is the Go struct `protocol.FilterNode` (strings are byte strings; `Nodes` is a slice of
pointers, which may contain nil pointers).  Go facts mirrored here:
* `Match` looks the key up once (`val, ok := tags[f.Key]`; `val = ""` when absent);
  `eq/sw/ew/ct`, `in` and the numeric operators test `ok`, `neq/nin/nex` test `!ok`
  (since /repo commit "fix: tags filter in/nin treat a missing key as having no value"; before
  it `in`/`nin` did not look at `ok` — `slices.Contains(f.Vals, val)` with `val = ""` for an
  absent key — which is the variant `fix = false` below, kept for the record of finding C15-1);
  numeric operators return false when either numeral is rejected by `udecimal.Parse`;
  `and`/`or` evaluate children left to right and stop early; an unknown `Cmp`/`Op` and a `not`
  with ≠ 1 children are errors; dereferencing a nil child panics;
* `Validate` checks, for a leaf: `Cmp` set; per operator class the presence/absence of
  `Val`/`Vals`; unknown operator; key required except for `ex`/`nex` — in that order; it does not
  look at `Nodes` of a leaf nor at `Key/Cmp/Val/Vals` of an inner node; `and`/`or` need ≥ 1 child
  and validate children left to right, `not` needs exactly one child;
* `Hash` = SHA-256 of `MarshalToVT` into a pooled buffer of `SizeVT()` bytes.
-/
namespace CentrifugeVerif.Filter
open CentrifugeVerif.Decimal

mutual
inductive Node where
  | mk (op key cmp val : Str) (vals : List Str) (nodes : Nodes)
inductive Nodes where
  | nil
  | cons (n : Node) (rest : Nodes)
  /-- a nil `*FilterNode` inside the slice -/
  | null (rest : Nodes)
end

abbrev Tags := List (Str × Str)

/-! string constants (ASCII bytes) -/
def sAnd : Str := [97, 110, 100]
def sOr : Str := [111, 114]
def sNot : Str := [110, 111, 116]
def cEq : Str := [101, 113]
def cNeq : Str := [110, 101, 113]
def cIn : Str := [105, 110]
def cNin : Str := [110, 105, 110]
def cEx : Str := [101, 120]
def cNex : Str := [110, 101, 120]
def cSw : Str := [115, 119]
def cEw : Str := [101, 119]
def cCt : Str := [99, 116]
def cGt : Str := [103, 116]
def cGte : Str := [103, 116, 101]
def cLt : Str := [108, 116]
def cLte : Str := [108, 116, 101]

inductive MErr where
  | badCmp | notArity | badOp
deriving DecidableEq, Repr

inductive MRes where
  | val (b : Bool)
  | err (e : MErr)
  | panic
deriving DecidableEq, Repr

/-- `strings.Contains(hay, needle)` -/
def contains : Str → Str → Bool
  | [], needle => needle.isPrefixOf []
  | c :: t, needle => needle.isPrefixOf (c :: t) || contains t needle

/-- the four numeric operators after both numerals parsed -/
def numCmp (cmp : Str) (v c : Dec) : Bool :=
  if cmp = cGt then Decimal.cmp v c > 0
  else if cmp = cGte then Decimal.cmp v c ≥ 0
  else if cmp = cLt then Decimal.cmp v c < 0
  else Decimal.cmp v c ≤ 0

/-- the leaf case of `Match`.  `fix = true` is the code as it is (`in`/`nin` honour `ok`:
`ok && contains`, `!ok || !contains`); `fix = false` is the code before the fix of C15-1. -/
def matchLeaf (fix : Bool) (t : Tags) (key cmp val : Str) (vals : List Str) : MRes :=
  let r := t.lookup key
  let ok := r.isSome
  let v := r.getD []
  if cmp = cEq then .val (ok && v == val)
  else if cmp = cNeq then .val (!ok || v != val)
  else if cmp = cIn then .val (if fix then ok && vals.contains v else vals.contains v)
  else if cmp = cNin then .val (if fix then !ok || !vals.contains v else !vals.contains v)
  else if cmp = cEx then .val ok
  else if cmp = cNex then .val (!ok)
  else if cmp = cSw then .val (ok && val.isPrefixOf v)
  else if cmp = cEw then .val (ok && val.isSuffixOf v)
  else if cmp = cCt then .val (ok && contains v val)
  else if cmp = cGt ∨ cmp = cGte ∨ cmp = cLt ∨ cmp = cLte then
    if !ok then .val false
    else match Decimal.parse v with
      | none => .val false
      | some dv =>
        match Decimal.parse val with
        | none => .val false
        | some dc => .val (numCmp cmp dv dc)
  else .err .badCmp

mutual
def matchN (fix : Bool) (t : Tags) : Node → MRes
  | .mk op key cmp val vals nodes =>
    if op = [] then matchLeaf fix t key cmp val vals
    else if op = sAnd then matchAll fix t nodes
    else if op = sOr then matchAny fix t nodes
    else if op = sNot then
      match nodes with
      | .cons c .nil =>
        match matchN fix t c with
        | .val b => .val (!b)
        | r => r
      | .null .nil => .panic
      | _ => .err .notArity
    else .err .badOp
def matchAll (fix : Bool) (t : Tags) : Nodes → MRes
  | .nil => .val true
  | .null _ => .panic
  | .cons c rest =>
    match matchN fix t c with
    | .val true => matchAll fix t rest
    | r => r
def matchAny (fix : Bool) (t : Tags) : Nodes → MRes
  | .nil => .val false
  | .null _ => .panic
  | .cons c rest =>
    match matchN fix t c with
    | .val false => matchAny fix t rest
    | r => r
end

/-- Which variant `/repo` has (flipped to `true` together with the `fix:` commit for C15-1). -/
def fixApplied : Bool := true

/-- `filter.Match` of the current code -/
def Match (t : Tags) (n : Node) : MRes := matchN fixApplied t n

inductive VErr where
  | noCmp | needVal | noVals | needVals | noVal | exNoValVals | unknownCmp | needKey
  | emptyChildren | notArity | badOp
deriving DecidableEq, Repr

inductive VRes where
  | ok
  | err (e : VErr)
  | panic
deriving DecidableEq, Repr

def isValCmp (cmp : Str) : Bool :=
  cmp = cEq || cmp = cNeq || cmp = cSw || cmp = cEw || cmp = cCt ||
  cmp = cGt || cmp = cGte || cmp = cLt || cmp = cLte

def validateLeaf (key cmp val : Str) (vals : List Str) : VRes :=
  if cmp = [] then .err .noCmp
  else
    let cls : VRes :=
      if isValCmp cmp then
        if val = [] then .err .needVal
        else if vals.length > 0 then .err .noVals
        else .ok
      else if cmp = cIn ∨ cmp = cNin then
        if vals.length = 0 then .err .needVals
        else if val ≠ [] then .err .noVal
        else .ok
      else if cmp = cEx ∨ cmp = cNex then
        if val ≠ [] ∨ vals.length > 0 then .err .exNoValVals else .ok
      else .err .unknownCmp
    match cls with
    | .ok => if key = [] ∧ cmp ≠ cEx ∧ cmp ≠ cNex then .err .needKey else .ok
    | r => r

mutual
def validate : Node → VRes
  | .mk op key cmp val vals nodes =>
    if op = [] then validateLeaf key cmp val vals
    else if op = sAnd ∨ op = sOr then
      match nodes with
      | .nil => .err .emptyChildren
      | ns => validateAll ns
    else if op = sNot then
      match nodes with
      | .cons c .nil => validate c
      | .null .nil => .panic
      | _ => .err .notArity
    else .err .badOp
def validateAll : Nodes → VRes
  | .nil => .ok
  | .null _ => .panic
  | .cons c rest =>
    match validate c with
    | .ok => validateAll rest
    | r => r
end

/-! ## the input of `Hash`: proto3 wire encoding (vtproto `MarshalToVT`) -/

def varintAux : Nat → Nat → List UInt8
  | 0, n => [UInt8.ofNat n]
  | f + 1, n => if n < 128 then [UInt8.ofNat n] else UInt8.ofNat (n % 128 + 128) :: varintAux f (n / 128)

/-- `protohelpers.EncodeVarint` (uint64: at most 10 bytes) -/
def varint (n : Nat) : List UInt8 := varintAux 9 n

def sovAux : Nat → Nat → Nat
  | 0, _ => 1
  | f + 1, n => if n < 128 then 1 else 1 + sovAux f (n / 128)

/-- `protohelpers.SizeOfVarint` -/
def sov (n : Nat) : Nat := sovAux 9 n

/-- an optional (non-empty) string field -/
def fieldStr (tag : UInt8) (s : Str) : List UInt8 :=
  if s.length > 0 then tag :: (varint s.length ++ s) else []

def sizeStr (s : Str) : Nat := if s.length > 0 then 1 + s.length + sov s.length else 0

def marshalVals : List Str → List UInt8
  | [] => []
  | v :: vs => 0x2a :: (varint v.length ++ v) ++ marshalVals vs

def sizeVals : List Str → Nat
  | [] => 0
  | v :: vs => 1 + v.length + sov v.length + sizeVals vs

mutual
def marshal : Node → List UInt8
  | .mk op key cmp val vals nodes =>
    fieldStr 0x0a op ++ fieldStr 0x12 key ++ fieldStr 0x1a cmp ++ fieldStr 0x22 val ++
      marshalVals vals ++ marshalNodes nodes
def marshalNodes : Nodes → List UInt8
  | .nil => []
  | .cons c rest => 0x32 :: (varint (marshal c).length ++ marshal c) ++ marshalNodes rest
  | .null rest => 0x32 :: 0 :: marshalNodes rest
end

mutual
def sizeVT : Node → Nat
  | .mk op key cmp val vals nodes =>
    sizeStr op + sizeStr key + sizeStr cmp + sizeStr val + sizeVals vals + sizeNodes nodes
def sizeNodes : Nodes → Nat
  | .nil => 0
  | .cons c rest => 1 + sizeVT c + sov (sizeVT c) + sizeNodes rest
  | .null rest => 1 + 0 + sov 0 + sizeNodes rest
end

/-- what `Hash` feeds to SHA-256: the first `n` bytes of a buffer of `SizeVT()` bytes into which
`MarshalToSizedBufferVT` wrote `n` bytes *from the end* — the encoding itself iff `n = SizeVT()`
(`marshal_length`). -/
def hashInput (n : Node) : List UInt8 := marshal n

end CentrifugeVerif.Filter
