import CentrifugeVerif.Model.SubProto
/-!
Executable (Bool) forms of the C04 / C05 / C07 statements on a model state, used by the bounded
explorer of the driver and by the `decide`d witnesses in `Props/`.
-/
namespace CentrifugeVerif.SubProto

/-- the connection reports `ch` as subscribed (`Client.Channels()`): entry present with `flagSubscribed` -/
def reports (s : State) (ch : Chan) : Bool :=
  match aget s.channels ch with
  | some e => e.subscribed
  | none => false

def allChans (s : State) : List Chan :=
  (s.channels.map (·.1) ++ s.hub.map (·.1) ++ s.presence ++ s.threads.map (·.2.ch)).eraseDups

/-- C04 at a settled state: a routing entry exists exactly for the reported channels (a new
publication is enqueued once per routing entry), and it carries the reported subscription's generation. -/
def c04Ok (s : State) : Bool :=
  (allChans s).all fun ch =>
    match aget s.hub ch, aget s.channels ch with
    | some g, some e => e.subscribed && e.gen == g
    | some _, none => false
    | none, some e => !e.subscribed
    | none, none => true

/-- C05 at a settled state: a closed connection left nothing behind. -/
def c05Ok (s : State) : Bool :=
  s.status != .closed ||
    (s.hub.isEmpty && s.presence.isEmpty && s.channels.isEmpty && !s.registered && s.connGauge == 0 && s.subGauge == 0)

def chanLog (s : State) (ch : Chan) : List Bool :=   -- true = join, false = leave
  s.log.filterMap fun ev => match ev with
    | .join c _ => if c = ch then some true else none
    | .leave c _ => if c = ch then some false else none
    | _ => none

def alternates : List Bool → Bool → Bool
  | [], _ => true
  | x :: r, expect => x == expect && alternates r (!expect)

/-- C07 at a settled state, per channel: join, leave, join, leave, …; the last join is unanswered
exactly when the channel is still subscribed with join/leave emission. -/
def c07Ok (s : State) : Bool :=
  (allChans s).all fun ch =>
    let l := chanLog s ch
    let live := match aget s.channels ch with
      | some e => e.subscribed && e.joinLeave
      | none => false
    alternates l true && ((l.filter id).length == (l.filter (!·)).length + (if live then 1 else 0))

/-- the counting half of C07 (pairing, ignoring order) -/
def c07CountOk (s : State) : Bool :=
  (allChans s).all fun ch =>
    let l := chanLog s ch
    let live := match aget s.channels ch with
      | some e => e.subscribed && e.joinLeave
      | none => false
    (l.filter id).length == (l.filter (!·)).length + (if live then 1 else 0)

def settledB (s : State) : Bool := s.threads.all fun p => p.2.pc == .done

end CentrifugeVerif.SubProto
