import CentrifugeVerif.Model.SubProto
/-!
Executable (Bool) forms of the C04 / C05 / C07 statements on a model state, used by the bounded
explorer of the driver and by the `decide`d witnesses in `Props/`.
-/
namespace CentrifugeVerif.SubProto

/-- the connection reports `ch` as subscribed (`Client.Channels()`): entry present with `flagSubscribed` -/
def reports (s : State) (ch : Chan) : Bool :=
  match aget s.channels ch with
  | some e => e.subscribed
  | none => false

def allChans (s : State) : List Chan :=
  (s.channels.map (·.1) ++ s.hub.map (·.1) ++ s.presence ++ s.threads.map (·.2.ch)).eraseDups

/-- C04 at a settled state: a routing entry exists exactly for the reported channels (a new
publication is enqueued once per routing entry), and it carries the reported subscription's generation. -/
def c04Ok (s : State) : Bool :=
  (allChans s).all fun ch =>
    match aget s.hub ch, aget s.channels ch with
    | some g, some e => e.subscribed && e.gen == g
    | some _, none => false
    | none, some e => !e.subscribed
    | none, none => true

/-- C05 at a settled state: a closed connection left nothing behind. -/
def c05Ok (s : State) : Bool :=
  s.status != .closed ||
    (s.hub.isEmpty && s.presence.isEmpty && s.channels.isEmpty && !s.registered && s.connGauge == 0 && s.subGauge == 0)

def chanLog (s : State) (ch : Chan) : List Bool :=   -- true = join, false = leave
  s.log.filterMap fun ev => match ev with
    | .join c _ => if c = ch then some true else none
    | .leave c _ => if c = ch then some false else none
    | _ => none

def alternates : List Bool → Bool → Bool
  | [], _ => true
  | x :: r, expect => x == expect && alternates r (!expect)

/-- C07 at a settled state, per channel: join, leave, join, leave, …; the last join is unanswered
exactly when the channel is still subscribed with join/leave emission. -/
def c07Ok (s : State) : Bool :=
  (allChans s).all fun ch =>
    let l := chanLog s ch
    let live := match aget s.channels ch with
      | some e => e.subscribed && e.joinLeave
      | none => false
    alternates l true && ((l.filter id).length == (l.filter (!·)).length + (if live then 1 else 0))

/-- the counting half of C07 (pairing, ignoring order) -/
def c07CountOk (s : State) : Bool :=
  (allChans s).all fun ch =>
    let l := chanLog s ch
    let live := match aget s.channels ch with
      | some e => e.subscribed && e.joinLeave
      | none => false
    (l.filter id).length == (l.filter (!·)).length + (if live then 1 else 0)

def settledB (s : State) : Bool := s.threads.all fun p => p.2.pc == .done

end CentrifugeVerif.SubProto

namespace CentrifugeVerif.SubProto

/-! ### candidate inductive invariants for executions without wait-gate timeouts (Bool forms, checked by
the bounded explorer on every reachable state before they are proved in `Proofs/`) -/

def isSub (t : Thread) : Bool := t.kind == .csub || t.kind == .ssub
def isUnsubLike (t : Thread) : Bool := t.kind == .cunsub || t.kind == .sunsub || t.kind == .close

/-- the attempt holds its reservation in `c.channels` -/
def holdPc : Pc → Bool
  | .sOnSub | .sReadGen | .sCheck1 | .sHubAdd | .sCheck2 | .sPresAdd | .sReply | .sCommit => true
  | _ => false

/-- `cmdGen` is set -/
def cmdPc : Pc → Bool
  | .sCheck1 | .sHubAdd | .sCheck2 | .sPresAdd | .sReply | .sCommit => true
  | _ => false

/-- the unsubscribe has deleted its target entry and still cleans up -/
def cleanupPc : Pc → Bool
  | .uPresRm | .uLeave | .uHubRm => true
  | _ => false

def anyThread (s : State) (p : Thread → Bool) : Bool := s.threads.any fun q => p q.2

/-- (A) every unsubscribed `c.channels` entry is the reservation of a live subscribe attempt -/
def invA (s : State) : Bool :=
  s.channels.all fun (ch, e) => e.subscribed ||
    anyThread s fun t => isSub t && t.ch == ch && t.resGen == e.gen &&
      (holdPc t.pc || t.pc == .sDeferPres || t.pc == .sErrDel)

/-- (D) an attempt in its holding range finds its own reservation in `c.channels` -/
def invD (s : State) : Bool :=
  s.threads.all fun (_, t) => !(isSub t && holdPc t.pc) ||
    (match aget s.channels t.ch with
     | some e => e.gen == t.resGen && !e.subscribed && e.gate == some t.resGen && (!cmdPc t.pc || t.cmdGen == t.resGen)
     | none => false)

/-- who still owes the removal of hub entry `(ch, g)` -/
def owes (t : Thread) (ch : Chan) (g : Gen) : Bool :=
  t.ch == ch &&
  ((isSub t && t.pc == .sRbHub && t.cmdGen == g) ||
   (isSub t && (t.pc == .sErrHub || t.pc == .sDeferPres || t.pc == .sErrDel) && t.resGen == g) ||
   (isUnsubLike t && cleanupPc t.pc && t.target == g))

/-- (B) `gen_consistency` -/
def invB (s : State) : Bool :=
  s.hub.all fun (ch, g) =>
    (match aget s.channels ch with | some e => e.gen == g | none => false) || anyThread s fun t => owes t ch g

/-- (C) a subscribed entry has its routing entry -/
def invC (s : State) : Bool :=
  s.channels.all fun (ch, e) => !e.subscribed || aget s.hub ch == some e.gen

def noEntryWithGen (s : State) (ch : Chan) (g : Gen) : Bool :=
  match aget s.channels ch with | some e => e.gen != g | none => true

/-- (H) generations whose entry was deleted by the thread stay dead -/
def invH (s : State) : Bool :=
  s.threads.all fun (_, t) =>
    (!(isSub t && (t.pc == .sRbHub || t.pc == .sRbPres || t.pc == .sRbClose)) || noEntryWithGen s t.ch t.cmdGen) &&
    (!(isSub t && (t.pc == .sErrHub || t.pc == .sErrClose || t.pc == .sErrOut)) || noEntryWithGen s t.ch t.resGen) &&
    (!(isUnsubLike t && (cleanupPc t.pc || t.pc == .uOnUnsub)) || noEntryWithGen s t.ch t.target)

/-- (F) an unsubscribe about to delete only ever matches a subscribed entry -/
def invF (s : State) : Bool :=
  s.threads.all fun (_, t) => !(isUnsubLike t && t.pc == .uRemove) ||
    (match aget s.channels t.ch with | some e => e.gen != t.target || e.subscribed | none => true)

/-- (G) a closed wait gate belongs to no reservation any more -/
def invG (s : State) : Bool :=
  s.channels.all fun (_, e) => e.subscribed || !(s.closedGates.contains e.gen)

/-- (Q) after close every still subscribed channel is in the closing thread's work list -/
def invQ (s : State) : Bool :=
  s.status != .closed ||
    (match s.connectMu with
     | some c => (match aget s.threads c with
        | some t => s.channels.all fun (ch, e) => !e.subscribed || t.pending.contains ch ||
            (t.ch == ch && (t.pc == .uSnap || (t.pc == .uRemove && t.target == e.gen)))
        | none => false)
     | none => s.channels.all fun (_, e) => !e.subscribed)

/-- (P) every presence entry has an owner: a subscribed entry with the presence flag, a subscribe attempt
that added it and has not yet committed or rolled it back, or an unsubscribe about to remove it -/
def invP (s : State) : Bool :=
  s.presence.all fun ch =>
    (match aget s.channels ch with | some e => e.subscribed && e.presence | none => false) ||
    anyThread s fun t => t.ch == ch &&
      ((isSub t && t.presAdded && (t.pc == .sReply || t.pc == .sCommit || t.pc == .sRbHub || t.pc == .sRbPres || t.pc == .sDeferPres)) ||
       (isUnsubLike t && t.pc == .uPresRm) ||
       (isUnsubLike t && t.pc == .uRemove && (match t.ctx with | some c => c.subscribed && c.presence | none => false)))

def invAll (s : State) : List (String × Bool) :=
  [("A", invA s), ("B", invB s), ("C", invC s), ("D", invD s), ("F", invF s), ("G", invG s), ("H", invH s),
   ("P", invP s), ("Q", invQ s)]

end CentrifugeVerif.SubProto
