import CentrifugeVerif.Spec.EventSource
/-
Model of the response body written by `HTTPStreamHandler.ServeHTTP` (`handler_http_stream.go`):
* JSON protocol: every message followed by `"\n"`;
* Protobuf protocol: `protocol.ProtobufDataEncoder`: every message prefixed by
  `binary.PutUvarint(len(msg))` (the encoder's scratch buffer has 8 bytes: lengths are < 2^56).
Nothing else is written to the body.
-/
namespace CentrifugeVerif.HTTPStream
open CentrifugeVerif.EventSource (Bytes)

def jsonBody (msgs : List Bytes) : Bytes := msgs.flatMap (fun m => m ++ [10])

/-- `binary.PutUvarint`; the fuel `f ≥ n` only makes the recursion structural -/
def uvarintAux : Nat → Nat → Bytes
  | 0, n => [UInt8.ofNat n]
  | f + 1, n => if n < 128 then [UInt8.ofNat n] else UInt8.ofNat (n % 128 + 128) :: uvarintAux f (n / 128)

def uvarint (n : Nat) : Bytes := uvarintAux n n

def protoBody (msgs : List Bytes) : Bytes := msgs.flatMap (fun m => uvarint m.length ++ m)

end CentrifugeVerif.HTTPStream
