import CentrifugeVerif.Gen.Crc16Tab
/-!
Model of `/repo/redis_cluster_slot.go`: the table-driven CRC16 and `redisSlot` with its hash-tag
handling, on `uint16` arithmetic (explicit masks).  The table is regenerated from the Go source
(`Gen/Crc16Tab.lean`).  Core Lean only.
-/
namespace CentrifugeVerif.CRC16
open CentrifugeVerif.Gen.Crc16Tab

abbrev Bytes := List UInt8

def tabAt (i : Nat) : Nat := crc16tab.getD i 0

/-- `crc = (crc << 8) ^ crc16tab[byte(crc>>8)^key[i]]` on uint16 -/
def goCrcByte (crc : Nat) (b : UInt8) : Nat :=
  ((crc <<< 8) &&& 0xFFFF) ^^^ tabAt (((crc >>> 8) &&& 0xFF) ^^^ b.toNat)

def goCrc16 (key : Bytes) : Nat := key.foldl goCrcByte 0

/-- the package-local `indexByte` -/
def indexByte (c : UInt8) : Bytes → Option Nat
  | [] => none
  | b :: bs => if b = c then some 0 else (indexByte c bs).map (· + 1)

/-- `redisSlot(key)` -/
def goRedisSlot (key : Bytes) : Nat :=
  let key :=
    match indexByte 123 key with
    | none => key
    | some start =>
      match indexByte 125 (key.drop (start + 1)) with
      | none => key
      | some 0 => key
      | some e => (key.drop (start + 1)).take e       -- key[start+1 : start+1+end]
  goCrc16 key &&& 0x3FFF

end CentrifugeVerif.CRC16
