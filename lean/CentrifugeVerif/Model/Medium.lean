import CentrifugeVerif.Model.Live
/-
Model of the channel medium (channel_medium.go) placed in front of the per-subscriber live step
(`Live.liveStep` = `Client.writePublicationUpdatePosition`).  Core Lean only.

Go facts mirrored:
* `Node.HandlePublication` hands every PUB/SUB publication of a channel that has a medium to
  `channelMedium.broadcastPublication`; without a medium it calls `Node.handlePublication` directly.
* `broadcastPublication`: queue disabled → `broadcast` synchronously (under `broadcastMu`);
  queue enabled → `if messages.Size() > queueMaxSize { return }` (DROP, nothing else happens: no flag,
  no sentinel), else `messages.Add`.  `Size()` is the sum of `len(pub.Data)` of the queued
  publications; `queueMaxSize = 0` means 16 MiB.  The test is made BEFORE the add and is strict, so the
  queue may exceed the maximum by one publication.
* `broadcastInsufficientState`: same routing, never dropped (no size test); the item carries no
  publication (size 0).
* writer goroutine (`waitSendPub`): waits for a non-empty queue, sleeps `broadcastDelay` when > 0,
  removes the first item; with `delay = 0` or when that item is the insufficient-state marker it is
  broadcast; otherwise `messageCount := Len()` further items are removed, stopping (inclusive) at an
  insufficient-state marker, and ONLY THE LAST removed item is broadcast (coalescing).
* `broadcast`: the insufficient-state marker becomes a publication with `Offset = MaxUint64` and a
  zero `StreamPosition` except `Offset = MaxUint64` (epoch ""), then `node.handlePublication`.
* per subscriber (`writePublicationUpdatePosition`): a non-positioned subscriber ignores the
  `MaxUint64` publication and is pushed every other one; a positioned one runs `Live.liveStep`.

The transition system below is nondeterministic in WHEN the writer runs and in how many queued items
(`k ≤ Len()`) one coalescing pass takes, which covers every interleaving of producers and the writer
(adds racing with a pass linearise before it when counted by `Len()`, after it otherwise).
-/
namespace CentrifugeVerif.Medium
open CentrifugeVerif.Live

/-- `math.MaxUint64`, the sentinel offset. -/
def maxU64 : Nat := 18446744073709551615

structure Pub where
  offset : Nat
  size : Nat := 0      -- len(pub.Data)
  epoch : Nat := 1     -- index of sp.Epoch (0 = "")
deriving Repr, DecidableEq, Inhabited

inductive Item
  | pub (p : Pub)
  | insuff
deriving Repr, DecidableEq, Inhabited

structure Opts where
  klp : Bool := false
  sps : Bool := false
  queue : Bool := false
  qmax : Nat := 0
  delay : Nat := 0
deriving Repr, DecidableEq, Inhabited

def Opts.enabled (o : Opts) : Bool := o.sps || o.klp || o.queue || decide (o.delay > 0)

/-- `newChannelMedium` refuses `broadcastDelay > 0` without a queue. -/
def Opts.valid (o : Opts) : Bool := !(decide (o.delay > 0) && !o.queue)

def Opts.effMax (o : Opts) : Nat := if o.qmax > 0 then o.qmax else 16 * 1024 * 1024

def itemSize : Item → Nat
  | .pub p => p.size
  | .insuff => 0

def qsize : List Item → Nat
  | [] => 0
  | i :: is => itemSize i + qsize is

/-- producer / writer events of one channel medium -/
inductive Ev
  | arrive (i : Item)     -- broadcastPublication / broadcastInsufficientState
  | writer (k : Nat)      -- one `waitSendPub` pass that counted `min k Len()` further items
deriving Repr, DecidableEq

/-- remove up to `k` further items, stopping (inclusive) at an insufficient-state marker;
returns (last removed or the current one, rest) -/
def coalesce : Nat → Item → List Item → Item × List Item
  | 0, cur, q => (cur, q)
  | _ + 1, cur, [] => (cur, [])
  | _ + 1, _, .insuff :: q => (.insuff, q)
  | k + 1, _, .pub p :: q => coalesce k (.pub p) q

/-- one event: (queue) ↦ (queue', items handed to `broadcast`) -/
def step (o : Opts) (q : List Item) : Ev → List Item × List Item
  | .arrive i =>
    if o.queue then
      match i with
      | .pub _ => if qsize q > o.effMax then (q, []) else (q ++ [i], [])
      | .insuff => (q ++ [i], [])
    else (q, [i])
  | .writer k =>
    match q with
    | [] => ([], [])
    | first :: rest =>
      if o.delay = 0 then (rest, [first])
      else match first with
        | .insuff => (rest, [.insuff])
        | .pub _ =>
          let (last, rest') := coalesce k first rest
          (rest', [last])

/-- run events from a queue; returns final queue and all broadcasts in order -/
def runEvs (o : Opts) : List Item → List Ev → List Item × List Item
  | q, [] => (q, [])
  | q, e :: es =>
    let (q1, b1) := step o q e
    let (q2, b2) := runEvs o q1 es
    (q2, b1 ++ b2)

/-- everything the producers handed to the medium, in order -/
def arrivals : List Ev → List Item
  | [] => []
  | .arrive i :: es => i :: arrivals es
  | .writer _ :: es => arrivals es

/-- the PUB/SUB delivery a positioned subscriber's live step sees for a broadcast item -/
def toInc : Item → Inc
  | .pub p => { offset := p.offset, epoch := p.epoch, lag := false, filtered := false }
  | .insuff => { offset := maxU64, epoch := 0, lag := false, filtered := false }

/-- what a NON-positioned subscriber is pushed for a broadcast item
(`pub.Offset == math.MaxUint64` → no-op) -/
def npPush : Item → Option Nat
  | .pub p => if p.offset = maxU64 then none else some p.offset
  | .insuff => none

def pubOffsets : List Item → List Nat
  | [] => []
  | .pub p :: is => p.offset :: pubOffsets is
  | .insuff :: is => pubOffsets is

def isInsufficient : Action → Bool
  | .insufficient _ => true
  | _ => false

/-- a positioned subscriber fed with the broadcast sequence -/
def positioned (s : Sub) (bc : List Item) : Sub × List Action := Live.run s (bc.map toInc)

end CentrifugeVerif.Medium
