import CentrifugeVerif.Model.Sha1
/-
Base64 (RFC 4648 §4, standard alphabet, `=` padding).

* `encode`   — `base64.StdEncoding.EncodeToString` / `AppendEncode`.
* `goDecodeLen cap src` — what `base64.StdEncoding.Decode(dst, src)` of Go 1.25 does with a
  destination of `cap` bytes, abstracted to the outcome `isValidChallengeKey` looks at: the number
  of decoded bytes, an error, or the **run-time panic** (index out of range) that Go raises when a
  quantum decoded by the byte-wise slow path (`decodeQuantum`) does not fit into `dst`.
  Mirrored quirks of the Go decoder: `\r` and `\n` are skipped everywhere, the low bits of the last
  character before the padding are not checked (non-strict mode), a padded quantum must be the last
  one (trailing bytes → error *after* the quantum has been written, hence after the bounds check).
  The 8-byte/4-byte fast paths of `Decode` are only taken when `dst` has room for them and otherwise
  behave like successive quanta, so they are not modelled separately (checked differentially).
-/
namespace CentrifugeVerif.Base64
open CentrifugeVerif.Sha1 (Bytes)

/-- value 0…63 → alphabet character. -/
def enc6 (n : Nat) : UInt8 :=
  if n < 26 then UInt8.ofNat (65 + n)
  else if n < 52 then UInt8.ofNat (71 + n)
  else if n < 62 then UInt8.ofNat (n - 4)
  else if n = 62 then 43 else 47

/-- alphabet character → value (`decodeMap`, `none` = 0xff). -/
def dec6 (c : UInt8) : Option Nat :=
  let n := c.toNat
  if 65 ≤ n ∧ n ≤ 90 then some (n - 65)
  else if 97 ≤ n ∧ n ≤ 122 then some (n - 71)
  else if 48 ≤ n ∧ n ≤ 57 then some (n + 4)
  else if n = 43 then some 62
  else if n = 47 then some 63
  else none

def encode : Bytes → Bytes
  | [] => []
  | [a] =>
    let v := a.toNat * 65536
    [enc6 (v / 262144), enc6 (v / 4096 % 64), 61, 61]
  | [a, b] =>
    let v := a.toNat * 65536 + b.toNat * 256
    [enc6 (v / 262144), enc6 (v / 4096 % 64), enc6 (v / 64 % 64), 61]
  | a :: b :: c :: rest =>
    let v := a.toNat * 65536 + b.toNat * 256 + c.toNat
    enc6 (v / 262144) :: enc6 (v / 4096 % 64) :: enc6 (v / 64 % 64) :: enc6 (v % 64) :: encode rest

def isNL (c : UInt8) : Bool := c == 10 || c == 13

def skipNL : Bytes → Bytes
  | [] => []
  | c :: cs => if isNL c then skipNL cs else c :: cs

/-- result of one `decodeQuantum` call -/
inductive QRes where
  /-- only newlines were left (`j == 0` at the end of input): `(si, 0, nil)` -/
  | atEnd
  /-- `CorruptInputError` before anything is written -/
  | corrupt
  /-- `n` characters (2…4) were decoded, i.e. `n - 1` bytes are written to `dst`; `trailing` is the
  "trailing garbage" error that is returned only after the write -/
  | quantum (n : Nat) (rest : Bytes) (trailing : Bool)
deriving Repr, DecidableEq

/-- `decodeQuantum`; `j` = number of alphabet characters collected so far. -/
def quantum : Bytes → Nat → QRes
  | [], j => if j = 0 then .atEnd else .corrupt
  | c :: cs, j =>
    match dec6 c with
    | some _ => if j = 3 then .quantum 4 cs false else quantum cs (j + 1)
    | none =>
      if isNL c then quantum cs j
      else if c ≠ 61 then .corrupt
      else if j < 2 then .corrupt
      else if j = 2 then
        match skipNL cs with
        | [] => .corrupt
        | d :: ds => if d ≠ 61 then .corrupt else
          let r := skipNL ds
          .quantum 2 r (!r.isEmpty)
      else
        let r := skipNL cs
        .quantum 3 r (!r.isEmpty)

inductive DecRes where
  | ok (n : Nat)
  | err
  | panic
deriving Repr, DecidableEq

/-- `Decode(dst[:cap], src)` reduced to its outcome; `n` bytes have been written so far. -/
def goDecodeLen (cap : Nat) : Nat → Bytes → Nat → DecRes
  | 0, _, n => .ok n
  | f + 1, src, n =>
    match quantum src 0 with
    | .atEnd => .ok n
    | .corrupt => .err
    | .quantum k rest trailing =>
      if n + (k - 1) > cap then .panic
      else if trailing then .err
      else goDecodeLen cap f rest (n + (k - 1))

/-- `Decode` into a buffer of `cap` bytes. -/
def goDecode (cap : Nat) (src : Bytes) : DecRes := goDecodeLen cap (src.length + 1) src 0

end CentrifugeVerif.Base64
