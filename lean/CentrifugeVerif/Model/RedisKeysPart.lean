/-!
Vocabulary for the generated Redis key builders (`Gen/RedisKeys.lean`, produced by
`props/C34/gokeys.py` from the Go `strings.Builder` code).  Core Lean only.
-/
namespace CentrifugeVerif.RedisKeys

abbrev Bytes := List UInt8

/-- one `WriteString` / `WriteByte` operand -/
inductive Part where
  | lit (bs : Bytes)   -- string / byte literal
  | «prefix»           -- config.Prefix
  | ch                 -- the channel name
  | tag                -- pubSubPartitionHashTag(consistentIndex(ch, N))
  | idem               -- the idempotency key
deriving DecidableEq, Repr

end CentrifugeVerif.RedisKeys
