/-
C06 (b) — presence protocol of one connection × one channel (presence enabled on the subscription).

Read off `client.go`: `subscribeCmd` (addPresence after the hub add and before the commit; deferred
`removeSubscribePresence` on failure), `commitSubscription` (closed ⇒ rollback incl. presence),
`onSubscribeErrorGen`, `unsubscribe` (snapshot, wait on `subscribingCh`, gen-matched delete from
`c.channels`, then `removePresence`), `close` (status closed, snapshot of `c.channels`, transport
close, then under `presenceMu` one `unsubscribe` per snapshot channel), `updatePresence` (under
`presenceMu`: snapshot of subscribed channels, alive callback, per channel existence check then
`addPresence`, finally `compensateRacedPresence`: remove again when the channel left `c.channels`).
Core Lean only.

`present` stands for "the presence store holds an entry for (channel, this client id)"; every add in
the code writes this connection's `ClientInfo` (client id, user id, conn info), so the entry's
content is determined by its existence.

Labels that would block on a mutex in Go are disabled (`presenceMu`).  Waiting on `subscribingCh`
is an explicit program counter; the wake label is enabled once the subscribe attempt ended.
Not modelled: the 5 s timeout of that wait, map presence, several concurrent unsubscribe calls.
-/
namespace CentrifugeVerif.PresenceProto

structure Cfg where
  /-- assumption switch: a subscribe attempt for the channel is only started while no unsubscribe
  call and no presence tick of the connection is in flight -/
  quietResub : Bool
deriving DecidableEq, Repr, Inhabited

inductive SPc
  | reserved    -- reservation in `c.channels`; inside the OnSubscribe handler
  | toAdd       -- checks passed, hub entry added; about to call `addPresence`
  | toCommit    -- presence added; about to read history, write the reply and commit
  | rollback    -- commit found the client closed: reservation dropped, `removeSubscribePresence` pending
deriving DecidableEq, Repr, Inhabited

/-- program counter of `unsubscribe(channel)` (called by the API/command or by `close`) -/
inductive UPc
  | waiting     -- snapshot was a reservation: blocked on `subscribingCh`
  | toRemove    -- about to take `c.mu` and delete the entry if the generation still matches
  | toPresence  -- entry deleted (`removedNow`), about to call `removePresence`
deriving DecidableEq, Repr, Inhabited

structure Unsub where
  pc : UPc
  target : Nat
  /-- `flagSubscribed ∧ flagEmitPresence` of the `chCtx` the call works with -/
  ctxSub : Bool
deriving DecidableEq, Repr, Inhabited

inductive CPc
  | marked (had : Bool)        -- status closed, snapshot taken; transport being closed
  | locked (u : Option Unsub)  -- holds `presenceMu`; `none` = about to take the channel snapshot entry
  | done
deriving DecidableEq, Repr, Inhabited

inductive TPc
  | alive       -- snapshot taken, inside the OnAlive handler
  | toAdd       -- existence check passed, about to call `addPresence`
  | compensate  -- about to run `compensateRacedPresence`
  | toRemove    -- raced: about to call `removePresence`
deriving DecidableEq, Repr, Inhabited

structure SThread where
  pc : SPc
  gen : Nat
deriving DecidableEq, Repr, Inhabited

structure TThread where
  pc : TPc
  item : Bool     -- the snapshot contains the channel (subscribed, presence flag)
  added : Bool    -- `presenceAdded`
deriving DecidableEq, Repr, Inhabited

inductive Holder | tick | close
deriving DecidableEq, Repr, Inhabited

structure State where
  chan : Option (Nat × Bool) := none
  closed : Bool := false
  closing : Bool := false
  present : Bool := false
  presenceMu : Option Holder := none
  nextGen : Nat := 1
  S : Option SThread := none
  U : Option Unsub := none
  C : Option CPc := none
  T : Option TThread := none
deriving DecidableEq, Repr, Inhabited

inductive Label
  | sSpawn | sFail | sCheck | sAdd | sFailLate | sCommit | sRollback
  | uSpawn | uWake | uRemove | uPresence
  | cMark | cLock | cSnap | cWake | cRemove | cPresence
  | tStart | tCheck | tAdd | tCompensate | tRemove
deriving DecidableEq, Repr, Inhabited

def State.init : State := {}

/-- `unsubscribe`: the snapshot under `c.mu.RLock` -/
def unsubSnap (s : State) : Option Unsub :=
  match s.chan with
  | none => none
  | some (g, sub) => some { pc := if sub then .toRemove else .waiting, target := g, ctxSub := sub }

/-- `unsubscribe`: after `<-subscribingCh`, `chCtx, ok = c.channels[channel]` -/
def unsubWake (s : State) (u : Unsub) : Option Unsub :=
  match s.chan with
  | none => none
  | some (_, sub) => some { u with pc := .toRemove, ctxSub := sub }

/-- `unsubscribe`: the gen-matched delete under `c.mu`; returns the new `c.channels` entry and the
continuation (`none` = the call returns) -/
def unsubRemove (s : State) (u : Unsub) : Option (Nat × Bool) × Option Unsub :=
  match s.chan with
  | some (g, b) =>
    if g = u.target then (none, if u.ctxSub then some { u with pc := .toPresence } else none)
    else (some (g, b), none)
  | none => (none, none)

def next (cfg : Cfg) (s : State) : Label → Option State
  -- subscribe attempt
  | .sSpawn =>
    if s.S.isNone && s.chan.isNone && !s.closed && (!cfg.quietResub || (s.U.isNone && s.T.isNone)) then
      some { s with chan := some (s.nextGen, false), nextGen := s.nextGen + 1,
                    S := some { pc := .reserved, gen := s.nextGen } }
    else none
  | .sFail =>       -- OnSubscribe handler answers with an error: onSubscribeErrorGen
    match s.S with
    | some t =>
      if t.pc = .reserved then
        some { s with chan := (match s.chan with | some (g, b) => if g = t.gen then none else some (g, b) | none => none),
                      S := none }
      else none
    | none => none
  | .sCheck =>      -- the closed/unsubscribed checks around addSubscription
    match s.S with
    | some t =>
      if t.pc = .reserved then
        match s.chan with
        | some (g, b) =>
          if g = t.gen && !s.closed then some { s with S := some { t with pc := .toAdd } }
          else some { s with chan := if g = t.gen then none else some (g, b), S := none }
        | none => some { s with S := none }
      else none
    | none => none
  | .sAdd =>
    match s.S with
    | some t => if t.pc = .toAdd then some { s with present := true, S := some { t with pc := .toCommit } } else none
    | none => none
  | .sFailLate =>   -- e.g. history error: deferred removeSubscribePresence, then onSubscribeErrorGen
    match s.S with
    | some t =>
      if t.pc = .toCommit then
        some { s with present := false,
                      chan := (match s.chan with | some (g, b) => if g = t.gen then none else some (g, b) | none => none),
                      S := none }
      else none
    | none => none
  | .sCommit =>
    match s.S with
    | some t =>
      if t.pc = .toCommit then
        match s.chan with
        | some (g, b) =>
          if g = t.gen then
            if s.closed then some { s with chan := none, S := some { t with pc := .rollback } }
            else some { s with chan := some (t.gen, true), S := none }
          else some { s with chan := some (g, b), S := some { t with pc := .rollback } }
        | none => some { s with S := some { t with pc := .rollback } }
      else none
    | none => none
  | .sRollback =>
    match s.S with
    | some t => if t.pc = .rollback then some { s with present := false, S := none } else none
    | none => none
  -- unsubscribe call (API or command)
  | .uSpawn =>
    if s.U.isNone && !s.closed then some { s with U := unsubSnap s } else none
  | .uWake =>
    match s.U with
    | some u => if u.pc = .waiting && s.S.isNone then some { s with U := unsubWake s u } else none
    | none => none
  | .uRemove =>
    match s.U with
    | some u =>
      if u.pc = .toRemove then let r := unsubRemove s u; some { s with chan := r.1, U := r.2 } else none
    | none => none
  | .uPresence =>
    match s.U with
    | some u => if u.pc = .toPresence then some { s with present := false, U := none } else none
    | none => none
  -- close
  | .cMark =>
    if s.C.isNone && !s.closed then
      some { s with closed := true, closing := true, C := some (.marked s.chan.isSome) }
    else none
  | .cLock =>
    match s.C with
    | some (.marked had) =>
      if s.presenceMu.isNone then
        -- presenceMu is taken and, with an empty snapshot, released again at return
        if had then some { s with presenceMu := some .close, C := some (.locked none) }
        else some { s with C := some .done }
      else none
    | _ => none
  | .cSnap =>
    match s.C with
    | some (.locked none) =>
      match unsubSnap s with
      | some u => some { s with C := some (.locked (some u)) }
      | none => some { s with presenceMu := none, C := some .done }
    | _ => none
  | .cWake =>
    match s.C with
    | some (.locked (some u)) =>
      if u.pc = .waiting && s.S.isNone then
        match unsubWake s u with
        | some u' => some { s with C := some (.locked (some u')) }
        | none => some { s with presenceMu := none, C := some .done }
      else none
    | _ => none
  | .cRemove =>
    match s.C with
    | some (.locked (some u)) =>
      if u.pc = .toRemove then
        let r := unsubRemove s u
        match r.2 with
        | some u' => some { s with chan := r.1, C := some (.locked (some u')) }
        | none => some { s with chan := r.1, presenceMu := none, C := some .done }
      else none
    | _ => none
  | .cPresence =>
    match s.C with
    | some (.locked (some u)) =>
      if u.pc = .toPresence then some { s with present := false, presenceMu := none, C := some .done } else none
    | _ => none
  -- presence tick
  | .tStart =>
    if s.T.isNone && s.presenceMu.isNone then
      if s.closed then some s
      else
        let item := match s.chan with | some (_, true) => true | _ => false
        some { s with presenceMu := some .tick, T := some { pc := .alive, item := item, added := false } }
    else none
  | .tCheck =>
    match s.T with
    | some t =>
      if t.pc = .alive then
        if !s.closing && t.item && s.chan.isSome then some { s with T := some { t with pc := .toAdd } }
        else some { s with T := some { t with pc := .compensate } }
      else none
    | none => none
  | .tAdd =>
    match s.T with
    | some t =>
      if t.pc = .toAdd then some { s with present := true, T := some { t with pc := .compensate, added := true } }
      else none
    | none => none
  | .tCompensate =>
    match s.T with
    | some t =>
      if t.pc = .compensate then
        if t.added && s.chan.isNone then some { s with T := some { t with pc := .toRemove } }
        else some { s with presenceMu := none, T := none }
      else none
    | none => none
  | .tRemove =>
    match s.T with
    | some t => if t.pc = .toRemove then some { s with present := false, presenceMu := none, T := none } else none
    | none => none

def run (cfg : Cfg) (s : State) : List Label → Option State
  | [] => some s
  | l :: ls => (next cfg s l).bind (fun s' => run cfg s' ls)

def Reachable (cfg : Cfg) (s : State) : Prop := ∃ ls, run cfg State.init ls = some s

/-- no operation in flight -/
def Settled (s : State) : Bool :=
  s.S.isNone && s.U.isNone && s.T.isNone && (s.C.isNone || s.C == some .done)

end CentrifugeVerif.PresenceProto
