/-
Model of `internal/recovery/helpers.go`: `uniqueNonFilteredPublications` and
`MergePublications`.  Core Lean only.

Go facts mirrored here:
* a publication with `Time == -1` is a *filtered placeholder*;
* the recovered list gets the buffered list appended when the latter is non-empty;
* the concatenation is sorted by offset (`sort.Slice`, unstable: the order of entries with equal
  offsets is unspecified, so everything stated below is insensitive to it);
* placeholders are stripped, their offsets remembered, duplicates (by offset) dropped keeping the
  first occurrence, and the maximum offset seen (placeholders included) is returned;
* only when the buffered list was non-empty, adjacent result offsets must either be consecutive or
  every offset strictly between them must be a remembered placeholder offset; otherwise the merge
  fails (`nil, 0, false`).
-/
namespace CentrifugeVerif.Merge

structure MPub where
  offset : Nat
  filtered : Bool
  /-- identity of the entry (payload stands behind it); never inspected by the algorithm -/
  id : Nat
deriving Repr, DecidableEq, Inhabited

/-- insertion into an offset-sorted list (before the first entry with an offset ≥ its own). -/
def ins (p : MPub) : List MPub → List MPub
  | [] => [p]
  | q :: qs => if p.offset ≤ q.offset then p :: q :: qs else q :: ins p qs

/-- `sort.Slice(recoveredPubs, less-by-offset)`.  Go's sort is unstable, so the order among equal
offsets is unspecified; a (stable) insertion sort is one allowed outcome and nothing proved about
the result depends on that choice.  Structural recursion keeps the model reducible by `decide`. -/
def isort : List MPub → List MPub
  | [] => []
  | p :: ps => ins p (isort ps)

/-- `uniqueNonFilteredPublications`, list part: drop placeholders and later duplicates. -/
def uniq (seen : List Nat) : List MPub → List MPub
  | [] => []
  | p :: ps =>
    if p.filtered then uniq seen ps
    else if p.offset ∈ seen then uniq seen ps
    else p :: uniq (p.offset :: seen) ps

/-- `uniqueNonFilteredPublications`, max-seen part. -/
def maxSeen (s : List MPub) : Nat := s.foldl (fun m p => max m p.offset) 0

/-- `uniqueNonFilteredPublications`, skipped offsets part. -/
def skipped (s : List MPub) : List Nat := (s.filter (·.filtered)).map (·.offset)

/-- every offset strictly between `a` and `b` is in `sk` (the inner `for o := expected; o < pub; o++`). -/
def between (sk : List Nat) (a b : Nat) : Bool :=
  (List.range' (a + 1) (b - (a + 1))).all (· ∈ sk)

/-- the gap loop of `MergePublications` over the de-duplicated list. -/
def gapsCovered (sk : List Nat) : List MPub → Bool
  | [] => true
  | [_] => true
  | a :: b :: rest =>
    (b.offset == a.offset + 1 || (!sk.isEmpty && between sk a.offset b.offset))
      && gapsCovered sk (b :: rest)

/-- `MergePublications`; `none` is the `(nil, 0, false)` result. -/
def merge (recovered buffered : List MPub) : Option (List MPub × Nat) :=
  let all := if buffered.isEmpty then recovered else recovered ++ buffered
  let sorted := isort all
  let list := uniq [] sorted
  if !buffered.isEmpty && !(gapsCovered (skipped sorted) list) then none
  else some (list, maxSeen sorted)

end CentrifugeVerif.Merge
