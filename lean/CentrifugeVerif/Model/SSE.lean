import CentrifugeVerif.Spec.EventSource
/-
Model of the response body written by `SSEHandler.ServeHTTP` (`handler_sse.go`):
after the headers the handler writes `"\r\n"` once, then for every batch received from the
transport, for every message: raw CR bytes are removed from the message (commit 68b38e53: in a JSON
text a raw CR can only be insignificant white space, and an EventSource parser would end the line
there) and `"data: " + msg + "\n\n"` is written.  Nothing else is ever written to the body
(pings are ordinary protocol messages `{}` handed to the transport like any other message).
-/
namespace CentrifugeVerif.SSE
open CentrifugeVerif.EventSource (Bytes ascii)

def preamble : Bytes := [13, 10]

/-- `bytes.ReplaceAll(msg, "\r", nil)` -/
def stripCR (msg : Bytes) : Bytes := msg.filter (fun b => b != 13)

/-- `"data: " + msg + "\n\n"` for bytes written as they are -/
def rawFrame (msg : Bytes) : Bytes := ascii "data: " ++ msg ++ [10, 10]

/-- what the handler writes for one message -/
def frame (msg : Bytes) : Bytes := rawFrame (stripCR msg)

/-- body for a list of byte strings framed as they are (the handler before 68b38e53) -/
def rawBody (msgs : List Bytes) : Bytes := preamble ++ msgs.flatMap rawFrame

/-- body for the messages handed to the transport, in order (batch boundaries do not show) -/
def body (msgs : List Bytes) : Bytes := preamble ++ msgs.flatMap frame

end CentrifugeVerif.SSE
