import CentrifugeVerif.Spec.EventSource
/-
Model of the response body written by `SSEHandler.ServeHTTP` (`handler_sse.go`):
after the headers the handler writes `"\r\n"` once, then for every batch received from the
transport, for every message `"data: " + msg + "\n\n"`.  Nothing else is ever written to the body
(pings are ordinary protocol messages `{}` handed to the transport like any other message).
-/
namespace CentrifugeVerif.SSE
open CentrifugeVerif.EventSource (Bytes ascii)

def preamble : Bytes := [13, 10]

/-- `"data: " + msg + "\n\n"` -/
def frame (msg : Bytes) : Bytes := ascii "data: " ++ msg ++ [10, 10]

/-- body for the messages handed to the transport, in order (batch boundaries do not show) -/
def body (msgs : List Bytes) : Bytes := preamble ++ msgs.flatMap frame

end CentrifugeVerif.SSE
