/-
Model of `Node.addSubscription` / `Node.removeSubscription` (`node.go`), the hub's per-channel
subscriber registry (`hub.go: subShard.addSub/removeSub/NumSubscribers`) and the deferred broker
unsubscribe job handed to `subDissolver`.  Core Lean only.

One channel.  Channels do not share state: hub entries, `mapChannels`, broker subscriptions and
jobs are all per channel; `subLock(ch)` may be shared by several channels (it is picked by a hash),
which only removes interleavings.  The whole node is the product of independent copies of this
system (the driver keeps one copy per channel).

Go facts mirrored:
* `addSubscription`: `subLock(ch)` held for the whole call.  `hub.addSub`: `first` = the channel has
  no entry; the client's entry is inserted or overwritten (a resubscribe carries a fresh `subGen`);
  when first, `mapChannels[ch]` is set iff `sub.isMap`.  When first, `Subscribe(ch)` is called on the
  map broker (`sub.isMap`) or the stream broker; on error the entry is removed again
  (`hub.removeSub(ch, client, subGen)`) and the error returned — no job is submitted.
* `removeSubscription`: `subLock(ch)` held.  `hub.removeSub(ch, c, gen)` returns `(isEmpty, removed,
  wasMap)`: no entry for the channel → `(true,false,false)`; client not present → `(true,false,false)`
  (sic); `gen != 0` and a different generation stored → `(false,false,false)`; otherwise the entry is
  deleted and, when the channel became empty, `(true,true,mapChannels[ch])` and `mapChannels[ch]` is
  deleted.  `if empty` a job is submitted to the dissolver.
* the job (run by a dissolver worker, retried until it returns nil — see C40): sleeps until 1 s after
  submission, takes `subLock(ch)`, and only `if hub.NumSubscribers(ch) == 0` calls `Unsubscribe(ch)` on
  the map broker (`wasMap`) or stream broker; on error it sleeps 500 ms *still holding the lock* and
  returns the error (→ retried); otherwise returns nil.
* broker assumption: a failed `Subscribe`/`Unsubscribe` leaves the broker-side subscription unchanged;
  both are idempotent.

The dissolver is abstracted to the multiset of jobs that have not yet returned nil (justified by
C40 `no_loss`); any pending job may start at any time (the 1 s delay and worker scheduling are
over-approximated).
-/
namespace CentrifugeVerif.Interest

inductive Lock where
  | free
  | adder (c gen : Nat) (isMap : Bool)   -- addSubscription inside broker.Subscribe
  | job (wasMap : Bool)                  -- dissolver job inside broker.Unsubscribe
  | cool (wasMap : Bool)                 -- job sleeping 500 ms after a failed Unsubscribe, lock held
deriving Repr, DecidableEq

structure Ch where
  /-- `subs[ch]`: client id ↦ subGen (no entry at all when empty) -/
  subs : List (Nat × Nat)
  /-- `mapChannels[ch]` -/
  hubMap : Bool
  /-- subscribed in the stream broker / map broker -/
  subStream : Bool
  subMap : Bool
  /-- jobs submitted and not yet returned nil (`wasMap` of each) -/
  jobs : List Bool
  lock : Lock
deriving Repr, DecidableEq

def init : Ch := { subs := [], hubMap := false, subStream := false, subMap := false, jobs := [],
                   lock := .free }

inductive Label where
  | addBegin (c gen : Nat) (isMap : Bool)
  | addBroker (ok : Bool)
  | remove (c gen : Nat)
  | jobStart (wasMap : Bool)
  | jobBroker (ok : Bool)
  | coolEnd
deriving Repr, DecidableEq

/-- `subs[ch][uid] = sub` -/
def insertSub (c gen : Nat) : List (Nat × Nat) → List (Nat × Nat)
  | [] => [(c, gen)]
  | (c', g') :: rest => if c' = c then (c, gen) :: rest else (c', g') :: insertSub c gen rest

def lookupSub (c : Nat) : List (Nat × Nat) → Option Nat
  | [] => none
  | (c', g') :: rest => if c' = c then some g' else lookupSub c rest

def eraseSub (c : Nat) : List (Nat × Nat) → List (Nat × Nat)
  | [] => []
  | (c', g') :: rest => if c' = c then rest else (c', g') :: eraseSub c rest

def setSubscribed (s : Ch) (isMap : Bool) (v : Bool) : Ch :=
  if isMap then { s with subMap := v } else { s with subStream := v }

/-- broker subscription state of the broker of the given kind -/
def served (s : Ch) (isMap : Bool) : Bool := if isMap then s.subMap else s.subStream

/-- `hub.removeSub(ch, c, gen)`: new hub state and `(isEmpty, wasMap)` -/
def hubRemove (s : Ch) (c gen : Nat) : Ch × Bool × Bool :=
  match s.subs with
  | [] => (s, true, false)
  | _ =>
    match lookupSub c s.subs with
    | none => (s, true, false)
    | some g =>
      if gen ≠ 0 ∧ g ≠ gen then (s, false, false)
      else
        let subs' := eraseSub c s.subs
        if subs' = [] then ({ s with subs := [], hubMap := false }, true, s.hubMap)
        else ({ s with subs := subs' }, false, false)

/-- remove one occurrence -/
def eraseJob (w : Bool) : List Bool → List Bool
  | [] => []
  | x :: xs => if x = w then xs else x :: eraseJob w xs

/-- One atomic step; `none` = not enabled. -/
def next (s : Ch) : Label → Option Ch
  | .addBegin c gen isMap =>
    if s.lock = .free then
      let first := s.subs = []
      let s1 := { s with subs := insertSub c gen s.subs, hubMap := if first && isMap then true else s.hubMap }
      if first then some { s1 with lock := .adder c gen isMap } else some s1
    else none
  | .addBroker ok =>
    match s.lock with
    | .adder c gen isMap =>
      if ok then some { setSubscribed s isMap true with lock := .free }
      else some { (hubRemove s c gen).1 with lock := .free }
    | _ => none
  | .remove c gen =>
    if s.lock = .free then
      let (s1, empty, wasMap) := hubRemove s c gen
      if empty then some { s1 with jobs := s1.jobs ++ [wasMap] } else some s1
    else none
  | .jobStart w =>
    if s.lock = .free ∧ w ∈ s.jobs then
      if s.subs = [] then some { s with lock := .job w }
      else some { s with jobs := eraseJob w s.jobs }
    else none
  | .jobBroker ok =>
    match s.lock with
    | .job w =>
      if ok then some { setSubscribed s w false with jobs := eraseJob w s.jobs, lock := .free }
      else some { s with lock := .cool w }
    | _ => none
  | .coolEnd =>
    match s.lock with
    | .cool _ => some { s with lock := .free }
    | _ => none

def run (s : Ch) : List Label → Option Ch
  | [] => some s
  | l :: ls => match next s l with
    | none => none
    | some s' => run s' ls

end CentrifugeVerif.Interest
