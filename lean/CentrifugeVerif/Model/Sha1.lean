/-
SHA-1 (FIPS 180-4 / RFC 3174) on byte lists, core Lean only, written over `Nat` so that both the
compiled driver and the kernel (`decide +kernel`, GMP accelerated `Nat` operations) can run it.
Used by the C31 model for `Sec-WebSocket-Accept = base64(sha1(key ++ GUID))`.
The Go side uses `crypto/sha1`; the two are compared on every run for generated keys.
-/
namespace CentrifugeVerif.Sha1

abbrev Bytes := List UInt8

def two32 : Nat := 4294967296

/-- 32-bit left rotation of `x < 2^32`. -/
def rotl (x n : Nat) : Nat := ((x <<< n) ||| (x >>> (32 - n))) % two32

/-- the `k` low bytes of `v`, big endian. -/
def be : Nat → Nat → Bytes
  | 0, _ => []
  | k + 1, v => UInt8.ofNat ((v >>> (8 * k)) % 256) :: be k v

/-- message padding: `0x80`, zeros up to 56 mod 64, 64-bit big-endian bit length. -/
def pad (msg : Bytes) : Bytes :=
  let l := msg.length
  let k := (119 - l % 64) % 64
  msg ++ [0x80] ++ List.replicate k 0 ++ be 8 (8 * l)

def word (b0 b1 b2 b3 : UInt8) : Nat :=
  (b0.toNat <<< 24) ||| (b1.toNat <<< 16) ||| (b2.toNat <<< 8) ||| b3.toNat

/-- big-endian 32-bit words of a byte list (a trailing partial word is dropped; never happens
after `pad`). -/
def wordsOf : Bytes → List Nat
  | b0 :: b1 :: b2 :: b3 :: rest => word b0 b1 b2 b3 :: wordsOf rest
  | _ => []

/-- split a word list into 16-word blocks. -/
def blocks : Nat → List Nat → List (List Nat)
  | 0, _ => []
  | f + 1, ws => if ws.isEmpty then [] else ws.take 16 :: blocks f (ws.drop 16)

/-- message schedule extension; `ws` holds the schedule reversed (latest word first). -/
def extend : Nat → List Nat → List Nat
  | 0, ws => ws
  | n + 1, ws =>
    extend n (rotl (ws[2]?.getD 0 ^^^ ws[7]?.getD 0 ^^^ ws[13]?.getD 0 ^^^ ws[15]?.getD 0) 1 :: ws)

structure St where
  a : Nat
  b : Nat
  c : Nat
  d : Nat
  e : Nat
deriving Repr, DecidableEq

def round (t w : Nat) (s : St) : St :=
  let fk : Nat × Nat :=
    if t < 20 then ((s.b &&& s.c) ||| ((s.b ^^^ 0xFFFFFFFF) &&& s.d), 0x5A827999)
    else if t < 40 then (s.b ^^^ s.c ^^^ s.d, 0x6ED9EBA1)
    else if t < 60 then ((s.b &&& s.c) ||| (s.b &&& s.d) ||| (s.c &&& s.d), 0x8F1BBCDC)
    else (s.b ^^^ s.c ^^^ s.d, 0xCA62C1D6)
  { a := (rotl s.a 5 + fk.1 + s.e + fk.2 + w) % two32, b := s.a, c := rotl s.b 30, d := s.c, e := s.d }

def rounds : Nat → List Nat → St → St
  | _, [], s => s
  | t, w :: ws, s => rounds (t + 1) ws (round t w s)

def compress (h : St) (block : List Nat) : St :=
  let ws := (extend 64 block.reverse).reverse
  let s := rounds 0 ws h
  { a := (h.a + s.a) % two32, b := (h.b + s.b) % two32, c := (h.c + s.c) % two32,
    d := (h.d + s.d) % two32, e := (h.e + s.e) % two32 }

def init : St := { a := 0x67452301, b := 0xEFCDAB89, c := 0x98BADCFE, d := 0x10325476, e := 0xC3D2E1F0 }

/-- SHA-1 digest (20 bytes). -/
def sha1 (msg : Bytes) : Bytes :=
  let ws := wordsOf (pad msg)
  let h := (blocks (ws.length + 1) ws).foldl compress init
  be 4 h.a ++ be 4 h.b ++ be 4 h.c ++ be 4 h.d ++ be 4 h.e

/-- ASCII string → bytes (code points above 255 are truncated; only used on ASCII literals). -/
def ascii (s : String) : Bytes := s.toList.map (fun c => UInt8.ofNat c.toNat)

end CentrifugeVerif.Sha1
