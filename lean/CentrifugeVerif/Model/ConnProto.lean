/-
Model of the command dispatch of one connection: `Client.HandleCommand` / `dispatchCommand`,
the `handle*` functions with their callbacks, `connectCmd` as far as it decides the outcome of the
connect command, `Client.close` as far as it is observable on the transport and in the callback
log, and the ping/pong bookkeeping (`sendPing`, the `lastPing` sign trick).  Core Lean only.

Go facts mirrored here (client.go):
* `HandleCommand`: closed ⇒ drop; `unusable` ⇒ spawn `close(BadRequest)`; otherwise
  `dispatchCommand`; a returned disconnect spawns `close(d)` and stops reading.
* `dispatchCommand`: `!authenticated && cmd.Connect == nil` ⇒ BadRequest, nothing else touched.
  `isPong(cmd) = (Id == 0 && Send == nil)` is tested *before* the kind of the command is looked at,
  so every command without an id (other than a send) is a pong – also a `connect` with id 0.
  A pong is accepted only while `lastPing > 0`; accepting negates `lastPing`.
  The frame-type chain has no `Ping` branch (a command with only the legacy `ping` field is a
  BadRequest), the handler chain has one right after `Connect` (⇒ `ErrorNotAvailable`).
* a handler error that is a `Disconnect` closes; any other error is written as an error reply
  with the command id (for `connect` it also makes the client `unusable` and stops reading).
* every `handle*` function ends each path in at most one reply write; the paths that write a
  reply *and* close are the unsubscribe wait-gate timeout (close spawned, reply still written) and
  a subscribe whose reservation changed generation (reply written, then ServerError).
* `handleSend` never replies.
* `close`: status := closed, disconnect push unless the code is ConnectionClosed (the harness
  transport has no disabled push flags), transport.Close(code), unsubscribe callbacks for the
  subscribed channels, disconnect callback iff the previous status was connected.

Abstraction: a `go c.close(d)` spawned while an op is processed is executed at the end of that
op; ops whose observable output depends on the race between that goroutine and later writes of
the same op are flagged `racy` (the check compares them modulo that race).  Map subscriptions
(`SubscribeRequest.Type ∈ {1,2,3}`) are not modelled (`unmodelled`).

Ghost state (never influences behaviour): every command that is dispatched gets a tag; reply
frames carry the tag of the command they answer.
-/
namespace CentrifugeVerif.ConnProto

/-- scripted application answer of a handler callback -/
inductive Res where
  | ok | err (code : Nat) | disc (code : Nat) | gen
  | expired | past | future | nokey | nores | csr
deriving Repr, DecidableEq, Inhabited

structure Cmd where
  id : Nat := 0
  connect : Bool := false
  ping : Bool := false
  subscribe : Bool := false
  unsubscribe : Bool := false
  publish : Bool := false
  presence : Bool := false
  presenceStats : Bool := false
  history : Bool := false
  rpc : Bool := false
  send : Bool := false
  refresh : Bool := false
  subRefresh : Bool := false
  /-- channel; `""` = absent -/
  ch : String := ""
  /-- channel longer than `ChannelMaxLength` -/
  chLong : Bool := false
  /-- token present (non-empty) -/
  tok : Bool := false
  typ : Nat := 0
  removed : Bool := false
  /-- 0 = no delta requested, 1 = "fossil", 2 = an unknown delta type -/
  delta : Nat := 0
  async : Bool := false
  res : Res := .ok
deriving Repr, DecidableEq, Inhabited

inductive Conn where
  | ok | exp | nocred | err (code : Nat) | disc (code : Nat) | gen | expired
  | none | nonenocred
  /-- OnConnecting succeeds but a connect-time server-side subscription fails with an error reply
  (its ExpireAt lies in the past): connectCmd fails *after* `authenticated = true` / `addClient` -/
  | subexp
deriving Repr, DecidableEq, Inhabited

structure Cfg where
  hSub : Bool := false
  hUnsub : Bool := false
  hPub : Bool := false
  hMapPub : Bool := false
  hMapRem : Bool := false
  hPres : Bool := false
  hStats : Bool := false
  hHist : Bool := false
  hRpc : Bool := false
  hMsg : Bool := false
  hRefresh : Bool := false
  hSubRefresh : Bool := false
  conn : Conn := .ok
  csr : Bool := false
  chLimit : Nat := 0
deriving Repr, DecidableEq, Inhabited

inductive Status where | connecting | connected | closed
deriving Repr, DecidableEq, Inhabited

/-- 0 / positive / negative `lastPing` -/
inductive PingSt where | none | pinged | ponged
deriving Repr, DecidableEq, Inhabited

inductive ChanSt where
  | reserved (gen : Nat)
  | subscribed (gen : Nat) (csr : Bool)
deriving Repr, DecidableEq, Inhabited

inductive PKind where
  | sub | pub | mappub | maprem | pres | stats | hist | rpc | refresh | subrefresh
deriving Repr, DecidableEq, Inhabited

def PKind.name : PKind → String
  | .sub => "sub" | .pub => "pub" | .mappub => "pub" | .maprem => "pub" | .pres => "pres"
  | .stats => "stats" | .hist => "hist" | .rpc => "rpc" | .refresh => "refresh"
  | .subrefresh => "subrefresh"

/-- a handler callback the application has not invoked yet -/
structure Pending where
  kind : PKind
  id : Nat
  tag : Option Nat
  ch : String
  gen : Nat
  res : Res
deriving Repr, DecidableEq, Inhabited

/-- body of a command reply before `writeEncodedCommandReply` stamps `rep.Id = cmd.Id` -/
inductive RBody where
  | ok (kind : String)
  | err (code : Nat)
deriving Repr, DecidableEq, Inhabited

inductive Frame where
  | reply (id : Nat) (kind : String) (tag : Option Nat)
  | error (id : Nat) (code : Nat) (tag : Option Nat)
  | ping
  | discPush (code : Nat)
  /-- publication push: the client published (through the node) into a channel it is subscribed to -/
  | pubPush
deriving Repr, DecidableEq, Inhabited

def RBody.frame (id : Nat) (tag : Option Nat) : RBody → Frame
  | .ok k => .reply id k tag
  | .err c => .error id c tag

def Frame.tag : Frame → Option Nat
  | .reply _ _ t => t | .error _ _ t => t | _ => none

def Frame.isReplyFor (k : Nat) (f : Frame) : Bool := f.tag == some k

inductive PingEv where | ping | pong
deriving Repr, DecidableEq, Inhabited

/-- the part of the client state the `handle*` functions read and write -/
structure Core where
  status : Status := .connecting
  authenticated : Bool := false
  unusable : Bool := false
  csr : Bool := false
  channels : List (String × ChanSt) := []
  genCounter : Nat := 0
deriving Repr, Inhabited

structure St where
  core : Core := {}
  lastPing : PingSt := .none
  pending : List Pending := []
  -- ghost
  nCmds : Nat := 0
  /-- (tag, id) of every dispatched command that is owed a reply -/
  owed : List (Nat × Nat) := []
  /-- tags whose answer was a disconnect or fell into a closed connection -/
  excused : List Nat := []
  frameLog : List Frame := []
  handlerLog : List String := []
  closeLog : List Nat := []
  pingLog : List PingEv := []
deriving Repr, Inhabited

def bad : Nat := 3501
def serverError : Nat := 3004

def lookup (cs : List (String × ChanSt)) (ch : String) : Option ChanSt :=
  (cs.find? (fun p => p.1 == ch)).map (·.2)

def erase (cs : List (String × ChanSt)) (ch : String) : List (String × ChanSt) :=
  cs.filter (fun p => p.1 != ch)

def eraseGen (cs : List (String × ChanSt)) (ch : String) (gen : Nat) : List (String × ChanSt) :=
  cs.filter (fun p => !(p.1 == ch && (match p.2 with
    | .reserved g => g == gen | .subscribed g _ => g == gen)))

/-- what one command / one callback does -/
structure Eff where
  st : Core
  hs : List String := []
  /-- the (at most one) reply written for the command -/
  reply : Option RBody := none
  /-- a publication push enqueued before the reply (`node.Publish` from the publish callback
  reaches this very client when it is subscribed to the channel) -/
  pub : Bool := false
  /-- disconnect *returned* by the handler: `HandleCommand` spawns `close` and stops reading -/
  disc : Option Nat := none
  /-- `go c.close(d)` spawned inside the handler / callback; reading goes on -/
  spawn : Option Nat := none
  pend : Option Pending := none
  proceed : Bool := true
  /-- an accepted pong: `lastPing = -lastPing` -/
  pong : Bool := false
  racy : Bool := false
  unmodelled : Bool := false
deriving Repr, Inhabited

def errorCode : Res → Option (Sum Nat Nat)   -- inl = error reply code, inr = disconnect code
  | .err c => some (.inl c)
  | .disc c => some (.inr c)
  | .gen => some (.inl 100)
  | _ => none

/-- `writeDisconnectOrErrorFlush` / the success reply, evaluated when the callback runs. -/
def answer (st : Core) (e : Option (Sum Nat Nat)) (kind : String) : Eff :=
  match e with
  | some (.inr d) => { st := st, spawn := some d }
  | some (.inl c) => { st := st, reply := some (.err c) }
  | none => { st := st, reply := some (.ok kind) }

/-- the callback body of every handler (`cb := func(reply, err) {…}`) -/
def complete (st : Core) (p : Pending) : Eff :=
  match p.kind with
  | .sub =>
    match errorCode p.res with
    | some e =>
      answer { st with channels := eraseGen st.channels p.ch p.gen } (some e) "sub"
    | none =>
      if p.res = .past then
        answer { st with channels := eraseGen st.channels p.ch p.gen } (some (.inl 110)) "sub"
      else
        match lookup st.channels p.ch with
        | none =>
          -- "client closed or unsubscribed before adding subscription"
          { st := st, spawn := some serverError }
        | some (.reserved g) =>
          if st.status = .closed then
            { st := { st with channels := eraseGen st.channels p.ch p.gen }, spawn := some serverError }
          else if g = p.gen then
            { st := { st with channels :=
                (erase st.channels p.ch) ++ [(p.ch, .subscribed g (p.res = .csr))] },
              reply := some (.ok "sub") }
          else
            -- reply already written, commit refused
            { st := st, reply := some (.ok "sub"), spawn := some serverError }
        | some (.subscribed _ _) =>
          if st.status = .closed then { st := st, spawn := some serverError }
          else { st := st, reply := some (.ok "sub"), spawn := some serverError }
  | .mappub | .maprem =>
    match errorCode p.res with
    | some e => answer st (some e) "pub"
    | none => if p.res = .nokey then answer st (some (.inl 107)) "pub"
              -- `Result == nil`: the library calls Node.MapPublish / MapRemove itself; the harness node
              -- has no map options for the channel, the (non-client) error becomes ErrorInternal
              else if p.res = .nores then answer st (some (.inl 100)) "pub"
              else answer st none "pub"
  | .refresh =>
    match errorCode p.res with
    | some e => answer st (some e) "refresh"
    | none =>
      if p.res = .expired then answer st (some (.inr 3005)) "refresh"
      else if p.res = .past then answer st (some (.inl 110)) "refresh"
      else answer st none "refresh"
  | .subrefresh =>
    match errorCode p.res with
    | some e => answer st (some e) "subrefresh"
    | none =>
      if p.res = .past then answer st (some (.inl 110)) "subrefresh"
      else answer st none "subrefresh"
  | .pub =>
    let e := answer st (errorCode p.res) "pub"
    if p.res = .nores then
      match lookup st.channels p.ch with
      | some (.subscribed _ _) => { e with pub := true }
      | _ => e
    else e
  | .hist =>
    match errorCode p.res with
    | some e => answer st (some e) "hist"
    | none =>
      -- `Result == nil` with a `since` position of an unknown epoch: Node.History answers
      -- ErrorUnrecoverablePosition, written by logWriteInternalErrorFlush as a client error
      if p.res = .nores then answer st (some (.inl 112)) "hist" else answer st none "hist"
  | k => answer st (errorCode p.res) k.name

/-- run the handler: log it, then either run the callback now or park it -/
def invoke (st : Core) (hname : String) (p : Pending) (async : Bool) : Eff :=
  if async then { st := st, hs := [hname], pend := some p }
  else
    let e := complete st p
    { e with hs := hname :: e.hs }

def errReply (st : Core) (code : Nat) : Eff :=
  { st := st, reply := some (.err code) }

def disconnect (st : Core) (code : Nat) : Eff :=
  { st := st, disc := some code, proceed := false }

def mkPending (k : PKind) (c : Cmd) (gen : Nat := 0) : Pending :=
  { kind := k, id := c.id, tag := none, ch := c.ch, gen := gen, res := c.res }

/-- `connectCmd` + `triggerConnect`, as far as the outcome of the command goes -/
def handleConnect (cfg : Cfg) (st : Core) (_c : Cmd) : Eff :=
  if st.authenticated then disconnect st bad else
  let hasHandler := !(cfg.conn = .none || cfg.conn = .nonenocred)
  let hs := if hasHandler then ["connecting"] else []
  let fail (e : Eff) : Eff := { e with hs := hs }
  match cfg.conn with
  | .err code => fail { (errReply { st with unusable := true } code) with proceed := false }
  | .gen => fail { (errReply { st with unusable := true } 100) with proceed := false }
  | .disc code => fail (disconnect st code)
  | .nocred | .nonenocred => fail (disconnect st bad)
  | .expired => fail { (errReply { st with unusable := true } 110) with proceed := false }
  -- the failed connect never counts as connected: `status` stays connecting, the client is unusable
  | .subexp => fail { (errReply { st with unusable := true, authenticated := true } 110) with proceed := false }
  | _ =>
    { st := { st with authenticated := true, status := .connected, csr := cfg.csr && hasHandler },
      hs := hs ++ ["connect"],
      reply := some (.ok "connect") }

def handleSubscribe (cfg : Cfg) (st : Core) (c : Cmd) : Eff :=
  if c.ch = "" && !c.chLong then disconnect st bad
  else if c.typ = 4 then errReply st 108
  else if c.typ = 1 || c.typ = 2 || c.typ = 3 then { st := st, unmodelled := true }
  else if !cfg.hSub then errReply st 108
  else if c.delta = 2 then disconnect st bad
  else if c.chLong then errReply st 107
  else if (lookup st.channels c.ch).isSome then errReply st 105
  else if cfg.chLimit > 0 && st.channels.length ≥ cfg.chLimit then errReply st 106
  else
    let gen := st.genCounter + 1
    let st := { st with genCounter := gen, channels := st.channels ++ [(c.ch, .reserved gen)] }
    invoke st ("sub:" ++ c.ch) (mkPending .sub c gen) c.async

def handleUnsubscribe (cfg : Cfg) (st : Core) (c : Cmd) : Eff :=
  if c.ch = "" && !c.chLong then disconnect st bad
  else if c.chLong then { st := st, reply := some (.ok "unsub") }
  else
    match lookup st.channels c.ch with
    | none => { st := st, reply := some (.ok "unsub") }
    | some (.reserved _) =>
      -- wait gate times out (virtual 5 s): close(ServerError) is spawned, the reply still written
      { st := st, reply := some (.ok "unsub"), spawn := some serverError, racy := true }
    | some (.subscribed _ _) =>
      { st := { st with channels := erase st.channels c.ch },
        hs := if cfg.hUnsub then ["unsub:" ++ c.ch] else [],
        reply := some (.ok "unsub") }

def handleChannelCmd (st : Core) (c : Cmd) (has : Bool) (k : PKind) (hname : String) : Eff :=
  if !has then errReply st 108
  else if c.ch = "" && !c.chLong then disconnect st bad
  else invoke st hname (mkPending k c) c.async

def handlePublish (cfg : Cfg) (st : Core) (c : Cmd) : Eff :=
  if c.typ = 1 then
    if c.removed then handleChannelCmd st c cfg.hMapRem .maprem "maprem"
    else handleChannelCmd st c cfg.hMapPub .mappub "mappub"
  else handleChannelCmd st c cfg.hPub .pub "pub"

def handleRefresh (cfg : Cfg) (st : Core) (c : Cmd) : Eff :=
  if !cfg.hRefresh then errReply st 108
  else if !c.tok then disconnect st bad
  else if !st.csr then disconnect st bad
  else invoke st "refresh" (mkPending .refresh c) c.async

def handleSubRefresh (cfg : Cfg) (st : Core) (c : Cmd) : Eff :=
  if c.ch = "" && !c.chLong then disconnect st bad
  else
    match (if c.chLong then none else lookup st.channels c.ch) with
    | some (.subscribed _ subCsr) =>
      if !cfg.hSubRefresh then errReply st 108
      else if !subCsr then disconnect st bad
      else if !c.tok then errReply st 107
      else invoke st "subrefresh" (mkPending .subrefresh c) c.async
    | _ => errReply st 103

/-- is the command owed a reply by the protocol: it carries an id and the handler that is
selected for it is not the one-way `send` -/
def Cmd.sendSelected (c : Cmd) : Bool :=
  c.send && !(c.connect || c.ping || c.subscribe || c.unsubscribe || c.publish || c.presence ||
    c.presenceStats || c.history || c.rpc)

def Cmd.hasFrameType (c : Cmd) : Bool :=
  c.connect || c.subscribe || c.unsubscribe || c.publish || c.presence || c.presenceStats ||
    c.history || c.rpc || c.send || c.refresh || c.subRefresh

/-- the handler chain of `dispatchCommand` (after the gate, the pong branch and the frame type) -/
def handlerChain (cfg : Cfg) (st : Core) (c : Cmd) : Eff :=
  if c.connect then handleConnect cfg st c
  else if c.ping then errReply st 108
  else if c.subscribe then handleSubscribe cfg st c
  else if c.unsubscribe then handleUnsubscribe cfg st c
  else if c.publish then handlePublish cfg st c
  else if c.presence then handleChannelCmd st c cfg.hPres .pres "pres"
  else if c.presenceStats then handleChannelCmd st c cfg.hStats .stats "stats"
  else if c.history then handleChannelCmd st c cfg.hHist .hist "hist"
  else if c.rpc then
    if !cfg.hRpc then errReply st 108 else invoke st "rpc" (mkPending .rpc c) c.async
  else if c.send then
    if !cfg.hMsg then disconnect st 3508 else { st := st, hs := ["msg"] }
  else if c.refresh then handleRefresh cfg st c
  else if c.subRefresh then handleSubRefresh cfg st c
  else disconnect st bad

def isPong (c : Cmd) : Bool := c.id = 0 && !c.send

/-- `dispatchCommand` for an open, usable connection (`lastPing` is the only thing it reads
outside of `Core`) -/
def dispatch (cfg : Cfg) (st : Core) (lastPing : PingSt) (c : Cmd) : Eff :=
  if !st.authenticated && !c.connect then disconnect st bad
  else if isPong c then
    if lastPing = .pinged then { st := st, pong := true }
    else disconnect st bad
  else if !c.hasFrameType then disconnect st bad
  else handlerChain cfg st c

def pushFrames (e : Eff) : List Frame :=
  if e.st.status = .closed || !e.pub then [] else [Frame.pubPush]

/-- bookkeeping of one effect: `writeEncodedCommandReply` stamps the command id on the reply
and hands it to the transport (only an open transport shows it); an accepted pong flips the
sign of `lastPing`; the ghost logs are updated. -/
def commit (st : St) (e : Eff) (id : Nat) (tag : Option Nat) : St :=
  -- frames reach the transport only while it is open
  let frames := if e.st.status = .closed then [] else (e.reply.map (RBody.frame id tag)).toList
  let pushes := pushFrames e
  let excusedNow := match tag with
    | some k => if frames.isEmpty && e.pend.isNone then [k] else []
    | none => []
  { st with
    core := e.st
    lastPing := if e.pong then .ponged else st.lastPing
    pingLog := if e.pong then st.pingLog ++ [.pong] else st.pingLog
    frameLog := st.frameLog ++ pushes ++ frames
    handlerLog := st.handlerLog ++ e.hs
    pending := st.pending ++ (e.pend.map (fun p => { p with tag := tag })).toList
    excused := st.excused ++ excusedNow }

/-- `Client.close(code)` -/
def closeWith (cfg : Cfg) (st : St) (code : Nat) : St :=
  if st.core.status = .closed then st else
  let unsubs := if cfg.hUnsub then
      st.core.channels.filterMap (fun p => match p.2 with
        | .subscribed _ _ => some ("unsub:" ++ p.1) | _ => none)
    else []
  { st with
    core := { st.core with
      status := .closed
      channels := st.core.channels.filter
        (fun p => match p.2 with | .subscribed _ _ => false | _ => true) }
    frameLog := st.frameLog ++ (if code = 3000 then [] else [.discPush code])
    closeLog := st.closeLog ++ [code]
    handlerLog := st.handlerLog ++ unsubs ++
      (if st.core.status = .connected then ["disconnect:" ++ toString code] else []) }

/-- result of processing commands (closes spawned so far are not yet executed) -/
structure CmdRes where
  st : St
  /-- codes of the `close` goroutines spawned so far, in spawn order -/
  spawns : List Nat := []
  proceed : Bool := true
  unmodelled : Bool := false
  /-- a reply was written after an inline spawn -/
  racy : Bool := false
deriving Repr, Inhabited

def owesReply (c : Cmd) : Bool := c.id > 0 && !c.sendSelected

def handleCommand (cfg : Cfg) (st : St) (c : Cmd) : CmdRes :=
  if st.core.status = .closed then { st := st, proceed := false }
  else if st.core.unusable then { st := st, spawns := [bad], proceed := false }
  else
    let tag := if owesReply c then some st.nCmds else none
    let st1 := { st with nCmds := st.nCmds + 1,
                         owed := st.owed ++ (match tag with | some k => [(k, c.id)] | none => []) }
    let e := dispatch cfg st.core st.lastPing c
    { st := commit st1 e c.id tag, spawns := e.disc.toList ++ e.spawn.toList,
      proceed := e.proceed && e.disc.isNone, unmodelled := e.unmodelled, racy := e.racy }

/-- tail of a frame: what follows the well-formed commands -/
inductive Tail where | none | malformed
deriving Repr, DecidableEq, Inhabited

/-- `HandleReadFrame`: commands in order until one says stop; a decoding error (or an empty
frame) is answered with `Disconnect(BadRequest)`.  `had` = a command was decoded before. -/
def handleFrame (cfg : Cfg) (st : St) (spawns : List Nat) : List Cmd → Tail → Bool → CmdRes
  | [], .none, true => { st := st, spawns := spawns }
  | [], _, _ => { st := st, spawns := spawns ++ [bad], proceed := false }
  | c :: cs, t, _ =>
    let r := handleCommand cfg st c
    if !r.proceed || r.unmodelled then { r with spawns := spawns ++ r.spawns }
    else handleFrame cfg r.st (spawns ++ r.spawns) cs t true

inductive Op where
  | frame (cmds : List Cmd) (tail : Tail)
  /-- run parked callbacks; every index refers to the pending list as it is when its turn comes
  (the driver passes distinct indices in descending order) -/
  | fire (idxs : List Nat)
  | ping
  | eof
deriving Repr, Inhabited

/-- the spawned `close` goroutines run (the first one wins, the others find the client closed) -/
def spawnClose (cfg : Cfg) (st : St) : List Nat → St
  | code :: _ => closeWith cfg st code
  | [] => st

/-- run the parked callback number `i` -/
def fireOne (st : St) (i : Nat) : St × List Nat :=
  match st.pending[i]? with
  | none => (st, [])
  | some p =>
    let e := complete st.core p
    (commit { st with pending := st.pending.eraseIdx i } { e with pend := none } p.id p.tag,
     e.spawn.toList)

/-- callbacks fired in one op run one after the other in the model -/
def fireAll (st : St) (spawns : List Nat) : List Nat → St × List Nat
  | [] => (st, spawns)
  | i :: is =>
    let r := fireOne st i
    fireAll r.1 (spawns ++ r.2) is

structure StepRes where
  st : St
  proceed : Option Bool := none
  /-- the observable output of the op depends on when the spawned `close` goroutine runs
  relative to later effects of the same op (the check compares such ops modulo that race) -/
  racy : Bool := false
  unmodelled : Bool := false
  /-- close codes spawned by the op (the first to run wins) -/
  codes : List Nat := []
deriving Repr, Inhabited

/-- does anything of the op happen after the first spawn -/
def racyFrame (cfg : Cfg) (st : St) : List Cmd → Tail → Bool
  | [], _ => false
  | c :: cs, t =>
    let r := handleCommand cfg st c
    if !r.proceed || r.unmodelled then r.racy
    else if !r.spawns.isEmpty then r.racy || !cs.isEmpty || t != .none
    else racyFrame cfg r.st cs t

def step (cfg : Cfg) (st : St) : Op → StepRes
  | .frame cmds tail =>
    let r := handleFrame cfg st [] cmds tail false
    { st := spawnClose cfg r.st r.spawns, proceed := some r.proceed,
      racy := racyFrame cfg st cmds tail, unmodelled := r.unmodelled, codes := r.spawns }
  | .fire idxs =>
    let r := fireAll st [] idxs
    { st := spawnClose cfg r.1 r.2, racy := idxs.length > 1 && !r.2.isEmpty && st.core.status != .closed, codes := r.2 }
  | .ping =>
    if st.core.status = .connected then
      { st := { st with lastPing := .pinged, frameLog := st.frameLog ++ [.ping],
                        pingLog := st.pingLog ++ [.ping] } }
    else { st := st }
  | .eof => { st := closeWith cfg st 3000 }

def run (cfg : Cfg) (st : St) : List Op → St
  | [] => st
  | o :: os => run cfg (step cfg st o).st os

end CentrifugeVerif.ConnProto
