import CentrifugeVerif.Model.SubProtoSpec
/-!
Concrete executions of the LTS (label sequences from the connected initial state) on which the full
C05 / C07 statements fail.  They are found by the bounded explorer of the driver
(`explore …` lines), replayed on the real code by the harness where the harness can schedule them
(see `props/C07/findings.json`), and checked by `decide` in `Props/`.
-/
namespace CentrifugeVerif.SubProto

/-- server-side subscribe parked between its commit and `PublishJoin`; a server-side unsubscribe runs
to completion in between: the broker sees [leave, join] (finding C07-1). -/
def wLeaveBeforeJoin : List Label :=
  [.spawn .ssub 0 ⟨false, true⟩, .spawn .sunsub 0 ⟨false, false⟩, .step 0 .ok, .step 0 .ok, .step 0 .ok,
   .step 0 .ok, .step 1 .ok, .step 1 .ok, .step 1 .ok, .step 1 .ok, .step 0 .ok, .step 1 .ok, .step 0 .ok,
   .step 1 .ok, .step 0 .ok, .step 0 .ok]
/-- server-side subscribe commits, `close()` closes the writer, the subscribe push fails and the join
is skipped, `close()` publishes the leave: a leave without a join (finding C07-2). -/
def wLeaveWithoutJoin : List Label :=
  [.spawn .ssub 0 ⟨false, true⟩, .spawn .close 0 ⟨false, false⟩, .step 0 .ok, .step 0 .ok, .step 0 .ok,
   .step 0 .ok, .step 1 .ok, .step 1 .ok, .step 1 .ok, .step 1 .ok, .step 1 .ok, .step 1 (.pick 0),
   .step 1 .ok, .step 1 .ok, .step 1 .ok, .step 1 .ok, .step 1 .ok, .step 1 .ok, .step 0 .ok, .step 1 .ok,
   .step 0 .ok, .step 1 .ok, .step 0 .ok]
/-- wait-gate timeout: the first unsubscribe times out (its force-close is slow to start), a second
unsubscribe snapshots the now gate-less reservation, the stalled subscribe commits, the second
unsubscribe deletes the committed entry using its stale (unsubscribed) snapshot — no presence removal,
no leave — and `close()` finds nothing to clean: the presence entry survives the connection. -/
def wPresenceSurvives : List Label :=
  [.spawn .csub 0 ⟨true, true⟩, .spawn .cunsub 0 ⟨false, false⟩, .spawn .cunsub 0 ⟨false, false⟩,
   .step 0 .ok, .step 0 .ok, .step 0 .ok, .step 0 .ok, .step 0 .ok, .step 2 .ok, .step 2 .tmo, .step 0 .ok,
   .step 2 .ok, .step 0 .ok, .step 2 .ok, .step 0 .ok, .step 1 .ok, .step 0 .ok, .step 1 .ok, .step 3 .ok,
   .step 3 .ok, .step 3 .ok, .step 3 .ok, .step 3 .ok, .step 0 .ok, .step 3 .ok, .step 0 .ok, .step 1 .ok,
   .step 1 .ok, .step 3 .ok, .step 3 .ok]
/-- wait-gate timeout: the stalled subscribe lost its reservation, a fresh server-side subscribe
reserved the channel, the stalled one re-reads the generation in `subscribeCmd` and adopts it: both
commit and both publish a join for generation 2; one leave follows (finding C07-3a). -/
def wTwoJoins : List Label :=
  [.spawn .csub 0 ⟨false, true⟩, .spawn .cunsub 0 ⟨false, false⟩, .spawn .sunsub 0 ⟨false, false⟩,
   .spawn .ssub 0 ⟨false, true⟩, .step 0 .ok, .step 1 .ok, .step 1 .tmo, .step 1 .ok, .step 1 .ok,
   .step 2 .ok, .step 2 .ok, .step 2 .ok, .step 2 .ok, .step 3 .ok, .step 3 .ok, .step 3 .ok, .step 0 .ok,
   .step 0 .ok, .step 0 .ok, .step 0 .ok, .step 0 .ok, .step 0 .ok, .step 0 .ok, .step 0 .ok, .step 0 .ok,
   .step 3 .ok, .step 3 .ok, .step 3 .ok, .step 3 .ok, .step 3 .ok, .step 4 .ok, .step 4 .ok, .step 4 .ok,
   .step 4 .ok, .step 4 .ok, .step 4 (.pick 0), .step 4 .ok, .step 4 .ok, .step 4 .ok, .step 4 .ok,
   .step 4 .ok, .step 4 .ok, .step 4 .ok, .step 4 .ok]
/-- wait-gate timeout, replayable on the implementation (finding C05-1): the stalled client subscribe
(no presence) adopts the generation of a fresh server-side subscribe (with presence) that has already
committed, and its own commit overwrites the context; `close()` unsubscribes by the overwritten context and
leaves the presence entry behind. -/
def wPresenceSurvivesAdopt : List Label :=
  [.spawn .csub 0 ⟨false, false⟩, .spawn .sunsub 0 ⟨false, false⟩, .spawn .sunsub 0 ⟨false, false⟩,
   .spawn .ssub 0 ⟨true, false⟩, .step 0 .ok, .step 1 .ok, .step 1 .ok, .step 1 .tmo, .step 1 .ok,
   .step 2 .ok, .step 2 .ok, .step 2 .ok, .step 2 .ok, .step 3 .ok, .step 3 .ok, .step 3 .ok, .step 3 .ok,
   .step 3 .ok, .step 3 .ok, .step 3 .ok, .step 3 .ok, .step 0 .ok, .step 0 .ok, .step 0 .ok, .step 0 .ok,
   .step 0 .ok, .step 0 .ok, .step 0 .ok, .step 0 .ok, .step 4 .ok, .step 4 .ok, .step 4 .ok, .step 4 .ok,
   .step 4 .ok, .step 4 (.pick 0), .step 4 .ok, .step 4 .ok, .step 4 .ok, .step 4 .ok, .step 4 .ok,
   .step 4 .ok, .step 4 .ok]

end CentrifugeVerif.SubProto
