import CentrifugeVerif.DriverLib
import CentrifugeVerif.Model.RecoveryHub
/-!
Line protocol shared by the C02 and C03 drivers (one scenario = `reset` … ops).

```
reset meta=<cfg meta ttl s> limit=<RecoveryMaxPublicationLimit>        -> ok
pub tag=<n> size=<n> ttl=<s>                                           -> off=<o> ep=<epoch index>
remove                                                                 -> ok
adv n=<seconds>                                                        -> ok
sub [via=cmd|connect] mode=stream|cache rec=0|1 auto=0|1 off=<o> ep=<epoch index, 0 = empty> rej=0|1
    delta=0|1 cf=<filter> sf=<filter> h=<handler> [w=<window>]
      via     = cmd (default): client subscribe command; connect: server-side subscription returned by
                OnConnecting with the position taken from ConnectRequest.Subs — `connectCmd` copies
                Recover/Offset/Epoch/Delta into the request handed to the same `subscribeCmd`, there is no
                client tags filter and no reject flag on that path (cf must be -, rej 0, else bad-op)
      filter  = -  | e<v> (tag == v) | n<v> (tag != v)
      window  = -  | events joined by + : p<tag>.<size>.<ttl> (a publication made right after the
                subscribe's history read returned) | s<k> (a late PUB/SUB copy of the publication k below
                the top the read saw; ignored when there is none).  Stream mode only.
      (harness-only fields the model deliberately ignores: `reset … flight=1` = Config.UseSingleFlight,
       `sub … ov=<limit>` = an unrelated forward Node.History(limit) parked in the broker while the
       subscribe runs — neither may change the outcome)
      handler = -  | err:<pubs> | 0:<pubs> | 1:<pubs>    pubs = tag.size.ttl joined by + (or empty)
  -> <outcome> pre=<state> post=<state> hi=<handler invoked 0|1> hp=<offsets the handler published>
     outcome = rec=<0|1> pubs=<offset:id,…> off=<o> ep=<e> pos=<o> was=<0|1> | err=112 | disc=3010 | disc=3004
     state   = -  (no stream) | top/epoch/len/first/last     (retained list before / after the subscribe)
```
Epoch indices number the epochs in order of creation (the harness numbers epoch strings in order
of first appearance, which is the same order because every creation is reported by its operation).
A request epoch index that has not been created yet denotes a foreign epoch string.
-/
namespace CentrifugeVerif.Recovery
open CentrifugeVerif.DriverLib CentrifugeVerif.Merge

def startUnix : Nat := 946684800

def parseOne (s : String) : Option (Option (Bool × Nat)) :=
  if s == "-" then some none
  else match s.toList with
    | 'e' :: r => (String.ofList r).toNat?.map (fun v => some (true, v))
    | 'n' :: r => (String.ofList r).toNat?.map (fun v => some (false, v))
    | _ => none

def passOne (f : Option (Bool × Nat)) (p : Pub) : Bool :=
  match f with
  | none => true
  | some (true, v) => p.tag == v          -- eq: key present and equal (tag 0 = key absent, v ≥ 1)
  | some (false, v) => p.tag != v         -- neq: key absent or different

def mkFilt (cf sf : Option (Bool × Nat)) : Filt :=
  { has := cf.isSome || sf.isSome, pass := fun p => passOne sf p && passOne cf p }

def parseTriple (s : String) : Option (Nat × Nat × Nat) :=
  match s.splitOn "." with
  | [a, b, c] =>
    match a.toNat?, b.toNat?, c.toNat? with
    | some x, some y, some z => some (x, y, z)
    | _, _, _ => none
  | _ => none

def parseHandler (s : String) : Option (Option (Bool × Bool × List (Nat × Nat × Nat))) :=
  if s == "-" then some none
  else match s.splitOn ":" with
    | [k, ps] =>
      let pubs := if ps == "" then some [] else (ps.splitOn "+").mapM parseTriple
      match k, pubs with
      | "err", some l => some (some (true, false, l))
      | "0", some l => some (some (false, false, l))
      | "1", some l => some (some (false, true, l))
      | _, _ => none
    | _ => none

def parseWEvent (s : String) : Option WEvent :=
  match s.toList with
  | 'p' :: r => (parseTriple (String.ofList r)).map (fun (a, b, c) => WEvent.pub a b c)
  | 's' :: r => (String.ofList r).toNat?.map WEvent.stale
  | _ => none

def parseWindow (s : String) : Option (List WEvent) :=
  if s == "-" then some [] else (s.splitOn "+").mapM parseWEvent

def showOutcome : Outcome → String
  | .unrecoverable => "err=112"
  | .insufficient => "disc=3010"
  | .handlerError => "disc=3004"
  | .reply r pubs off ep pos was =>
    let ps := joinWith "," (pubs.map (fun p => s!"{p.offset}:{p.id}"))
    s!"rec={if r then 1 else 0} pubs={ps} off={off} ep={ep} pos={pos} was={if was then 1 else 0}"

/-- retained state as the harness peeks it: `-` (no stream) or `top/epoch/len/first/last` -/
def showState : Option RStream → String
  | none => "-"
  | some s =>
    let lo := match s.items.head? with | some p => p.offset | none => 0
    let hi := match s.items.getLast? with | some p => p.offset | none => 0
    s!"{s.top}/{s.epoch}/{s.items.length}/{lo}/{hi}"

def bit (ws : List String) (k : String) : Option Bool :=
  match kv ws k with
  | some "0" => some false
  | some "1" => some true
  | _ => none

def step (h : Hub) (line : String) : Hub × String :=
  let ws := words line
  match ws with
  | "reset" :: rest =>
    match kvNat rest "meta", kvNat rest "limit" with
    | some m, some l => ({ now := startUnix, cfgMeta := m, cfgLimit := l }, "ok")
    | _, _ => (h, "bad-op")
  | "pub" :: rest =>
    match kvNat rest "tag", kvNat rest "size", kvNat rest "ttl" with
    | some t, some sz, some ttl =>
      let (h', p, e) := h.publish t sz ttl 0
      (h', s!"off={p.offset} ep={e}")
    | _, _, _ => (h, "bad-op")
  | ["remove"] => (h.remove, "ok")
  | "adv" :: rest =>
    match kvNat rest "n" with
    | some n => (Hub.ticks n h, "ok")
    | none => (h, "bad-op")
  | "sub" :: rest =>
    let mode := kv rest "mode"
    match bit rest "rec", bit rest "auto", kvNat rest "off", kvNat rest "ep", bit rest "rej",
      bit rest "delta", (kv rest "cf").bind parseOne, (kv rest "sf").bind parseOne,
      (kv rest "h").bind parseHandler with
    | some r, some a, some off, some ep, some rej, some d, some cf, some sf, some hd =>
      let via := (kv rest "via").getD "cmd"
      if mode != some "stream" && mode != some "cache" then (h, "bad-op") else
      if via != "cmd" && via != "connect" then (h, "bad-op") else
      if via == "connect" && (cf.isSome || rej) then (h, "bad-op") else
      match parseWindow ((kv rest "w").getD "-") with
      | none => (h, "bad-op")
      | some win =>
      if mode == some "cache" && !win.isEmpty then (h, "bad-op") else
      -- an epoch index that does not exist yet stands for a foreign epoch string
      let ep := if ep ≥ h.nextEpoch then ep + 1000000000 else ep
      let sp : SubParams := ⟨mode == some "cache", r, a, ⟨off, ep, rej⟩, d, mkFilt cf sf, hd, win⟩
      let r := h.subscribe sp
      let hp := joinWith "," (r.hpubs.map (fun p => toString p.offset))
      (r.hub, s!"{showOutcome r.out} pre={showState h.stream} post={showState r.hub.stream} hi={if r.invoked then 1 else 0} hp={hp}")
    | _, _, _, _, _, _, _, _, _ => (h, "bad-op")
  | _ => (h, "bad-op")

def initHub : Hub := { now := startUnix, cfgMeta := 2592000, cfgLimit := 0 }

end CentrifugeVerif.Recovery
