import CentrifugeVerif.Model.MapHub
/-!
# The key-expiry sweeper as a labelled transition system

`expireKeysIteration` of `/repo/map_broker_memory.go` is not atomic: phase 1 (one hub-lock region) pops the
elapsed deadlines from the heap and only *collects* expired-key events; phase 2 (one `pubLock → hub lock`
region **per event**) re-validates the entry, deletes the state, appends the removal to the stream and
broadcasts it.  `Publish` / `Remove` / `Clear` / keep-alive (a publish with `KeyModeIfNew` and
`RefreshTTLOnSuppress`) of any key may run between phase 1 and phase 2 and between two phase-2 regions, and
the clock advances.

`Sys.step` makes every one of these regions one atomic label over the hub model of `Model/MapHub.lean`
(the functions `publish`, `removeOp`, `clear`, `phase1`, `phase2` are reused unchanged), so that a label
sequence is an interleaving.  There is one sweeper goroutine: phase 1 is enabled only when the previous
iteration has processed all its events.

Core Lean only, executable.
-/
namespace CentrifugeVerif.MapExpiry
open CentrifugeVerif.MapHub

structure Sys where
  hub : Hub
  now : Nat
  /-- events collected by the running sweep's phase 1 and not yet processed by phase 2 -/
  pending : List ExpEvent
  /-- the `now` captured by that phase 1 -/
  now1 : Nat
  /-- every `HandlePublication` call so far (oldest first) -/
  log : List Bcast
deriving Repr, DecidableEq, Inhabited

inductive Label
  /-- `Publish`; keep-alive is a publish with `mode := .ifNew`, `refresh := true` -/
  | pub (ch : Nat) (key : Key) (o : PubOpts)
  /-- `Remove` -/
  | rm (ch : Nat) (key : Key) (o : RmOpts)
  /-- `Clear` -/
  | clear (ch : Nat)
  /-- the clock advances by `d` ms -/
  | tick (d : Nat)
  /-- phase 1 of a sweep; enabled only when `pending = []` (one sweeper goroutine) -/
  | phase1
  /-- one phase-2 region: processes the head event; enabled only when `pending ≠ []` -/
  | phase2
deriving Repr, DecidableEq, Inhabited

def Sys.init : Sys := ⟨Hub.init, 0, [], 0, []⟩

/-- one atomic region.  `none` = the label is not enabled (or phase 1 ran out of fuel, which never
happens: `phase1_never_stuck`). -/
def Sys.step (cfg : Nat → RawCfg) (s : Sys) : Label → Option Sys
  | .pub ch key o =>
    let r := publish (cfg ch) s.hub s.now ch key o
    some { s with hub := r.1, log := s.log ++ r.2.bcs }
  | .rm ch key o =>
    let r := removeOp (cfg ch) s.hub s.now ch key o
    some { s with hub := r.1, log := s.log ++ r.2.bcs }
  | .clear ch => some { s with hub := clear s.hub ch }
  | .tick d => some { s with now := s.now + d }
  | .phase1 =>
    match s.pending with
    | [] =>
      match MapHub.phase1 cfg s.hub s.now with
      | none => none
      | some (h, evs) => some { s with hub := h, pending := evs, now1 := s.now }
    | _ :: _ => none
  | .phase2 =>
    match s.pending with
    | [] => none
    | ev :: rest =>
      let r := MapHub.phase2 s.hub s.now1 s.now ev
      some { s with hub := r.1, pending := rest, log := s.log ++ r.2 }

/-- run a label sequence (an interleaving); `none` as soon as a label is not enabled. -/
def Sys.run (cfg : Nat → RawCfg) : Sys → List Label → Option Sys
  | s, [] => some s
  | s, l :: ls =>
    match s.step cfg l with
    | none => none
    | some s' => Sys.run cfg s' ls

/-! ### projections used by the specification -/

/-- the state entry of `key` in channel `ch` (`none`: no such channel or no such key). -/
def stateOf (h : Hub) (ch : Nat) (key : Key) : Option Entry :=
  (aget h.chans ch).bind (fun c => aget c.state key)

/-- the stream of channel `ch`. -/
def streamOf (h : Hub) (ch : Nat) : Option Stream := (aget h.chans ch).map (·.stream)

/-! ### the sweeper invariant -/

/-- No key with a deadline is ever lost by the sweeper: its deadline is recorded in `keyExpires`, and
either a heap item with priority ≤ the deadline or a pending event for exactly that deadline exists;
the sweeper's wake-up time `nextKeyCheck` is non-zero while the heap is non-empty and is a lower bound
of the heap. -/
def ExpInv (s : Sys) : Prop :=
  (∀ ch c key e, aget s.hub.chans ch = some c → aget c.state key = some e → 0 < e.expireAt →
      aget s.hub.keyExpires (ch, key) = some e.expireAt ∧
      ((∃ p, ((ch, key), p) ∈ s.hub.queue ∧ p ≤ e.expireAt) ∨
       (∃ ev ∈ s.pending, ev.ch = ch ∧ ev.key = key ∧ ev.expireAt = e.expireAt))) ∧
  (s.hub.queue ≠ [] → s.hub.nextKeyCheck ≠ 0) ∧
  (∀ it ∈ s.hub.queue, s.hub.nextKeyCheck ≤ it.2)

/-- The two auxiliary facts that make `ExpInv` inductive: recorded deadlines are positive (otherwise the
heap compaction could set the wake-up time to `0` = "never"), and the empty key is never in a state
(phase 1 forgets the deadline of an item with an empty key). -/
def ExpAux (s : Sys) : Prop :=
  (∀ it ∈ s.hub.keyExpires, 0 < it.2) ∧
  (∀ ch c, aget s.hub.chans ch = some c → aget c.state [] = none)

end CentrifugeVerif.MapExpiry
