/-!
# Subscription protocol of one connection (C04 / C05 / C07) — executable labelled transition system

Model of `/repo/client.go` (`handleSubscribe`, `validateSubscribeRequest`, `subscribeCmd`,
`commitSubscription`, `onSubscribeErrorGen`, `Client.Subscribe`, `unsubscribe`, `Client.Unsubscribe`,
`close`), `/repo/hub.go` (`subShard.addSub/removeSub`, `connShard.add/remove`) and `/repo/node.go`
(`addSubscription/removeSubscription`, `addClient/removeClient`, `publishJoin/publishLeave`) for ONE
connection, any number of channels and any number of concurrently running operations.

* State = the connection's `c.channels` map (generation, subscribed flag, option flags, the
  `subscribingCh` wait gate), its hub routing entries with their generation, its presence entries,
  status / hub registration / the two inflight gauges / writer-closed flag / `connectMu`, the set of
  closed wait gates, the broker call log, and one record per running operation (thread) with its
  program counter and captured locals.
* One label = one atomic step of the Go code: one `c.mu` critical section, one hub operation (under
  `subLock` + shard lock, including the nested `Broker.Subscribe`), or one external call (handler
  callback, presence add/remove, reply write, `PublishJoin`, `PublishLeave`, transport calls).
* Threads are created by the free label `spawn` at any time, so "any sequence of API calls and
  commands, any interleaving" is what the reachable states quantify over.  The unsubscribe
  wait-gate timeout is the label `tmo`, enabled whenever a thread waits at the gate.
* Go run-time panics (closing a closed channel) are an explicit outcome: `panicked := true`.

A wait gate (`subscribingCh`) is identified by the generation minted together with it (every
`make(chan struct{})` sits next to a `subGenCounter.Add(1)`).
-/
namespace CentrifugeVerif.SubProto

abbrev Chan := Nat
abbrev Tid := Nat
abbrev Gen := Nat

inductive Status | connecting | connected | closed
  deriving DecidableEq, Repr, Hashable

/-- Subscribe options that matter here: EmitPresence, EmitJoinLeave. -/
structure Opts where
  presence : Bool
  joinLeave : Bool
  deriving DecidableEq, Repr, Hashable

/-- One `c.channels` entry (`ChannelContext`): generation, `flagSubscribed`, option flags,
`subscribingCh` (`none` = nil). -/
structure Entry where
  gen : Gen
  subscribed : Bool
  presence : Bool
  joinLeave : Bool
  serverSide : Bool
  gate : Option Gen
  deriving DecidableEq, Repr, Hashable

def Entry.reservation (g : Gen) : Entry :=
  { gen := g, subscribed := false, presence := false, joinLeave := false, serverSide := false, gate := some g }

inductive Kind | csub | ssub | cunsub | sunsub | close
  deriving DecidableEq, Repr, Hashable

/-- Program counters.  `s*` subscribe (client command / server-side `Client.Subscribe`), `u*`
unsubscribe (command, server API, or the per-channel call inside `close`), `c*` close. -/
inductive Pc
  | sReserve | sOnSub | sReadGen | sCheck1 | sHubAdd | sCheck2 | sPresAdd | sReply | sCommit
  | sRbHub | sRbPres | sRbClose | sCloseGate | sDpf | sPush | sJoin
  | sDeferPres | sErrDel | sErrHub | sErrClose | sErrOut
  | uStatus | uSnap | uWait | uTmoLog | uRemove | uPresRm | uLeave | uHubRm | uOnUnsub | uOut
  | cEnter | cRemoveClient | cDpf | cWriter | cTClose | cLoop | cOnDisc | cExit
  | done
  deriving DecidableEq, Repr, Hashable

inductive Ret | none | ok | err
  deriving DecidableEq, Repr, Hashable

structure Thread where
  kind : Kind
  ch : Chan
  opts : Opts
  pc : Pc
  auto : Bool := false          -- close() spawned by the code itself (`go c.close(...)`)
  resGen : Gen := 0             -- generation of the reservation this attempt made
  cmdGen : Gen := 0             -- generation subscribeCmd works with (hub entry, committed context)
  capGate : Option Gen := none  -- captured subscribingCh (commit / onSubscribeErrorGen / unsubscribe snapshot)
  presAdded : Bool := false
  failDisc : Bool := false      -- the failure is a Disconnect (⇒ `go c.close`) rather than an error reply
  target : Gen := 0             -- unsubscribe: targetSubGen
  ctx : Option Entry := none    -- unsubscribe: chCtx (snapshot, or re-read after the wait)
  pending : List Chan := []     -- close: channels of the snapshot not yet unsubscribed
  prevConnected : Bool := false
  ret : Ret := .none
  deriving DecidableEq, Repr, Hashable

inductive Ev
  | commit (ch : Chan) (g : Gen)   -- ghost: commitSubscription installed generation g (not an external call)
  | join (ch : Chan) (g : Gen)
  | leave (ch : Chan) (g : Gen)
  | onUnsub (ch : Chan)
  | onDisconnect
  | replyOk (t : Tid)
  | replyErr (t : Tid)
  deriving DecidableEq, Repr, Hashable

structure State where
  status : Status
  registered : Bool
  connGauge : Int
  subGauge : Int
  writerClosed : Bool
  connectMu : Option Tid
  genCounter : Nat
  channels : List (Chan × Entry)
  hub : List (Chan × Gen)
  presence : List Chan
  closedGates : List Gen
  threads : List (Tid × Thread)
  nextTid : Nat
  log : List Ev
  panicked : Bool
  deriving DecidableEq, Repr, Hashable

/-- A connected, authenticated connection with no subscriptions and nothing in flight. -/
def State.init : State :=
  { status := .connected, registered := true, connGauge := 1, subGauge := 0, writerClosed := false,
    connectMu := none, genCounter := 0, channels := [], hub := [], presence := [], closedGates := [],
    threads := [], nextTid := 0, log := [], panicked := false }

/-! ### association lists (Go maps) -/

def aget {β : Type} : List (Nat × β) → Nat → Option β
  | [], _ => none
  | (k, v) :: r, x => if k = x then some v else aget r x

def adel {β : Type} : List (Nat × β) → Nat → List (Nat × β)
  | [], _ => []
  | (k, v) :: r, x => if k = x then adel r x else (k, v) :: adel r x

def aset {β : Type} (l : List (Nat × β)) (x : Nat) (v : β) : List (Nat × β) := (x, v) :: adel l x

def sdel : List Nat → Nat → List Nat
  | [], _ => []
  | k :: r, x => if k = x then sdel r x else k :: sdel r x

def sadd (l : List Nat) (x : Nat) : List Nat := x :: sdel l x

/-! ### primitive effects -/

inductive Eff
  | mint                                   -- subGenCounter.Add(1)
  | chanSet (ch : Chan) (e : Entry)        -- c.channels[ch] = e
  | chanDel (ch : Chan)                    -- delete(c.channels, ch)
  | hubSet (ch : Chan) (g : Gen)           -- subShard.addSub (overwrite; gauge Inc iff no entry before)
  | hubDelIf (ch : Chan) (g : Gen)         -- subShard.removeSub gen-matched (gauge Dec iff removed)
  | presAdd (ch : Chan) | presDel (ch : Chan)
  | closeGate (g : Gen)                    -- close(subscribingCh); closing twice panics
  | log (e : Ev)
  | markClosed (t : Tid)                   -- close(): connectMu held, status = closed
  | unregister                             -- node.removeClient
  | writerClose
  | unlock                                 -- connectMu released
  | spawnClose                             -- go c.close(...)
  deriving DecidableEq, Repr

def autoClose : Thread := { kind := .close, ch := 0, opts := ⟨false, false⟩, pc := .cEnter, auto := true }

def applyEff (s : State) : Eff → State
  | .mint => { s with genCounter := s.genCounter + 1 }
  | .chanSet ch e => { s with channels := aset s.channels ch e }
  | .chanDel ch => { s with channels := adel s.channels ch }
  | .hubSet ch g =>
      match aget s.hub ch with
      | some _ => { s with hub := aset s.hub ch g }
      | none => { s with hub := aset s.hub ch g, subGauge := s.subGauge + 1 }
  | .hubDelIf ch g =>
      match aget s.hub ch with
      | some g' => if g' = g then { s with hub := adel s.hub ch, subGauge := s.subGauge - 1 } else s
      | none => s
  | .presAdd ch => { s with presence := sadd s.presence ch }
  | .presDel ch => { s with presence := sdel s.presence ch }
  | .closeGate g =>
      if g ∈ s.closedGates then { s with panicked := true } else { s with closedGates := g :: s.closedGates }
  | .log e => { s with log := s.log ++ [e] }
  | .markClosed t => { s with status := .closed, connectMu := some t }
  | .unregister =>
      if s.registered then { s with registered := false, connGauge := s.connGauge - 1 } else s
  | .writerClose => { s with writerClosed := true }
  | .unlock => { s with connectMu := none }
  | .spawnClose => { s with threads := s.threads ++ [(s.nextTid, autoClose)], nextTid := s.nextTid + 1 }

def applyEffs (s : State) (es : List Eff) : State := es.foldl applyEff s

/-! ### thread steps -/

/-- Outcome chosen by the environment for the step: normal, failure of the external call
(`OnSubscribe` error reply, `Broker.Subscribe` error, `AddPresence` error), `OnSubscribe` failing with
a Disconnect, the wait-gate timeout, or the next channel `close()` ranges over. -/
inductive Outcome | ok | fail | failDisc | tmo | pick (ch : Chan)
  deriving DecidableEq, Repr

def gateEff : Option Gen → List Eff
  | some g => [.closeGate g]
  | none => []

/-- where a failed `subscribeCmd` continues: its deferred presence removal, then the caller's
`onSubscribeErrorGen`. -/
def afterCmdFail (t : Thread) : Pc := if t.presAdded then .sDeferPres else .sErrDel

/-- after the hub add (and, for the client path, the second check): presence, then reply / commit -/
def afterChecks (t : Thread) : Pc :=
  if t.opts.presence then .sPresAdd else if t.kind = .csub then .sReply else .sCommit

def afterPres (t : Thread) : Pc := if t.kind = .csub then .sReply else .sCommit

/-- commitSubscription reported "not committed": the client path fails with a Disconnect and runs
the error path, `Client.Subscribe` returns the error -/
def notCommitted (t : Thread) : Thread :=
  { t with failDisc := if t.kind = .csub then true else t.failDisc,
           pc := if t.kind = .csub then afterCmdFail t else .done,
           ret := if t.kind = .csub then t.ret else .err }

/-- where an `unsubscribe` call returns to: command ⇒ reply, server API ⇒ done, inside close ⇒ next channel -/
def unsubRetPc : Kind → Pc
  | .cunsub => .uOut
  | .close => .cLoop
  | _ => .done

def unsubRet (k : Kind) (r : Ret) : Ret :=
  match k with
  | .cunsub => r
  | .close => r
  | _ => .ok

def unsubReturn (t : Thread) : Thread :=
  { t with pc := unsubRetPc t.kind, ret := unsubRet t.kind t.ret }

def afterRemove (c : Entry) : Pc :=
  if c.subscribed && c.presence then .uPresRm
  else if c.joinLeave && c.subscribed then .uLeave
  else .uHubRm

def afterHubRm (t : Thread) (c : Entry) : Thread :=
  { t with pc := if c.subscribed then .uOnUnsub else unsubRetPc t.kind,
           ret := if c.subscribed then t.ret else unsubRet t.kind t.ret }

/-- One step of thread `t` (id `tid`) in state `s` with outcome `o`: the effects on the shared
state and the thread's next record; `none` = the step is not enabled. -/
def stepThread (s : State) (tid : Tid) (t : Thread) (o : Outcome) : Option (List Eff × Thread) :=
  match t.pc, o with
  -- validateSubscribeRequest (client) / reservation block of Client.Subscribe (server side)
  | .sReserve, .ok =>
      if t.kind = .ssub ∧ s.status = .closed then some ([], { t with pc := .done, ret := .ok })
      else match aget s.channels t.ch with
        | some _ => some ([], { t with pc := .done, ret := .err })
        | none =>
            let g := s.genCounter + 1
            some ([.mint, .chanSet t.ch (Entry.reservation g)],
                  { t with resGen := g, pc := if t.kind = .csub then .sOnSub else .sReadGen })
  -- OnSubscribe handler returned
  | .sOnSub, .ok => some ([], { t with pc := .sReadGen })
  | .sOnSub, .fail => some ([], { t with failDisc := false, pc := .sErrDel })
  | .sOnSub, .failDisc => some ([], { t with failDisc := true, pc := .sErrDel })
  -- subscribeCmd: `subGen := c.channels[channel].subGen`, minted when 0
  | .sReadGen, .ok =>
      let nxt : Pc := if t.kind = .csub then .sCheck1 else .sHubAdd
      match aget s.channels t.ch with
      | some e =>
          if e.gen ≠ 0 then some ([], { t with cmdGen := e.gen, pc := nxt })
          else
            let g := s.genCounter + 1
            some ([.mint, .chanSet t.ch { e with gen := g }], { t with cmdGen := g, pc := nxt })
      | none => some ([.mint], { t with cmdGen := s.genCounter + 1, pc := nxt })
  | .sCheck1, .ok =>
      if (aget s.channels t.ch).isNone ∨ s.status = .closed then
        some ([], { t with failDisc := true, pc := afterCmdFail t })
      else some ([], { t with pc := .sHubAdd })
  -- node.addSubscription: hub.addSub, and Broker.Subscribe when first (its failure removes the entry again)
  | .sHubAdd, .ok =>
      some ([.hubSet t.ch t.cmdGen], { t with pc := if t.kind = .csub then .sCheck2 else afterChecks t })
  | .sHubAdd, .fail =>
      if (aget s.hub t.ch).isSome then none
      else some ([.hubSet t.ch t.cmdGen, .hubDelIf t.ch t.cmdGen], { t with failDisc := true, pc := afterCmdFail t })
  | .sCheck2, .ok =>
      if (aget s.channels t.ch).isNone ∨ s.status = .closed then
        some ([], { t with failDisc := true, pc := afterCmdFail t })
      else some ([], { t with pc := afterChecks t })
  | .sPresAdd, .ok => some ([.presAdd t.ch], { t with presAdded := true, pc := afterPres t })
  | .sPresAdd, .fail => some ([], { t with presAdded := true, failDisc := true, pc := .sDeferPres })
  | .sReply, .ok => some ([.log (.replyOk tid)], { t with pc := .sCommit })
  -- commitSubscription, the c.mu section
  | .sCommit, .ok =>
      match aget s.channels t.ch with
      | some e =>
          if e.gen = t.cmdGen then
            if s.status = .closed then
              some ([.chanDel t.ch], { t with capGate := e.gate, pc := .sRbHub })
            else
              some ([.log (.commit t.ch t.cmdGen),
                     .chanSet t.ch { gen := t.cmdGen, subscribed := true, presence := t.opts.presence,
                                     joinLeave := t.opts.joinLeave, serverSide := t.kind = .ssub, gate := none }],
                    { t with capGate := e.gate, pc := .sCloseGate })
          else some ([], { t with capGate := none, pc := .sRbHub })
      | none => some ([], { t with capGate := none, pc := .sRbHub })
  -- commitSubscription rollback (closed client or reservation lost)
  | .sRbHub, .ok => some ([.hubDelIf t.ch t.cmdGen], { t with pc := if t.opts.presence then .sRbPres else .sRbClose })
  | .sRbPres, .ok => some ([.presDel t.ch], { t with pc := .sRbClose })
  | .sRbClose, .ok => some (gateEff t.capGate, notCommitted { t with capGate := none })
  -- close(subscribingCh) after a successful commit
  | .sCloseGate, .ok =>
      some (gateEff t.capGate,
        { t with capGate := none,
                 pc := if t.kind = .csub then (if t.opts.joinLeave then .sJoin else .done) else .sDpf,
                 ret := if t.kind = .csub ∧ ¬ t.opts.joinLeave then .ok else t.ret })
  | .sDpf, .ok => some ([], { t with pc := .sPush })
  -- Client.Subscribe writes the subscribe push; enqueue fails once the writer is closed
  | .sPush, .ok =>
      if s.writerClosed then some ([], { t with pc := .done, ret := .err })
      else if t.opts.joinLeave then some ([], { t with pc := .sJoin })
      else some ([], { t with pc := .done, ret := .ok })
  | .sJoin, .ok => some ([.log (.join t.ch t.cmdGen)], { t with pc := .done, ret := .ok })
  -- subscribeCmd's deferred presence removal on failure
  | .sDeferPres, .ok => some ([.presDel t.ch], { t with pc := .sErrDel })
  -- onSubscribeErrorGen
  | .sErrDel, .ok =>
      match aget s.channels t.ch with
      | some e =>
          if e.gen = t.resGen then some ([.chanDel t.ch], { t with capGate := e.gate, pc := .sErrHub })
          else some ([], { t with capGate := none, pc := .sErrHub })
      | none => some ([], { t with capGate := none, pc := .sErrHub })
  | .sErrHub, .ok => some ([.hubDelIf t.ch t.resGen], { t with pc := .sErrClose })
  | .sErrClose, .ok =>
      if t.kind = .csub then
        if t.failDisc then some (gateEff t.capGate ++ [.spawnClose], { t with capGate := none, pc := .done, ret := .err })
        else some (gateEff t.capGate, { t with capGate := none, pc := .sErrOut })
      else some (gateEff t.capGate, { t with capGate := none, pc := .done, ret := .err })
  | .sErrOut, .ok => some ([.log (.replyErr tid)], { t with pc := .done, ret := .err })
  -- Client.Unsubscribe status check
  | .uStatus, .ok =>
      if s.status = .closed then some ([], { t with pc := .done, ret := .ok })
      else some ([], { t with pc := .uSnap })
  -- unsubscribe: snapshot under RLock
  | .uSnap, .ok =>
      match aget s.channels t.ch with
      | none => some ([], unsubReturn t)
      | some e =>
          let t' := { t with target := e.gen, ctx := some e, capGate := e.gate }
          if !e.serverSide && !e.subscribed && e.gate.isSome then some ([], { t' with pc := .uWait })
          else some ([], { t' with pc := .uRemove })
  -- the wait gate: woken by close(subscribingCh) …
  | .uWait, .ok =>
      match t.capGate with
      | some g =>
          if g ∈ s.closedGates then
            match aget s.channels t.ch with
            | none => some ([], unsubReturn t)
            | some e => some ([], { t with ctx := some e, pc := .uRemove })
          else none
      | none => none
  -- … or by the 5 s timer
  | .uWait, .tmo =>
      match aget s.channels t.ch with
      | some e =>
          match e.gate with
          | some g => some ([.closeGate g, .chanSet t.ch { e with gate := none }, .spawnClose], { t with pc := .uTmoLog })
          | none => some ([.spawnClose], { t with pc := .uTmoLog })
      | none => some ([.spawnClose], { t with pc := .uTmoLog })
  | .uTmoLog, .ok => some ([], unsubReturn t)
  -- unsubscribe: generation-matched delete under c.mu
  | .uRemove, .ok =>
      match t.ctx with
      | none => none
      | some c =>
        match aget s.channels t.ch with
        | some e =>
            if e.gen = t.target then
              some (gateEff e.gate ++ [.chanDel t.ch], { t with pc := afterRemove c })
            else some ([], unsubReturn t)
        | none => some ([], unsubReturn t)
  | .uPresRm, .ok =>
      match t.ctx with
      | none => none
      | some c => some ([.presDel t.ch], { t with pc := if c.joinLeave && c.subscribed then .uLeave else .uHubRm })
  | .uLeave, .ok =>
      match t.ctx with
      | none => none
      | some c => some ([.log (.leave t.ch c.gen)], { t with pc := .uHubRm })
  | .uHubRm, .ok =>
      match t.ctx with
      | none => none
      | some c => some ([.hubDelIf t.ch t.target], afterHubRm t c)
  | .uOnUnsub, .ok => some ([.log (.onUnsub t.ch)], unsubReturn t)
  | .uOut, .ok => some ([.log (.replyOk tid)], { t with pc := .done, ret := .ok })
  -- close()
  | .cEnter, .ok =>
      if s.connectMu.isSome then none
      else if s.status = .closed then some ([], { t with pc := .done, ret := .ok })
      else some ([.markClosed tid],
                 { t with prevConnected := s.status = .connected, pending := s.channels.map (·.1), pc := .cRemoveClient })
  | .cRemoveClient, .ok => some ([.unregister], { t with pc := .cDpf })
  | .cDpf, .ok => some ([], { t with pc := .cWriter })
  | .cWriter, .ok => some ([.writerClose], { t with pc := .cTClose })
  | .cTClose, .ok => some ([], { t with pc := .cLoop })
  | .cLoop, .pick ch =>
      if ch ∈ t.pending then
        some ([], { t with pending := sdel t.pending ch, ch := ch, pc := .uSnap, ctx := none, target := 0, capGate := none })
      else none
  | .cLoop, .ok =>
      if t.pending.isEmpty then some ([], { t with pc := if t.prevConnected then .cOnDisc else .cExit }) else none
  | .cOnDisc, .ok => some ([.log .onDisconnect], { t with pc := .cExit })
  | .cExit, .ok => some ([.unlock], { t with pc := .done, ret := .ok })
  | _, _ => none

/-! ### labels and the transition function -/

inductive Label
  | spawn (k : Kind) (ch : Chan) (o : Opts)
  | step (t : Tid) (o : Outcome)
  deriving DecidableEq, Repr

def initPc : Kind → Pc
  | .csub => .sReserve | .ssub => .sReserve | .cunsub => .uSnap | .sunsub => .uStatus | .close => .cEnter

def setThread (ts : List (Tid × Thread)) (tid : Tid) (t : Thread) : List (Tid × Thread) :=
  ts.map fun p => if p.1 = tid then (tid, t) else p

def next (s : State) : Label → Option State
  | .spawn k ch o =>
      some { s with threads := s.threads ++ [(s.nextTid, { kind := k, ch := ch, opts := o, pc := initPc k })],
                    nextTid := s.nextTid + 1 }
  | .step tid o =>
      match aget s.threads tid with
      | none => none
      | some t =>
          match stepThread s tid t o with
          | none => none
          | some (effs, t') => some (applyEffs { s with threads := setThread s.threads tid t' } effs)

def run (s : State) : List Label → Option State
  | [] => some s
  | l :: ls => match next s l with
    | none => none
    | some s' => run s' ls

def Reachable (s : State) : Prop := ∃ ls, run State.init ls = some s

/-- Every operation has returned. -/
def State.settled (s : State) : Prop := ∀ p ∈ s.threads, p.2.pc = .done

instance (s : State) : Decidable s.settled := by unfold State.settled; exact inferInstance

end CentrifugeVerif.SubProto
