import CentrifugeVerif.Model.RedisPushPiece
import CentrifugeVerif.Gen.RedisPushFmt
/-!
# Model of the Redis PUB/SUB payload framing (C33)

Go side, mirrored line by line (`/repo/broker_redis.go`, including the bounds checks of commits
e8dc9ebe "fix: decoding a malformed Redis PUB/SUB payload no longer panics" and efc5e395
"fix: overflow-free length guard in parseDeltaPush"):
* `extractPushData(data []byte)`  →  `extractPushData`
* `parseDeltaPush(input string)`   →  `parseDeltaPush` (= `deltaHead` then `deltaBody`)
* `strconv.ParseUint(s, 10, 64)`   →  `parseUint`,  `strconv.Atoi` → `atoi`

Go slice expressions whose bounds come from *declared* lengths (`input[:prevPayloadLength]`,
`input[prevPayloadLength+1:]`, `input[:payloadLength]`, `stringHeader[3:]`) are modelled with
`sliceTo` / `sliceFrom`, which yield the explicit outcome `Outcome.panic` when Go would raise a
slice-bounds run-time panic — that the guards in front of them exclude this outcome is a theorem
(`Props/C33.lean: extract_total`), not a modelling decision.  Slices whose bounds come from a
preceding `IndexByte`/`Index` (`input[:idx]`, `input[idx+1:]`, `data[2+pos+2:]`) are always in
range and are modelled by `take`/`drop`.

The functions with suffix `Pre` are the code as it was *before* those commits (no guards); they are
kept to state exactly which inputs used to panic and that the fix changed nothing else.

Lua side: the framing expressions are the generated piece lists of `Gen/RedisPushFmt.lean`,
rendered by `render`.  Lua 5.1 converts numbers with `"%.14g"`; `luaNum` models that conversion
only on the domain where it is plain decimal (`n < 10^14`) and is `none` outside.
Core Lean only.
-/
namespace CentrifugeVerif.RedisPush

/-- result of a Go computation that may raise a run-time panic -/
inductive Outcome (α : Type) where
  | val : α → Outcome α
  | panic : Outcome α
deriving DecidableEq, Repr

def Outcome.bind {α β : Type} (x : Outcome α) (f : α → Outcome β) : Outcome β :=
  match x with
  | .val a => f a
  | .panic => .panic

def Outcome.isPanic {α : Type} : Outcome α → Bool
  | .panic => true
  | .val _ => false

/-- Go `s[:b]` (b is a Go `int`). -/
def sliceTo (s : Bytes) (b : Int) : Outcome Bytes :=
  if 0 ≤ b ∧ b ≤ (s.length : Int) then .val (s.take b.toNat) else .panic

/-- Go `s[a:]`. -/
def sliceFrom (s : Bytes) (a : Int) : Outcome Bytes :=
  if 0 ≤ a ∧ a ≤ (s.length : Int) then .val (s.drop a.toNat) else .panic

/-- `bytes.IndexByte` (`none` = -1). -/
def indexByte (c : UInt8) : Bytes → Option Nat
  | [] => none
  | b :: bs => if b = c then some 0 else (indexByte c bs).map (· + 1)

/-- `bytes.Index(s, "__")` (`none` = -1). -/
def indexSep : Bytes → Option Nat
  | [] => none
  | a :: tl =>
    match tl with
    | [] => none
    | b :: _ => if a = 95 ∧ b = 95 then some 0 else (indexSep tl).map (· + 1)

/-- `input[:idx]`, `input[idx+1:]` for `idx = IndexByte(input, ':')`. -/
def splitColon (s : Bytes) : Option (Bytes × Bytes) :=
  match indexByte 58 s with
  | none => none
  | some i => some (s.take i, s.drop (i + 1))

def isDigit (c : UInt8) : Bool := 48 ≤ c.toNat && c.toNat ≤ 57

inductive UintRes where
  | ok (n : Nat)
  | syntaxErr
  | rangeErr
deriving DecidableEq, Repr

/-- loop of `strconv.ParseUint(s, 10, 64)`: the first offending byte decides (non-digit → syntax
error, value leaving 64 bits → range error). -/
def parseUintGo : Bytes → Nat → UintRes
  | [], acc => .ok acc
  | c :: cs, acc =>
    if !isDigit c then .syntaxErr
    else
      let acc' := acc * 10 + (c.toNat - 48)
      if acc' ≥ 2 ^ 64 then .rangeErr else parseUintGo cs acc'

def parseUint (s : Bytes) : UintRes :=
  if s.isEmpty then .syntaxErr else parseUintGo s 0

/-- value returned by `ParseUint` next to the error (0 / MaxUint64) -/
def UintRes.value : UintRes → Nat
  | .ok n => n
  | .syntaxErr => 0
  | .rangeErr => 2 ^ 64 - 1

def UintRes.isOk : UintRes → Bool
  | .ok _ => true
  | _ => false

/-- all-digits value, `none` on any non-digit -/
def digitsVal : Bytes → Nat → Option Nat
  | [], acc => some acc
  | c :: cs, acc => if isDigit c then digitsVal cs (acc * 10 + (c.toNat - 48)) else none

/-- `strconv.Atoi` on a 64-bit platform: optional sign, ≥ 1 digit, value within int64; every
error is `none` (the callers only test `err != nil`). -/
def atoi (s : Bytes) : Option Int :=
  match s with
  | [] => none
  | c :: rest =>
    let neg := c == 45
    let ds := if c = 45 ∨ c = 43 then rest else s
    if ds.isEmpty then none
    else
      match digitsVal ds 0 with
      | none => none
      | some v =>
        if neg then (if v ≤ 2 ^ 63 then some (-(v : Int)) else none)
        else (if v < 2 ^ 63 then some (v : Int) else none)

/-! ## parseDeltaPush -/

inductive DErr where
  | noPrefix | missingOffset | badOffset | missingEpoch | missingPrevLen | badPrevLen | shortPrev
  | missingPayload | badPayloadLen | shortPayload
deriving DecidableEq, Repr

structure DeltaPush where
  offset : Nat
  epoch : Bytes
  prevLen : Int
  prev : Bytes
  payloadLen : Int
  payload : Bytes
deriving DecidableEq, Repr

/-- state after the header `d1:offset:epoch:prev_payload_length:` was consumed -/
structure DeltaHead where
  offset : Nat
  epoch : Bytes
  prevLen : Int
  rest : Bytes
deriving DecidableEq, Repr

def d1Prefix : Bytes := [100, 49, 58]

/-- first half of `parseDeltaPush` (up to and including `input = input[idx+1:]` after the
prev-payload length): only index-derived slices, cannot panic. -/
def deltaHead (input : Bytes) : Except DErr DeltaHead :=
  if input.take 3 ≠ d1Prefix then .error .noPrefix
  else
    let input := input.drop 3
    match splitColon input with
    | none => .error .missingOffset
    | some (offS, input) =>
      match parseUint offS with
      | .syntaxErr => .error .badOffset
      | .rangeErr => .error .badOffset
      | .ok offset =>
        match splitColon input with
        | none => .error .missingEpoch
        | some (epoch, input) =>
          match splitColon input with
          | none => .error .missingPrevLen
          | some (plS, input) =>
            match atoi plS with
            | none => .error .badPrevLen
            | some pl => .ok { offset := offset, epoch := epoch, prevLen := pl, rest := input }

/-- pre-fix `payload_length:payload` part (no `l < 0` guard) -/
def deltaTailPre (h : DeltaHead) (prev input : Bytes) : Outcome (Except DErr DeltaPush) :=
  match splitColon input with
  | none => .val (.error .missingPayload)
  | some (lS, input) =>
    match atoi lS with
    | none => .val (.error .badPayloadLen)
    | some l =>
      if (input.length : Int) < l then .val (.error .shortPayload)
      else
        (sliceTo input l).bind fun payload =>
        .val (.ok { offset := h.offset, epoch := h.epoch, prevLen := h.prevLen, prev := prev,
                    payloadLen := l, payload := payload })

/-- pre-fix second half of `parseDeltaPush`: the slices by declared lengths (may panic). -/
def deltaBodyPre (h : DeltaHead) : Outcome (Except DErr DeltaPush) :=
  if (h.rest.length : Int) < h.prevLen then .val (.error .shortPrev)
  else
    (sliceTo h.rest h.prevLen).bind fun prev =>          -- prevPayload := input[:prevPayloadLength]
    (sliceFrom h.rest (h.prevLen + 1)).bind fun input => -- input = input[prevPayloadLength+1:]
    deltaTailPre h prev input

def parseDeltaPushPre (input : Bytes) : Outcome (Except DErr DeltaPush) :=
  match deltaHead input with
  | .error e => .val (.error e)
  | .ok h => deltaBodyPre h

/-! ## extractPushData -/

structure Push where
  data : Bytes
  typ : Nat          -- 0 pub, 1 join, 2 leave
  epoch : Bytes
  offset : Nat
  delta : Bool
  prev : Bytes
  ok : Bool
deriving DecidableEq, Repr

def failWith (d : Bytes) : Push :=
  { data := d, typ := 0, epoch := [], offset := 0, delta := false, prev := [], ok := false }

/-- cases `'j'` / `'l'` -/
def extractJoinLeave (data content : Bytes) (typ : Nat) : Outcome Push :=
  match indexSep content with
  | none => .val (failWith data)
  | some 0 => .val (failWith data)
  | some pos =>
    .val { data := content.drop (pos + 2), typ := typ, epoch := [], offset := 0, delta := false,
           prev := [], ok := true }

/-- pre-fix case `'p'` (no header-length guard) -/
def extractPositionedPre (data content : Bytes) : Outcome Push :=
  match indexSep content with
  | none => .val (failWith data)
  | some 0 => .val (failWith data)
  | some pos =>
    let header := content.take pos
    let rest := content.drop (pos + 2)
    (sliceFrom header 3).bind fun sh =>                  -- stringHeader = stringHeader[3:]
    match indexByte 58 sh with
    | none => .val (failWith rest)
    | some 0 => .val (failWith rest)
    | some p =>
      let r := parseUint (sh.take p)
      .val { data := rest, typ := 0, epoch := sh.drop (p + 1), offset := r.value, delta := false,
             prev := [], ok := r.isOk }

/-- case `'d'` -/
def extractDeltaPre (content : Bytes) : Outcome Push :=
  (parseDeltaPushPre content).bind fun r =>
  match r with
  | .error _ => .val (failWith [])
  | .ok d => .val { data := d.payload, typ := 0, epoch := d.epoch, offset := d.offset, delta := true,
                    prev := d.prev, ok := true }

def extractPushDataPre (data : Bytes) : Outcome Push :=
  if data.take 2 ≠ [95, 95] then
    .val { data := data, typ := 0, epoch := [], offset := 0, delta := false, prev := [], ok := true }
  else
    let content := data.drop 2
    match content with
    | [] => .val (failWith data)
    | ct :: _ =>
      if ct = 106 then extractJoinLeave data content 1        -- 'j'
      else if ct = 108 then extractJoinLeave data content 2   -- 'l'
      else if ct = 112 then extractPositionedPre data content    -- 'p'
      else if ct = 100 then extractDeltaPre content              -- 'd'
      else .val (failWith [])

/-! ## Which inputs made the pre-fix code panic (independent classifier; findings C33-1…4, fixed) -/

inductive PanicKind where
  | pHeaderShort          -- "__p" followed by the next "__" after fewer than 3 header bytes
  | prevLenNegative       -- declared prev-payload length < 0
  | prevLenEqRemaining    -- declared prev-payload length = number of remaining bytes (no separator)
  | payloadLenNegative    -- declared payload length < 0
deriving DecidableEq, Repr

def bodyPanicClass (h : DeltaHead) : Option PanicKind :=
  if h.prevLen < 0 then some .prevLenNegative
  else if h.prevLen = (h.rest.length : Int) then some .prevLenEqRemaining
  else if (h.rest.length : Int) < h.prevLen then none
  else
    match splitColon (h.rest.drop (h.prevLen.toNat + 1)) with
    | none => none
    | some (lS, _) =>
      match atoi lS with
      | none => none
      | some l => if l < 0 then some .payloadLenNegative else none

def deltaPanicClass (content : Bytes) : Option PanicKind :=
  match deltaHead content with
  | .error _ => none
  | .ok h => bodyPanicClass h

def panicClass (data : Bytes) : Option PanicKind :=
  if data.take 2 ≠ [95, 95] then none
  else
    match data.drop 2 with
    | [] => none
    | ct :: tl =>
      if ct = 112 then
        match indexSep (ct :: tl) with
        | some 1 => some .pHeaderShort
        | some 2 => some .pHeaderShort
        | _ => none
      else if ct = 100 then deltaPanicClass (ct :: tl)
      else none

/-! ## The current code (with the bounds checks of e8dc9ebe and efc5e395) -/

def deltaTail (h : DeltaHead) (prev input : Bytes) : Outcome (Except DErr DeltaPush) :=
  match splitColon input with
  | none => .val (.error .missingPayload)
  | some (lS, input) =>
    match atoi lS with
    | none => .val (.error .badPayloadLen)
    | some l =>
      -- `if payloadLength < 0 || len(input) < payloadLength { return error }`
      if l < 0 ∨ (input.length : Int) < l then .val (.error .shortPayload)
      else
        (sliceTo input l).bind fun payload =>
        .val (.ok { offset := h.offset, epoch := h.epoch, prevLen := h.prevLen, prev := prev,
                    payloadLen := l, payload := payload })

def deltaBody (h : DeltaHead) : Outcome (Except DErr DeltaPush) :=
  -- `if prevPayloadLength < 0 || len(input) <= prevPayloadLength { return error }`  (efc5e395)
  if h.prevLen < 0 ∨ (h.rest.length : Int) ≤ h.prevLen then .val (.error .shortPrev)
  else
    (sliceTo h.rest h.prevLen).bind fun prev =>          -- prevPayload := input[:prevPayloadLength]
    -- input = input[prevPayloadLength+1:]; behind the guard prevPayloadLength < len(input) ≤ MaxInt64,
    -- so Go's `int` addition cannot wrap here
    (sliceFrom h.rest (h.prevLen + 1)).bind fun input =>
    deltaTail h prev input

def parseDeltaPush (input : Bytes) : Outcome (Except DErr DeltaPush) :=
  match deltaHead input with
  | .error e => .val (.error e)
  | .ok h => deltaBody h

def extractPositioned (data content : Bytes) : Outcome Push :=
  match indexSep content with
  | none => .val (failWith data)
  | some 0 => .val (failWith data)
  | some pos =>
    let header := content.take pos
    let rest := content.drop (pos + 2)
    if header.length < 3 then .val (failWith rest)         -- `if len(stringHeader) < 3 { return rest, …, false }`
    else
    (sliceFrom header 3).bind fun sh =>
    match indexByte 58 sh with
    | none => .val (failWith rest)
    | some 0 => .val (failWith rest)
    | some p =>
      let r := parseUint (sh.take p)
      .val { data := rest, typ := 0, epoch := sh.drop (p + 1), offset := r.value, delta := false,
             prev := [], ok := r.isOk }

def extractDelta (content : Bytes) : Outcome Push :=
  (parseDeltaPush content).bind fun r =>
  match r with
  | .error _ => .val (failWith [])
  | .ok d => .val { data := d.payload, typ := 0, epoch := d.epoch, offset := d.offset, delta := true,
                    prev := d.prev, ok := true }

def extractPushData (data : Bytes) : Outcome Push :=
  if data.take 2 ≠ [95, 95] then
    .val { data := data, typ := 0, epoch := [], offset := 0, delta := false, prev := [], ok := true }
  else
    let content := data.drop 2
    match content with
    | [] => .val (failWith data)
    | ct :: _ =>
      if ct = 106 then extractJoinLeave data content 1
      else if ct = 108 then extractJoinLeave data content 2
      else if ct = 112 then extractPositioned data content
      else if ct = 100 then extractDelta content
      else .val (failWith [])

/-! ## Builders (Lua side) -/

def digitByte (d : Nat) : UInt8 := UInt8.ofNat (48 + d)

/-- decimal rendering with fuel (structural; 20 digits cover every `n < 10^20`) -/
def decimalF : Nat → Nat → Bytes
  | 0, _ => []
  | f + 1, n => if n < 10 then [digitByte n] else decimalF f (n / 10) ++ [digitByte (n % 10)]

def decimal (n : Nat) : Bytes := decimalF 20 n

/-- Lua 5.1 number → string (`"%.14g"`), modelled on the plain-decimal domain only. -/
def luaNum (n : Nat) : Option Bytes := if n < 10 ^ 14 then some (decimal n) else none

structure Env where
  offset : Nat
  epoch : Bytes
  prev : Bytes
  payload : Bytes

def renderPiece (e : Env) : Piece → Option Bytes
  | .lit bs => some bs
  | .offset => luaNum e.offset
  | .epoch => some e.epoch
  | .prevLen => luaNum e.prev.length
  | .prev => some e.prev
  | .payloadLen => luaNum e.payload.length
  | .payload => some e.payload

/-- evaluate a Lua `..` chain -/
def render (e : Env) : List Piece → Option Bytes
  | [] => some []
  | p :: ps =>
    match renderPiece e p, render e ps with
    | some a, some b => some (a ++ b)
    | _, _ => none

open CentrifugeVerif.Gen.RedisPushFmt in
/-- Go: `append(joinTypePrefix, byteMessage...)` -/
def buildJoin (payload : Bytes) : Bytes := joinPrefix ++ payload
open CentrifugeVerif.Gen.RedisPushFmt in
def buildLeave (payload : Bytes) : Bytes := leavePrefix ++ payload

end CentrifugeVerif.RedisPush
