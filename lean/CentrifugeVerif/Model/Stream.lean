/-
Model of `internal/memstream/stream.go` (`memstream.Stream`).  Core Lean only; reusable.

Go facts mirrored here:
* a stream has a `top` offset (0 for a fresh stream), a doubly linked list of `Item{Offset, Value}`
  (oldest at the front), an `index` map offset → list element, an `epoch` string generated at
  creation and a `version` pair `(Version, Epoch)`;
* `Add(v, size, version, versionEpoch)` increments `top`, pushes `Item{top, v}` at the back, drops
  elements from the front while the list is longer than `size`, and sets the version pair to the
  arguments **when `version > 0`**; an unversioned publish (`version == 0`) keeps the pair the
  stream already holds (since /repo commit a5ec69f4; before that it was overwritten with `0, ""`);
* `Clear` empties list and index and keeps `top`, `epoch` and the version pair;
  `Reset` additionally sets `top = 0` and takes a new epoch;
* `Get(offset, useOffset, limit, reverse)`:
  - `useOffset && offset >= top+1` ⇒ nothing;
  - the start element is `index[offset]` when `useOffset`; on an index miss it is the front for a
    forward read and *nil* for a reverse read; without `useOffset` it is the front (forward) or
    the back (reverse);
  - nil start element or `limit == 0` ⇒ nothing; otherwise the start element and then the
    following (`Next`) / preceding (`Prev`) ones, at most `limit` in total when `limit > 0`, all
    of them when `limit < 0`.

Not modelled: `uint64` wrap-around of `top` (a stream would need 2^64 publications); the epoch
string is represented by the index of its generation (`epoch.Generate()` is assumed to return
pairwise distinct non-empty strings); a negative `size` (the broker only calls `Add` with
`HistorySize > 0`; `size = 0` drops everything, as in Go).
-/
namespace CentrifugeVerif.MemStream

/-- `memstream.Item` -/
structure Item (α : Type) where
  offset : Nat
  value : α
deriving Repr, DecidableEq

/-- `memstream.Stream`; `items` is the linked list, oldest first.  The `index` map is the
(functional) relation "first element carrying that offset". -/
structure MStream (α : Type) where
  top : Nat := 0
  items : List (Item α) := []
  epoch : Nat
  topVersion : Nat := 0
  topVersionEpoch : String := ""
deriving Repr, DecidableEq

variable {α : Type}

/-- `memstream.New()` with the generated epoch passed in. -/
def MStream.new (epoch : Nat) : MStream α := { epoch := epoch }

/-- `Stream.Add`; returns the new stream and the assigned offset. -/
def MStream.add (s : MStream α) (v : α) (size : Nat) (version : Nat) (versionEpoch : String) :
    MStream α × Nat :=
  let top := s.top + 1
  let l := s.items ++ [{ offset := top, value := v }]
  ({ s with top := top, items := l.drop (l.length - size),
            topVersion := if version > 0 then version else s.topVersion,
            topVersionEpoch := if version > 0 then versionEpoch else s.topVersionEpoch }, top)

/-- `Stream.Clear` -/
def MStream.clear (s : MStream α) : MStream α := { s with items := [] }

/-- `Stream.Reset` with the newly generated epoch passed in. -/
def MStream.reset (s : MStream α) (epoch : Nat) : MStream α :=
  { s with top := 0, epoch := epoch, items := [] }

/-- `index[o]` hit followed by the `Next()` walk: the suffix starting at the element with offset `o`. -/
def fromOffset (o : Nat) : List (Item α) → Option (List (Item α))
  | [] => none
  | x :: xs => if x.offset = o then some (x :: xs) else fromOffset o xs

/-- `index[o]` hit followed by the `Prev()` walk: the element with offset `o` and then the ones
before it, newest first (`acc` = already passed elements, newest first). -/
def uptoOffsetRev (o : Nat) (acc : List (Item α)) : List (Item α) → Option (List (Item α))
  | [] => none
  | x :: xs => if x.offset = o then some (x :: acc) else uptoOffsetRev o (x :: acc) xs

/-- The copy loop: the start element is always taken, then further ones until `limit` entries
were taken (`limit > 0`) or the list ends; everything for `limit < 0`.  (`limit = 0` never
reaches the loop; `take 0` agrees with the early return.) -/
def takeLim {β : Type} (limit : Int) (l : List β) : List β :=
  if limit < 0 then l else l.take limit.toNat

/-- `Stream.Get` (the returned `top` is `s.top`, unchanged). -/
def MStream.get (s : MStream α) (offset : Nat) (useOffset : Bool) (limit : Int) (reverse : Bool) :
    List (Item α) :=
  if useOffset && decide (offset ≥ s.top + 1) then [] else
  -- `walk` = the start element and everything reachable from it in the walk direction
  -- (`none` = the start element is nil)
  let walk : Option (List (Item α)) :=
    if useOffset then
      if reverse then uptoOffsetRev offset [] s.items
      else
        match fromOffset offset s.items with
        | some w => some w
        | none => if s.items.isEmpty then none else some s.items
    else if s.items.isEmpty then none
    else some (if reverse then s.items.reverse else s.items)
  match walk with
  | none => []
  | some w => if limit = 0 then [] else takeLim limit w

/-- The retained offsets are exactly the contiguous interval `(top − len, top]`. -/
def MStream.Inv (s : MStream α) : Prop :=
  s.items.map (·.offset) = List.range' (s.top - s.items.length + 1) s.items.length
    ∧ s.items.length ≤ s.top

instance (s : MStream α) : Decidable s.Inv := by unfold MStream.Inv; exact inferInstance

/-- What `Get` is supposed to return, as a filter of the retained items. -/
def MStream.getSpec (s : MStream α) (offset : Nat) (useOffset : Bool) (limit : Int) (reverse : Bool) :
    List (Item α) :=
  match useOffset, reverse with
  | false, false => takeLim limit s.items
  | false, true => takeLim limit s.items.reverse
  | true, false => takeLim limit (s.items.filter (fun it => offset ≤ it.offset))
  | true, true =>
    if offset > s.top then [] else takeLim limit (s.items.filter (fun it => it.offset ≤ offset)).reverse

/-- `StreamPosition`.  Epoch `0` stands for the empty epoch string (the zero `StreamPosition`);
generated epochs are numbered from 1. -/
structure Pos where
  offset : Nat := 0
  epoch : Nat := 0
deriving Repr, DecidableEq, Inhabited

/-- `HistoryFilter` (`since = none` is a nil `Since`; `limit < 0` is `NoLimit`). -/
structure Filter where
  since : Option Pos := none
  limit : Int := 0
  reverse : Bool := false
deriving Repr, DecidableEq, Inhabited

/-- 2^64, for the places where Go's `uint64` arithmetic wraps observably. -/
def u64 : Nat := 18446744073709551616

end CentrifugeVerif.MemStream
