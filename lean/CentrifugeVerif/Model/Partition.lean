import CentrifugeVerif.Spec.RedisSlot
/-!
# Model of `internal/redispartition/partitions.go` (C35)

* `slotToNode` — `SlotToNode(slot, numNodes)` line by line (Go `int` arithmetic; `numNodes = 0`
  divides by zero in Go and is outside the property: cluster sizes are ≥ 1).
* `partCrc16` / `tagSlot` — the package's own bitwise CRC16 and `TagSlot` (on `uint16`).
* `slotsOf tags` — the slot **Redis** computes for a key that carries the tag as its hash tag
  (`{tag}`), via `Spec.RedisSlot` — not via the package's code.
* `checkK` / `checkRange` — the executable balance checker (one pass over the slot list per
  cluster size); `strictlyIncreasing` — the executable distinctness check.
Core Lean only.
-/
namespace CentrifugeVerif.Partition
open CentrifugeVerif.Spec

abbrev Bytes := List UInt8

def totalSlots : Nat := 16384

/-- `SlotToNode(slot, numNodes)` -/
def slotToNode (slot numNodes : Nat) : Nat :=
  let sn := totalSlots / numNodes
  let r := totalSlots % numNodes
  let b := r * (sn + 1)
  if slot < b then slot / (sn + 1) else r + (slot - b) / sn

/-- the package's `crc16` (uint16 register) -/
def partCrcBit (crc : Nat) : Nat :=
  if crc &&& 0x8000 ≠ 0 then ((crc <<< 1) &&& 0xFFFF) ^^^ 0x1021 else (crc <<< 1) &&& 0xFFFF

def partCrcByte (crc : Nat) (b : UInt8) : Nat :=
  let c := crc ^^^ (b.toNat <<< 8)
  partCrcBit (partCrcBit (partCrcBit (partCrcBit (partCrcBit (partCrcBit (partCrcBit (partCrcBit c)))))))

def partCrc16 (data : Bytes) : Nat := data.foldl partCrcByte 0

/-- `TagSlot(tag)` -/
def tagSlot (tag : Bytes) : Nat := partCrc16 tag % totalSlots

/-- the key shape in which the tags are used: `…{tag}…`; the minimal such key -/
def tagKey (tag : Bytes) : Bytes := 123 :: (tag ++ [125])

/-- slots as Redis computes them (specification CRC16 + hash-tag rule) -/
def slotsOf (tags : List Bytes) : List Nat := tags.map fun t => RedisSlot.slot (tagKey t)

/-- a tag usable as Redis hash tag and as `{tag}.channel` PUB/SUB prefix: non-empty, only
`0-9a-z` (so no `{`, `}`, `.`) -/
def tagWF (t : Bytes) : Bool := !t.isEmpty && t.all fun b => (48 ≤ b.toNat && b.toNat ≤ 57) || (97 ≤ b.toNat && b.toNat ≤ 122)

def strictlyIncreasing : List Nat → Bool
  | [] => true
  | a :: tl =>
    match tl with
    | [] => true
    | b :: _ => Nat.blt a b && strictlyIncreasing tl

/-- number of leading elements equal to `v`, and the rest -/
def spanEq (v : Nat) : List Nat → Nat × List Nat
  | [] => (0, [])
  | x :: xs => if x = v then ((spanEq v xs).1 + 1, (spanEq v xs).2) else (0, x :: xs)

/-- the node list must be `lo..hi` copies of `i`, then of `i+1`, … for `fuel` nodes, and then end -/
def walk : List Nat → Nat → Nat → Nat → Nat → Bool
  | l, _, 0, _, _ => l.isEmpty
  | l, i, f + 1, lo, hi =>
    let p := spanEq i l
    Nat.ble lo p.1 && Nat.ble p.1 hi && walk p.2 (i + 1) f lo hi

/-- balance check for cluster size `k`: every node `0..k-1` owns `⌊n/k⌋` or `⌊n/k⌋+1` of the slots -/
def checkK (slots : List Nat) (k : Nat) : Bool :=
  walk (slots.map fun s => slotToNode s k) 0 k (slots.length / k) (slots.length / k + 1)

/-- `checkK` for `k = k0, k0+1, …, k0+cnt-1` -/
def checkRange (slots : List Nat) : Nat → Nat → Bool
  | _, 0 => true
  | k0, cnt + 1 => checkK slots k0 && checkRange slots (k0 + 1) cnt

/-! declarative statement -/

/-- partitions on node `i` in a cluster of `k` nodes -/
def countOn (slots : List Nat) (k i : Nat) : Nat := (slots.map fun s => slotToNode s k).count i

/-- per-node counts differ by at most one -/
def Balanced (slots : List Nat) (k : Nat) : Prop :=
  ∀ i, i < k → ∀ j, j < k → countOn slots k i ≤ countOn slots k j + 1

end CentrifugeVerif.Partition
