/-
Model for C11: (a) what can reach the transport around the connect reply, (b) the life cycle of a
connection's dictionary encoder.  Core Lean only.

Go facts mirrored here:
* client.go `connectCmd`: `SetDictionaryCompression` (encoder parked in `compressionPending`) →
  `addClient` under `c.mu` (from here on the hub routes pushes for the user / its channels to this
  client) → connect-time server-side subscriptions (broker round trips, no lock held) → the connect
  reply is written.  Nothing orders a push that enters through the hub in between with the reply.
* handler_websocket.go `writeData`: if `compression` is set the frame goes through `Encode`;
  otherwise the frame goes out raw and a pending encoder is promoted to `compression`.
* writer.go: the queue writer holds `w.mu` while it calls `WriteFn`; `writer.close` takes `w.mu`
  and marks the writer closed, after which the queue writer writes nothing.
* client.go `writeEncodedCommandReply` with `replyWithoutQueue`: calls `WriteFn` directly, from
  whatever goroutine runs the callback, without `w.mu` (only `writeMu` serialises transport writes).
* client.go `close`: … `messageWriter.close` → `CloseDictionaryCompression` (swap the encoder out,
  call its `Close`) → `transport.Close`.
-/
namespace CentrifugeVerif.ConnProtoEncoder

/-! ## (a) frames around the connect reply -/

inductive Frame where
  | connectReply (encoded : Bool)
  | push (encoded : Bool)
deriving Repr, DecidableEq, Inhabited

structure CSt where
  /-- a dictionary encoder was negotiated (installed as pending before `addClient`) -/
  dict : Bool := false
  inHub : Bool := false
  replyWritten : Bool := false
  /-- `compression` is set: every further frame is encoded -/
  promoted : Bool := false
  frames : List Frame := []
deriving Repr, DecidableEq, Inhabited

inductive CLabel where
  | addClient
  | writeReply
  /-- a push routed through the hub (publication, Node.Subscribe / Unsubscribe / Disconnect push …) -/
  | push
deriving Repr, DecidableEq, Inhabited

/-- `writeData`: encode when promoted, else raw and promote a pending encoder -/
def write (s : CSt) (mk : Bool → Frame) : CSt :=
  if s.promoted then { s with frames := s.frames ++ [mk true] }
  else { s with frames := s.frames ++ [mk false], promoted := s.dict }

def cstep (s : CSt) : CLabel → Option CSt
  | .addClient => if s.inHub then none else some { s with inHub := true }
  | .writeReply =>
    if s.inHub && !s.replyWritten then some { (write s .connectReply) with replyWritten := true } else none
  | .push => if s.inHub then some (write s .push) else none

def crun (s : CSt) : List CLabel → Option CSt
  | [] => some s
  | l :: ls => match cstep s l with
    | some s' => crun s' ls
    | none => none

/-! ## (b) encoder life cycle -/

inductive WPC where
  | idle          -- not writing
  | locked        -- queue writer: holds w.mu, about to call WriteFn
  | loaded        -- direct write: holds writeMu, has loaded the encoder pointer (`compression.Load()`)
  | encoding      -- inside Encode (holds writeMu, and w.mu when it is the queue writer)
deriving Repr, DecidableEq, Inhabited

inductive ClosePC where
  | idle | writerClosed | encoderClosed | done
deriving Repr, DecidableEq, Inhabited

structure ESt where
  rwq : Bool := false
  /-- the queue writer goroutine -/
  qw : WPC := .idle
  /-- a direct (`ReplyWithoutQueue`) write; `writeMu` admits one transport write at a time -/
  dw : WPC := .idle
  writerClosed : Bool := false
  /-- `compression` still holds the encoder -/
  installed : Bool := true
  closer : ClosePC := .idle
  encodes : Nat := 0
  inFlight : Nat := 0
  closes : Nat := 0
  /-- ghost: an `Encode` began after `Close`, or `Close` ran while an `Encode` was in flight -/
  violated : Bool := false
deriving Repr, DecidableEq, Inhabited

inductive ELabel where
  | qLock | qBegin | qEnd
  | dLoad | dBegin | dEnd
  | closeWriter | closeEncoder | closeTransport
deriving Repr, DecidableEq, Inhabited

def writeMuFree (s : ESt) : Bool := s.qw != .encoding && s.dw != .encoding && s.dw != .loaded

def estep (s : ESt) : ELabel → Option ESt
  | .qLock =>        -- take w.mu; a closed writer has nothing to write
    if s.qw = .idle && !s.writerClosed then some { s with qw := .locked } else none
  | .qBegin =>       -- WriteFn: writeMu, load `compression`, Encode begins
    if s.qw = .locked && writeMuFree s && s.installed then
      some { s with qw := .encoding, encodes := s.encodes + 1, inFlight := s.inFlight + 1,
                    violated := s.violated || s.closes > 0 }
    else none
  | .qEnd => if s.qw = .encoding then some { s with qw := .idle, inFlight := s.inFlight - 1 } else none
  | .dLoad =>        -- direct write: only with ReplyWithoutQueue; no w.mu; transport not yet closed;
                     -- `writeData` loads the encoder pointer …
    if s.rwq && s.dw = .idle && writeMuFree s && s.installed && s.closer != .done then
      some { s with dw := .loaded }
    else none
  | .dBegin =>       -- … and calls Encode on what it loaded (the pointer may have been swapped out since)
    if s.dw = .loaded then
      some { s with dw := .encoding, encodes := s.encodes + 1, inFlight := s.inFlight + 1,
                    violated := s.violated || s.closes > 0 }
    else none
  | .dEnd => if s.dw = .encoding then some { s with dw := .idle, inFlight := s.inFlight - 1 } else none
  | .closeWriter =>  -- messageWriter.close: needs w.mu, i.e. the queue writer is not mid-write
    if s.closer = .idle && s.qw = .idle then some { s with closer := .writerClosed, writerClosed := true } else none
  | .closeEncoder => -- CloseDictionaryCompression
    if s.closer = .writerClosed then
      some { s with closer := .encoderClosed, installed := false, closes := s.closes + 1,
                    violated := s.violated || s.inFlight > 0 }
    else none
  | .closeTransport => if s.closer = .encoderClosed then some { s with closer := .done } else none

def erun (s : ESt) : List ELabel → Option ESt
  | [] => some s
  | l :: ls => match estep s l with
    | some s' => erun s' ls
    | none => none

end CentrifugeVerif.ConnProtoEncoder
