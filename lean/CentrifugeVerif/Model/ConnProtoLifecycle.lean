/-
Labelled transition system for the life cycle callbacks of one connection (C08).  Core Lean only.

Go facts mirrored here (client.go unless noted):
* `handleConnect`: `connectCmd` (authenticates, `addClient`, installs the connect-time server-side
  subscriptions) then `triggerConnect`: lock `connectMu`; if `status == connecting` run the
  OnConnect callback (which registers the per-connection handlers) and set `status = connected`;
  unlock.
* `close`: lock `connectMu`; if `status == closed` return; remember `prevStatus`, set
  `status = closed`, snapshot `c.channels`; (transport teardown); lock `presenceMu`; `unsubscribe`
  every snapshot channel; OnDisconnect iff `prevStatus == connected`; unlock both.
  Any number of `close` calls may race; only the one that flips the status does the work.
* `unsubscribe`: under `c.mu` delete the channel if it is still there (`removedNow`); only the
  goroutine that deleted it runs the rest, ending with the OnUnsubscribe callback (if registered).
* `updatePresence` (presence timer): lock `presenceMu`; under `c.mu` return if `status == closed`;
  OnAlive callback (if registered); unlock.
* subscriptions are committed under `c.mu` only while `status != closed`.
* node.go `Shutdown` / hub.go `shutdown`: under the shard's write lock set `shutdownStarted` and
  snapshot the shard's clients; `close` each of them and wait.  `connShard.add` (reached from
  `connectCmd` through `Node.addClient`, under `c.mu`) refuses once `shutdownStarted` is set:
  `connectCmd` then returns `DisconnectShutdown`, the client is not registered, `triggerConnect`
  is not reached and `HandleCommand` spawns `close(DisconnectShutdown)`.

Every label is one lock region or one callback boundary.  There is no bound on the number of
racing close / unsubscribe / tick / subscribe calls: a label sequence may contain any number of them.
-/
namespace CentrifugeVerif.Lifecycle

inductive Status where | connecting | connected | closed
deriving Repr, DecidableEq, Inhabited

inductive Ev where
  | connectStart | connectEnd | aliveStart | aliveEnd | discStart | discEnd
  | unsub (n : Nat)
deriving Repr, DecidableEq, Inhabited

/-- connect thread -/
inductive CPC where
  | idle | ready | inCb | doneRan | doneSkipped
  /-- `addClient` refused (node shut down): connectCmd failed, `triggerConnect` is never reached -/
  | refused
deriving Repr, DecidableEq, Inhabited

/-- the `close` call that flipped the status -/
inductive WPC where
  | none
  | holdConnect (prevConnected : Bool) (snap : List Nat)            -- holds connectMu
  | holdBoth (prevConnected : Bool) (snap : List Nat) (owes : Option Nat)  -- + presenceMu
  | inDisc
  | done (ranDisc : Bool)
deriving Repr, DecidableEq, Inhabited

/-- the presence tick that holds presenceMu -/
inductive TPC where
  | none | checked | inAlive | afterAlive
deriving Repr, DecidableEq, Inhabited

inductive SPC where | idle | snapshotTaken (hadClient : Bool) | done
deriving Repr, DecidableEq, Inhabited

structure St where
  status : Status := .connecting
  cpc : CPC := .idle
  /-- connectMu held by the connect thread (the winner's hold is in `w`) -/
  registered : Bool := false
  inHub : Bool := false
  subs : List Nat := []
  nextSub : Nat := 0
  /-- callbacks owed by plain `unsubscribe` calls that won `removedNow` -/
  owing : List Nat := []
  w : WPC := .none
  tick : TPC := .none
  shut : SPC := .idle
  log : List Ev := []
  /-- ghost: subscriptions that were removed while the handlers were registered -/
  endedReg : List Nat := []
deriving Repr, DecidableEq, Inhabited

inductive Label where
  /-- `connectCmd` succeeded (`addClient` done); connect-time server-side subscriptions are
  `subscribe` steps taken before `triggerAcquire` -/
  | connectCmdOk
  /-- `addClient` refused because the hub shard already took its shutdown snapshot -/
  | connectCmdRefused
  | triggerAcquire | triggerEnd
  | subscribe
  | closeTry
  | wAcquirePresence | wRemove | wCb | wDisc | wDiscEnd
  | unsubRemove (n : Nat) | unsubCb (n : Nat)
  | tickAcquire | tickAliveStart | tickAliveEnd | tickRelease
  | shutdownSnapshot | shutdownDone
deriving Repr, DecidableEq, Inhabited

def connectMuFree (s : St) : Bool :=
  s.cpc != .inCb && (match s.w with | .holdConnect _ _ => false | .holdBoth _ _ _ => false | .inDisc => false | _ => true)

def presenceMuFree (s : St) : Bool :=
  s.tick == .none && (match s.w with | .holdBoth _ _ _ => false | .inDisc => false | _ => true)

def step (s : St) : Label → Option St
  | .connectCmdOk =>
    -- `connShard.add` succeeds only while the shard has not taken its shutdown snapshot
    if s.cpc = .idle && s.status != .closed && s.shut = .idle then some { s with cpc := .ready, inHub := true } else none
  | .connectCmdRefused =>
    if s.cpc = .idle && s.status != .closed && s.shut != .idle then some { s with cpc := .refused } else none
  | .triggerAcquire =>
    if s.cpc = .ready && connectMuFree s then
      if s.status = .connecting then
        some { s with cpc := .inCb, registered := true, log := s.log ++ [.connectStart] }
      else some { s with cpc := .doneSkipped }
    else none
  | .triggerEnd =>
    if s.cpc = .inCb then some { s with cpc := .doneRan, status := .connected, log := s.log ++ [.connectEnd] } else none
  | .subscribe =>
    if s.status != .closed && s.cpc != .idle && s.cpc != .refused then
      some { s with subs := s.subs ++ [s.nextSub], nextSub := s.nextSub + 1 }
    else none
  | .closeTry =>
    if connectMuFree s then
      if s.status = .closed then some s
      else some { s with status := .closed, inHub := false, w := .holdConnect (s.status = .connected) s.subs }
    else none
  | .wAcquirePresence =>
    match s.w with
    | .holdConnect p snap => if presenceMuFree s then some { s with w := .holdBoth p snap none } else none
    | _ => none
  | .wRemove =>
    match s.w with
    | .holdBoth p (n :: snap) none =>
      if s.subs.contains n then
        some { s with subs := s.subs.erase n, w := .holdBoth p snap (some n),
                      endedReg := if s.registered then s.endedReg ++ [n] else s.endedReg }
      else some { s with w := .holdBoth p snap none }
    | _ => none
  | .wCb =>
    match s.w with
    | .holdBoth p snap (some n) =>
      some { s with w := .holdBoth p snap none, log := if s.registered then s.log ++ [.unsub n] else s.log }
    | _ => none
  | .wDisc =>
    match s.w with
    | .holdBoth p [] none =>
      if p then some { s with w := .inDisc, log := s.log ++ [.discStart] } else some { s with w := .done false }
    | _ => none
  | .wDiscEnd =>
    match s.w with
    | .inDisc => some { s with w := .done true, log := s.log ++ [.discEnd] }
    | _ => none
  | .unsubRemove n =>
    if s.subs.contains n then
      some { s with subs := s.subs.erase n, owing := s.owing ++ [n],
                    endedReg := if s.registered then s.endedReg ++ [n] else s.endedReg }
    else some s
  | .unsubCb n =>
    if s.owing.contains n then
      some { s with owing := s.owing.erase n, log := if s.registered then s.log ++ [.unsub n] else s.log }
    else none
  | .tickAcquire =>
    if presenceMuFree s then
      if s.status = .closed then some s else some { s with tick := .checked }
    else none
  | .tickAliveStart =>
    if s.tick = .checked && s.registered then some { s with tick := .inAlive, log := s.log ++ [.aliveStart] } else none
  | .tickAliveEnd =>
    if s.tick = .inAlive then some { s with tick := .afterAlive, log := s.log ++ [.aliveEnd] } else none
  | .tickRelease =>
    if s.tick = .checked || s.tick = .afterAlive then some { s with tick := .none } else none
  | .shutdownSnapshot =>
    if s.shut = .idle then some { s with shut := .snapshotTaken s.inHub } else none
  | .shutdownDone =>
    match s.shut with
    | .snapshotTaken had =>
      -- Shutdown waits for its close() of every client in the snapshot to return (a close() that
      -- finds the client already closed returns at once)
      if !had || s.status = .closed then some { s with shut := .done } else none
    | _ => none

/-! ### the ordering part of the statement as an executable predicate on the callback log -/

structure Scan where
  seenCS : Bool := false
  seenCE : Bool := false
  seenDS : Bool := false
  ok : Bool := true
deriving Repr, DecidableEq, Inhabited

/-- connect at most once and before every other per-connection callback; disconnect at most once
and only after the connect callback completed; no alive activity once disconnect started -/
def scanStep (a : Scan) : Ev → Scan
  | .connectStart => { a with seenCS := true, ok := a.ok && !a.seenCS }
  | .connectEnd => { a with seenCE := true, ok := a.ok && a.seenCS }
  | .aliveStart => { a with ok := a.ok && a.seenCS && !a.seenDS }
  | .aliveEnd => { a with ok := a.ok && a.seenCS && !a.seenDS }
  | .discStart => { a with seenDS := true, ok := a.ok && a.seenCE && !a.seenDS }
  | .discEnd => { a with ok := a.ok && a.seenDS }
  | .unsub _ => { a with ok := a.ok && a.seenCS }

def scan (log : List Ev) : Scan := log.foldl scanStep {}

def run (s : St) : List Label → Option St
  | [] => some s
  | l :: ls => match step s l with
    | some s' => run s' ls
    | none => none

end CentrifugeVerif.Lifecycle
