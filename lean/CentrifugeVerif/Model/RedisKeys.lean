import CentrifugeVerif.Model.RedisKeysPart
import CentrifugeVerif.Gen.RedisKeys
/-!
# Redis key builders (C34)

`Gen/RedisKeys.lean` holds, per Go key builder and per configuration valuation, the ordered
parts the `strings.Builder` code writes (regenerated on every run).  This file renders them,
groups them by the Lua script that receives them together (hand-written from the `script.Exec`
call sites, see each comment) and models `RedisBroker.extractChannel` /
`RedisMapBroker.extractChannel`.  Core Lean only.
-/
namespace CentrifugeVerif.RedisKeys
open CentrifugeVerif.Gen.RedisKeys

structure Env where
  «prefix» : Bytes
  ch : Bytes
  tag : Bytes
  idem : Bytes

def renderPart (e : Env) : Part → Bytes
  | .lit bs => bs
  | .prefix => e.prefix
  | .ch => e.ch
  | .tag => e.tag
  | .idem => e.idem

def render (e : Env) : List Part → Bytes
  | [] => []
  | p :: ps => renderPart e p ++ render e ps

/-- `RedisBroker.publish` with history (stream): `addHistoryStreamScript.Exec(KEYS = streamKey,
historyMetaKey, resultKey; ARGV[4] = publishChannel)`; with `UseLists`: `historyListKey`. -/
def brokerAddHistoryKeys (cluster sharded useLists : Bool) : List (List Part) :=
  [ (if useLists then broker_historyListKey cluster sharded useLists
     else broker_historyStreamKey cluster sharded useLists),
    broker_historyMetaKey cluster sharded useLists,
    broker_resultCacheKey cluster sharded useLists,
    broker_messageChannelID cluster sharded useLists ]

/-- `publishIdempotentScript.Exec(KEYS = resultKey; ARGV[2] = publishChannel)` -/
def brokerPublishIdempotentKeys (cluster sharded useLists : Bool) : List (List Part) :=
  [ broker_resultCacheKey cluster sharded useLists, broker_messageChannelID cluster sharded useLists ]

/-- presence add / remove / stats scripts: `KEYS = setKey, hashKey, userSetKey, userHashKey` -/
def presenceKeys (cluster sharded useLists : Bool) : List (List Part) :=
  [ presence_presenceSetKey cluster sharded useLists, presence_presenceHashKey cluster sharded useLists,
    presence_userSetKey cluster sharded useLists, presence_userHashKey cluster sharded useLists ]

/-- every per-channel key of the map broker plus its PUB/SUB channel (the add script receives
stream, meta, state hash/order/expire/meta, cleanup registration, result key and channel) -/
def mapBrokerKeys (cluster sharded useLists : Bool) : List (List Part) :=
  [ mapBroker_streamKey cluster sharded useLists, mapBroker_metaKey cluster sharded useLists,
    mapBroker_stateHashKey cluster sharded useLists, mapBroker_stateOrderKey cluster sharded useLists,
    mapBroker_stateExpireKey cluster sharded useLists, mapBroker_stateMetaKey cluster sharded useLists,
    mapBroker_cleanupRegistrationKeyForChannel cluster sharded useLists,
    mapBroker_resultCacheKey cluster sharded useLists, mapBroker_messageChannelID cluster sharded useLists ]

/-! ## extractChannel -/

def indexByte (c : UInt8) : Bytes → Option Nat
  | [] => none
  | b :: bs => if b = c then some 0 else (indexByte c bs).map (· + 1)

/-- `strings.TrimPrefix` -/
def trimPrefix (s p : Bytes) : Bytes := if s.take p.length = p then s.drop p.length else s

def clientInfix : Bytes := [46, 99, 108, 105, 101, 110, 116, 46]   -- ".client."

/-- `RedisBroker.extractChannel(isCluster, chID)` (`messagePrefix = Prefix + ".client."`) -/
def brokerExtractChannel («prefix» : Bytes) (sharded isCluster : Bool) (chID : Bytes) : Bytes :=
  let ch := trimPrefix chID («prefix» ++ clientInfix)
  if sharded then
    match ch with
    | 123 :: _ =>
      match indexByte 46 ch with
      | none => []
      | some 0 => []
      | some i => ch.drop (i + 1)
    | _ => []
  else if isCluster then
    if ch.length < 2 ∨ ch.head? ≠ some 123 ∨ ch.getLast? ≠ some 125 then []
    else (ch.drop 1).take (ch.length - 2)      -- ch[1 : len-1]
  else ch

/-- `RedisMapBroker.extractChannel(chID)` -/
def mapBrokerExtractChannel («prefix» : Bytes) (sharded : Bool) (chID : Bytes) : Bytes :=
  let ch := trimPrefix chID («prefix» ++ clientInfix)
  if sharded then
    match ch with
    | 123 :: _ =>
      match indexByte 46 ch with
      | none => []
      | some 0 => []
      | some i => ch.drop (i + 1)
    | _ => []
  else ch

/-! ## Symbolic hash-tag analysis of a parts list -/

/-- `some (pre, p, post)`: the key is `pre ++ "{" ++ p ++ "}" ++ post` where `pre` consists of the
prefix and brace-free literals only — so (for a brace-free prefix) the first `{` of the key is the
one written by the builder. -/
def analyse : List Part → Option (List Part × Part × List Part)
  | [] => none
  | .prefix :: ps => (analyse ps).map fun r => (.prefix :: r.1, r.2.1, r.2.2)
  | .lit l :: ps =>
    if l.all (· ≠ 123) then (analyse ps).map fun r => (.lit l :: r.1, r.2.1, r.2.2)
    else if l.getLast? = some 123 ∧ l.dropLast.all (· ≠ 123) then
      match ps with
      | p :: .lit (125 :: r0) :: rest =>
        if p = .ch ∨ p = .tag then some ([.lit l.dropLast], p, .lit r0 :: rest) else none
      | _ => none
    else none
  | _ :: _ => none

end CentrifugeVerif.RedisKeys
