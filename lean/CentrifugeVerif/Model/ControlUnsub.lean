import CentrifugeVerif.Gen.ControlCodec
/-!
# Model of `Node.Unsubscribe` → `Hub.unsubscribe[AcrossUsers]` → `Client.Unsubscribe` (C28)

Mirrors, for a cluster of nodes each holding a list of connections:

* `node.go  Node.Unsubscribe`: validate the label filter, publish the control message, then make the hub call on the
  calling node; every other node makes the hub call `handleControl` derives from the message.  Both hub calls are the
  **regenerated** `localUnsubscribe` / `remoteUnsubscribe ∘ encodeUnsubscribe` of `Gen/ControlCodec.lean`.
* `hub.go  connShard.unsubscribe / unsubscribeAcrossUsers`: a connection is addressed when it belongs to the user
  (or the call is across users) and passes the client-id, session-id and label-filter narrowing; `Client.Unsubscribe(ch, u)`
  is called for each addressed connection.
* `client.go  Client.Unsubscribe` + `Client.unsubscribe`: if the channel is in `c.channels` it is removed and, in this
  order, presence is removed (when the subscription emits presence), a leave is published (when it emits join/leave)
  and the `OnUnsubscribe` callback runs; **whether or not the channel was subscribed**, an unsubscribe push carrying
  that channel name is then written to the connection (quirk of the real code, kept).

`Mode.fixed` (the default, `Inhabited Mode`) is the code as it is since /repo commit 770c28ff
("fix: Node.Unsubscribe with an empty channel unsubscribes from all channels" = `props/C28/proposed_fix.diff`):
hub.go `unsubscribeConnection` iterates over `c.Channels()` for an empty channel name, which is the documented
behaviour ("If a channel is empty string then user will be unsubscribed from all channels").
`Mode.preFix` is the code before that commit: the channel string was used as a map key, so `""` named no subscription
(finding C28-1, kept so that the old defect stays stated and a regression can be recognised).
-/
namespace CentrifugeVerif.ControlUnsub
open CentrifugeVerif.Gen.ControlCodec

/-- a live subscription of a connection (an entry of `c.channels` with `flagSubscribed`) -/
structure Sub where
  ch : String
  emitPresence : Bool
  emitJoinLeave : Bool
  deriving DecidableEq, Repr

structure Conn where
  id : String
  user : String
  session : String
  labels : List (String × String)
  subs : List Sub
  deriving DecidableEq, Repr

/-- externally visible effects of an unsubscribe -/
inductive Ev where
  | presenceRemove (conn ch : String)
  | leave (conn ch : String)
  | callback (conn ch : String) (code : UInt32) (reason : String)
  | push (conn ch : String) (code : UInt32) (reason : String)
  deriving DecidableEq, Repr

inductive Mode where
  | preFix
  | fixed
  deriving DecidableEq, Repr

/-- the code as it is -/
instance : Inhabited Mode := ⟨.fixed⟩

/-- the per-channel effects of removing subscription `s` of connection `cid` with unsubscribe `u`
(client.go `unsubscribe`: removePresence, publishLeave, unsubscribeHandler; then `sendUnsubscribe`) -/
def effects (cid : String) (u : GUnsubscribe) (s : Sub) : List Ev :=
  (if s.emitPresence then [Ev.presenceRemove cid s.ch] else []) ++
  (if s.emitJoinLeave then [Ev.leave cid s.ch] else []) ++
  [Ev.callback cid s.ch u.Code u.Reason, Ev.push cid s.ch u.Code u.Reason]

/-- `Client.Unsubscribe(ch, u)` (client.go; unchanged by the fix). -/
def unsubOne (c : Conn) (ch : String) (u : GUnsubscribe) : Conn × List Ev :=
  match c.subs.find? (fun s => s.ch == ch) with
  | some s => ({ c with subs := c.subs.filter (fun s => s.ch != ch) }, effects c.id u s)
  | none => (c, [Ev.push c.id ch u.Code u.Reason])

/-- `Client.Unsubscribe` for each channel of a list, one after the other. -/
def unsubList (c : Conn) (u : GUnsubscribe) : List String → Conn × List Ev
  | [] => (c, [])
  | ch :: rest =>
    let r1 := unsubOne c ch u
    let r2 := unsubList r1.1 u rest
    (r2.1, r1.2 ++ r2.2)

/-- what the hub does with one addressed connection.
`fixed` = hub.go `unsubscribeConnection`: `c.Unsubscribe(ch, u)`, and for `ch = ""` that call for every channel of
`c.Channels()`.  `preFix`: always `c.Unsubscribe(ch, u)`. -/
def clientUnsubscribe (m : Mode) (c : Conn) (ch : String) (u : GUnsubscribe) : Conn × List Ev :=
  match m with
  | .preFix => unsubOne c ch u
  | .fixed => if ch == "" then unsubList c u (c.subs.map (·.ch)) else unsubOne c ch u

/-- label-filter matching is a parameter (`hub.go matchLabelFilter` = `filter.Match`, property C15). -/
abbrev FilterMatch := Option GFilterNode → List (String × String) → Bool

/-- which connections a hub call addresses (hub.go `connShard.unsubscribe` / `unsubscribeAcrossUsers`) -/
def addressed (fm : FilterMatch) (call : UnsubscribeCall) (c : Conn) : Bool :=
  (call.method == "unsubscribeAcrossUsers" || c.user == call.userID) &&
  (call.clientID == "" || c.id == call.clientID) &&
  (call.sessionID == "" || c.session == call.sessionID) &&
  fm call.labelFilter c.labels

/-- one node executing a hub call -/
def hubUnsubscribe (m : Mode) (fm : FilterMatch) (call : UnsubscribeCall) : List Conn → List Conn × List Ev
  | [] => ([], [])
  | c :: cs =>
    let r := if addressed fm call c then clientUnsubscribe m c call.ch call.unsubscribe else (c, [])
    let rs := hubUnsubscribe m fm call cs
    (r.1 :: rs.1, r.2 ++ rs.2)

/-- the nodes of a cluster, `j` = index of the first node of the list, `i` = index of the calling node:
the calling node makes the local hub call, every other node the one decoded from the control message. -/
def clusterUnsubscribe (m : Mode) (fm : FilterMatch) (i : Nat) (userID ch : String) (o : GUnsubscribeOptions) :
    Nat → List (List Conn) → List (List Conn) × List Ev
  | _, [] => ([], [])
  | j, n :: ns =>
    let call := if j == i then localUnsubscribe userID ch o else remoteUnsubscribe (encodeUnsubscribe userID ch o)
    let r := hubUnsubscribe m fm call n
    let rs := clusterUnsubscribe m fm i userID ch o (j + 1) ns
    (r.1 :: rs.1, r.2 ++ rs.2)

/-- `Node.Unsubscribe(userID, ch, opts…)` called on node `i`; `valid` = `filter.Validate` succeeded
(an invalid label filter makes the call return an error before anything happens). -/
def nodeUnsubscribe (m : Mode) (fm : FilterMatch) (valid : GFilterNode → Bool) (cluster : List (List Conn)) (i : Nat)
    (userID ch : String) (o : GUnsubscribeOptions) : List (List Conn) × List Ev :=
  match o.labelFilter with
  | some f => if valid f then clusterUnsubscribe m fm i userID ch o 0 cluster else (cluster, [])
  | none => clusterUnsubscribe m fm i userID ch o 0 cluster

end CentrifugeVerif.ControlUnsub
