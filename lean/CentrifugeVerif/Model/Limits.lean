/-
Model of the per-connection subscription bookkeeping that enforces `ClientChannelLimit` and
`ChannelMaxLength` (client.go: `validateSubscribeRequest`, `onSubscribeErrorGen`, `commitSubscription`,
`Client.Subscribe`, `unsubscribe`; client_map.go: `handleMapStatePhase`).  Core Lean only.

Go facts mirrored here (all under `c.mu`):
* `c.channels` holds committed subscriptions *and* the placeholder reservations of in-flight regular
  subscribes (each with a fresh generation); `c.mapSubscribing` holds map subscriptions that are still
  loading;
* regular client subscribe (`validateSubscribeRequest`): too long name → `ErrorBadRequest`; channel
  present in either map → `ErrorAlreadySubscribed`; `len(channels)+len(mapSubscribing) ≥ limit` →
  `ErrorLimitExceeded`; otherwise a reservation is installed *in the same critical section*;
* map client subscribe: same checks, but the function returns **without reserving**; the reservation in
  `c.mapSubscribing` is made later (`handleMapStatePhase` / recovery-mode `handleMapStreamPhase`), after
  the `OnSubscribe` handler has answered; it re-checks "already in `mapSubscribing`" and — since
  /repo commit 516266d2 — the channel limit, under the same lock that installs the reservation;
* a finished map subscribe writes `c.channels[ch]` unconditionally and deletes its `mapSubscribing` entry;
* a failed regular subscribe removes its reservation if the generation still matches; a successful one
  turns it into a subscription if the generation still matches (generations are unique and a callback
  answers once, so `complete` only ever meets its own `reserved` placeholder);
* shared-poll client subscribe (`handleSharedPollSubscribe`, dispatched before
  `validateSubscribeRequest`): too long name → `ErrorBadRequest` (since /repo commit 931f86e2; finding
  C37-2); channel present in either map → `ErrorAlreadySubscribed`;
  `len(channels)+len(mapSubscribing) ≥ limit` → `ErrorLimitExceeded`; otherwise a reservation in
  `c.channels` in the same critical section; it completes or fails like a regular subscribe;
* server-side `Client.Subscribe` compares `len(c.channels)` alone with the limit and closes the
  connection with `DisconnectChannelLimit` when it is reached.
-/
namespace CentrifugeVerif.Limits

inductive ChSt
  /-- placeholder of an in-flight subscribe -/
  | reserved
  | subscribed (serverSide : Bool)
deriving Repr, DecidableEq

structure Entry where
  ch : Nat
  gen : Nat
  st : ChSt
deriving Repr, DecidableEq

structure LState where
  limit : Nat
  maxLen : Nat
  channels : List Entry := []
  /-- channel ↦ generation -/
  mapSubscribing : List (Nat × Nat) := []
  nextGen : Nat := 1
  closed : Bool := false
deriving Repr, DecidableEq

inductive Res
  | ok (gen : Nat)
  | badRequest
  | alreadySubscribed
  | limitExceeded
  | disconnectChannelLimit
  | nothing
deriving Repr, DecidableEq

def LState.inChannels (s : LState) (ch : Nat) : Bool := s.channels.any (·.ch = ch)
def LState.inMap (s : LState) (ch : Nat) : Bool := s.mapSubscribing.any (·.1 = ch)
def LState.total (s : LState) : Nat := s.channels.length + s.mapSubscribing.length

/-- entries that count as client-side: committed client-side subscriptions, placeholders of in-flight
client subscribes, and map subscriptions still loading -/
def Entry.isClient (e : Entry) : Bool :=
  match e.st with
  | .subscribed true => false
  | _ => true

def LState.clientEntries (s : LState) : Nat :=
  (s.channels.filter Entry.isClient).length + s.mapSubscribing.length

/-- client-side subscriptions the connection holds (committed, not server-side) -/
def LState.clientSubs (s : LState) : Nat :=
  (s.channels.filter (fun e => e.st = .subscribed false)).length

inductive Ev
  /-- `validateSubscribeRequest` for a regular subscribe of a channel whose name has `len` bytes -/
  | subReg (ch len : Nat)
  /-- `handleSharedPollSubscribe`: check and reserve (third reservation path, same limit rule) -/
  | subPoll (ch len : Nat)
  /-- `validateSubscribeRequest` for an initial map subscribe (checks only) -/
  | subMapValidate (ch len : Nat)
  /-- the map subscribe continues after `OnSubscribe`: reserve in `mapSubscribing` -/
  | mapReserve (ch : Nat)
  /-- the map subscribe of generation `gen` goes live (`commitSubscription … reservationMap`) -/
  | mapCommit (ch gen : Nat)
  /-- the in-flight regular subscribe of generation `gen` finished (`ok`) or failed -/
  | complete (ch gen : Nat) (ok : Bool)
  | unsub (ch : Nat)
  /-- server-side `Client.Subscribe(ch)` (reserve + subscribe + commit in one call) -/
  | serverSub (ch : Nat)
deriving Repr, DecidableEq

def step (s : LState) : Ev → LState × Res
  | .subReg ch len =>
    if 0 < s.maxLen ∧ s.maxLen < len then (s, .badRequest)
    else if s.inChannels ch ∨ s.inMap ch then (s, .alreadySubscribed)
    else if 0 < s.limit ∧ s.limit ≤ s.total then (s, .limitExceeded)
    else ({ s with channels := s.channels ++ [⟨ch, s.nextGen, .reserved⟩], nextGen := s.nextGen + 1 },
          .ok s.nextGen)
  | .subPoll ch len =>
    if 0 < s.maxLen ∧ s.maxLen < len then (s, .badRequest)
    else if s.inChannels ch ∨ s.inMap ch then (s, .alreadySubscribed)
    else if 0 < s.limit ∧ s.limit ≤ s.total then (s, .limitExceeded)
    else ({ s with channels := s.channels ++ [⟨ch, s.nextGen, .reserved⟩], nextGen := s.nextGen + 1 },
          .ok s.nextGen)
  | .subMapValidate ch len =>
    if 0 < s.maxLen ∧ s.maxLen < len then (s, .badRequest)
    else if s.inChannels ch then (s, .alreadySubscribed)
    else if s.inMap ch then (s, .alreadySubscribed)
    else if 0 < s.limit ∧ s.limit ≤ s.total then (s, .limitExceeded)
    else (s, .ok 0)
  | .mapReserve ch =>
    if s.inMap ch then (s, .alreadySubscribed)
    else if 0 < s.limit ∧ s.limit ≤ s.total then (s, .limitExceeded)
    else ({ s with mapSubscribing := s.mapSubscribing ++ [(ch, s.nextGen)], nextGen := s.nextGen + 1 },
          .ok s.nextGen)
  | .mapCommit ch gen =>
    if s.mapSubscribing.any (fun e => e.1 = ch ∧ e.2 = gen) then
      ({ s with mapSubscribing := s.mapSubscribing.filter (·.1 ≠ ch),
                channels := s.channels.filter (·.ch ≠ ch) ++ [⟨ch, gen, .subscribed false⟩] }, .ok gen)
    else (s, .nothing)
  | .complete ch gen ok =>
    if s.channels.any (fun e => e.ch = ch ∧ e.gen = gen ∧ e.st = .reserved) then
      if ok then
        ({ s with channels := s.channels.map (fun e =>
            if e.ch = ch ∧ e.gen = gen ∧ e.st = .reserved then { e with st := .subscribed false } else e) },
          .ok gen)
      else ({ s with channels := s.channels.filter (fun e => ¬ (e.ch = ch ∧ e.gen = gen ∧ e.st = .reserved)) },
            .nothing)
    else (s, .nothing)
  | .unsub ch =>
    ({ s with channels := s.channels.filter (·.ch ≠ ch),
              mapSubscribing := s.mapSubscribing.filter (·.1 ≠ ch) }, .nothing)
  | .serverSub ch =>
    if s.closed then (s, .nothing)
    else if 0 < s.limit ∧ s.limit ≤ s.channels.length then ({ s with closed := true }, .disconnectChannelLimit)
    else if s.inChannels ch ∨ s.inMap ch then (s, .alreadySubscribed)
    else ({ s with channels := s.channels ++ [⟨ch, s.nextGen, .subscribed true⟩], nextGen := s.nextGen + 1 },
          .ok s.nextGen)

def run (s : LState) : List Ev → LState
  | [] => s
  | e :: es => run (step s e).1 es

/-- events of the regular (non-map) client subscribe flow, unsubscribes, and server-side subscribes -/
def Ev.regular : Ev → Bool
  | .subReg .. | .subPoll .. | .complete .. | .unsub .. | .serverSub .. => true
  | _ => false

end CentrifugeVerif.Limits
