import CentrifugeVerif.Model.WS.Basic
/-!
Model of the read side of `internal/websocket/conn.go`:
`advanceFrame`, `handleProtocolError`, `WriteControl` (as far as the reader uses it), the default
ping/close handlers, `NextReader`, `messageReader.Read` driven by `io.ReadAll` (= `ReadMessage`),
`limitedReader`, and the application loop "call `ReadMessage` until it returns an error".

What is mirrored line by line: every check of `advanceFrame` in the order of the Go code, with the
Go error texts (they become the reason of the 1002 close frame), the state the checks read and write
(`readRemaining`, `readFinal`, `readLength`, `readDecompress`, `readMaskKey`, `readMaskPos`), the
int64 corner cases (`setReadRemaining` of a negative value, `readLength` overflow), the frames the
reader writes back (pong, close echo, 1002, 1009) and `ErrCloseSent` after a close was written.

Abstractions (stated as assumptions in the evidence):
* bufio/TCP chunking is invisible: `c.br.Read` is modelled as delivering the rest of the frame at
  once (`mask_append` in Props/C30 is what makes the chunked unmasking equal to this);
* flate is the parameter `cfg.inflate`, applied to the whole compressed message followed by the
  `00 00 ff ff` tail; the real reader inflates while frames arrive, so for a *corrupt* or
  *over-limit* compressed message that is fragmented the real reader may stop earlier.
Go slice/index operations that would panic when out of range are explicit `panic` outcomes.
-/
namespace CentrifugeVerif.WS.Reader
open CentrifugeVerif.WS

/-- errors `advanceFrame`/`Read` can return -/
inductive RErr where
  | eof                                   -- errUnexpectedEOF = CloseError{1006, "unexpected EOF"}
  | eofRaw                                -- io.EOF from io.CopyN while skipping a frame remainder
  | proto (msg : String)                  -- errors.New("websocket: " + msg) after handleProtocolError
  | readLimit                             -- ErrReadLimit
  | close (code : Nat) (text : Bytes)     -- *CloseError for a received close frame
  | unexpectedData                        -- "internal error, unexpected text or binary in Reader"
  | inflate                               -- error of the flate reader
  | panic (what : String)                 -- index / slice out of range
  | fuel                                  -- artefact of the fuelled loop (proved unreachable)
deriving Repr, DecidableEq, Inhabited

/-- deviating branches taken: places where the Go reader fails differently from what the property
asks for.  After the fixes a4ffe486, 13f4dfc8, 7b24129f only one is left: a 64-bit length with the
most significant bit set yields ErrReadLimit and no close frame (pinned by the repo's TestReadLimit). -/
inductive Dev where
  | len64Msb
deriving Repr, DecidableEq, Inhabited

structure RState where
  input : Bytes
  readRemaining : Nat := 0
  readFinal : Bool := true
  readLength : Nat := 0
  readDecompress : Bool := false
  maskKey : Key := Key.zero
  maskPos : Nat := 0
  /-- frames written to the peer, in order -/
  written : List WFrame := []
  /-- handler and message events, in order -/
  events : List Event := []
  /-- `writeErr == ErrCloseSent` -/
  closeSent : Bool := false
  devs : List Dev := []
  /-- the error that ended the read loop -/
  result : Option RErr := none
deriving Repr

inductive Adv where
  | ok (frameType : Nat) (st : RState)
  | err (e : RErr) (st : RState)

/-- `validReceivedCloseCodes[code] || (code >= 3000 && code <= 4999)` -/
def goValidCloseCode (c : Nat) : Bool :=
  c == 1000 || c == 1001 || c == 1002 || c == 1003 || c == 1007 || c == 1008 || c == 1009
  || c == 1010 || c == 1011 || c == 1012 || c == 1013 || (3000 ≤ c && c ≤ 4999)

/-- `FormatCloseMessage` -/
def formatClose (code : Nat) (text : Bytes) : Bytes :=
  if code == 1005 then [] else toBE 2 code ++ text

/-- `WriteControl` as the reader uses it (payload ≤ 125 is guaranteed by the callers; a longer one
returns errInvalidControlFrame and writes nothing).  Returns whether the write happened. -/
def writeControl (st : RState) (op : Nat) (data : Bytes) : RState × Bool :=
  if data.length > 125 then (st, false)
  else if st.closeSent then (st, false)
  else ({ st with written := st.written ++ [⟨op, data⟩], closeSent := st.closeSent || op == opClose }, true)

/-- `handleProtocolError` -/
def handleProtocolError (st : RState) (msg : String) : Adv :=
  let data := (formatClose 1002 msg.toUTF8.toList).take 125
  .err (.proto msg) (writeControl st opClose data).1

/-- `c.read(n)`: `n` bytes or `errUnexpectedEOF` (whatever was available is discarded). -/
def readN (st : RState) (n : Nat) : Option (Bytes × RState) :=
  if st.input.length < n then none
  else some (st.input.take n, { st with input := st.input.drop n })

/-- The error texts `advanceFrame` collects for the first two header bytes, in the order of the Go
code (`readFinal` is the value before this frame). -/
def headerErrs (cfg : Cfg) (readFinal : Bool) (h : Hdr) : List String :=
  (if h.rsv1 && !cfg.deflate then ["RSV1 set"] else [])
  ++ (if h.rsv2 then ["RSV2 set"] else [])
  ++ (if h.rsv3 then ["RSV3 set"] else [])
  ++ (if isControlOp h.opcode then
        (if h.len7 > 125 then ["len > 125 for control"] else [])
        ++ (if !h.fin then ["FIN not set on control"] else [])
        ++ (if h.rsv1 && cfg.deflate then ["RSV1 set on control"] else [])
      else if isDataOp h.opcode then
        (if !readFinal then ["data before FIN"] else [])
      else if h.opcode == 0 then
        (if readFinal then ["continuation after FIN"] else [])
        ++ (if h.rsv1 && cfg.deflate then ["RSV1 set on continuation"] else [])
      else ["bad opcode " ++ toString h.opcode])
  ++ (if h.masked != cfg.server then ["bad MASK"] else [])

/-- step 3 of `advanceFrame`: the extended payload length -/
def readLen (st : RState) : Except (RErr × RState) RState :=
  if st.readRemaining == 126 then
    match readN st 2 with
    | none => .error (.eof, { st with input := [] })
    | some (p, st) => .ok { st with readRemaining := beVal p }
  else if st.readRemaining == 127 then
    match readN st 8 with
    | none => .error (.eof, { st with input := [] })
    | some (p, st) =>
      -- setReadRemaining(int64(uint64)): negative → ErrReadLimit, nothing is written
      if beVal p ≥ two63 then .error (.readLimit, { st with devs := st.devs ++ [Dev.len64Msb] })
      else .ok { st with readRemaining := beVal p }
  else .ok st

/-- step 4: the masking key -/
def readMask (masked : Bool) (st : RState) : Option RState :=
  if masked then
    match readN st 4 with
    | some ([a, b, c, d], st) => some { st with maskKey := ⟨a, b, c, d⟩, maskPos := 0 }
    | _ => none
  else some st

/-- step 5: text, binary and continuation frames: enforce the read limit and return -/
def dataFrame (cfg : Cfg) (frameType : Nat) (st : RState) : Adv :=
  let st := { st with readLength := st.readLength + st.readRemaining }
  -- Don't allow readLength to overflow in the presence of a large readRemaining counter.
  if st.readLength ≥ two63 then
    .err .readLimit (writeControl st opClose (formatClose 1009 [])).1
  else if cfg.readLimit > 0 && st.readLength > cfg.readLimit then
    .err .readLimit (writeControl st opClose (formatClose 1009 [])).1
  else .ok frameType st

/-- step 7: process a control frame payload (default pong, ping and close handlers) -/
def processControl (frameType : Nat) (payload : Bytes) (st : RState) : Adv :=
  if frameType == opPong then
    .ok frameType { st with events := st.events ++ [.pong payload] }
  else if frameType == opPing then
    -- defaultPingHandler: ErrCloseSent is swallowed
    let st := { st with events := st.events ++ [.ping payload] }
    .ok frameType (writeControl st opPong payload).1
  else
    -- CloseMessage
    match payload with
    | a :: b :: text =>
      let code := a.toNat * 256 + b.toNat
      if !goValidCloseCode code then handleProtocolError st ("bad close code " ++ toString code)
      else if !utf8Valid text then handleProtocolError st "invalid utf8 payload in close frame"
      else .err (.close code text) (writeControl st opClose (formatClose code [])).1
    | [_] =>
      -- RFC 6455 5.5.1: a close body, if present, starts with a 2-byte status code.
      handleProtocolError st "invalid close payload length"
    | [] => .err (.close 1005 []) (writeControl st opClose (formatClose 1005 [])).1

/-- steps 6 and 7: read and process a control frame payload -/
def controlFrame (cfg : Cfg) (frameType : Nat) (st : RState) : Adv :=
  let payRes : Option (Bytes × RState) :=
    if st.readRemaining > 0 then
      match readN st st.readRemaining with
      | none => none
      | some (p, st) =>
        some (if cfg.server then xorMask st.maskKey 0 p else p, { st with readRemaining := 0 })
    else some ([], st)
  match payRes with
  | none => .err .eof { st with input := [], readRemaining := 0 }
  | some (payload, st) => processControl frameType payload st

/-- steps 3 to 7 -/
def frameBody (cfg : Cfg) (h : Hdr) (st : RState) : Adv :=
  match readLen st with
  | .error (e, st) => .err e st
  | .ok st =>
    match readMask h.masked st with
    | none => .err .eof { st with input := [] }
    | some st =>
      if h.opcode == 0 || isDataOp h.opcode then dataFrame cfg h.opcode st
      else controlFrame cfg h.opcode st

def advanceFrame (cfg : Cfg) (st0 : RState) : Adv :=
  -- 1. Skip remainder of previous frame.
  let skipped : Option RState :=
    if st0.readRemaining > 0 then
      if st0.input.length < st0.readRemaining then none
      else some { st0 with input := st0.input.drop st0.readRemaining }
    else some st0
  match skipped with
  | none => .err .eofRaw { st0 with input := [] }
  | some st =>
  -- 2. Read and parse first two bytes of frame header.
  match readN st 2 with
  | none => .err .eof { st with input := [] }
  | some (p, st) =>
  match p with
  | [p0, p1] =>
    let h := parseHdr p0 p1
    let errs := headerErrs cfg st.readFinal h
    -- state written while the header is examined
    let st := { st with
      readRemaining := h.len7,
      readDecompress := h.rsv1 && cfg.deflate,
      readFinal := if isDataOp h.opcode || h.opcode == 0 then h.fin else st.readFinal }
    if !errs.isEmpty then handleProtocolError st (", ".intercalate errs)
    else frameBody cfg h st
  | _ => .err (.panic "header index") st

def RErr.toEvent : RErr → Event
  | .eof => .incomplete
  | .eofRaw => .incomplete
  | .proto _ => .protoError
  | .readLimit => .tooBig
  | .close c t => .close c t
  | .inflate => .badData
  | .unexpectedData => .protoError
  | .panic _ => .protoError
  | .fuel => .incomplete

def finish (e : RErr) (st : RState) : RState :=
  { st with events := st.events ++ [e.toEvent], result := some e }

/-- "message too big after decompression" (the reason `limitedReader` puts into its 1009 frame) -/
def tooBigReason : Bytes :=
  [109, 101, 115, 115, 97, 103, 101, 32, 116, 111, 111, 32, 98, 105, 103, 32, 97, 102, 116, 101,
   114, 32, 100, 101, 99, 111, 109, 112, 114, 101, 115, 115, 105, 111, 110]

/-- `messageReader.Read` calls for the payload of the current data frame (`c.br.Read` until the
frame is exhausted or the stream ends, unmasking with the carried key position); `none` =
`errUnexpectedEOF`. -/
def readPayload (cfg : Cfg) (st : RState) : Option (Bytes × RState) :=
  if st.input.length < st.readRemaining then none
  else
    let chunk := st.input.take st.readRemaining
    some (if cfg.server then xorMask st.maskKey st.maskPos chunk else chunk,
          { st with input := st.input.drop st.readRemaining, readRemaining := 0,
                    maskPos := (st.maskPos + st.readRemaining) % 4 })

/-- The final frame of a message was consumed (`io.EOF` from `messageReader`): the application
gets the message, through flate and `limitedReader` when `NextReader` saw RSV1 on the first frame.
`error` = the read loop ends with that state. -/
def deliver (cfg : Cfg) (typ : Nat) (dec : Bool) (acc : Bytes) (st : RState) : Except RState RState :=
  if dec then
    match cfg.inflate (acc ++ deflateTail) with
    | none => .error (finish .inflate st)
    | some out =>
      if cfg.inflatedLimit > 0 && out.length > cfg.inflatedLimit then
        .error (finish .readLimit (writeControl st opClose (formatClose 1009 tooBigReason)).1)
      else .ok { st with events := st.events ++ [.msg typ out] }
  else .ok { st with events := st.events ++ [.msg typ acc] }

/-- The application loop `for { ReadMessage(); stop on error }`, one frame per unit of fuel.

`frag = none`: inside `NextReader`'s loop (no message started); `frag = some f`: inside
`io.ReadAll(reader)` → `messageReader.Read` of a started message whose payload so far is `f.acc`
(`f.compressed` is `c.readDecompress` as captured by `NextReader` after the first frame).
Each iteration is one `advanceFrame` call (control frames are handled inside it) followed, for a
data or continuation frame, by the `messageReader.Read` calls that consume its payload; when the
final frame is consumed the message is delivered and `NextReader` starts again
(`readLength = 0`). -/
def run (cfg : Cfg) : Nat → Option Frag → RState → RState
  | 0, _, st => finish .fuel st
  | n + 1, frag, st =>
    match advanceFrame cfg st with
    | .err e st' => finish e st'
    | .ok ft st' =>
      if !(isDataOp ft || ft == 0) then run cfg n frag st'       -- ping / pong
      else if frag.isNone && !isDataOp ft then run cfg n none st'  -- NextReader skips it (unreachable)
      else if frag.isSome && isDataOp ft then finish .unexpectedData st'
      else
        let f : Frag := match frag with
          | some f => f
          | none => ⟨ft, st'.readDecompress, []⟩
        match readPayload cfg st' with
        | none => finish .eof { st' with input := [] }
        | some (chunk, st2) =>
          if !st2.readFinal then run cfg n (some ⟨f.typ, f.compressed, f.acc ++ chunk⟩) st2
          else
            match deliver cfg f.typ f.compressed (f.acc ++ chunk) { st2 with readLength := 0 } with
            | .error r => r
            | .ok st3 => run cfg n none st3

def fuelFor (input : Bytes) : Nat := input.length + 1

/-- A fresh connection reading `input` until the first error. -/
def runReader (cfg : Cfg) (input : Bytes) : RState :=
  run cfg (fuelFor input) none { input := input }

end CentrifugeVerif.WS.Reader
