import CentrifugeVerif.Model.WS.Basic
/-!
Model of the read side of `internal/websocket/conn.go`:
`advanceFrame`, `handleProtocolError`, `WriteControl` (as far as the reader uses it), the default
ping/close handlers, `NextReader`, `messageReader.Read` driven by `io.ReadAll` (= `ReadMessage`),
`limitedReader`, and the application loop "call `ReadMessage` until it returns an error".

What is mirrored line by line: every check of `advanceFrame` in the order of the Go code, with the
Go error texts (they become the reason of the 1002 close frame), the state the checks read and write
(`readRemaining`, `readFinal`, `readLength`, `readDecompress`, `readMaskKey`, `readMaskPos`), the
int64 corner cases (`setReadRemaining` of a negative value, `readLength` overflow), the frames the
reader writes back (pong, close echo, 1002, 1009) and `ErrCloseSent` after a close was written.

Abstractions (stated as assumptions in the evidence):
* bufio/TCP chunking is invisible: `c.br.Read` is modelled as delivering the rest of the frame at
  once (`mask_append` in Props/C30 is what makes the chunked unmasking equal to this);
* flate is the parameter `cfg.inflate`, applied to the whole compressed message followed by the
  `00 00 ff ff` tail; the real reader inflates while frames arrive, so for a *corrupt* or
  *over-limit* compressed message that is fragmented the real reader may stop earlier.
Go slice/index operations that would panic when out of range are explicit `panic` outcomes.
-/
namespace CentrifugeVerif.WS.Reader
open CentrifugeVerif.WS

/-- errors `advanceFrame`/`Read` can return -/
inductive RErr where
  | eof                                   -- errUnexpectedEOF = CloseError{1006, "unexpected EOF"}
  | eofRaw                                -- io.EOF from io.CopyN while skipping a frame remainder
  | proto (msg : String)                  -- errors.New("websocket: " + msg) after handleProtocolError
  | readLimit                             -- ErrReadLimit
  | close (code : Nat) (text : Bytes)     -- *CloseError for a received close frame
  | unexpectedData                        -- "internal error, unexpected text or binary in Reader"
  | inflate                               -- error of the flate reader
  | panic (what : String)                 -- index / slice out of range
  | fuel                                  -- artefact of the fuelled loop (proved unreachable)
deriving Repr, DecidableEq, Inhabited

/-- lenient branches taken (places where the Go reader accepts what the RFCs tell it to reject, or
fails without the close frame the property asks for) -/
inductive Dev where
  | rsv1Control | rsv1Continuation | close1 | len64Msb | lengthOverflow
deriving Repr, DecidableEq, Inhabited

structure RState where
  input : Bytes
  readRemaining : Nat := 0
  readFinal : Bool := true
  readLength : Nat := 0
  readDecompress : Bool := false
  maskKey : Key := Key.zero
  maskPos : Nat := 0
  /-- frames written to the peer, in order -/
  written : List WFrame := []
  /-- handler and message events, in order -/
  events : List Event := []
  /-- `writeErr == ErrCloseSent` -/
  closeSent : Bool := false
  devs : List Dev := []
  /-- the error that ended the read loop -/
  result : Option RErr := none
deriving Repr

inductive Adv where
  | ok (frameType : Nat) (st : RState)
  | err (e : RErr) (st : RState)

/-- `validReceivedCloseCodes[code] || (code >= 3000 && code <= 4999)` -/
def goValidCloseCode (c : Nat) : Bool :=
  c == 1000 || c == 1001 || c == 1002 || c == 1003 || c == 1007 || c == 1008 || c == 1009
  || c == 1010 || c == 1011 || c == 1012 || c == 1013 || (3000 ≤ c && c ≤ 4999)

/-- `FormatCloseMessage` -/
def formatClose (code : Nat) (text : Bytes) : Bytes :=
  if code == 1005 then [] else toBE 2 code ++ text

/-- `WriteControl` as the reader uses it (payload ≤ 125 is guaranteed by the callers; a longer one
returns errInvalidControlFrame and writes nothing).  Returns whether the write happened. -/
def writeControl (st : RState) (op : Nat) (data : Bytes) : RState × Bool :=
  if data.length > 125 then (st, false)
  else if st.closeSent then (st, false)
  else ({ st with written := st.written ++ [⟨op, data⟩], closeSent := st.closeSent || op == opClose }, true)

/-- `handleProtocolError` -/
def handleProtocolError (st : RState) (msg : String) : Adv :=
  let data := (formatClose 1002 msg.toUTF8.toList).take 125
  .err (.proto msg) (writeControl st opClose data).1

/-- `c.read(n)`: `n` bytes or `errUnexpectedEOF` (whatever was available is discarded). -/
def readN (st : RState) (n : Nat) : Option (Bytes × RState) :=
  if st.input.length < n then none
  else some (st.input.take n, { st with input := st.input.drop n })

def advanceFrame (cfg : Cfg) (st0 : RState) : Adv :=
  -- 1. Skip remainder of previous frame.
  let skipped : Option RState :=
    if st0.readRemaining > 0 then
      if st0.input.length < st0.readRemaining then none
      else some { st0 with input := st0.input.drop st0.readRemaining }
    else some st0
  match skipped with
  | none => .err .eofRaw { st0 with input := [] }
  | some st =>
  -- 2. Read and parse first two bytes of frame header.
  match readN st 2 with
  | none => .err .eof { st with input := [] }
  | some (p, st) =>
  match p with
  | [p0, p1] =>
    let frameType := (p0 &&& 0xf).toNat
    let final := p0 &&& 0x80 != 0
    let rsv1 := p0 &&& 0x40 != 0
    let rsv2 := p0 &&& 0x20 != 0
    let rsv3 := p0 &&& 0x10 != 0
    let mask := p1 &&& 0x80 != 0
    let st := { st with readRemaining := (p1 &&& 0x7f).toNat, readDecompress := false }
    let errs : List String := []
    let (st, errs) :=
      if rsv1 then
        if cfg.deflate then
          ({ st with readDecompress := true,
                     devs := if isControlOp frameType then st.devs ++ [Dev.rsv1Control]
                             else if frameType == 0 then st.devs ++ [Dev.rsv1Continuation]
                             else st.devs }, errs)
        else (st, errs ++ ["RSV1 set"])
      else (st, errs)
    let errs := if rsv2 then errs ++ ["RSV2 set"] else errs
    let errs := if rsv3 then errs ++ ["RSV3 set"] else errs
    let (st, errs) :=
      if isControlOp frameType then
        let errs := if st.readRemaining > 125 then errs ++ ["len > 125 for control"] else errs
        let errs := if !final then errs ++ ["FIN not set on control"] else errs
        (st, errs)
      else if isDataOp frameType then
        let errs := if !st.readFinal then errs ++ ["data before FIN"] else errs
        ({ st with readFinal := final }, errs)
      else if frameType == 0 then
        let errs := if st.readFinal then errs ++ ["continuation after FIN"] else errs
        ({ st with readFinal := final }, errs)
      else (st, errs ++ ["bad opcode " ++ toString frameType])
    let errs := if mask != cfg.server then errs ++ ["bad MASK"] else errs
    if !errs.isEmpty then handleProtocolError st (", ".intercalate errs) else
    -- 3. Read and parse frame length.
    let lenRes : Except (RErr × RState) RState :=
      if st.readRemaining == 126 then
        match readN st 2 with
        | none => .error (.eof, { st with input := [] })
        | some (p, st) => .ok { st with readRemaining := beVal p }
      else if st.readRemaining == 127 then
        match readN st 8 with
        | none => .error (.eof, { st with input := [] })
        | some (p, st) =>
          -- setReadRemaining(int64(uint64)): negative → ErrReadLimit, nothing is written
          if beVal p ≥ two63 then .error (.readLimit, { st with devs := st.devs ++ [Dev.len64Msb] })
          else .ok { st with readRemaining := beVal p }
      else .ok st
    match lenRes with
    | .error (e, st) => .err e st
    | .ok st =>
    -- 4. Handle frame masking.
    let maskRes : Option RState :=
      if mask then
        match readN st 4 with
        | some ([a, b, c, d], st) => some { st with maskKey := ⟨a, b, c, d⟩, maskPos := 0 }
        | _ => none
      else some st
    match maskRes with
    | none => .err .eof { st with input := [] }
    | some st =>
    -- 5. For text and binary messages, enforce read limit and return.
    if frameType == 0 || isDataOp frameType then
      let st := { st with readLength := st.readLength + st.readRemaining }
      if st.readLength ≥ two63 then
        .err .readLimit { st with devs := st.devs ++ [Dev.lengthOverflow] }
      else if cfg.readLimit > 0 && st.readLength > cfg.readLimit then
        .err .readLimit (writeControl st opClose (formatClose 1009 [])).1
      else .ok frameType st
    else
    -- 6. Read control frame payload.
    let payRes : Option (Bytes × RState) :=
      if st.readRemaining > 0 then
        match readN st st.readRemaining with
        | none => none
        | some (p, st) =>
          some (if cfg.server then xorMask st.maskKey 0 p else p, { st with readRemaining := 0 })
      else some ([], st)
    match payRes with
    | none => .err .eof { st with input := [], readRemaining := 0 }
    | some (payload, st) =>
    -- 7. Process control frame payload.
    if frameType == opPong then
      .ok frameType { st with events := st.events ++ [.pong payload] }
    else if frameType == opPing then
      -- defaultPingHandler: ErrCloseSent is swallowed
      let st := { st with events := st.events ++ [.ping payload] }
      .ok frameType (writeControl st opPong payload).1
    else
      -- CloseMessage
      match payload with
      | a :: b :: text =>
        let code := a.toNat * 256 + b.toNat
        if !goValidCloseCode code then handleProtocolError st ("bad close code " ++ toString code)
        else if !utf8Valid text then handleProtocolError st "invalid utf8 payload in close frame"
        else .err (.close code text) (writeControl st opClose (formatClose code [])).1
      | rest =>
        let st := if rest.length == 1 then { st with devs := st.devs ++ [Dev.close1] } else st
        .err (.close 1005 []) (writeControl st opClose (formatClose 1005 [])).1
  | _ => .err (.panic "header index") st

/-- which part of the `ReadMessage` loop the reader is in -/
inductive Mode where
  | idle                                            -- inside `NextReader`'s frame loop
  | inMsg (typ : Nat) (dec : Bool) (acc : Bytes)    -- inside `io.ReadAll(reader)`
deriving Repr, DecidableEq

def RErr.toEvent : RErr → Event
  | .eof => .incomplete
  | .eofRaw => .incomplete
  | .proto _ => .protoError
  | .readLimit => .tooBig
  | .close c t => .close c t
  | .inflate => .badData
  | .unexpectedData => .protoError
  | .panic _ => .protoError
  | .fuel => .incomplete

def finish (e : RErr) (st : RState) : RState :=
  { st with events := st.events ++ [e.toEvent], result := some e }

/-- the application loop `for { ReadMessage() ; stop on error }`, one frame-level step per unit of
fuel -/
def run (cfg : Cfg) : Nat → Mode → RState → RState
  | 0, _, st => finish .fuel st
  | n + 1, .idle, st =>
    match advanceFrame cfg st with
    | .err e st' => finish e st'
    | .ok ft st' =>
      if isDataOp ft then run cfg n (.inMsg ft st'.readDecompress []) st'
      else run cfg n .idle st'
  | n + 1, .inMsg typ dec acc, st =>
    if st.readRemaining > 0 then
      -- `c.br.Read` until the frame is exhausted or the stream ends
      if st.input.length < st.readRemaining then finish .eof { st with input := [] }
      else
        let chunk := st.input.take st.readRemaining
        let chunk := if cfg.server then xorMask st.maskKey st.maskPos chunk else chunk
        run cfg n (.inMsg typ dec (acc ++ chunk))
          { st with input := st.input.drop st.readRemaining, readRemaining := 0,
                    maskPos := (st.maskPos + st.readRemaining) % 4 }
    else if st.readFinal then
      -- message complete: io.EOF from messageReader; flate/limitedReader see the whole message
      let st := { st with readLength := 0 }
      if dec then
        match cfg.inflate (acc ++ deflateTail) with
        | none => finish .inflate st
        | some out =>
          if cfg.inflatedLimit > 0 && out.length > cfg.inflatedLimit then
            finish .readLimit
              (writeControl st opClose
                (formatClose 1009 "message too big after decompression".toUTF8.toList)).1
          else run cfg n .idle { st with events := st.events ++ [.msg typ out] }
      else run cfg n .idle { st with events := st.events ++ [.msg typ acc] }
    else
      match advanceFrame cfg st with
      | .err e st' => finish e st'
      | .ok ft st' =>
        if isDataOp ft then finish .unexpectedData st'
        else run cfg n (.inMsg typ dec acc) st'

def fuelFor (input : Bytes) : Nat := 3 * input.length + 3

/-- A fresh connection reading `input` until the first error. -/
def runReader (cfg : Cfg) (input : Bytes) : RState :=
  run cfg (fuelFor input) .idle { input := input }

end CentrifugeVerif.WS.Reader
