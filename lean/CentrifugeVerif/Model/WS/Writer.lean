import CentrifugeVerif.Model.WS.Basic
/-!
Model of the write side of `internal/websocket`: `messageWriter` (`Write`, `ncopy`, `flushFrame`,
`Close`), `WriteMessage` (fast path and `NextWriter` path), `WriteControl`, `WritePreparedMessage`
(a frame prepared by a fake connection with the default 4096-byte buffer), `truncWriter`
(compression.go) and the word-at-a-time `maskBytes` (mask.go).

Not modelled: flate itself (the compressed stream arrives as an arbitrary list of chunks), the
random mask keys (`keyAt i` is the key drawn for the `i`-th masked frame), deadlines, the write
buffer pool, concurrent writers (`c.mu`).
-/
namespace CentrifugeVerif.WS.Writer
open CentrifugeVerif.WS

inductive WErr where
  | badOpCode             -- errBadWriteOpCode
  | invalidControl        -- errInvalidControlFrame
  | closeSent             -- ErrCloseSent (writeErr after a close frame was written)
  | writeClosed           -- errWriteClosed: the message writer was closed/failed already
  | extraInClient         -- "internal error, extra used in client mode"
  | flateTail             -- "internal error, unexpected bytes at end of flate stream"
deriving Repr, DecidableEq, Inhabited

structure WCfg where
  server : Bool
  /-- `writeBufferSize` (> 0): data capacity of `writeBuf`, whose length is `bufSize + 14` -/
  bufSize : Nat
  /-- compression negotiated and enabled (`newCompressionWriter != nil && enableWriteCompression`) -/
  compress : Bool
  /-- mask key drawn for the i-th masked frame -/
  keyAt : Nat → Key

/-- connection-level write state -/
structure WConn where
  wire : Bytes := []
  /-- number of mask keys drawn so far -/
  nkeys : Nat := 0
  /-- `writeErr == ErrCloseSent` -/
  closeSent : Bool := false
deriving Repr, DecidableEq

/-- `messageWriter` -/
structure MW where
  /-- `writeBuf[maxFrameHeaderSize:pos]` -/
  buf : Bytes := []
  frameType : Nat
  compress : Bool := false
  err : Option WErr := none
deriving Repr, DecidableEq

/-- the frame header `flushFrame` builds: first byte `b0`, mask bit, 7/16/64-bit length form -/
def encHeader (b0 : UInt8) (masked : Bool) (len : Nat) : Bytes :=
  let b1 : UInt8 := if masked then 0x80 else 0
  if len ≥ 65536 then [b0, b1 ||| 127] ++ toBE 8 len
  else if len > 125 then [b0, b1 ||| 126] ++ toBE 2 len
  else [b0, b1 ||| UInt8.ofNat len]

def firstByte (final rsv1 : Bool) (op : Nat) : UInt8 :=
  UInt8.ofNat op ||| (if final then 0x80 else 0) ||| (if rsv1 then 0x40 else 0)

/-- `c.write`: nothing is written once `writeErr` is set; a close frame sets it. -/
def connWrite (c : WConn) (frameType : Nat) (bytes : Bytes) : WConn × Option WErr :=
  if c.closeSent then (c, some .closeSent)
  else ({ c with wire := c.wire ++ bytes, closeSent := frameType == opClose }, none)

/-- `messageWriter.endMessage` keeps the first error -/
def endMessage (w : MW) (e : WErr) : MW := if w.err.isSome then w else { w with err := some e }

/-- `messageWriter.flushFrame(final, extra)` -/
def flushFrame (cfg : WCfg) (c : WConn) (w : MW) (final : Bool) (extra : Bytes) :
    WConn × MW × Option WErr :=
  let length := w.buf.length + extra.length
  if isControlOp w.frameType && (!final || length > 125) then
    (c, endMessage w .invalidControl, some .invalidControl)
  else
    let b0 := firstByte final w.compress w.frameType
    let w := { w with compress := false }
    let hdr := encHeader b0 (!cfg.server) length
    if !cfg.server then
      let key := cfg.keyAt c.nkeys
      let c := { c with nkeys := c.nkeys + 1 }
      if extra.length > 0 then (c, endMessage w .extraInClient, some .extraInClient)
      else
        match connWrite c w.frameType (hdr ++ key.toBytes ++ xorMask key 0 w.buf) with
        | (c, some e) => (c, endMessage w e, some e)
        | (c, none) =>
          if final then (c, endMessage w .writeClosed, none)
          else (c, { w with buf := [], frameType := 0 }, none)
    else
      match connWrite c w.frameType (hdr ++ w.buf ++ extra) with
      | (c, some e) => (c, endMessage w e, some e)
      | (c, none) =>
        if final then (c, endMessage w .writeClosed, none)
        else (c, { w with buf := [], frameType := 0 }, none)

/-- the copy loop of `messageWriter.Write` (`ncopy` + `copy`), fuelled by the length of `p` -/
def writeLoop (cfg : WCfg) : Nat → WConn → MW → Bytes → WConn × MW × Option WErr
  | 0, c, w, _ => (c, w, none)
  | fuel + 1, c, w, p =>
    if p.isEmpty then (c, w, none) else
    let n := cfg.bufSize - w.buf.length
    if n == 0 then
      match flushFrame cfg c w false [] with
      | (c, w, some e) => (c, w, some e)
      | (c, w, none) =>
        let n := min cfg.bufSize p.length
        writeLoop cfg fuel c { w with buf := w.buf ++ p.take n } (p.drop n)
    else
      let n := min n p.length
      writeLoop cfg fuel c { w with buf := w.buf ++ p.take n } (p.drop n)

/-- `messageWriter.Write(p)` -/
def mwWrite (cfg : WCfg) (c : WConn) (w : MW) (p : Bytes) : WConn × MW × Option WErr :=
  match w.err with
  | some e => (c, w, some e)
  | none =>
    if p.length > 2 * (cfg.bufSize + 14) && cfg.server then
      -- Don't buffer large messages.
      flushFrame cfg c w false p
    else writeLoop cfg (p.length + 1) c w p

/-- the loop of `messageWriter.ReadFrom(r)` for a reader that hands out everything it has: flush
when the buffer is full (checked before every `Read`, also before the one that reports EOF) -/
def readFromLoop (cfg : WCfg) : Nat → WConn → MW → Bytes → WConn × MW × Option WErr
  | 0, c, w, _ => (c, w, none)
  | fuel + 1, c, w, p =>
    let flushed : WConn × MW × Option WErr :=
      if w.buf.length == cfg.bufSize then flushFrame cfg c w false [] else (c, w, none)
    match flushed with
    | (c, w, some e) => (c, w, some e)
    | (c, w, none) =>
      if p.isEmpty then (c, w, none)
      else
        let n := min (cfg.bufSize - w.buf.length) p.length
        readFromLoop cfg fuel c { w with buf := w.buf ++ p.take n } (p.drop n)

/-- `NextWriter(typ)`, `ReadFrom(data)`, `Close` (uncompressed) -/
def writeReadFrom (cfg : WCfg) (c : WConn) (typ : Nat) (data : Bytes) : WConn × Option WErr :=
  if !(isControlOp typ || isDataOp typ) then (c, some .badOpCode)
  else if c.closeSent then (c, some .closeSent)
  else
    let w : MW := { frameType := typ }
    match readFromLoop cfg (data.length + 2) c w data with
    | (c, _, some e) => (c, some e)
    | (c, w, none) =>
      match w.err with
      | some e => (c, some e)
      | none =>
        match flushFrame cfg c w true [] with
        | (c, _, e) => (c, e)

/-- `messageWriter.WriteString(p)`: the copy loop only (no large-message shortcut) -/
def mwWriteString (cfg : WCfg) (c : WConn) (w : MW) (p : Bytes) : WConn × MW × Option WErr :=
  match w.err with
  | some e => (c, w, some e)
  | none => writeLoop cfg (p.length + 1) c w p

/-- `messageWriter.Close()` -/
def mwClose (cfg : WCfg) (c : WConn) (w : MW) : WConn × MW × Option WErr :=
  match w.err with
  | some e => (c, w, some e)
  | none => flushFrame cfg c w true []

/-- a sequence of `Write` calls -/
def mwWrites (cfg : WCfg) : WConn → MW → List Bytes → WConn × MW × Option WErr
  | c, w, [] => (c, w, none)
  | c, w, p :: ps =>
    match mwWrite cfg c w p with
    | (c, w, some e) => (c, w, some e)
    | (c, w, none) => mwWrites cfg c w ps

def mwWriteStrings (cfg : WCfg) : WConn → MW → List Bytes → WConn × MW × Option WErr
  | c, w, [] => (c, w, none)
  | c, w, p :: ps =>
    match mwWriteString cfg c w p with
    | (c, w, some e) => (c, w, some e)
    | (c, w, none) => mwWriteStrings cfg c w ps

/-- `beginMessage`: opcode check, then `writeErr` -/
def beginMessage (c : WConn) (typ : Nat) : Option WErr :=
  if !(isControlOp typ || isDataOp typ) then some .badOpCode
  else if c.closeSent then some .closeSent
  else none

/-- `NextWriter(typ)`, the given `Write` calls on the message writer, `Close`.  For a compressed
message `chunks` are what `truncWriter` passes down and `compressed = true` sets RSV1. -/
def writeStreamed (cfg : WCfg) (c : WConn) (typ : Nat) (compressed : Bool) (chunks : List Bytes) :
    WConn × Option WErr :=
  match beginMessage c typ with
  | some e => (c, some e)
  | none =>
    let w : MW := { frameType := typ, compress := compressed }
    match mwWrites cfg c w chunks with
    | (c, _, some e) => (c, some e)
    | (c, w, none) =>
      match mwClose cfg c w with
      | (c, _, e) => (c, e)

/-- `NextWriter(typ)`, `WriteString` calls, `Close` (uncompressed) -/
def writeStrings (cfg : WCfg) (c : WConn) (typ : Nat) (chunks : List Bytes) : WConn × Option WErr :=
  match beginMessage c typ with
  | some e => (c, some e)
  | none =>
    let w : MW := { frameType := typ }
    match mwWriteStrings cfg c w chunks with
    | (c, _, some e) => (c, some e)
    | (c, w, none) =>
      match mwClose cfg c w with
      | (c, _, e) => (c, e)

/-- `WriteMessage(typ, data)` when no compression applies to it -/
def writeMessagePlain (cfg : WCfg) (c : WConn) (typ : Nat) (data : Bytes) : WConn × Option WErr :=
  if cfg.server && !cfg.compress then
    -- fast path: single frame, `extra` is what does not fit the buffer
    match beginMessage c typ with
    | some e => (c, some e)
    | none =>
      let w : MW := { frameType := typ, buf := data.take cfg.bufSize }
      match flushFrame cfg c w true (data.drop cfg.bufSize) with
      | (c, _, e) => (c, e)
  else writeStreamed cfg c typ false [data]

/-- `WriteControl(typ, data, deadline)` (deadline in the future, lock free) -/
def writeControl (cfg : WCfg) (c : WConn) (typ : Nat) (data : Bytes) : WConn × Option WErr :=
  if !isControlOp typ then (c, some .badOpCode)
  else if data.length > 125 then (c, some .invalidControl)
  else
    let b0 : UInt8 := UInt8.ofNat typ ||| 0x80
    if cfg.server then
      connWrite c typ ([b0, UInt8.ofNat data.length] ++ data)
    else
      let key := cfg.keyAt c.nkeys
      let c := { c with nkeys := c.nkeys + 1 }
      connWrite c typ ([b0, UInt8.ofNat data.length ||| 0x80] ++ key.toBytes ++ xorMask key 0 data)

/-- `truncWriter`: `held` are the (at most 4) bytes kept back -/
structure TW where
  held : Bytes := []
deriving Repr, DecidableEq

/-- `truncWriter.Write(p)`: the new state and the `Write` calls issued to the underlying writer -/
def twWrite (t : TW) (p : Bytes) : TW × List Bytes :=
  -- fill buffer first for simplicity (only then an exhausted `p` returns early)
  let k := if t.held.length < 4 then min (4 - t.held.length) p.length else 0
  let held := t.held ++ p.take k
  let p := p.drop k
  if t.held.length < 4 && p.isEmpty then ({ held := held }, [])
  else
    let m := min p.length 4
    ({ held := held.drop m ++ p.drop (p.length - m) }, [held.take m, p.take (p.length - m)])

def twWrites : TW → List Bytes → TW × List Bytes
  | t, [] => (t, [])
  | t, p :: ps =>
    let (t1, w1) := twWrite t p
    let (t2, w2) := twWrites t1 ps
    (t2, w1 ++ w2)

/-- `WriteMessage(typ, data)` of a data message with compression: `flate.Writer` → `truncWriter` →
message writer; `deflChunks` are the `Write` calls flate makes (its output for `data` followed by a
sync flush, in whatever pieces).  `flateWriteWrapper.Close` checks the four bytes kept back before
it closes the message writer. -/
def writeCompressed (cfg : WCfg) (c : WConn) (typ : Nat) (deflChunks : List Bytes) : WConn × Option WErr :=
  match beginMessage c typ with
  | some e => (c, some e)
  | none =>
    let (t, outs) := twWrites {} deflChunks
    match mwWrites cfg c { frameType := typ, compress := true } outs with
    | (c, _, some e) => (c, some e)
    | (c, w, none) =>
      if t.held != deflateTail then (c, some .flateTail)
      else
        match mwClose cfg c w with
        | (c, _, e) => (c, e)

/-- `WritePreparedMessage` of an uncompressed prepared message: the frames were produced by a fake
connection of the same side with the default 4096-byte buffer (mask keys continue the sequence) and
are written with one `c.write`. -/
def writePrepared (cfg : WCfg) (c : WConn) (typ : Nat) (data : Bytes) : WConn × Option WErr :=
  let pcfg : WCfg := { cfg with bufSize := 4096, compress := false }
  match writeMessagePlain pcfg { nkeys := c.nkeys } typ data with
  | (pc, some e) => ({ c with nkeys := pc.nkeys }, some e)
  | (pc, none) => connWrite { c with nkeys := pc.nkeys } typ pc.wire

/-- one write operation on a data message -/
inductive WOp where
  | message (typ : Nat) (data : Bytes)                   -- WriteMessage, no compression
  | streamed (typ : Nat) (pieces : List Bytes)           -- NextWriter, Write …, Close
  | strings (typ : Nat) (pieces : List Bytes)            -- NextWriter, WriteString …, Close
  | prepared (typ : Nat) (data : Bytes)                  -- WritePreparedMessage (uncompressed)
  | compressed (typ : Nat) (data : Bytes) (deflChunks : List Bytes)  -- WriteMessage with compression

def WOp.typ : WOp → Nat
  | .message t _ => t | .streamed t _ => t | .strings t _ => t | .prepared t _ => t | .compressed t _ _ => t

/-- the message bytes the application handed over -/
def WOp.data : WOp → Bytes
  | .message _ d => d | .streamed _ ps => ps.flatten | .strings _ ps => ps.flatten
  | .prepared _ d => d | .compressed _ d _ => d

def writeOp (cfg : WCfg) (c : WConn) : WOp → WConn × Option WErr
  | .message t d => writeMessagePlain cfg c t d
  | .streamed t ps => writeStreamed cfg c t false ps
  | .strings t ps => writeStrings cfg c t ps
  | .prepared t d => writePrepared cfg c t d
  | .compressed t _ chunks => writeCompressed cfg c t chunks

/-- a script of write operations: the connection afterwards and whether every write succeeded -/
def writeAll (cfg : WCfg) : WConn → List WOp → WConn × Bool
  | c, [] => (c, true)
  | c, op :: ops =>
    match writeOp cfg c op with
    | (c, some _) => (c, false)
    | (c, none) => writeAll cfg c ops

/-- `maskBytes` of mask.go for a slice whose first byte sits `align` bytes past a word boundary
(word size 8): bytes up to the boundary one at a time, whole words with the rotated key, the rest
one at a time.  Returns the masked bytes and the new key position. -/
def maskWordsGo (k : Key) (pos : Nat) (align : Nat) (b : Bytes) : Bytes × Nat :=
  if b.length < 16 then (xorMask k pos b, (pos + b.length) % 4)
  else
    let n := if align % 8 == 0 then 0 else 8 - align % 8
    let head := xorMask k pos (b.take n)
    let pos := pos + n
    let b := b.drop n
    let nw := (b.length / 8) * 8
    -- the word key is k[(pos+i)&3] for i in 0..7; XOR word by word
    let kw : Key := ⟨k.get pos, k.get (pos + 1), k.get (pos + 2), k.get (pos + 3)⟩
    let mid := xorMask kw 0 (b.take nw)
    let tail := xorMask k pos (b.drop nw)
    (head ++ mid ++ tail, (pos + (b.length - nw)) % 4)

end CentrifugeVerif.WS.Writer
