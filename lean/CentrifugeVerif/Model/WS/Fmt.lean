import CentrifugeVerif.DriverLib
import CentrifugeVerif.Model.WS.Reader
import CentrifugeVerif.Spec.WSSpec
/-!
Line-protocol formatting shared by the C29 and C30 drivers.  `rdStep` handles
`rd side=s|c comp=0|1 rl=N dl=N h=0|1 data=<hex> inf=<hexin>:<hexout|!>,…`
(other keys are for the Go harness only) and prints
`M ev=<events> w=<written frames> dev=<lenient branches> S ev=<spec events>`.
-/
namespace CentrifugeVerif.WS.Fmt
open CentrifugeVerif DriverLib WS

def evStr (showCtl : Bool) (es : List Event) : String :=
  let strs := es.filterMap fun e =>
    match e with
    | .msg t d => some s!"m{t}:{hex d}"
    | .ping d => if showCtl then some s!"pi:{hex d}" else none
    | .pong d => if showCtl then some s!"po:{hex d}" else none
    | .close c r => some s!"cl:{c}:{hex r}"
    | .protoError => some "proto"
    | .tooBig => some "toobig"
    | .incomplete => some "eof"
    | .badData => some "baddata"
  if strs.isEmpty then "-" else joinWith "," strs

def hex2 (n : Nat) : String := String.ofList [hexNibble (n / 16 % 16), hexNibble (n % 16)]

def wStr (ws : List WFrame) : String :=
  if ws.isEmpty then "-" else joinWith "," (ws.map fun f => s!"{hex2 (128 + f.opcode)}:{hex f.payload}")

def devStr (ds : List Reader.Dev) : String :=
  if ds.isEmpty then "-" else joinWith "," (ds.map fun d =>
    match d with
    | .len64Msb => "msb")

def parseInf (s : String) : Option (List (Bytes × Option Bytes)) :=
  if s == "" || s == "-" then some [] else
  (s.splitOn ",").mapM fun pair =>
    match pair.splitOn ":" with
    | [k, v] =>
      match unhex k with
      | none => none
      | some kb => if v == "!" then some (kb, none) else (unhex v).map fun vb => (kb, some vb)
    | _ => none

def lookupInf (tbl : List (Bytes × Option Bytes)) (k : Bytes) : Option Bytes :=
  match tbl.find? (fun p => p.1 == k) with
  | some (_, v) => v
  | none => none

/-- model events: the terminal event is replaced by the precise Go error class -/
def modelEv (showCtl : Bool) (st : Reader.RState) : String :=
  let base := st.events.dropLast
  let last := match st.result with
    | some .eofRaw => "eofraw"
    | some .unexpectedData => "internal"
    | some (.panic _) => "PANIC"
    | some .fuel => "FUEL"
    | _ => evStr true (st.events.drop (st.events.length - 1))
  let b := evStr showCtl base
  if b == "-" then last else b ++ "," ++ last

def rdStep (line : String) : String :=
  match words line with
  | "rd" :: ws =>
    match kv ws "side", kvNat ws "comp", kvNat ws "rl", kvNat ws "dl", kvNat ws "h",
          (kv ws "data").bind unhex, parseInf ((kv ws "inf").getD "-") with
    | some side, some comp, some rl, some dl, some h, some data, some tbl =>
      let cfg : Cfg := { server := side == "s", deflate := comp == 1, readLimit := rl,
                         inflatedLimit := dl, inflate := lookupInf tbl }
      let st := Reader.runReader cfg data
      let sp := Spec.decode cfg Reader.goValidCloseCode data
      let sq := Spec.decodeWith Spec.Quirks.go cfg Reader.goValidCloseCode data
      s!"M ev={modelEv (h == 1) st} w={wStr st.written} dev={devStr st.devs} S ev={evStr (h == 1) sp} Q ev={evStr (h == 1) sq}"
    | _, _, _, _, _, _, _ => "bad-op"
  | _ => "bad-op"

end CentrifugeVerif.WS.Fmt
