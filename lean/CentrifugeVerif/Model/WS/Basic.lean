/-
Shared definitions for the WebSocket models and the RFC 6455 / RFC 7692 receiver specification
(C29, C30).  Core Lean only.

* `Bytes` are `List UInt8`.
* `Key`/`xorMask`: RFC 6455 §5.3 masking; byte `i` of the payload is XORed with key byte `i mod 4`.
  `xorMask key pos` starts at key position `pos` (the Go reader carries `readMaskPos` across reads).
* `utf8Valid`: well-formed UTF-8 (Unicode Table 3-7), what Go's `utf8.ValidString` accepts.
* `be16`/`be64`/`toBE`: network byte order.
* `Event`: what a reader reports to the application, `WFrame`: a control frame written back.
-/
namespace CentrifugeVerif.WS

abbrev Bytes := List UInt8

/-- 4-byte masking key. -/
structure Key where
  k0 : UInt8
  k1 : UInt8
  k2 : UInt8
  k3 : UInt8
deriving Repr, DecidableEq, Inhabited

def Key.get (k : Key) (i : Nat) : UInt8 :=
  match i % 4 with
  | 0 => k.k0
  | 1 => k.k1
  | 2 => k.k2
  | _ => k.k3

def Key.zero : Key := ⟨0, 0, 0, 0⟩
def Key.toBytes (k : Key) : Bytes := [k.k0, k.k1, k.k2, k.k3]

/-- byte-wise masking starting at key position `pos` (`maskBytes` in mask_safe.go). -/
def xorMask (k : Key) : Nat → Bytes → Bytes
  | _, [] => []
  | pos, b :: bs => (b ^^^ k.get pos) :: xorMask k (pos + 1) bs

/-- big-endian value of a byte list -/
def beVal : Bytes → Nat
  | bs => bs.foldl (fun acc b => acc * 256 + b.toNat) 0

/-- `n` as exactly `w` big-endian bytes (low `8w` bits) -/
def toBE : Nat → Nat → Bytes
  | 0, _ => []
  | w + 1, n => UInt8.ofNat (n / 256 ^ w) :: toBE w n

def isCont (b : UInt8) : Bool := 0x80 ≤ b && b ≤ 0xBF

/-- well-formed UTF-8 byte sequences (Unicode 15, Table 3-7): no overlong forms, no surrogates,
nothing above U+10FFFF. -/
def utf8Valid : Bytes → Bool
  | [] => true
  | b :: rest =>
    if b < 0x80 then utf8Valid rest
    else if 0xC2 ≤ b && b ≤ 0xDF then
      match rest with
      | c1 :: r => isCont c1 && utf8Valid r
      | _ => false
    else if 0xE0 ≤ b && b ≤ 0xEF then
      match rest with
      | c1 :: c2 :: r =>
        (if b == 0xE0 then 0xA0 ≤ c1 && c1 ≤ 0xBF
         else if b == 0xED then 0x80 ≤ c1 && c1 ≤ 0x9F
         else isCont c1) && isCont c2 && utf8Valid r
      | _ => false
    else if 0xF0 ≤ b && b ≤ 0xF4 then
      match rest with
      | c1 :: c2 :: c3 :: r =>
        (if b == 0xF0 then 0x90 ≤ c1 && c1 ≤ 0xBF
         else if b == 0xF4 then 0x80 ≤ c1 && c1 ≤ 0x8F
         else isCont c1) && isCont c2 && isCont c3 && utf8Valid r
      | _ => false
    else false

/-- What the application observes from a reader.  `close`, `protoError`, `tooBig`, `incomplete`
and `badData` are terminal. -/
inductive Event where
  | msg (typ : Nat) (data : Bytes)      -- 1 = text, 2 = binary
  | ping (data : Bytes)
  | pong (data : Bytes)
  | close (code : Nat) (reason : Bytes)
  | protoError
  | tooBig
  | incomplete                          -- the byte stream ended (between or inside frames)
  | badData                             -- a compressed message does not inflate
deriving Repr, DecidableEq, Inhabited

def Event.terminal : Event → Bool
  | .msg _ _ => false
  | .ping _ => false
  | .pong _ => false
  | _ => true

/-- A frame written back by the reader (always a FIN control frame from `WriteControl`). -/
structure WFrame where
  opcode : Nat
  payload : Bytes
deriving Repr, DecidableEq, Inhabited

def opText : Nat := 1
def opBinary : Nat := 2
def opClose : Nat := 8
def opPing : Nat := 9
def opPong : Nat := 10

/-- The first two bytes of a frame (RFC 6455 §5.2). -/
structure Hdr where
  fin : Bool
  rsv1 : Bool
  rsv2 : Bool
  rsv3 : Bool
  opcode : Nat
  masked : Bool
  len7 : Nat
deriving Repr, DecidableEq, Inhabited

def parseHdr (b0 b1 : UInt8) : Hdr :=
  { fin := b0 &&& 0x80 != 0, rsv1 := b0 &&& 0x40 != 0, rsv2 := b0 &&& 0x20 != 0,
    rsv3 := b0 &&& 0x10 != 0, opcode := (b0 &&& 0x0f).toNat, masked := b1 &&& 0x80 != 0,
    len7 := (b1 &&& 0x7f).toNat }

def isControlOp (op : Nat) : Bool := op == 8 || op == 9 || op == 10
def isDataOp (op : Nat) : Bool := op == 1 || op == 2

/-- Receiver configuration shared by the specification and the model of the Go reader. -/
structure Cfg where
  /-- the receiver is the server side (peer frames must be masked) -/
  server : Bool
  /-- permessage-deflate was negotiated (Go: `newDecompressionReader != nil`) -/
  deflate : Bool
  /-- limit on the wire size of a message, 0 = none (Go: `readLimit`) -/
  readLimit : Nat
  /-- limit on the inflated size of a compressed message, 0 = none (Go: `decompressedReadLimit`) -/
  inflatedLimit : Nat
  /-- raw DEFLATE decoding of a complete stream; `none` = corrupt data (a parameter: flate is not
  modelled) -/
  inflate : Bytes → Option Bytes

/-- A started, unfinished data message: type of the first frame, whether its RSV1 bit was set,
the (unmasked) payload bytes so far. -/
structure Frag where
  typ : Nat
  compressed : Bool
  acc : Bytes
deriving Repr, DecidableEq

/-- the 4 bytes RFC 7692 §7.2.2 tells the receiver to append before inflating -/
def deflateTail : Bytes := [0x00, 0x00, 0xff, 0xff]

def two63 : Nat := 9223372036854775808

end CentrifugeVerif.WS
