import CentrifugeVerif.Model.HistoryHub
/-
Model of the client commands `history`, `presence`, `presence_stats` (`client.go`:
`handleHistory`, `handlePresence`, `handlePresenceStats`), of `Node.History` (`node.go`: `history`)
and of the memory presence hub (`presence_memory.go`).  Core Lean only.

Go facts mirrored here:
* `handleHistory`: no history handler ⇒ `ErrorNotAvailable` (108); empty channel ⇒
  `DisconnectBadRequest` (3501).  The filter handed to the handler is
  `{Since: req.Since, Limit: int(req.Limit), Reverse: req.Reverse}` with
  `Limit = HistoryMaxPublicationLimit` when that is `> 0` and the requested limit is negative or
  larger than it.  With the pass-through handler (`cb(HistoryReply{}, nil)`) the reply is
  `Node.History(channel, WithHistoryFilter(filter))`; an `*Error` from it becomes an error reply with
  that code.
* `Node.history`: `Reverse && Since != nil && Since.Offset == 0` ⇒ `ErrorBadRequest` (107) before
  the broker is touched; otherwise the broker is read (meta TTL option 0); when `Since` is set and
  its epoch is non-empty and differs from the stream's, the result is
  `ErrorUnrecoverablePosition` (112) — the broker call has already happened.
* presence: `presenceHub` is a map channel → (client id → info); `getStats` counts clients and
  distinct user ids; the command replies carry the node-level result converted field by field
  (`NumClients`/`NumUsers` through `uint32(…)`).
-/
namespace CentrifugeVerif.HistoryCmd
open CentrifugeVerif.MemStream CentrifugeVerif.HistoryHub

/-- `protocol.HistoryRequest` (`limit` is an int32) -/
structure HistReq where
  channel : String
  since : Option Pos := none
  limit : Int := 0
  reverse : Bool := false
deriving Repr, DecidableEq

/-- the filter `handleHistory` passes on (`maxLimit` = `Config.HistoryMaxPublicationLimit`) -/
def effFilter (maxLimit : Int) (req : HistReq) : Filter :=
  { since := req.since,
    limit := if maxLimit > 0 ∧ (req.limit < 0 ∨ req.limit > maxLimit) then maxLimit else req.limit,
    reverse := req.reverse }

inductive Res (α : Type)
  | ok (a : α)
  /-- error reply with this code -/
  | error (code : Nat)
  /-- the connection is closed with this disconnect code -/
  | disconnect (code : Nat)
deriving Repr, DecidableEq

def errBadRequest : Nat := 107
def errNotAvailable : Nat := 108
def errUnrecoverablePosition : Nat := 112
def discBadRequest : Nat := 3501

abbrev HistResult := List (Item Pub) × Pos

/-- `Node.History(ch, WithHistoryFilter(f))` over the memory broker at time `now` (ms) -/
def nodeHistory (b : Broker) (ch : String) (f : Filter) (now : Nat) : Broker × Res HistResult :=
  match f.since with
  | some s =>
    if f.reverse ∧ s.offset = 0 then (b, .error errBadRequest)
    else
      let r := b.history ch f 0 now
      if s.epoch = 0 ∨ s.epoch = r.2.2.epoch then (r.1, .ok r.2) else (r.1, .error errUnrecoverablePosition)
  | none =>
    let r := b.history ch f 0 now
    (r.1, .ok r.2)

/-- `handleHistory` with the pass-through handler (`handler = false`: no handler installed) -/
def historyCmd (handler : Bool) (maxLimit : Int) (b : Broker) (req : HistReq) (now : Nat) :
    Broker × Res HistResult :=
  if !handler then (b, .error errNotAvailable)
  else if req.channel = "" then (b, .disconnect discBadRequest)
  else nodeHistory b req.channel (effFilter maxLimit req) now

/-- the single-flight key of `Node.historySingleFlight`, as the tuple of the components the code
writes into the key string: channel, `Since` (offset and epoch, only when set), limit
(**unconditionally**), reverse, meta TTL.  (`props/C43/check.py` pins this shape against the
source of `historySingleFlight`; the string encoding itself is not modelled.) -/
structure HistoryKey where
  channel : String
  since : Option (Nat × Nat)
  limit : Int
  reverse : Bool
  metaTTL : Nat
deriving Repr, DecidableEq

def historyKey (ch : String) (f : Filter) (metaTTL : Nat) : HistoryKey :=
  { channel := ch, since := f.since.map fun p => (p.offset, p.epoch), limit := f.limit,
    reverse := f.reverse, metaTTL := metaTTL }

/-! ### presence -/

structure Info where
  client : String
  user : String
deriving Repr, DecidableEq

/-- `presenceHub.presence`: channel → entries keyed by client id (at most one per client id) -/
abbrev Presence := String → List Info

def presenceAdd (p : Presence) (ch : String) (i : Info) : Presence :=
  fun c => if c = ch then i :: (p c).filter (fun x => x.client ≠ i.client) else p c

def presenceRemove (p : Presence) (ch client : String) : Presence :=
  fun c => if c = ch then (p c).filter (fun x => x.client ≠ client) else p c

/-- `Node.Presence` (as a client-id-keyed association list) -/
def nodePresence (p : Presence) (ch : String) : List Info := p ch

def distinctUsers : List Info → List String
  | [] => []
  | i :: rest => if i.user ∈ distinctUsers rest then distinctUsers rest else i.user :: distinctUsers rest

/-- `Node.PresenceStats`: (NumClients, NumUsers) -/
def nodePresenceStats (p : Presence) (ch : String) : Nat × Nat :=
  ((p ch).length, (distinctUsers (p ch)).length)

/-- `handlePresence` with the pass-through handler; `infoToProto` copies client and user -/
def presenceCmd (handler : Bool) (p : Presence) (ch : String) : Res (List Info) :=
  if !handler then .error errNotAvailable
  else if ch = "" then .disconnect discBadRequest
  else .ok ((nodePresence p ch).map fun i => { client := i.client, user := i.user })

/-- `handlePresenceStats` with the pass-through handler; the counts go through `uint32(…)` -/
def presenceStatsCmd (handler : Bool) (p : Presence) (ch : String) : Res (Nat × Nat) :=
  if !handler then .error errNotAvailable
  else if ch = "" then .disconnect discBadRequest
  else
    let s := nodePresenceStats p ch
    .ok (s.1 % 4294967296, s.2 % 4294967296)

end CentrifugeVerif.HistoryCmd
