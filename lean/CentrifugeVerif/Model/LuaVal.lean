/-
Lua 5.1 value semantics for the subset used by `/repo/internal/redis_lua/*.lua` (the Lua VM embedded
in Redis).  Core Lean only.  TRUSTED MODEL: this file is hand-written from the Lua 5.1 reference
manual and `lvm.c`/`lobject.c`; nothing checks it against a real Lua VM (there is none in the
sandbox).

Conventions
* Strings are **byte strings**.  A Lean `String` stands for the byte string whose bytes are the code
  points of its characters (Latin-1 convention: every `Char` < 256).  Under this convention
  `String.length` is `#s`, lexicographic `<` on `String` is `strcmp`/`strcoll` in the C locale, and
  concatenation is byte concatenation.  The drivers build such strings from hex.
* Numbers are IEEE doubles.  Only **integer-valued** doubles are represented (`LVal.num (i : Int)`
  with `i = round53 i`); every operation that produces a number rounds with `round53` (round to
  nearest, ties to even, 53 significant bits), so the loss of precision beyond 2^53 is explicit.
  Non-integer numerals (`"1.5"`, `"1e3"`, hex, `inf`, `nan`) are outside the model: `tonumber` on
  such a string raises `LuaErr.unsupported` (loud), never a wrong value.
* Tables are used by the scripts only as arrays (`{a, b}`, `t[i]`, `t[#t+1] = v`, `#t`, `unpack`,
  `ipairs`) with value semantics (the translator rejects aliasing that would make this unsound).
  `LVal.status s` is the table `{ok = s}` Redis builds for status replies.
* number → string (`tostring`, `..`) is `"%.14g"` (`LUAI_NUMFMT`).
-/
namespace CentrifugeVerif.Lua

inductive LuaErr
  /-- a Lua runtime error (`error()`, arithmetic on nil, comparing number with nil, an error reply
  raised by `redis.call`): the script aborts, Redis returns an error reply, effects so far stay -/
  | runtime (msg : String)
  /-- the input left the modelled subset -/
  | unsupported (msg : String)
deriving Repr, DecidableEq, Inhabited

inductive LVal
  | nil
  | bool (b : Bool)
  | num (i : Int)
  | str (s : String)
  | tbl (a : List LVal)
  | status (s : String)
deriving Repr, Inhabited

/-! ### numbers -/

/-- round an integer to the nearest double (ties to even); identity below 2^53 -/
def round53 (i : Int) : Int :=
  let n := i.natAbs
  let bits := if n = 0 then 0 else n.log2 + 1
  if bits ≤ 53 then i else
  let sh := bits - 53
  let q := n >>> sh
  let r := n % (2 ^ sh)
  let half := 2 ^ (sh - 1)
  let q' := if r > half ∨ (r = half ∧ q % 2 = 1) then q + 1 else q
  let m : Int := ((q' <<< sh : Nat) : Int)
  if i < 0 then -m else m


/-! ### kernel-reducible string helpers
(`String.splitOn`, `toNat?`, `toLower`, `startsWith`, `all` are implemented with well-founded
recursion over byte positions and do not reduce under `decide`; these list-based versions do.) -/

def strLower (s : String) : String := String.ofList (s.toList.map Char.toLower)
def hasPrefix (s p : String) : Bool := p.toList.isPrefixOf s.toList
def dropN (s : String) (n : Nat) : String := String.ofList (s.toList.drop n)
def takeN (s : String) (n : Nat) : String := String.ofList (s.toList.take n)

def splitAux (sep : List Char) : Nat → List Char → List Char → List (List Char)
  | 0, _, cur => [cur.reverse]
  | _ + 1, [], cur => [cur.reverse]
  | fuel + 1, c :: cs, cur =>
    if sep.isPrefixOf (c :: cs) then cur.reverse :: splitAux sep fuel ((c :: cs).drop sep.length) []
    else splitAux sep fuel cs (c :: cur)

/-- `strings.Split(s, sep)` for a non-empty `sep` -/
def splitStr (s sep : String) : List String :=
  if sep.isEmpty then [s] else
  (splitAux sep.toList (s.length + 1) s.toList []).map String.ofList

def joinStr (sep : String) : List String → String
  | [] => ""
  | [x] => x
  | x :: xs => x ++ sep ++ joinStr sep xs

def isDigit (c : Char) : Bool := '0' ≤ c && c ≤ '9'

/-- decimal digits → Nat -/
def digitsToNat (cs : List Char) : Nat := cs.foldl (fun a c => a * 10 + (c.toNat - '0'.toNat)) 0

/-- `[0-9]+` → the number -/
def parseNat (s : String) : Option Nat :=
  let cs := s.toList
  if cs.isEmpty || !cs.all isDigit then none else some (digitsToNat cs)

/-- `[+-]?[0-9]+` → the integer -/
def parseDecInt (s : String) : Option Int :=
  let cs := s.toList
  let (neg, ds) := match cs with
    | '-' :: r => (true, r)
    | '+' :: r => (false, r)
    | r => (false, r)
  if ds.isEmpty || !ds.all isDigit then none
  else some (if neg then -(digitsToNat ds : Int) else (digitsToNat ds : Int))

/-- scientific notation with an integer value: `[+-]?D+(.D+)?[eE][+-]?D+` where the exponent is at least the
number of fractional digits (what `"%.14g"` produces for integers ≥ 10^15 … and what `tonumber` gets back
from `tostring(score)`); `none` for any other shape or a non-integer value -/
def parseSciInt (s : String) : Option Int :=
  let cs := s.toList
  let (neg, r) := match cs with
    | '-' :: r => (true, r)
    | '+' :: r => (false, r)
    | r => (false, r)
  let ip := r.takeWhile isDigit
  let r1 := r.dropWhile isDigit
  let (fp, r2) := match r1 with
    | '.' :: t => (t.takeWhile isDigit, t.dropWhile isDigit)
    | t => ([], t)
  match r2 with
  | e :: t =>
    if (e == 'e' || e == 'E') && !ip.isEmpty then
      let (eneg, ds) := match t with
        | '-' :: u => (true, u)
        | '+' :: u => (false, u)
        | u => (false, u)
      if ds.isEmpty || !ds.all isDigit || eneg then none else
      let ex := digitsToNat ds
      if ex < fp.length then none else
      let m : Nat := digitsToNat (ip ++ fp) * 10 ^ (ex - fp.length)
      some (if neg then -(m : Int) else (m : Int))
    else none
  | [] => none

/-- an integer numeral in plain or scientific notation -/
def parseNumInt (s : String) : Option Int :=
  match parseDecInt s with
  | some i => some i
  | none => parseSciInt s

/-- could `strtod` accept (a prefix of) this string in a way the integer model does not cover?
(leading/trailing white space, `.`, exponent, hex, `inf`, `nan`) -/
def looksNumeric (s : String) : Bool :=
  let cs := s.toList
  match cs with
  | [] => false
  | c :: _ =>
    isDigit c || c == '-' || c == '+' || c == '.' || c == ' ' || c == '\t' || c == '\n' ||
      c == '\r' || c == '\x0b' || c == '\x0c' ||
      (let l := (s.toList.map Char.toLower).take 3; l == ['i', 'n', 'f'] || l == ['n', 'a', 'n'])

/-- `tonumber(v)` (base 10) -/
def tonumber : LVal → Except LuaErr LVal
  | .num i => .ok (.num i)
  | .str s =>
    match parseNumInt s with
    | some i => .ok (.num (round53 i))
    | none =>
      if looksNumeric s then .error (.unsupported s!"tonumber on non-integer numeral {s.quote}")
      else .ok .nil
  | _ => .ok .nil

def natToDigits (n : Nat) : String := toString n

/-- `"%.14g"` of an integer-valued double -/
def fmtG14 (i : Int) : String :=
  let n := i.natAbs
  let sign := if i < 0 then "-" else ""
  if n < 100000000000000 then sign ++ toString n else
  -- n has d ≥ 15 digits; keep 14 significant digits, round half to even on the exact value
  let ds := (toString n).toList
  let d := ds.length
  let cut := 10 ^ (d - 14)
  let q := n / cut
  let r := n % cut
  let half := cut / 2
  let q' := if r > half ∨ (r = half ∧ q % 2 = 1) then q + 1 else q
  -- rounding may carry into a 15th digit
  let (q'', e) := if q' ≥ 100000000000000 then (q' / 10, d) else (q', d - 1)
  let md := (toString q'').toList
  let frac := (md.drop 1).reverse.dropWhile (· == '0') |>.reverse
  let mant := String.ofList (md.take 1) ++ (if frac.isEmpty then "" else "." ++ String.ofList frac)
  let es := toString e
  sign ++ mant ++ "e+" ++ (if es.length < 2 then "0" ++ es else es)

/-- what Redis turns a Lua number argument of `redis.call` into (`double2ll` succeeds for the
integer-valued doubles of this model: exact decimal) -/
def numToArg (i : Int) : String := toString i

/-! ### basic operations -/

def truthy : LVal → Bool
  | .nil => false
  | .bool false => false
  | _ => true

def ofBool (b : Bool) : LVal := .bool b

/-- `==` (raw equality).  Tables compare by reference in Lua; two table *values* are never the same
object in the scripts' uses, so they are unequal here. -/
def eq : LVal → LVal → Bool
  | .nil, .nil => true
  | .bool a, .bool b => a == b
  | .num a, .num b => a == b
  | .str a, .str b => a == b
  | _, _ => false

def typeName : LVal → String
  | .nil => "nil" | .bool _ => "boolean" | .num _ => "number" | .str _ => "string"
  | .tbl _ => "table" | .status _ => "table"

/-- `a < b` -/
def lt : LVal → LVal → Except LuaErr Bool
  | .num a, .num b => .ok (decide (a < b))
  | .str a, .str b => .ok (decide (a < b))
  | a, b => .error (.runtime s!"attempt to compare {typeName a} with {typeName b}")

/-- `a <= b` -/
def le : LVal → LVal → Except LuaErr Bool
  | .num a, .num b => .ok (decide (a ≤ b))
  | .str a, .str b => .ok (decide (a ≤ b))
  | a, b => .error (.runtime s!"attempt to compare {typeName a} with {typeName b}")

/-- string → number coercion of arithmetic operands -/
def arithOperand : LVal → Except LuaErr Int
  | .num i => .ok i
  | .str s =>
    match parseNumInt s with
    | some i => .ok (round53 i)
    | none =>
      if looksNumeric s then .error (.unsupported s!"arithmetic on non-integer numeral {s.quote}")
      else .error (.runtime "attempt to perform arithmetic on a string value")
  | v => .error (.runtime s!"attempt to perform arithmetic on a {typeName v} value")

def add (a b : LVal) : Except LuaErr LVal := do
  let x ← arithOperand a
  let y ← arithOperand b
  pure (.num (round53 (x + y)))

def sub (a b : LVal) : Except LuaErr LVal := do
  let x ← arithOperand a
  let y ← arithOperand b
  pure (.num (round53 (x - y)))

def mul (a b : LVal) : Except LuaErr LVal := do
  let x ← arithOperand a
  let y ← arithOperand b
  pure (.num (round53 (x * y)))

def neg (a : LVal) : Except LuaErr LVal := do
  let x ← arithOperand a
  pure (.num (-x))

/-- number/string → string for `..` -/
def concatOperand : LVal → Except LuaErr String
  | .str s => .ok s
  | .num i => .ok (fmtG14 i)
  | v => .error (.runtime s!"attempt to concatenate a {typeName v} value")

def concat (a b : LVal) : Except LuaErr LVal := do
  let x ← concatOperand a
  let y ← concatOperand b
  pure (.str (x ++ y))

/-- `#v`.  A table with a nil inside has no well-defined border: outside the model. -/
def len : LVal → Except LuaErr LVal
  | .str s => .ok (.num s.length)
  | .tbl a => .ok (.num a.length)
  | .status _ => .ok (.num 0)
  | v => .error (.runtime s!"attempt to get length of a {typeName v} value")

def tostring : LVal → Except LuaErr LVal
  | .nil => .ok (.str "nil")
  | .bool true => .ok (.str "true")
  | .bool false => .ok (.str "false")
  | .num i => .ok (.str (fmtG14 i))
  | .str s => .ok (.str s)
  | _ => .error (.unsupported "tostring of a table")

/-- `t[k]` -/
def index : LVal → LVal → Except LuaErr LVal
  | .tbl a, .num i => .ok (if i ≥ 1 then (a[(i - 1).toNat]?).getD .nil else .nil)
  | .tbl _, _ => .ok .nil
  | .status s, .str "ok" => .ok (.str s)
  | .status _, _ => .ok .nil
  | v, _ => .error (.runtime s!"attempt to index a {typeName v} value")

/-- `t[k] = v` on an array table: only overwriting an existing slot or appending at `#t + 1` with a
non-nil value keeps the table an array; anything else leaves the model. -/
def setIndex : LVal → LVal → LVal → Except LuaErr LVal
  | .tbl a, .num i, v =>
    if v matches .nil then .error (.unsupported "assigning nil into a table")
    else if i ≥ 1 ∧ (i - 1).toNat < a.length then .ok (.tbl (a.set (i - 1).toNat v))
    else if i = a.length + 1 then .ok (.tbl (a ++ [v]))
    else .error (.unsupported "table assignment that creates a hole")
  | .tbl _, _, _ => .error (.unsupported "non-array table key")
  | v, _, _ => .error (.runtime s!"attempt to index a {typeName v} value")

/-- table constructor `{e1, …, en}`: trailing nils vanish, an inner nil leaves the model -/
def mkTable (vs : List LVal) : Except LuaErr LVal :=
  let vs' := (vs.reverse.dropWhile (fun v => v matches .nil)).reverse
  if vs'.any (fun v => v matches .nil) then .error (.unsupported "table constructor with an inner nil")
  else .ok (.tbl vs')

/-- `unpack(t)` -/
def unpack : LVal → Except LuaErr (List LVal)
  | .tbl a => .ok a
  | v => .error (.runtime s!"bad argument #1 to 'unpack' (table expected, got {typeName v})")

/-- the values `ipairs(t)` iterates over (stops at the first nil) -/
def ipairs : LVal → Except LuaErr (List LVal)
  | .tbl a => .ok (a.takeWhile (fun v => !(v matches .nil)))
  | v => .error (.runtime s!"bad argument #1 to 'ipairs' (table expected, got {typeName v})")

/-- the values of `for i = a, b, step` (numeric `for`); `step` defaults to 1 -/
def numRange (a b step : LVal) : Except LuaErr (List LVal) := do
  let x ← arithOperand a
  let y ← arithOperand b
  let s ← arithOperand step
  if s = 0 then .error (.runtime "'for' step is zero")
  else if s > 0 then
    if x > y then pure [] else
    pure ((List.range ((y - x) / s + 1).toNat).map fun (k : Nat) => LVal.num (x + (k : Int) * s))
  else
    if x < y then pure [] else
    pure ((List.range ((x - y) / (-s) + 1).toNat).map fun (k : Nat) => LVal.num (x + (k : Int) * s))

/-- first occurrence of the (non-empty, magic-free) byte pattern `pat` in `s` at or after 0-based
position `from`: 1-based start index -/
def findPlain (s pat : List Char) (pos : Nat) : Nat → Option Nat
  | 0 => none
  | fuel + 1 =>
    if pat.isPrefixOf s then some (pos + 1)
    else match s with
      | [] => none
      | _ :: r => findPlain r pat (pos + 1) fuel

def isMagic (c : Char) : Bool := "^$()%.[]*+-?".toList.contains c

/-- `string.find(s, pat)` for patterns without magic characters; returns the start index or nil
(the scripts use only the first result) -/
def stringFind (sv pv : LVal) : Except LuaErr LVal := do
  let s ← match sv with
    | .str s => pure s
    | .num i => pure (fmtG14 i)
    | v => throw (.runtime s!"bad argument #1 to 'find' (string expected, got {typeName v})")
  let pat ← match pv with
    | .str p => pure p
    | .num i => pure (fmtG14 i)
    | v => throw (.runtime s!"bad argument #2 to 'find' (string expected, got {typeName v})")
  if pat.toList.any isMagic then throw (.unsupported "string.find with a magic pattern")
  else if pat.isEmpty then pure (.num 1)
  else match findPlain s.toList pat.toList 0 (s.length + 1) with
    | some i => pure (.num i)
    | none => pure .nil

/-- `string.sub(s, i, j)` -/
def stringSub (sv iv jv : LVal) : Except LuaErr LVal := do
    let s ← match sv with
      | .str s => pure s
      | .num i => pure (fmtG14 i)
      | v => throw (.runtime s!"bad argument #1 to 'sub' (string expected, got {typeName v})")
    let i ← arithOperand iv
    let j ← arithOperand jv
    let l : Int := s.length
    let i := if i < 0 then max (l + i + 1) 1 else if i = 0 then 1 else i
    let j := if j < 0 then l + j + 1 else if j > l then l else j
    if i > j then pure (.str "") else
    pure (.str (String.ofList ((s.toList.drop (i - 1).toNat).take (j - i + 1).toNat)))

/-- insertion of `x` into a list sorted by `ltb` -/
def insertBy (ltb : LVal → LVal → Bool) (x : LVal) : List LVal → List LVal
  | [] => [x]
  | y :: ys => if ltb x y then x :: y :: ys else y :: insertBy ltb x ys

/-- `table.sort(t, cmp)` for the two comparators the scripts use (`a < b`, `a > b`).  The order of
equal elements is unspecified in Lua; equal strings are indistinguishable. -/
def sortBy (desc : Bool) : LVal → Except LuaErr LVal
  | .tbl a => do
    for x in a do
      for y in a do
        let _ ← lt x y
    let ltb := fun x y => match (if desc then lt y x else lt x y) with | .ok b => b | .error _ => false
    pure (.tbl (a.foldr (insertBy ltb) []))
  | v => .error (.runtime s!"bad argument #1 to 'sort' (table expected, got {typeName v})")

end CentrifugeVerif.Lua
