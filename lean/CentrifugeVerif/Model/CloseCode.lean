import CentrifugeVerif.Model.Sha1
/-
Close codes and close frames: model of

* `internal/websocket/conn.go`: `validReceivedCloseCodes`, `isValidReceivedCloseCode`,
  `FormatCloseMessage`, `WriteControl` (close / size check / recording), `recordCloseCode`,
  `CloseCode`, the `CloseMessage` branch of `advanceFrame`, `handleProtocolError`,
  `defaultCloseHandler`;
* `handler_websocket.go`: `websocketTransport.Close`.

Everything is on a *server* connection (`isServer = true`: outgoing frames unmasked).  Write
errors of the network connection and write-lock time-outs are environment failures outside the
model (the connection is assumed writable).  Core Lean only.
-/
namespace CentrifugeVerif.CloseCode
open CentrifugeVerif.Sha1 (Bytes ascii be)

/-- `validReceivedCloseCodes[code]` (a Go map: absent keys read as `false`). -/
def tableLookup (code : Nat) : Bool :=
  match code with
  | 1000 => true   -- CloseNormalClosure
  | 1001 => true   -- CloseGoingAway
  | 1002 => true   -- CloseProtocolError
  | 1003 => true   -- CloseUnsupportedData
  | 1005 => false  -- CloseNoStatusReceived
  | 1006 => false  -- CloseAbnormalClosure
  | 1007 => true   -- CloseInvalidFramePayloadData
  | 1008 => true   -- ClosePolicyViolation
  | 1009 => true   -- CloseMessageTooBig
  | 1010 => true   -- CloseMandatoryExtension
  | 1011 => true   -- CloseInternalServerErr
  | 1012 => true   -- CloseServiceRestart
  | 1013 => true   -- CloseTryAgainLater
  | 1015 => false  -- CloseTLSHandshake
  | _ => false

/-- `isValidReceivedCloseCode`. -/
def isValidReceivedCloseCode (code : Nat) : Bool :=
  tableLookup code || (decide (3000 ≤ code) && decide (code ≤ 4999))

/-! ### UTF-8 (`utf8.ValidString`) -/

def isCont (b : UInt8) : Bool := decide (0x80 ≤ b.toNat) && decide (b.toNat ≤ 0xBF)

/-- Well-formed UTF-8 per RFC 3629 §4 (no overlong forms, no surrogates, ≤ U+10FFFF); this is what
Go's `utf8.Valid` accepts. -/
def utf8Valid : Bytes → Bool
  | [] => true
  | b0 :: rest =>
    let n := b0.toNat
    if n < 0x80 then utf8Valid rest
    else if 0xC2 ≤ n ∧ n ≤ 0xDF then
      match rest with
      | b1 :: r => isCont b1 && utf8Valid r
      | _ => false
    else if 0xE0 ≤ n ∧ n ≤ 0xEF then
      match rest with
      | b1 :: b2 :: r =>
        let lo := if n = 0xE0 then 0xA0 else 0x80
        let hi := if n = 0xED then 0x9F else 0xBF
        decide (lo ≤ b1.toNat) && decide (b1.toNat ≤ hi) && isCont b2 && utf8Valid r
      | _ => false
    else if 0xF0 ≤ n ∧ n ≤ 0xF4 then
      match rest with
      | b1 :: b2 :: b3 :: r =>
        let lo := if n = 0xF0 then 0x90 else 0x80
        let hi := if n = 0xF4 then 0x8F else 0xBF
        decide (lo ≤ b1.toNat) && decide (b1.toNat ≤ hi) && isCont b2 && isCont b3 && utf8Valid r
      | _ => false
    else false

/-! ### Close frames -/

def closeNoStatusReceived : Nat := 1005
def closeProtocolError : Nat := 1002
def maxControlFramePayloadSize : Nat := 125
/-- `DisconnectConnectionClosed.Code` -/
def disconnectConnectionClosedCode : Nat := 3000

/-- `FormatCloseMessage(closeCode, text)`; the code is converted with `uint16(closeCode)`. -/
def formatCloseMessage (code : Nat) (text : Bytes) : Bytes :=
  if code = closeNoStatusReceived then [] else be 2 (code % 65536) ++ text

/-- recorded close code: `none` = 0 (nothing observed yet), else `(code, incoming)`. -/
abbrev Recorded := Option (Nat × Bool)

/-- `recordCloseCode`: ignored outside 1…0xFFFF; compare-and-swap from 0, so only the first
record sticks. -/
def record (st : Recorded) (code : Nat) (incoming : Bool) : Recorded :=
  if code = 0 ∨ code > 0xFFFF then st
  else match st with
    | none => some (code, incoming)
    | some v => some v

/-- `CloseCode()` -/
def closeCodeOf (st : Recorded) : Nat × Bool := st.getD (0, false)

/-- packing used by the Go code: `int32(code) | incoming<<16`, `0` = unset. -/
def pack (code : Nat) (incoming : Bool) : Nat := code + (if incoming then 65536 else 0)
def unpack (v : Nat) : Nat × Bool := if v = 0 then (0, false) else (v % 65536, decide (v / 65536 % 2 = 1))

def u16 (data : Bytes) : Nat :=
  match data with
  | a :: b :: _ => a.toNat * 256 + b.toNat
  | _ => 0

/-- state of a server connection as far as close handling goes -/
structure Conn where
  recorded : Recorded := none
  /-- `writeErr` is set to `ErrCloseSent` after the first close frame was written -/
  closeSent : Bool := false
deriving Repr, DecidableEq

inductive WriteRes where
  /-- `errInvalidControlFrame` (payload > 125): nothing recorded, nothing written -/
  | tooLong
  /-- `ErrCloseSent` from an earlier close: recorded (no effect), nothing written -/
  | closeAlreadySent
  /-- frame bytes written to the wire -/
  | wrote (frame : Bytes)
deriving Repr, DecidableEq

/-- `WriteControl(CloseMessage, data, deadline)` on a server connection. -/
def writeClose (c : Conn) (data : Bytes) : Conn × WriteRes :=
  if data.length > maxControlFramePayloadSize then (c, .tooLong)
  else
    let code := if data.length ≥ 2 then u16 data else closeNoStatusReceived
    let c1 := { c with recorded := record c.recorded code false }
    if c1.closeSent then (c1, .closeAlreadySent)
    else ({ c1 with closeSent := true }, .wrote ([0x88, UInt8.ofNat data.length] ++ data))

/-- frames written, in order, by a sequence of results -/
def framesOf : WriteRes → List Bytes
  | .wrote f => [f]
  | _ => []

/-- `handleProtocolError(message)`: close frame 1002 + message, truncated to 125 bytes. -/
def handleProtocolError (c : Conn) (message : Bytes) : Conn × WriteRes :=
  writeClose c ((formatCloseMessage closeProtocolError message).take maxControlFramePayloadSize)

/-- decimal rendering (`strconv.Itoa`) of a code < 65536 -/
def itoa (n : Nat) : Bytes := ascii (toString n)

inductive ProtoErrKind where
  /-- `invalid close payload length`: a one-byte body (RFC 6455 §5.5.1; commit 13f4dfc8) -/
  | badLength
  /-- `bad close code …` -/
  | badCode
  /-- `invalid utf8 payload in close frame` -/
  | badUtf8
deriving Repr, DecidableEq

inductive RecvRes where
  /-- protocol error returned by `advanceFrame` -/
  | protoErr (kind : ProtoErrKind)
  /-- `CloseError{Code, Text}` -/
  | closeError (code : Nat) (text : Bytes)
deriving Repr, DecidableEq

/-- the `CloseMessage` branch of `advanceFrame` for an (unmasked) payload of ≤ 125 bytes. -/
def recvClose (c : Conn) (payload : Bytes) : Conn × RecvRes × WriteRes :=
  if payload.length = 1 then
    let (c', w) := handleProtocolError c (ascii "invalid close payload length")
    (c', .protoErr .badLength, w)
  else if payload.length ≥ 2 then
    let code := u16 payload
    if !isValidReceivedCloseCode code then
      let (c', w) := handleProtocolError c (ascii "bad close code " ++ itoa code)
      (c', .protoErr .badCode, w)
    else
      let text := payload.drop 2
      if !utf8Valid text then
        let (c', w) := handleProtocolError c (ascii "invalid utf8 payload in close frame")
        (c', .protoErr .badUtf8, w)
      else
        let c1 := { c with recorded := record c.recorded code true }
        let (c2, w) := writeClose c1 (formatCloseMessage code [])
        (c2, .closeError code text, w)
  else
    let c1 := { c with recorded := record c.recorded closeNoStatusReceived true }
    let (c2, w) := writeClose c1 (formatCloseMessage closeNoStatusReceived [])
    (c2, .closeError closeNoStatusReceived [], w)

/-- `websocketTransport.Close(Disconnect{code, reason})` on a fresh transport whose grace channel
is already closed (no waiting): the bytes put on the wire before the TCP close. -/
def transportClose (c : Conn) (code : Nat) (reason : Bytes) : Conn × List Bytes :=
  if code = disconnectConnectionClosedCode then (c, [])
  else
    let (c', w) := writeClose c (formatCloseMessage code reason)
    (c', framesOf w)

end CentrifugeVerif.CloseCode
