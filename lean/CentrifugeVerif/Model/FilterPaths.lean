/-
Model of the tags-filter application on every delivery path (C16).  Core Lean only.

`pass : F → T → Bool` is the filter predicate (`filter.Match`, C15) — a parameter; `none` = no
filter configured (`tagsFilter == nil` never excludes, `publicationFiltered`).
A publication is reduced to an identifier and its tags.

Go code mirrored:
* `subShard.broadcastPublication` (hub.go): `wasFiltered` = server filter fails, else client filter
  fails; `Client.writePublication*` (client.go): a filtered publication is not written unless the
  subscription uses delta (`prep.wasFiltered && !prep.deltaSub`); positioned subscriptions still
  advance their position; inside the subscribe window the marker `filteredPub` (Time = -1) is
  buffered instead of the publication                                      → `hubDecision`, `live`
* `isStreamRecovered` (client.go): either filter fails ⇒ marker, dropped by
  `recovery.MergePublications`                                              → `streamRecovery`
* `Node.recoverCache` (node.go): newest publication passing both filters     → `cacheRecovery`
* `handleMapStatePhase` / `handleMapStreamPhase` (client_map.go): server filter loop, then client
  filter loop                                                                → `mapPage`
* `handleMapTransitionToLive`: positioned — merged (stream ++ buffered) list through both loops;
  streamless — buffered list through both loops; state publications were filtered by the state
  phase                                                                      → `mapTransition`, `streamlessBuffered`
* `handleSubRefresh` + `subShard.updateServerTagsFilter`                     → `subRefresh`
-/
namespace CentrifugeVerif.FilterPaths

structure Pub (T : Type) where
  id : Nat
  tags : T

variable {F T : Type}

/-- `publicationFiltered(tags, tf)` negated: nil filter never excludes -/
def ok (pass : F → T → Bool) (f : Option F) (t : T) : Bool :=
  match f with
  | none => true
  | some f => pass f t

/-- `wasFiltered` of `broadcastPublication` (server filter first, client filter only if the server
filter let it through) -/
def wasFiltered (pass : F → T → Bool) (sf cf : Option F) (t : T) : Bool :=
  if !(ok pass sf t) then true
  else if !(ok pass cf t) then true
  else false

inductive LiveAct
  | push        -- written to the client
  | withheld    -- not written (position of a positioned subscription still advances)
deriving DecidableEq, Repr

/-- hub + `writePublication*` decision for one subscriber -/
def hubDecision (pass : F → T → Bool) (sf cf : Option F) (deltaSub : Bool) (p : Pub T) : LiveAct :=
  if wasFiltered pass sf cf p.tags && !deltaSub then .withheld else .push

/-- live pushes for a run of publications -/
def live (pass : F → T → Bool) (sf cf : Option F) (deltaSub : Bool) (ps : List (Pub T)) : List (Pub T) :=
  ps.filter fun p => hubDecision pass sf cf deltaSub p = .push

/-- `isStreamRecovered` (+ `MergePublications` dropping the `Time = -1` markers): `hist` is the
history answer, `buffered` the publications buffered inside the subscribe window, where the hub
already replaced filtered ones by markers -/
def streamRecovery (pass : F → T → Bool) (sf cf : Option F) (hist buffered : List (Pub T)) : List (Pub T) :=
  (hist.filter fun p => !(!(ok pass sf p.tags) || !(ok pass cf p.tags)))
    ++ (buffered.filter fun p => !(wasFiltered pass sf cf p.tags))

/-- `recoverCache`: `rev` = history newest first; the newest one passing both filters -/
def cacheRecovery (pass : F → T → Bool) (sf cf : Option F) (rev : List (Pub T)) : Option (Pub T) :=
  match sf, cf with
  | none, none => rev.head?
  | _, _ => rev.find? fun p => !(!(ok pass sf p.tags) || !(ok pass cf p.tags))

/-- subscribe reply in cache recovery mode without delta: the recovered publication merged with the
window's buffered publications (markers dropped), only the last one is sent -/
def cacheReply (pass : F → T → Bool) (sf cf : Option F) (rev buffered : List (Pub T)) : List (Pub T) :=
  let l := (cacheRecovery pass sf cf rev).toList ++ buffered.filter fun p => !(wasFiltered pass sf cf p.tags)
  match l.getLast? with
  | some p => [p]
  | none => []

/-- the two filter loops of the map phases -/
def mapPage (pass : F → T → Bool) (sf cf : Option F) (ps : List (Pub T)) : List (Pub T) :=
  (ps.filter fun p => ok pass sf p.tags).filter fun p => ok pass cf p.tags

/-- live-phase reply of a positioned map subscription: state publications (already through
`mapPage` in the state phase) and the merged stream ++ buffered list through both loops.  The
buffered part reaches the merge through the hub, which replaced filtered publications by markers
that `MergePublications` drops. -/
def mapTransition (pass : F → T → Bool) (sf cf : Option F) (state stream buffered : List (Pub T)) :
    List (Pub T) × List (Pub T) :=
  (mapPage pass sf cf state,
   mapPage pass sf cf (stream ++ buffered.filter fun p => !(wasFiltered pass sf cf p.tags)))

/-- streamless map subscription: the buffered list through both loops -/
def streamlessBuffered (pass : F → T → Bool) (sf cf : Option F) (buffered : List (Pub T)) : List (Pub T) :=
  mapPage pass sf cf (buffered.filter fun p => !(wasFiltered pass sf cf p.tags))

/-! ### sub-refresh with a server filter -/

inductive RefreshOutcome
  | replied                 -- normal sub-refresh reply
  | unsubscribedInvalidated -- `Unsubscribe{Code: UnsubscribeCodeStateInvalidated}`
deriving DecidableEq, Repr

/-- `updateServerTagsFilter`: (found, changed) for an existing hub entry; `H` = filter hash -/
def updateServerFilter {H : Type} [DecidableEq H] (cur : Option H) (new : H) : Option H × Bool :=
  match cur with
  | some h => if h = new then (cur, false) else (some new, true)
  | none => (some new, true)

/-- `handleSubRefresh` tail: `reply.ServerTagsFilter = nil` leaves the hub entry untouched -/
def subRefresh {H : Type} [DecidableEq H] (isMap : Bool) (cur : Option H) (new : Option H) : Option H × RefreshOutcome :=
  match new with
  | none => (cur, .replied)
  | some n =>
    let (cur', changed) := updateServerFilter cur n
    if changed && isMap then (cur', .unsubscribedInvalidated) else (cur', .replied)

end CentrifugeVerif.FilterPaths
