import CentrifugeVerif.Model.Stream
/-
Model of `broker_memory.go`: `historyHub` (streams + the two expiry sweeps) and `MemoryBroker`
(`Publish`, `History`, `RemoveHistory`, idempotent result cache).  Core Lean only.

Time is an input: publish/history ops carry `now` in **milliseconds** (`time.Now().UnixMilli()`);
the hub works with `time.Now().Unix()` = `now / 1000`; durations are milliseconds and
`int64(d.Seconds())` is `d / 1000` (truncation).  `tick nowS` is one wake-up of the sweeper
goroutines at the whole second `nowS`.

Go facts mirrored here:
* `historyHub.add`: first the version check
  (`Version > 0`, stream exists, `VersionEpoch == "" || == topVersionEpoch`, `Version <= topVersion`
  ⇒ skip, returning the current top position; since /repo commits e5e52fd9 and 43a5eb1b this
  precedes the deadline refreshes and the delta read); then the optional delta read (`getLocked`
  with `Limit 1, Reverse`, which itself refreshes the meta deadline and **creates** a missing
  stream); then the data deadline `expires[ch] = now + ttl` is (re)written and a queue
  item is pushed only when the channel had no `expires` entry; then the meta deadline likewise
  (`opts.HistoryMetaTTL`, or the hub default when that is 0; nothing when the result is ≤ 0); then
  `stream.Add` (creating the stream with a fresh epoch when missing).
* `getLocked`: refreshes the meta deadline; a missing stream is created (fresh epoch, offset 0);
  without `Since`: `Limit == 0` ⇒ no publications, else `Get(0, false, limit, reverse)`;
  with `Since`: forward and `top == since.Offset && since.Epoch == epoch` ⇒ nothing; forward and
  `since.Offset == MaxUint64` ⇒ nothing (since /repo commit fbc783cb; before that
  `since.Offset + 1` wrapped to 0); else `Get(since.Offset ± 1, true, limit, reverse)` with
  **uint64 wrap-around** of `since.Offset − 1` (at 0).
* `remove`: `Clear` of an existing stream (top, epoch, version pair, deadlines untouched).
* sweeps (`expireStreams`, `removeStreams`), each wake-up: skipped when `next…Check` is 0 or in the
  future; otherwise queue items with priority ≤ now are popped: when the map deadline is ≤ the item's
  priority the map entry is deleted and the stream is cleared (data sweep) / deleted (meta sweep);
  otherwise the item is re-pushed with the map deadline as priority (and, if that is also ≤ now,
  popped again in the same pass); `next…Check` becomes the smallest remaining priority (0 if none).
  Consequence kept by the model: a deadline *shortened* by a later publish does not take effect
  before the queued item's (older, later) priority.
* result cache: key `resultCacheKey(ch, key) = strconv.Itoa(len(ch)) + "_" + ch + "_" + key`
  (byte length prefix; injective — since /repo commit 1b02042a, before that the plain concatenation
  `ch + "_" + key`); an entry is a hit while
  `ExpireAt > now` (ms); saved with `ExpireAt = now + secs*1000`, `secs = int64(ttl.Seconds())`, or
  300 when the TTL option is 0.
* `Publish`: idempotency hit ⇒ cached position, suppressed, nothing else happens.  With
  `HistorySize > 0 && HistoryTTL > 0`: `add`; version skip ⇒ suppressed, no cache write, no
  broadcast; else cache write (if keyed) and broadcast `(pub, position, useDelta, prevPub)`.
  Without history: position zero, cache write (if keyed), broadcast with a zero position.

Representation choices (the differential run checks them): each priority queue holds at most one
item per channel (pushes are guarded by "no map entry", the sweep deletes the map entry exactly
when it drops the item), so a queue is a per-channel `Option priority`; the order in which equal
priorities of different channels are popped is irrelevant (the per-channel effects commute).
`known` lists the channels that ever got state, for the `next…Check` minimum.
Not modelled: wrap-around of stream tops, negative durations, the heap compaction of the result
cache (it only rebuilds the queue).
-/
namespace CentrifugeVerif.HistoryHub
open CentrifugeVerif.MemStream

/-- the part of `Publication` the broker looks at or produces (offset is carried by `Item`) -/
structure Pub where
  data : String
  version : Nat := 0
deriving Repr, DecidableEq, Inhabited

/-- per-channel hub state -/
structure ChanState where
  /-- `streams[ch]` -/
  stream : Option (MStream Pub) := none
  /-- `expires[ch]` (unix seconds) -/
  expires : Option Nat := none
  /-- priority of the channel's item in `expireQueue` -/
  expQ : Option Nat := none
  /-- `removes[ch]` -/
  removes : Option Nat := none
  /-- priority of the channel's item in `removeQueue` -/
  remQ : Option Nat := none
deriving Repr, DecidableEq, Inhabited

structure Hub where
  chans : String → ChanState := fun _ => {}
  known : List String := []
  nextExpireCheck : Nat := 0
  nextRemoveCheck : Nat := 0
  /-- `historyMetaTTL` of the hub (ms) -/
  metaTTL : Nat
  /-- the next epoch `epoch.Generate()` will return (epochs are numbered from 1) -/
  nextEpoch : Nat := 1

def Hub.set (h : Hub) (ch : String) (c : ChanState) : Hub :=
  { h with chans := fun x => if x = ch then c else h.chans x,
           known := if ch ∈ h.known then h.known else h.known ++ [ch] }

/-- `historyMetaTTL := opts…MetaTTL; if historyMetaTTL == 0 { historyMetaTTL = h.historyMetaTTL }` -/
def Hub.effMeta (h : Hub) (metaTTL : Nat) : Nat := if metaTTL = 0 then h.metaTTL else metaTTL

/-- the meta-deadline refresh shared by `add` and `getLocked` -/
def Hub.touchMeta (h : Hub) (ch : String) (metaTTL : Nat) (nowS : Nat) : Hub :=
  if h.effMeta metaTTL > 0 then
    let removeAt := nowS + h.effMeta metaTTL / 1000
    let c := h.chans ch
    let c' := { c with removes := some removeAt,
                       remQ := if c.removes.isNone then some removeAt else c.remQ }
    { (h.set ch c') with
      nextRemoveCheck :=
        if h.nextRemoveCheck = 0 ∨ h.nextRemoveCheck > removeAt then removeAt else h.nextRemoveCheck }
  else h

/-- the data-deadline refresh of `add` -/
def Hub.touchExpire (h : Hub) (ch : String) (ttl : Nat) (nowS : Nat) : Hub :=
  let expireAt := nowS + ttl / 1000
  let c := h.chans ch
  let c' := { c with expires := some expireAt,
                     expQ := if c.expires.isNone then some expireAt else c.expQ }
  { (h.set ch c') with
    nextExpireCheck :=
      if h.nextExpireCheck = 0 ∨ h.nextExpireCheck > expireAt then expireAt else h.nextExpireCheck }

/-- `historyHub.getLocked` after the meta-deadline refresh -/
def Hub.getCore (h : Hub) (ch : String) (f : Filter) : Hub × List (Item Pub) × Pos :=
  let c := h.chans ch
  match c.stream with
  | none =>
    -- createStream
    let s : MStream Pub := MStream.new h.nextEpoch
    ({ (h.set ch { c with stream := some s }) with nextEpoch := h.nextEpoch + 1 }, [], ⟨0, s.epoch⟩)
  | some s =>
    let pos : Pos := ⟨s.top, s.epoch⟩
    match f.since with
    | none =>
      if f.limit = 0 then (h, [], pos) else (h, s.get 0 false f.limit f.reverse, pos)
    | some since =>
      if !f.reverse && decide (s.top = since.offset) && decide (since.epoch = s.epoch) then (h, [], pos)
      else if !f.reverse && decide (since.offset = u64 - 1) then (h, [], pos)
      else
        -- uint64 arithmetic: `since.Offset − 1` wraps at 0 (`since.Offset + 1` cannot wrap any more)
        let streamOffset :=
          if f.reverse then (if since.offset = 0 then u64 - 1 else since.offset - 1)
          else (since.offset + 1) % u64
        (h, s.get streamOffset true f.limit f.reverse, pos)

/-- `historyHub.getLocked` -/
def Hub.get (h : Hub) (ch : String) (f : Filter) (metaTTL : Nat) (nowS : Nat) :
    Hub × List (Item Pub) × Pos :=
  (h.touchMeta ch metaTTL nowS).getCore ch f

/-- `PublishOptions` (the fields the memory broker reads) -/
structure PubOpts where
  size : Nat := 0
  /-- ms -/
  ttl : Nat := 0
  /-- ms -/
  metaTTL : Nat := 0
  idemKey : String := ""
  /-- ms -/
  idemTTL : Nat := 0
  version : Nat := 0
  versionEpoch : String := ""
  useDelta : Bool := false
deriving Repr, DecidableEq, Inhabited

/-- result of `historyHub.add`: position, prevPub, skip -/
structure AddOut where
  pos : Pos
  prev : Option (Item Pub)
  skip : Bool
deriving Repr, DecidableEq

/-- the version check of `historyHub.add`: `some position` = skip -/
def Hub.versionSkip (h : Hub) (ch : String) (o : PubOpts) : Option Pos :=
  match (h.chans ch).stream with
  | some s =>
    if o.version > 0 ∧ (o.versionEpoch = "" ∨ o.versionEpoch = s.topVersionEpoch) ∧ o.version ≤ s.topVersion then
      some ⟨s.top, s.epoch⟩
    else none
  | none => none

/-- the storing tail of `historyHub.add` (`stream.Add`, creating the stream when missing).  It
repeats the version check, which can no longer succeed where `Hub.add` calls it (the delta read
and the deadline refreshes in between do not change an existing stream, and a stream created by
the delta read has version 0). -/
def Hub.addCore (h : Hub) (ch : String) (pub : Pub) (o : PubOpts) (prev : Option (Item Pub)) :
    Hub × AddOut :=
  let c := h.chans ch
  match c.stream with
  | some s =>
    if o.version > 0 ∧ (o.versionEpoch = "" ∨ o.versionEpoch = s.topVersionEpoch) ∧ o.version ≤ s.topVersion then
      (h, ⟨⟨s.top, s.epoch⟩, none, true⟩)
    else
      let r := s.add pub o.size o.version o.versionEpoch
      (h.set ch { c with stream := some r.1 }, ⟨⟨r.2, r.1.epoch⟩, prev, false⟩)
  | none =>
    let s : MStream Pub := MStream.new h.nextEpoch
    let r := s.add pub o.size o.version o.versionEpoch
    ({ (h.set ch { c with stream := some r.1 }) with nextEpoch := h.nextEpoch + 1 },
      ⟨⟨r.2, r.1.epoch⟩, prev, false⟩)

/-- the optional delta read at the start of `historyHub.add`: hub afterwards and `prevPub` -/
def Hub.deltaRead (h : Hub) (ch : String) (o : PubOpts) (nowS : Nat) : Hub × Option (Item Pub) :=
  if o.useDelta then
    let r := h.get ch { limit := 1, reverse := true } o.metaTTL nowS
    (r.1, r.2.1.head?)
  else (h, none)

/-- `historyHub.add`: version check, delta read, deadline refreshes, `stream.Add` -/
def Hub.add (h : Hub) (ch : String) (pub : Pub) (o : PubOpts) (nowS : Nat) : Hub × AddOut :=
  match h.versionSkip ch o with
  | some p => (h, ⟨p, none, true⟩)
  | none =>
    let hp := h.deltaRead ch o nowS
    ((hp.1.touchExpire ch o.ttl nowS).touchMeta ch o.metaTTL nowS).addCore ch pub o hp.2

/-- `historyHub.remove` -/
def Hub.remove (h : Hub) (ch : String) : Hub :=
  let c := h.chans ch
  match c.stream with
  | some s => h.set ch { c with stream := some s.clear }
  | none => h

/-- one channel's share of an `expireStreams` pass at second `nowS` -/
def sweepExpChan (nowS : Nat) (c : ChanState) : ChanState :=
  match c.expQ with
  | none => c
  | some q =>
    if q > nowS then c else
    match c.expires with
    | none => { c with expQ := none }
    | some e =>
      if e ≤ q ∨ e ≤ nowS then
        { c with expires := none, expQ := none, stream := c.stream.map MStream.clear }
      else { c with expQ := some e }

/-- one channel's share of a `removeStreams` pass at second `nowS` -/
def sweepRemChan (nowS : Nat) (c : ChanState) : ChanState :=
  match c.remQ with
  | none => c
  | some q =>
    if q > nowS then c else
    match c.removes with
    | none => { c with remQ := none }
    | some r =>
      if r ≤ q ∨ r ≤ nowS then { c with removes := none, remQ := none, stream := none }
      else { c with remQ := some r }

/-- smallest element, 0 for the empty list (`next…Check = 0` means "nothing queued") -/
def minList : List Nat → Nat
  | [] => 0
  | x :: xs => xs.foldl min x

/-- `expireStreams`, one wake-up -/
def Hub.sweepExpire (h : Hub) (nowS : Nat) : Hub :=
  if h.nextExpireCheck = 0 ∨ h.nextExpireCheck > nowS then h else
  let chans := fun x => sweepExpChan nowS (h.chans x)
  { h with chans := chans, nextExpireCheck := minList (h.known.filterMap (fun x => (chans x).expQ)) }

/-- `removeStreams`, one wake-up -/
def Hub.sweepRemove (h : Hub) (nowS : Nat) : Hub :=
  if h.nextRemoveCheck = 0 ∨ h.nextRemoveCheck > nowS then h else
  let chans := fun x => sweepRemChan nowS (h.chans x)
  { h with chans := chans, nextRemoveCheck := minList (h.known.filterMap (fun x => (chans x).remQ)) }

/-- both sweepers wake up at the whole second `nowS` (their order does not matter) -/
def Hub.tick (h : Hub) (nowS : Nat) : Hub := (h.sweepExpire nowS).sweepRemove nowS

/-! ### MemoryBroker -/

inductive Suppress | none | idempotency | version
deriving Repr, DecidableEq, Inhabited

/-- one `HandlePublication(ch, pub, sp, useDelta, prevPub)` call -/
structure Bcast where
  ch : String
  /-- `pub` with its `Offset` (0 without history) -/
  pub : Item Pub
  sp : Pos
  useDelta : Bool
  prev : Option (Item Pub)
deriving Repr, DecidableEq

structure PubOut where
  pos : Pos
  suppress : Suppress
  bcast : Option Bcast
deriving Repr, DecidableEq

structure Broker where
  hub : Hub
  /-- `resultCache`: cache key → (position, ExpireAt in ms) -/
  cache : String → Option (Pos × Nat) := fun _ => none

def Broker.init (metaTTL : Nat) : Broker := { hub := { metaTTL := metaTTL } }

/-- `resultCacheKey`: `strconv.Itoa(len(ch)) + "_" + ch + "_" + key` (`len` = byte length) -/
def cacheKey (ch key : String) : String := toString ch.utf8ByteSize ++ "_" ++ ch ++ "_" ++ key

/-- `getResultFromCache` -/
def Broker.cacheGet (b : Broker) (ch key : String) (now : Nat) : Option Pos :=
  match b.cache (cacheKey ch key) with
  | some (p, expireAt) => if expireAt ≤ now then none else some p
  | none => none

/-- `resultExpireSeconds` -/
def idemSeconds (o : PubOpts) : Nat := if o.idemTTL ≠ 0 then o.idemTTL / 1000 else 300

/-- `saveResultToCache` -/
def Broker.cacheSave (b : Broker) (ch key : String) (p : Pos) (secs : Nat) (now : Nat) : Broker :=
  { b with cache := fun k => if k = cacheKey ch key then some (p, now + secs * 1000) else b.cache k }

/-- `MemoryBroker.Publish` -/
def Broker.publish (b : Broker) (ch : String) (data : String) (o : PubOpts) (now : Nat) :
    Broker × PubOut :=
  match (if o.idemKey ≠ "" then b.cacheGet ch o.idemKey now else none) with
  | some p => (b, ⟨p, .idempotency, none⟩)
  | none =>
    let pub : Pub := { data := data, version := o.version }
    if o.size > 0 ∧ o.ttl > 0 then
      let r := b.hub.add ch pub o (now / 1000)
      let b := { b with hub := r.1 }
      if r.2.skip then (b, ⟨r.2.pos, .version, none⟩)
      else
        let b := if o.idemKey ≠ "" then b.cacheSave ch o.idemKey r.2.pos (idemSeconds o) now else b
        (b, ⟨r.2.pos, .none, some ⟨ch, ⟨r.2.pos.offset, pub⟩, r.2.pos, o.useDelta, r.2.prev⟩⟩)
    else
      let b := if o.idemKey ≠ "" then b.cacheSave ch o.idemKey {} (idemSeconds o) now else b
      (b, ⟨{}, .none, some ⟨ch, ⟨0, pub⟩, {}, o.useDelta, none⟩⟩)

/-- `MemoryBroker.History` -/
def Broker.history (b : Broker) (ch : String) (f : Filter) (metaTTL : Nat) (now : Nat) :
    Broker × List (Item Pub) × Pos :=
  let r := b.hub.get ch f metaTTL (now / 1000)
  ({ b with hub := r.1 }, r.2)

/-- `MemoryBroker.RemoveHistory` -/
def Broker.removeHistory (b : Broker) (ch : String) : Broker := { b with hub := b.hub.remove ch }

/-- `expireResultCache`, one wake-up: entries with `ExpireAt <= now` go away.  (Unobservable:
`cacheGet` already ignores them.) -/
def Broker.sweepCache (b : Broker) (now : Nat) : Broker :=
  { b with cache := fun k =>
      match b.cache k with
      | some (p, e) => if e ≤ now then none else some (p, e)
      | none => none }

/-- all three sweepers wake up at the whole second `nowS` -/
def Broker.tick (b : Broker) (nowS : Nat) : Broker :=
  ({ b with hub := b.hub.tick nowS }).sweepCache (nowS * 1000)

/-! ### operations and runs -/

inductive Op
  | publish (ch : String) (data : String) (o : PubOpts) (now : Nat)
  | history (ch : String) (f : Filter) (metaTTL : Nat) (now : Nat)
  | remove (ch : String)
  | tick (nowS : Nat)
deriving Repr

inductive Out
  | pub (o : PubOut)
  | hist (pubs : List (Item Pub)) (pos : Pos)
  | ok
deriving Repr, DecidableEq

def step (b : Broker) : Op → Broker × Out
  | .publish ch data o now => let r := b.publish ch data o now; (r.1, .pub r.2)
  | .history ch f m now => let r := b.history ch f m now; (r.1, .hist r.2.1 r.2.2)
  | .remove ch => (b.removeHistory ch, .ok)
  | .tick nowS => (b.tick nowS, .ok)

/-- state after a sequence of operations -/
def run (b : Broker) (ops : List Op) : Broker := ops.foldl (fun b op => (step b op).1) b

/-- outputs of a sequence of operations -/
def runOut (b : Broker) : List Op → List Out
  | [] => []
  | op :: ops => (step b op).2 :: runOut (step b op).1 ops

end CentrifugeVerif.HistoryHub
