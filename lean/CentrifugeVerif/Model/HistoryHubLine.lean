import CentrifugeVerif.DriverLib
import CentrifugeVerif.Model.HistoryHub
/-
Line protocol for the memory broker model (shared by the C17 and C19 drivers).

```
reset meta=<ms>                                   -> ok t0=<unix ms of the scenario start>
pub <ch> <data> size=<n> ttl=<ms> meta=<ms> idem=<key|-> ittl=<ms> ver=<n> vep=<s|-> delta=<0|1> @<ms>
                                                  -> off=<n> ep=<i> sup=<none|idem|ver> bc=<…|->
get <ch> since=<off>:<ep>|- limit=<int> rev=<0|1> meta=<ms> @<ms>
                                                  -> pos=<n>:<i> pubs=<off>/<data>,…|-
rm <ch> @<ms>                                     -> ok
sleep @<ms>                                       -> ok
```
`@<ms>` is the absolute scenario time of the op (never a whole second); before the op the model runs
one `tick` for every whole second passed since the previous op.  Epochs are printed as generation
indices (1, 2, …; 0 = empty epoch); the harness canonicalises the Go epoch strings to first-seen
indices.  `bc=<off>/<data>@<spoff>:<spep>;d=<0|1>;prev=<off>/<data>|-`.
-/
namespace CentrifugeVerif.HistoryHub
open CentrifugeVerif.DriverLib CentrifugeVerif.MemStream

/-- `synctest` bubbles start at 2000-01-01T00:00:00Z -/
def t0ms : Nat := 946684800000

structure DState where
  b : Broker := Broker.init 0
  /-- absolute ms of the last op -/
  last : Nat := t0ms

def runTicks (b : Broker) (fromS toS : Nat) : Broker :=
  (List.range' (fromS + 1) (toS - fromS)).foldl (fun b s => b.tick s) b

/-- advance to absolute time `now` (ms) -/
def DState.advance (d : DState) (now : Nat) : DState :=
  if now ≤ d.last then d else { b := runTicks d.b (d.last / 1000) (now / 1000), last := now }

def fmtItem (it : Item Pub) : String := s!"{it.offset}/{it.value.data}"

def fmtItems (l : List (Item Pub)) : String :=
  if l.isEmpty then "-" else joinWith "," (l.map fmtItem)

def fmtBcast : Option Bcast → String
  | none => "-"
  | some bc =>
    let prev := match bc.prev with | none => "-" | some p => fmtItem p
    s!"{fmtItem bc.pub}@{bc.sp.offset}:{bc.sp.epoch};d={if bc.useDelta then 1 else 0};prev={prev}"

def fmtSup : Suppress → String
  | .none => "none" | .idempotency => "idem" | .version => "ver"

def atTime (ws : List String) : Option Nat :=
  ws.findSome? fun w => if w.startsWith "@" then (w.drop 1).toNat? else none

def dash (s : String) : String := if s == "-" then "" else s

def parseSince (s : String) : Option (Option Pos) :=
  if s == "-" then some none else
  match s.splitOn ":" with
  | [o, e] => match o.toNat?, e.toNat? with
    | some o, some e => some (some ⟨o, e⟩)
    | _, _ => none
  | _ => none

def parseFilter (ws : List String) : Option Filter := do
  let since ← (kv ws "since").bind parseSince
  let limit ← kvInt ws "limit"
  let rev ← kvNat ws "rev"
  pure { since := since, limit := limit, reverse := rev != 0 }

def parsePubOpts (ws : List String) : Option PubOpts := do
  let size ← kvNat ws "size"
  let ttl ← kvNat ws "ttl"
  let m ← kvNat ws "meta"
  let idem ← kv ws "idem"
  let ittl ← kvNat ws "ittl"
  let ver ← kvNat ws "ver"
  let vep ← kv ws "vep"
  let delta ← kvNat ws "delta"
  pure { size := size, ttl := ttl, metaTTL := m, idemKey := dash idem, idemTTL := ittl,
         version := ver, versionEpoch := dash vep, useDelta := delta != 0 }

def stepLine (d : DState) (line : String) : DState × String :=
  match words line with
  | "reset" :: rest =>
    match kvNat rest "meta" with
    | some m =>
      -- node.go `New`: `if c.HistoryMetaTTL == 0 { c.HistoryMetaTTL = 30 * 24 * time.Hour }`
      let m := if m = 0 then 2592000000 else m
      ({ b := Broker.init m, last := t0ms }, s!"ok t0={t0ms}")
    | none => (d, "bad-op")
  | "pub" :: ch :: data :: rest =>
    match parsePubOpts rest, atTime rest with
    | some o, some t =>
      let d := d.advance (t0ms + t)
      let r := d.b.publish ch data o d.last
      ({ d with b := r.1 },
        s!"off={r.2.pos.offset} ep={r.2.pos.epoch} sup={fmtSup r.2.suppress} bc={fmtBcast r.2.bcast}")
    | _, _ => (d, "bad-op")
  | "get" :: ch :: rest =>
    match parseFilter rest, kvNat rest "meta", atTime rest with
    | some f, some m, some t =>
      let d := d.advance (t0ms + t)
      let r := d.b.history ch f m d.last
      ({ d with b := r.1 }, s!"pos={r.2.2.offset}:{r.2.2.epoch} pubs={fmtItems r.2.1}")
    | _, _, _ => (d, "bad-op")
  | "rm" :: ch :: rest =>
    match atTime rest with
    | some t =>
      let d := d.advance (t0ms + t)
      ({ d with b := d.b.removeHistory ch }, "ok")
    | none => (d, "bad-op")
  | "sleep" :: rest =>
    match atTime rest with
    | some t => (d.advance (t0ms + t), "ok")
    | none => (d, "bad-op")
  | _ => (d, "bad-op")

end CentrifugeVerif.HistoryHub
