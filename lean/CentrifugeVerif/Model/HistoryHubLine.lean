import CentrifugeVerif.DriverLib
import CentrifugeVerif.Model.HistoryHub
/-
Line protocol for the memory broker model (shared by the C17 and C19 drivers).

```
reset meta=<ms>                                   -> ok t0=<unix ms of the scenario start>
pub <ch> <data> size=<n> ttl=<ms> meta=<ms> idem=<key|-> ittl=<ms> ver=<n> vep=<s|-> delta=<0|1> @<ms>
                                                  -> off=<n> ep=<i> sup=<none|idem|ver> bc=<…|->
get <ch> since=<off>:<ep>|- limit=<int> rev=<0|1> meta=<ms> @<ms>
                                                  -> pos=<n>:<i> pubs=<off>/<data>,…|-
rm <ch> @<ms>                                     -> ok
sleep @<ms>                                       -> ok
```
`@<ms>` is the absolute scenario time of the op (never a whole second); before the op the model runs
one `tick` for every whole second passed since the previous op.  Epochs are printed as generation
indices (1, 2, …; 0 = empty epoch); the harness canonicalises the Go epoch strings to first-seen
indices.  `bc=<off>/<data>@<spoff>:<spep>;d=<0|1>;prev=<off>/<data>|-`.
-/
namespace CentrifugeVerif.HistoryHub
open CentrifugeVerif.DriverLib CentrifugeVerif.MemStream

/-- `synctest` bubbles start at 2000-01-01T00:00:00Z -/
def t0ms : Nat := 946684800000

structure DState where
  b : Broker := Broker.init 0
  /-- absolute ms of the last op -/
  last : Nat := t0ms
  /-- model epochs in the order of their first appearance in an output line (the harness numbers
  the Go epoch strings the same way) -/
  seen : List Nat := []

/-- printed index of a model epoch (0 = empty epoch), registering it when new -/
def canonEp (seen : List Nat) (e : Nat) : List Nat × Nat :=
  if e = 0 then (seen, 0) else
  match seen.findIdx? (· == e) with
  | some i => (seen, i + 1)
  | none => (seen ++ [e], seen.length + 1)

/-- the model epoch a printed index in an *input* line refers to; an index not handed out yet is a
bogus epoch (never equal to a real one) -/
def resolveEp (seen : List Nat) (k : Nat) : Nat :=
  if k = 0 then 0 else
  match seen[k - 1]? with
  | some e => e
  | none => 1000000000 + k

def resolveFilter (seen : List Nat) (f : Filter) : Filter :=
  { f with since := f.since.map fun p => { p with epoch := resolveEp seen p.epoch } }

def runTicks (b : Broker) (fromS toS : Nat) : Broker :=
  (List.range' (fromS + 1) (toS - fromS)).foldl (fun b s => b.tick s) b

/-- advance to absolute time `now` (ms) -/
def DState.advance (d : DState) (now : Nat) : DState :=
  if now ≤ d.last then d else { d with b := runTicks d.b (d.last / 1000) (now / 1000), last := now }

def fmtItem (it : Item Pub) : String := s!"{it.offset}/{it.value.data}"

def fmtItems (l : List (Item Pub)) : String :=
  if l.isEmpty then "-" else joinWith "," (l.map fmtItem)

/-- `ep` = printed index of the broadcast position's epoch -/
def fmtBcast (ep : Nat) : Option Bcast → String
  | none => "-"
  | some bc =>
    let prev := match bc.prev with | none => "-" | some p => fmtItem p
    s!"{fmtItem bc.pub}@{bc.sp.offset}:{ep};d={if bc.useDelta then 1 else 0};prev={prev}"

def fmtSup : Suppress → String
  | .none => "none" | .idempotency => "idem" | .version => "ver"

def atTime (ws : List String) : Option Nat :=
  ws.findSome? fun w => if w.startsWith "@" then (w.drop 1).toNat? else none

def dash (s : String) : String := if s == "-" then "" else s

def parseSince (s : String) : Option (Option Pos) :=
  if s == "-" then some none else
  match s.splitOn ":" with
  | [o, e] => match o.toNat?, e.toNat? with
    | some o, some e => some (some ⟨o, e⟩)
    | _, _ => none
  | _ => none

def parseFilter (ws : List String) : Option Filter := do
  let since ← (kv ws "since").bind parseSince
  let limit ← kvInt ws "limit"
  let rev ← kvNat ws "rev"
  pure { since := since, limit := limit, reverse := rev != 0 }

def parsePubOpts (ws : List String) : Option PubOpts := do
  let size ← kvNat ws "size"
  let ttl ← kvNat ws "ttl"
  let m ← kvNat ws "meta"
  let idem ← kv ws "idem"
  let ittl ← kvNat ws "ittl"
  let ver ← kvNat ws "ver"
  let vep ← kv ws "vep"
  let delta ← kvNat ws "delta"
  pure { size := size, ttl := ttl, metaTTL := m, idemKey := dash idem, idemTTL := ittl,
         version := ver, versionEpoch := dash vep, useDelta := delta != 0 }

def stepLine (d : DState) (line : String) : DState × String :=
  match words line with
  | "reset" :: rest =>
    match kvNat rest "meta" with
    | some m =>
      -- node.go `New`: `if c.HistoryMetaTTL == 0 { c.HistoryMetaTTL = 30 * 24 * time.Hour }`
      let m := if m = 0 then 2592000000 else m
      ({ b := Broker.init m, last := t0ms, seen := [] }, s!"ok t0={t0ms}")
    | none => (d, "bad-op")
  | "pub" :: ch :: data :: rest =>
    match parsePubOpts rest, atTime rest with
    | some o, some t =>
      let d := d.advance (t0ms + t)
      let r := d.b.publish ch data o d.last
      -- the harness canonicalises the broadcast's epoch first, then the result's
      let (seen, bep) := match r.2.bcast with
        | some bc => canonEp d.seen bc.sp.epoch
        | none => (d.seen, 0)
      let (seen, ep) := canonEp seen r.2.pos.epoch
      ({ d with b := r.1, seen := seen },
        s!"off={r.2.pos.offset} ep={ep} sup={fmtSup r.2.suppress} bc={fmtBcast bep r.2.bcast}")
    | _, _ => (d, "bad-op")
  | "get" :: ch :: rest =>
    match parseFilter rest, kvNat rest "meta", atTime rest with
    | some f, some m, some t =>
      let d := d.advance (t0ms + t)
      let r := d.b.history ch (resolveFilter d.seen f) m d.last
      let (seen, ep) := canonEp d.seen r.2.2.epoch
      ({ d with b := r.1, seen := seen }, s!"pos={r.2.2.offset}:{ep} pubs={fmtItems r.2.1}")
    | _, _, _ => (d, "bad-op")
  | "rm" :: ch :: rest =>
    match atTime rest with
    | some t =>
      let d := d.advance (t0ms + t)
      ({ d with b := d.b.removeHistory ch }, "ok")
    | none => (d, "bad-op")
  | "sleep" :: rest =>
    match atTime rest with
    | some t => (d.advance (t0ms + t), "ok")
    | none => (d, "bad-op")
  | _ => (d, "bad-op")

end CentrifugeVerif.HistoryHub
