import CentrifugeVerif.Model.Merge
/-!
Model of the subscribe-time recovery decision of `client.go` / `node.go` on top of a small model of
`internal/memstream.Stream` (C02 stream recovery, C03 cache recovery).  Core Lean only.

Go facts mirrored here (file:function):

* `memstream.Stream.Add`: `top++` (uint64, wraps), push back, drop from the front while
  `len > size`.  `Clear` empties the list and keeps `top`/`epoch`.
* `memstream.Stream.Get(offset, useOffset, limit, reverse)`:
  `useOffset ∧ offset ≥ top+1` (uint64 arithmetic) → nothing; `index[offset]` lookup, and when the
  offset is not retained the *front* of the list is used (forward) — so a trimmed position yields
  the whole retained list; `limit > 0` truncates, `limit < 0` (NoLimit) does not.
* `historyHub.getLocked`: `top == since.Offset ∧ since.Epoch == epoch` → nothing; otherwise
  `Get(since.Offset + 1, …)` (uint64 `+1`, wraps at MaxUint64).
* `Node.history`: a non-empty `since.Epoch` different from the stream epoch gives
  `ErrorUnrecoverablePosition` *together with* the stream position.
* `Node.recoverHistory` / `recoverCache`: `limit = RecoveryMaxPublicationLimit` when that is `> 0`,
  else `NoLimit`; `recoverCache` without any filter asks for `Limit 1, Reverse`, with a filter for
  `limit` newest publications in reverse order and scans them for the first one passing both filters.
* `isStreamRecovered`, `isCacheRecovered`, and the reply assembly of `subscribeCmd`
  (merge with buffered publications via `recovery.MergePublications` = `Merge.merge`, cache-mode
  trimming to the last publication when no delta was requested, `res.Offset` adjustments,
  `RejectUnrecovered` flag, cache-empty handler with one retry, removal of stale buffered copies
  after a successful stream recovery).

Epochs are natural numbers; `0` stands for the empty epoch string of a request (a stream's own
epoch is never empty: `epoch.Generate` returns 8 letters).
-/
namespace CentrifugeVerif.Recovery
open CentrifugeVerif.Merge

/-- 2^64: Go `uint64` arithmetic is modelled explicitly where the code can wrap. -/
def U64 : Nat := 18446744073709551616

structure Pub where
  offset : Nat
  /-- value of the single tag the filters look at (0 = publication without that tag) -/
  tag : Nat
  /-- identity of the publication (stands for its payload) -/
  id : Nat
deriving Repr, DecidableEq, Inhabited

/-- `memstream.Stream` (+ a ghost `log` of everything ever added in this epoch; the code has no
such field; only the driver reads it, to replay the harness re-delivering an old publication). -/
structure RStream where
  top : Nat
  epoch : Nat
  items : List Pub
  log : List Pub
deriving Repr, DecidableEq, Inhabited

/-- `memstream.New` with the generated epoch passed in. -/
def RStream.new (epoch : Nat) : RStream := ⟨0, epoch, [], []⟩

/-- `Stream.Add(v, size, …)`. -/
def RStream.add (s : RStream) (tag id size : Nat) : RStream :=
  let top' := (s.top + 1) % U64
  let p : Pub := ⟨top', tag, id⟩
  let l := s.items ++ [p]
  { s with top := top', items := l.drop (l.length - size), log := s.log ++ [p] }

/-- `Stream.Clear` (history TTL expiry and `RemoveHistory`). -/
def RStream.clear (s : RStream) : RStream := { s with items := [] }

/-- `limit`: `0` = NoLimit (the config value `RecoveryMaxPublicationLimit ≤ 0`). -/
def takeLim (limit : Nat) (l : List Pub) : List Pub := if limit = 0 then l else l.take limit

/-- `Stream.Get(so, true, limit, false)`. -/
def RStream.getFwd (s : RStream) (so : Nat) (limit : Nat) : List Pub :=
  if so ≥ (s.top + 1) % U64 then []
  else
    let l := s.items.dropWhile (fun p => p.offset != so)   -- `index[so]` and everything after it
    takeLim limit (if l.isEmpty then s.items else l)        -- offset not in the index: start from Front

/-- `Stream.Get(0, false, limit, true)`: newest first. -/
def RStream.getRev (s : RStream) (limit : Nat) : List Pub := takeLim limit s.items.reverse

/-- `historyHub.getLocked` with `Since = (off, ep)`, not reversed. -/
def RStream.since (s : RStream) (off ep : Nat) (limit : Nat) : List Pub :=
  if s.top = off ∧ ep = s.epoch then [] else s.getFwd ((off + 1) % U64) limit

/-- A pair of tags filters as the recovery code sees it: whether any filter is set at all
(`tf == nil && serverTf == nil` selects the fast path of `recoverCache`) and the conjunction
"passes the server filter and the client filter". -/
structure Filt where
  has : Bool
  pass : Pub → Bool

/-- A filter pair is well formed when "no filter" passes everything. -/
def Filt.WF (f : Filt) : Prop := f.has = false → ∀ p, f.pass p = true

def toM (pass : Pub → Bool) (p : Pub) : MPub := ⟨p.offset, !pass p, p.id⟩

/-- `pubToProto` of a publication that is delivered as is (cache recovery never marks). -/
def toPlain (p : Pub) : MPub := ⟨p.offset, false, p.id⟩

/-- the `recovered` flag computed by `isStreamRecovered` from the returned publications -/
def recFlag (pubs : List Pub) (top off : Nat) : Bool :=
  match pubs, pubs.getLast? with
  | p :: _, some q => p.offset == (off + 1) % U64 && q.offset == top
  | _, _ => top == off

/-- `isStreamRecovered`; `none` = `(nil, false)`. -/
def isStreamRecovered (pubs : List Pub) (top epoch off ep : Nat) (pass : Pub → Bool) :
    Option (List MPub) :=
  if ep ≠ 0 ∧ epoch ≠ ep then none
  else if recFlag pubs top off then some (pubs.map (toM pass)) else none

inductive Outcome
  /-- error reply `ErrorUnrecoverablePosition` (112) -/
  | unrecoverable
  /-- `DisconnectInsufficientState`: the merge with buffered publications found a gap -/
  | insufficient
  /-- the cache-empty handler returned an error -/
  | handlerError
  /-- subscribe result: `Recovered`, `Publications` (offset + identity), `Offset`, `Epoch`, the
  position stored in the channel context, `WasRecovering` -/
  | reply (recovered : Bool) (pubs : List MPub) (offset epoch pos : Nat) (was : Bool)
deriving Repr, DecidableEq

def Outcome.recovered : Outcome → Bool
  | .reply r _ _ _ _ _ => r
  | _ => false

def Outcome.pubs : Outcome → List MPub
  | .reply _ p _ _ _ _ => p
  | _ => []

/-- After a successful *stream* recovery, when something was buffered, merged publications at or
below the requested offset (lagging PUB/SUB copies of what the client already holds) are dropped
(`slices.DeleteFunc(recoveredPubs, p.Offset <= req.Offset)` guarded by `len(bufferedPubs) > 0`). -/
def dropStale (reqOff : Nat) (buffered merged : List MPub) : List MPub :=
  if buffered.isEmpty then merged else merged.filter (fun p => decide (reqOff < p.offset))

/-- The tail of `subscribeCmd` after the recovery decision: merge with buffered publications,
stale-copy removal (stream mode), cache-mode trimming, offset bookkeeping. -/
def finish (cacheMode delta recovered : Bool) (rp buffered : List MPub) (top epoch reqOff : Nat)
    (was : Bool) : Outcome :=
  match merge rp buffered with
  | none => .insufficient
  | some (l, mx) =>
    let l := if recovered && !cacheMode then dropStale reqOff buffered l else l
    let l := if cacheMode && decide (l.length > 1) && !delta then l.drop (l.length - 1) else l
    let latest := top
    let latest := match l.getLast? with
      | some p => if p.offset > latest then p.offset else latest
      | none => latest
    let latest := if mx > latest then mx else latest
    .reply recovered (if recovered then l else []) (if recovered then reqOff else latest) epoch latest was

structure Req where
  offset : Nat
  epoch : Nat
  /-- `subscriptionFlagRejectUnrecovered` -/
  reject : Bool
deriving Repr, DecidableEq

/-- Stream-mode recovery branch of `subscribeCmd` (`req.Recover` set), on the stream as the broker
sees it at the history read. -/
def streamSubscribe (limit : Nat) (s : RStream) (req : Req) (pass : Pub → Bool)
    (buffered : List MPub) : Outcome :=
  let pubs := s.since req.offset req.epoch limit
  let epochOK : Bool := req.epoch == 0 || req.epoch == s.epoch
  if !epochOK then
    -- ErrorUnrecoverablePosition from Node.history
    if req.reject then .unrecoverable
    else finish false false false [] buffered s.top s.epoch req.offset true
  else
    match isStreamRecovered pubs s.top s.epoch req.offset req.epoch pass with
    | none =>
      if req.reject then .unrecoverable
      else finish false false false [] buffered s.top s.epoch req.offset true
    | some rp => finish false false true rp buffered s.top s.epoch req.offset true

/-- Subscribe without a recovery attempt (`streamTop` branch). -/
def plainSubscribe (cacheMode delta : Bool) (s : RStream) (req : Req) (buffered : List MPub) : Outcome :=
  finish cacheMode delta false [] buffered s.top s.epoch req.offset false

/-- `Node.recoverCache`: `(latestPub, recoveredPub)`, or `none` for `(nil, nil)`. -/
def recoverCache (limit : Nat) (s : RStream) (f : Filt) : Option (Pub × Pub) :=
  if !f.has then
    match s.getRev 1 with
    | [] => none
    | p :: _ => some (p, p)
  else
    let hr := s.getRev limit
    match hr, hr.find? f.pass with
    | l :: _, some p => some (l, p)
    | _, _ => none

/-- `clientHasSameState` of `isCacheRecovered`. -/
def sameState (s : RStream) (off ep : Nat) : Bool :=
  decide (off > 0) && off == s.top && ep == s.epoch

/-- `isCacheRecovered`. -/
def isCacheRecovered (lr : Option (Pub × Pub)) (s : RStream) (off ep : Nat) : List Pub × Bool :=
  match lr with
  | none => ([], sameState s off ep)
  | some (latest, rp) =>
    let recovered := latest.offset == s.top
    if recovered && !sameState s off ep then ([rp], true) else ([], recovered)

/-- one `recoverCache` + `isCacheRecovered` round on a stream state -/
def cacheDecide (limit : Nat) (s : RStream) (f : Filt) (off ep : Nat) : List Pub × Bool :=
  isCacheRecovered (recoverCache limit s f) s off ep

/-- Reply of the cache-empty handler: `none` = no handler registered, `some none` = the handler
returned an error, `some (some populated)`. -/
abbrev HandlerReply := Option (Option Bool)

/-- Cache-mode recovery branch of `subscribeCmd` (client `Recover` or server `AutoCacheRecover`).
`s1` is the stream at the first `recoverCache`; `s2` and `buffered` are the stream after the
cache-empty handler ran and the publications buffered meanwhile — both are only looked at when
the handler is actually invoked (`latestPub == nil` and a handler is registered). -/
def cacheSubscribe (limit : Nat) (s1 s2 : RStream) (f : Filt) (req : Req) (delta : Bool)
    (h : HandlerReply) (buffered : List MPub) : Outcome :=
  let lr1 := recoverCache limit s1 f
  let d1 := isCacheRecovered lr1 s1 req.offset req.epoch
  match lr1, h with
  | none, some none => .handlerError
  | none, some (some populated) =>
    if populated && !d1.2 then
      let d2 := cacheDecide limit s2 f req.offset req.epoch
      finish true delta d2.2 (d2.1.map toPlain) buffered s2.top s2.epoch req.offset true
    else
      finish true delta d1.2 (d1.1.map toPlain) buffered s1.top s1.epoch req.offset true
  | _, _ =>
    finish true delta d1.2 (d1.1.map toPlain) [] s1.top s1.epoch req.offset true

end CentrifugeVerif.Recovery
