/-
Model of the part of `github.com/quagmt/udecimal` (v1.10.1) that `internal/filter.Match` uses:
`Parse` (which numerals are accepted and which value they get) and `Decimal.Cmp`.
Core Lean only.  Strings are Go strings: byte sequences.

Facts mirrored from `bint.go` / `decimal.go` (default parse mode, default precision 19):
* `""` and strings longer than 200 bytes are rejected;
* strings of at most 41 bytes are first parsed into a u128 coefficient (`parseBintFromU128`):
  one optional sign, no leading `.`, at most one `.`, at least one digit after it, at most 19
  fractional digits, ASCII digits only; only when that path *overflows* 2^128 (never when it
  rejects) the general path is tried;
* the general path (`big.Int`) keeps a leading `+` in the digit string and lets
  `big.Int.SetString` consume it, and strips a leading `-` itself — so `-+ddd…` is accepted there
  (as a negative number) while `++ddd`, `--ddd`, `+-ddd` are not;
* a zero coefficient is normalised to `Zero` (no negative zero, precision 0);
* `Cmp` compares signs first, then the coefficients rescaled to the larger precision.
-/
namespace CentrifugeVerif.Decimal

abbrev Str := List UInt8

structure Dec where
  neg : Bool
  coef : Nat
  prec : Nat
deriving DecidableEq, Repr, Inhabited

def cDot : UInt8 := 46
def cPlus : UInt8 := 43
def cMinus : UInt8 := 45

def isDigit (c : UInt8) : Bool := 48 ≤ c.toNat && c.toNat ≤ 57
def digitVal (c : UInt8) : Nat := c.toNat - 48

/-- value of a string of ASCII digits (accumulator style), `none` if a non-digit occurs -/
def digitsVal : Str → Nat → Option Nat
  | [], acc => some acc
  | c :: t, acc => if isDigit c then digitsVal t (acc * 10 + digitVal c) else none

def two128 : Nat := 340282366920938463463374607431768211456
def maxDigitU64 : Nat := 19
def defaultPrec : Nat := 19
def maxStrLen : Nat := 200

/-- outcome of the u128 path -/
inductive U where
  | ok (coef prec : Nat)
  | invalid
  | precOut
  | overflow
deriving DecidableEq, Repr

/-- `parseSmallToU128` (input of at most 19 bytes): single pass, `prec` doubles as the
"dot already seen" flag exactly as in the Go code. -/
def parseSmall : Str → Nat → Nat → U
  | [], coef, prec => if coef = 0 then .ok 0 0 else .ok coef prec
  | c :: t, coef, prec =>
    if c = cDot then
      if prec ≠ 0 then .invalid
      else if t.length = 0 then .invalid
      else if t.length > defaultPrec then .precOut
      else parseSmall t coef t.length
    else if !isDigit c then .invalid
    else parseSmall t (coef * 10 + digitVal c) prec

/-- the chunk loop of `digitToU128` for inputs longer than 19 digits -/
def chunkLoop : Nat → Str → Nat → U
  | 0, _, _ => .invalid
  | fuel + 1, s, u =>
    if s.length = 0 then .ok u 0 else
    let n := min s.length maxDigitU64
    match digitsVal (s.take n) 0 with
    | none => .invalid
    | some chunk =>
      let u1 := u * 10 ^ n
      if u1 ≥ two128 then .overflow else
      let u2 := u1 + chunk
      if u2 ≥ two128 then .overflow else
      chunkLoop fuel (s.drop n) u2

/-- `digitToU128` (`.ok v 0` carries the value) -/
def digitToU128 (s : Str) : U :=
  if s.length ≤ maxDigitU64 then
    match digitsVal s 0 with
    | some v => .ok v 0
    | none => .invalid
  else chunkLoop (s.length + 1) s 0

/-- `bytes.IndexByte` -/
def indexByte : Str → UInt8 → Option Nat
  | [], _ => none
  | c :: t, x => if c = x then some 0 else (indexByte t x).map (· + 1)

/-- `parseLargeToU128` (input longer than 19 bytes) -/
def parseLarge (s : Str) : U :=
  let l := s.length
  match indexByte s cDot with
  | none => digitToU128 s
  | some pos =>
    if pos = 0 ∨ pos = l - 1 then .invalid
    else
      let prec := l - pos - 1
      if prec > defaultPrec then .precOut
      else
        match digitToU128 (s.take pos) with
        | .ok intPart _ =>
          match digitToU128 (s.drop (pos + 1)) with
          | .ok frac _ =>
            let c1 := intPart * 10 ^ prec
            if c1 ≥ two128 then .overflow else
            let c2 := c1 + frac
            if c2 ≥ two128 then .overflow else .ok c2 prec
          | e => e
        | e => e

/-- `parseBintFromU128`: sign, then small or large path -/
def parseU128 (s : Str) : Bool × U :=
  match s with
  | [] => (false, .invalid)
  | c :: t =>
    if c = cDot then (false, .invalid)
    else
      let neg := c = cMinus
      let rest := if c = cMinus ∨ c = cPlus then t else s
      match rest with
      | [] => (false, .invalid)                    -- "+" or "-"
      | d :: _ =>
        if d = cDot then (false, .invalid)         -- "-.123"
        else if rest.length ≤ maxDigitU64 then (neg, parseSmall rest 0 0)
        else (neg, parseLarge rest)

/-- `big.Int.SetString(s, 10)`: optional sign, at least one digit, digits only -/
def setString10 (s : Str) : Option Int :=
  match s with
  | [] => none
  | c :: t =>
    let digits := if c = cMinus ∨ c = cPlus then t else s
    if digits.length = 0 then none else
    match digitsVal digits 0 with
    | none => none
    | some v => some (if c = cMinus then -(v : Int) else (v : Int))

/-- the `big.Int` path of `parseBint` (after the length checks) -/
def parseBig (s : Str) : Option (Bool × Nat × Nat) :=
  match s with
  | [] => none
  | c :: t =>
    if c = cDot then none else
    let neg := c = cMinus
    let value := if c = cMinus then t else s          -- a leading '+' stays in `value`
    let pos := if c = cMinus ∨ c = cPlus then 1 else 0
    if pos = s.length then none else
    if s[pos]? = some cDot then none else
    let vLen := value.length
    let fin := fun (intString : Str) (prec : Nat) =>
      match setString10 intString with
      | none => none
      | some v => if v < 0 then none else some (decide neg, v.toNat, prec)
    match indexByte value cDot with
    | none => fin value 0
    | some pIndex =>
      if pIndex = 0 ∨ pIndex ≥ vLen - 1 then none
      else
        let prec := vLen - pIndex - 1
        if prec > defaultPrec then none
        else fin (value.take pIndex ++ value.drop (pIndex + 1)) prec

/-- `newDecimal`: a zero coefficient is the canonical `Zero` -/
def mkDec (neg : Bool) (coef prec : Nat) : Dec :=
  if coef = 0 then ⟨false, 0, 0⟩ else ⟨neg, coef, prec⟩

/-- `udecimal.Parse`; `none` = any error -/
def parse (s : Str) : Option Dec :=
  if s.length = 0 then none
  else if s.length > maxStrLen then none
  else
    let big := fun (_ : Unit) =>
      match parseBig s with
      | some (neg, c, p) => some (mkDec neg c p)
      | none => none
    if s.length ≤ 41 then
      match parseU128 s with
      | (neg, .ok c p) => some (mkDec neg c p)
      | (_, .overflow) => big ()
      | _ => none
    else big ()

def cmpNat (a b : Nat) : Int := if a < b then -1 else if a > b then 1 else 0

/-- `cmpDecSameSign` (both the u128 and the big.Int variants compute this) -/
def cmpSameSign (d e : Dec) : Int :=
  if d.prec = e.prec then cmpNat d.coef e.coef
  else if d.prec < e.prec then cmpNat (d.coef * 10 ^ (e.prec - d.prec)) e.coef
  else -(cmpNat (e.coef * 10 ^ (d.prec - e.prec)) d.coef)

/-- `Decimal.Cmp` -/
def cmp (d e : Dec) : Int :=
  if d.neg ∧ ¬ e.neg then -1
  else if ¬ d.neg ∧ e.neg then 1
  else if d.neg then -(cmpSameSign d e)
  else cmpSameSign d e

end CentrifugeVerif.Decimal
