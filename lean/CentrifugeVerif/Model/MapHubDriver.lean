import CentrifugeVerif.DriverLib
import CentrifugeVerif.Model.MapHub
import CentrifugeVerif.Model.MapExpiry
/-!
Line-protocol driver logic shared by `Drivers/C20.lean`, `C21.lean`, `C24.lean` (same protocol, same model).

Lines (every op line carries `dt=<ms>`: the virtual clock advances by `dt` first; key-expiry sweeps
run at every multiple of 1000 ms that is crossed, before the op):

* `reset c0=<M>:<keyTTLms>:<streamSize>:<ordered> c1=…`   M ∈ E,R,P,U(nset),B(ogus)
* `pub ch=<i> key=<hex> dt= data=<n> tag=<n> score=<int> mode=r|n|x|o rtos=0|1 ver=<n> vep=<n>
       idem=<n> ittl=<ms> cas=-|<off>:<ep> delta=0|1`         ep = `-` | `E<k>`
* `rm ch= key= dt= idem= ittl= cas= tag=`
* `clear ch= dt=`
* `state ch= dt= lim=<int> cur=<hex|-> key=<hex|-> asc=0|1 rev=-|<off>:<ep>`
* `stream ch= dt= since=-|<off>:<ep> lim=<int> rev=0|1`
* `adv dt=`
* `pages ch= dt= lim=<int> asc=0|1`   (the whole pagination loop, cursors taken from the replies)
* `hook ch= key=<hex> kind=in|co dt= | <pub/rm/clear line>`   one-shot reaction to the sweeper's removal broadcast of
  `(ch, key)`: `in` = issued inside that HandlePublication call, `co` = issued concurrently while it is in flight
  (a `sw` item `hk:<ch>:<result>` reports the reaction's result)

Output: `sw=<broadcasts of the sweeps> <result> bc=<broadcasts of the op>`.
-/
namespace CentrifugeVerif.MapHubDriver
open CentrifugeVerif DriverLib MapHub MapPage

/-- a one-shot reaction registered by a `hook` line: when the sweeper broadcasts the expiry removal of
`(ch, key)`, the operation `cmd ws` is issued from inside that `HandlePublication` call (`conc = false`: on the
sweeper's goroutine, i.e. between two phase-2 regions) or from another goroutine while the call is in flight
(`conc = true`; the publish lock of the channel orders it after the removal's dispatch). -/
structure Hook where
  ch : Nat
  key : Key
  conc : Bool
  cmd : String
  ws : List String

structure DState where
  cfgs : List (Nat × RawCfg) := []
  hub : Hub := Hub.init
  now : Nat := 0
  hooks : List Hook := []

def cfgOf (cfgs : List (Nat × RawCfg)) (ch : Nat) : RawCfg :=
  match aget cfgs ch with
  | some c => c
  | none => ⟨0, 0, 0, false⟩

def showEpoch (e : Nat) : String := if e = 0 then "-" else s!"E{e - 1}"
def showPos (p : Pos) : String := s!"{p.offset}:{showEpoch p.epoch}"
def showKey (k : Key) : String := hex (k.map UInt8.ofNat)
def showPub (p : Pub) : String :=
  s!"{showKey p.key}/{p.offset}/{if p.removed then 1 else 0}/{p.data}/{p.tag}/{p.score}/{p.time}"
def showPubs (ps : List Pub) : String := if ps.isEmpty then "-" else joinWith "," (ps.map showPub)
def showBc (b : Bcast) : String :=
  let prev := match b.prev with | some p => s!"{p.offset}.{p.data}" | none => "-"
  s!"{b.ch}/{showPub b.pub}/{showPos b.pos}/{if b.delta then 1 else 0}/{prev}"
def showBcs (bs : List Bcast) : String := if bs.isEmpty then "-" else joinWith "," (bs.map showBc)

def showSup : Suppress → String
  | .none => "-" | .idempotency => "idempotency" | .version => "version" | .keyExists => "key_exists"
  | .keyNotFound => "key_not_found" | .positionMismatch => "position_mismatch"

def showCursor (c : Option Elem) (ordered : Bool) : String :=
  match c with
  | none => "-"
  | some (s, k) =>
    if ordered then hex (((toString s).toUTF8.toList ++ [0]) ++ k.map UInt8.ofNat) else showKey k

def showRes : Res → String
  | .update pos sup cur =>
    let c := match cur with | some (o, d) => s!"{o}.{d}" | none => "-"
    s!"ok pos={showPos pos} sup={showSup sup} cur={c}"
  | .err .config => "err=config"
  | .err .casEphemeral => "err=cas-ephemeral"
  | .err .versionEphemeral => "err=version-ephemeral"
  | .err .unrecoverable => "err=unrecoverable"
  | .stateErr pos => s!"err=unrecoverable pos={showPos pos}"
  | .state pubs pos cur ord => s!"ok pos={showPos pos} cursor={showCursor cur ord} pubs={showPubs pubs}"
  | .stream pubs pos => s!"ok pos={showPos pos} pubs={showPubs pubs}"
  | .done => "ok"
  | .stuck => "STUCK"

/-- `strconv.ParseInt(s, 10, 64)` with the error dropped (`0` on syntax error, clamped on range error). -/
def parseInt64 (bs : List Nat) : Int :=
  let nd : Bool × List Nat := match bs with
    | 43 :: r => (false, r)
    | 45 :: r => (true, r)
    | r => (false, r)
  let ds := nd.2
  if ds.isEmpty || !(ds.all (fun b => decide (48 ≤ b) && decide (b ≤ 57))) then 0 else
  let n : Nat := ds.foldl (fun a b => a * 10 + (b - 48)) 0
  if nd.1 then (if n > 2 ^ 63 then -((2 : Int) ^ 63) else -(n : Int))
  else (if n > 2 ^ 63 - 1 then (2 : Int) ^ 63 - 1 else (n : Int))

/-- `parseOrderedCursor` + `ParseInt`, and the raw string as unordered cursor. -/
def parseCursor (raw : List Nat) : Option Cursor :=
  if raw.isEmpty then none else
  let i := raw.findIdx? (· == 0)
  match i with
  | some i => some ⟨raw, parseInt64 (raw.take i), raw.drop (i + 1)⟩
  | none => some ⟨raw, 0, []⟩

def parseEpoch (h : Hub) (s : String) : Option Nat :=
  if s == "-" then some 0
  else if s.startsWith "E" then
    match (s.drop 1).toNat? with
    | some k => if k + 1 < h.nextEpoch then some (k + 1) else some (1000000000 + k)
    | none => none
  else none

def parsePos (h : Hub) (s : String) : Option (Option Pos) :=
  if s == "-" then some none else
  match s.splitOn ":" with
  | [o, e] =>
    match o.toNat?, parseEpoch h e with
    | some o, some e => some (some ⟨o, e⟩)
    | _, _ => none
  | _ => none

def parseKey (s : String) : Option Key := (unhex s).map (·.map (·.toNat))

def parseCfg (w : String) : Option (Nat × RawCfg) :=
  match w.splitOn "=" with
  | [c, v] =>
    if !c.startsWith "c" then none else
    match (c.drop 1).toNat?, v.splitOn ":" with
    | some i, [m, ttl, size, ord] =>
      let mode : Option Nat := match m with
        | "E" => some 1 | "R" => some 2 | "P" => some 3 | "U" => some 0 | "B" => some 7 | _ => none
      match mode, ttl.toInt?, size.toInt?, ord with
      | some mode, some ttl, some size, "0" => some (i, ⟨mode, ttl, size, false⟩)
      | some mode, some ttl, some size, "1" => some (i, ⟨mode, ttl, size, true⟩)
      | _, _, _, _ => none
    | _, _ => none
  | _ => none

def parseBool (s : Option String) : Option Bool :=
  match s with | some "0" => some false | some "1" => some true | _ => none

def parseOp (h : Hub) (cmd : String) (ws : List String) : Option MOp := do
  let ch ← kvNat ws "ch"
  match cmd with
  | "pub" =>
    let key ← (kv ws "key").bind parseKey
    let mode ← match kv ws "mode" with
      | some "r" => some KeyMode.replace | some "n" => some .ifNew | some "x" => some .ifExists
      | some "o" => some .other | _ => none
    let cas ← (kv ws "cas").bind (parsePos h)
    some (.publish ch key {
      data := ← kvNat ws "data", tag := ← kvNat ws "tag", score := ← kvInt ws "score", mode := mode,
      refresh := ← parseBool (kv ws "rtos"), version := ← kvNat ws "ver", vepoch := ← kvNat ws "vep",
      idem := ← kvNat ws "idem", ittl := ← kvNat ws "ittl", cas := cas, delta := ← parseBool (kv ws "delta") })
  | "rm" =>
    let key ← (kv ws "key").bind parseKey
    let cas ← (kv ws "cas").bind (parsePos h)
    some (.remove ch key { idem := ← kvNat ws "idem", ittl := ← kvNat ws "ittl", cas := cas, tag := ← kvNat ws "tag" })
  | "clear" => some (.clear ch)
  | "state" =>
    let key ← (kv ws "key").bind parseKey
    let cur ← (kv ws "cur").bind parseKey
    let rev ← (kv ws "rev").bind (parsePos h)
    some (.readState ch { rev := rev, cursor := parseCursor cur, limit := ← kvInt ws "lim", key := key,
                          asc := ← parseBool (kv ws "asc") })
  | "stream" =>
    let since ← (kv ws "since").bind (parsePos h)
    some (.readStream ch { since := since, limit := ← kvInt ws "lim", reverse := ← parseBool (kv ws "rev") })
  | _ => none

/-- find and remove the first hook for `(ch, key)`. -/
def takeHook (ch : Nat) (key : Key) : List Hook → Option (Hook × List Hook)
  | [] => none
  | hk :: rest =>
    if hk.ch = ch ∧ hk.key = key then some (hk, rest)
    else (takeHook ch key rest).map (fun r => (r.1, hk :: r.2))

def semis (s : String) : String := String.ofList (s.toList.map (fun c => if c == ' ' then ';' else c))

/-- the phase-2 part of one sweep as a label sequence of the `MapExpiry` transition system: one `.phase2`
label per pending event; when the removal just logged has a hook, the hooked operation follows as a
`.pub` / `.rm` / `.clear` label before the next `.phase2` (exactly the window the real sweeper leaves open:
its per-event lock regions).  Items: broadcasts in log order, `hk:<ch>:<result>` after a reaction. -/
def phase2Hooked (cfg : Nat → RawCfg) : Nat → MapExpiry.Sys → List Hook → List String → MapExpiry.Sys × List Hook × List String
  | 0, s, hooks, items => (s, hooks, items)
  | fuel + 1, s, hooks, items =>
    match s.step cfg .phase2 with
    | none => (s, hooks, items)
    | some s1 =>
      let newBcs := s1.log.drop s.log.length
      let items := items ++ newBcs.map showBc
      match newBcs with
      | [b] =>
        match (if b.pub.removed then takeHook b.ch b.pub.key hooks else none) with
        | none => phase2Hooked cfg fuel s1 hooks items
        | some (hk, hooks') =>
          match parseOp s1.hub hk.cmd hk.ws with
          | none => phase2Hooked cfg fuel s1 hooks' (items ++ ["hk:bad-op"])
          | some op =>
            let lbl : Option MapExpiry.Label := match op with
              | .publish ch key o => some (.pub ch key o)
              | .remove ch key o => some (.rm ch key o)
              | .clear ch => some (.clear ch)
              | _ => none
            match lbl with
            | none => phase2Hooked cfg fuel s1 hooks' (items ++ ["hk:bad-op"])
            | some l =>
              match s1.step cfg l with
              | none => phase2Hooked cfg fuel s1 hooks' (items ++ ["hk:bad-op"])
              | some s2 =>
                let res := (step cfg s1.hub s1.now op).2.res
                let opch := match op with
                  | .publish ch _ _ => ch | .remove ch _ _ => ch | .clear ch => ch | _ => 0
                let items := items ++ (s2.log.drop s1.log.length).map showBc ++ [s!"hk:{opch}:{semis (showRes res)}"]
                phase2Hooked cfg fuel s2 hooks' items
      | _ => phase2Hooked cfg fuel s1 hooks items

/-- one `expireKeysIteration` at time `t` as labels `phase1; phase2*` (with hooked operations in between). -/
def sweepHooked (cfg : Nat → RawCfg) (h : Hub) (t : Nat) (hooks : List Hook) : Hub × List Hook × List String × Bool :=
  let s0 : MapExpiry.Sys := ⟨h, t, [], t, []⟩
  match s0.step cfg .phase1 with
  | none => (h, hooks, [], true)
  | some s1 =>
    let r := phase2Hooked cfg s1.pending.length s1 hooks []
    (r.1.hub, r.2.1, r.2.2, false)

/-- advance the clock to `now + dt`, running the sweeps that fall in between. -/
def advance (st : DState) (dt : Nat) : DState × List String × Bool :=
  let target := st.now + dt
  let first := st.now / 1000 + 1
  let n := target / 1000 + 1 - first
  let r := (List.range n).foldl (fun (acc : Hub × List Hook × List String × Bool) j =>
      let t := (first + j) * 1000
      let s := sweepHooked (cfgOf st.cfgs) acc.1 t acc.2.1
      (s.1, s.2.1, acc.2.2.1 ++ s.2.2.1, acc.2.2.2 || s.2.2.2)) (st.hub, st.hooks, [], false)
  ({ st with hub := r.1, hooks := r.2.1, now := target }, r.2.2.1, r.2.2.2)

/-- the client's pagination loop (`pages` op): from the empty cursor while the returned cursor is
non-empty, at most 64 requests; the cursor goes through the string encoding and back. -/
def pagesLoop (rc : RawCfg) (ch : Nat) (lim : Int) (asc : Bool) :
    Nat → Hub → Option Cursor → Nat → List Nat → List Key → Pos → Hub × String
  | 0, h, _, n, sizes, keys, lp =>
    (h, s!"ok pos={showPos lp} n={n} done=0 sizes={joinWith "," (sizes.map toString)} keys={if keys.isEmpty then "-" else joinWith "," (keys.map showKey)}")
  | fuel + 1, h, cur, n, sizes, keys, _ =>
    let r := getState rc h ch { cursor := cur, limit := lim, asc := asc }
    match r.2.res with
    | .state pubs lp c ord =>
      let keys := keys ++ pubs.map (·.key)
      let sizes := sizes ++ [pubs.length]
      match c with
      | none =>
        (r.1, s!"ok pos={showPos lp} n={n + 1} done=1 sizes={joinWith "," (sizes.map toString)} keys={if keys.isEmpty then "-" else joinWith "," (keys.map showKey)}")
      | some _ =>
        let raw := (parseKey (showCursor c ord)).getD []
        pagesLoop rc ch lim asc fuel r.1 (parseCursor raw) (n + 1) sizes keys lp
    | other => (r.1, showRes other)

def stepLine (st : DState) (line : String) : DState × String :=
  match words line with
  | "reset" :: rest =>
    match rest.mapM parseCfg with
    | some cfgs => ({ cfgs := cfgs, hub := Hub.init, now := 0 }, "ok")
    | none => (st, "bad-op")
  | cmd :: ws =>
    match kvNat ws "dt" with
    | none => (st, "bad-op")
    | some dt =>
      let a := advance st dt
      let st1 := a.1
      let sw := if a.2.2 then "STUCK" else (if a.2.1.isEmpty then "-" else joinWith "," a.2.1)
      if cmd == "adv" then (st1, s!"sw={sw} ok bc=-")
      else if cmd == "hook" then
        -- `hook ch= key= kind=in|co dt= | <op line>`
        let opWs := (ws.dropWhile (· ≠ "|")).drop 1
        match kvNat (ws.takeWhile (· ≠ "|")) "ch", (kv ws "key").bind parseKey, kv ws "kind", opWs with
        | some ch, some key, some kind, ocmd :: ows =>
          ({ st1 with hooks := st1.hooks ++ [⟨ch, key, kind == "co", ocmd, ows⟩] }, s!"sw={sw} ok bc=-")
        | _, _, _, _ => (st, "bad-op")
      else if cmd == "pages" then
        match kvNat ws "ch", kvInt ws "lim", parseBool (kv ws "asc") with
        | some ch, some lim, some asc =>
          let r := pagesLoop (cfgOf st1.cfgs ch) ch lim asc 64 st1.hub none 0 [] [] ⟨0, 0⟩
          ({ st1 with hub := r.1 }, s!"sw={sw} {r.2} bc=-")
        | _, _, _ => (st, "bad-op")
      else
        match parseOp st1.hub cmd ws with
        | none => (st, "bad-op")
        | some op =>
          let r := step (cfgOf st1.cfgs) st1.hub st1.now op
          ({ st1 with hub := r.1 }, s!"sw={sw} {showRes r.2.res} bc={showBcs r.2.bcs}")
  | [] => (st, "bad-op")

end CentrifugeVerif.MapHubDriver
