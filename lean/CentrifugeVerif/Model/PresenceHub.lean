/-
C06 (a) — model of `presenceHub` in `presence_memory.go` (the store behind `MemoryPresenceManager`).
Core Lean only.

Go: `presence map[string]map[string]*ClientInfo`.  Maps are modelled as association lists with
unique keys (order is irrelevant: Go map iteration order is unspecified and everything observable
is canonicalised by sorting).  Mirrored line by line:
* `add`: create the inner map when the channel is absent, then `presence[ch][uid] = info`;
* `remove`: nothing when channel or uid is absent; delete the uid; delete the channel entry when
  its inner map became empty;
* `get`: `nil` (here `none`) when the channel is absent, else a copy of the inner map;
* `getStats`: zero stats when absent; `NumClients = len(presence)`; `NumUsers` counted by the loop
  over the entries with the `uniqueUsers` set.
`info` is never nil at any call site in the package (a nil `*ClientInfo` would make `getStats`
panic); the model's `Info` is a value.
-/
namespace CentrifugeVerif.PresenceHub

structure Info where
  clientID : String
  userID : String
deriving DecidableEq, Repr, Inhabited

abbrev Inner := List (String × Info)
abbrev Hub := List (String × Inner)

/-- `m[uid] = info` -/
def setKey (uid : String) (info : Info) : Inner → Inner
  | [] => [(uid, info)]
  | (k, v) :: r => if k = uid then (uid, info) :: r else (k, v) :: setKey uid info r

/-- `delete(m, uid)` -/
def delKey (uid : String) : Inner → Inner
  | [] => []
  | (k, v) :: r => if k = uid then r else (k, v) :: delKey uid r

def hasKey (uid : String) (m : Inner) : Bool := m.any (·.1 == uid)

def add (ch uid : String) (info : Info) : Hub → Hub
  | [] => [(ch, [(uid, info)])]
  | (c, m) :: r => if c = ch then (c, setKey uid info m) :: r else (c, m) :: add ch uid info r

def remove (ch uid : String) : Hub → Hub
  | [] => []
  | (c, m) :: r =>
    if c = ch then
      if hasKey uid m then
        let m' := delKey uid m
        if m'.isEmpty then r else (c, m') :: r
      else (c, m) :: r
    else (c, m) :: remove ch uid r

def get (ch : String) : Hub → Option Inner
  | [] => none
  | (c, m) :: r => if c = ch then some m else get ch r

/-- the `uniqueUsers` loop of `getStats`: returns the counter -/
def countUsers (seen : List String) : Inner → Nat
  | [] => 0
  | (_, i) :: r => if i.userID ∈ seen then countUsers seen r else 1 + countUsers (i.userID :: seen) r

structure Stats where
  numClients : Nat
  numUsers : Nat
deriving DecidableEq, Repr

def getStats (ch : String) (h : Hub) : Stats :=
  match get ch h with
  | none => ⟨0, 0⟩
  | some m => ⟨m.length, countUsers [] m⟩

inductive Op
  | add (ch uid : String) (info : Info)
  | remove (ch uid : String)
deriving Repr

def apply (h : Hub) : Op → Hub
  | .add ch uid info => add ch uid info h
  | .remove ch uid => remove ch uid h

def runOps (ops : List Op) : Hub := ops.foldl apply []

end CentrifugeVerif.PresenceHub
