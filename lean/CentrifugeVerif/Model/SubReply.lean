import CentrifugeVerif.Model.Merge
/-
Model of the positioned part of `Client.subscribeCmd` (client.go) in stream recovery mode: from the
history read and the publications buffered by `PubSubSync` while the subscribe was in flight to
the subscribe reply and the committed stream position.  Core Lean only.

Mirrors, in code order: `Node.history`'s epoch test (ErrorUnrecoverablePosition),
`isStreamRecovered`, the reject-unrecovered flag, `recovery.MergePublications` (Model/Merge), the
"take the maximum" adjustments of the latest offset, and the reply fields.  Epoch `0` = "".
-/
namespace CentrifugeVerif.SubReply
open CentrifugeVerif.Merge

structure HPub where
  offset : Nat
  filtered : Bool      -- excluded by the server or the client tags filter
deriving Repr, DecidableEq, Inhabited

structure Req where
  recover : Bool
  reject : Bool        -- subscriptionFlagRejectUnrecovered
  offset : Nat
  epoch : Nat
deriving Repr, DecidableEq, Inhabited

/-- what the broker answered: publications after `since` (already restricted), top and epoch -/
structure Hist where
  pubs : List HPub
  top : Nat
  epoch : Nat
deriving Repr, DecidableEq, Inhabited

inductive Outcome
  | reply (recovered : Bool) (pubs : List MPub) (replyOffset : Nat) (pos : Nat) (epoch : Nat)
  | unrecoverable           -- error reply ErrorUnrecoverablePosition (112)
  | insufficient            -- DisconnectInsufficientState (3010)
deriving Repr, DecidableEq

/-- history publications as merge entries (filtered ones become `Time = -1` markers); ids number
the entries from `start` -/
def toMPubs (start : Nat) : List HPub → List MPub
  | [] => []
  | p :: ps => { offset := p.offset, filtered := p.filtered, id := start } :: toMPubs (start + 1) ps

/-- the test inside `isStreamRecovered`: no publications ⇒ the client is at the top; otherwise the
first publication is the next offset and the last one is the top -/
def recoveredOK (h : Hist) (cmdOffset : Nat) : Bool :=
  match h.pubs with
  | [] => h.top == cmdOffset
  | p :: _ => p.offset == cmdOffset + 1 &&
      (h.pubs.getLast?.map (fun (q : HPub) => q.offset)) == some h.top

/-- `isStreamRecovered` after the epoch test: `none` = not recovered -/
def isStreamRecovered (h : Hist) (cmdOffset : Nat) : Option (List MPub) :=
  if recoveredOK h cmdOffset then some (toMPubs 0 h.pubs) else none

def lastOffset (l : List MPub) : Nat := (l.getLast?.map (fun (q : MPub) => q.offset)).getD 0

/-- the recovery decision: `none` = rejected with ErrorUnrecoverablePosition (reject flag);
`some none` = not recovered (or recovery not requested); `some (some l)` = recovered with the
history publications `l` (filtered ones as markers) -/
def recDecision (req : Req) (h : Hist) : Option (Option (List MPub)) :=
  if req.recover then
    if req.epoch ≠ 0 ∧ req.epoch ≠ h.epoch then
      (if req.reject then none else some none)
    else
      match isStreamRecovered h req.offset with
      | some l => some (some l)
      | none => if req.reject then none else some none
  else some none

/-- first adjustment: the last merged publication may lie beyond the history top -/
def adj1 (top : Nat) (merged : List MPub) : Nat :=
  if merged = [] then top else if lastOffset merged > top then lastOffset merged else top

/-- the "take the maximum" adjustments of `latestOffset` after the merge -/
def latestOf (top : Nat) (merged : List MPub) (maxSeen : Nat) : Nat :=
  if maxSeen > adj1 top merged then maxSeen else adj1 top merged

/-- after a successful stream recovery, buffered publications at or below the requested offset
(lagging PUB/SUB copies of what the client already holds) are dropped (`slices.DeleteFunc`, only
when something was buffered) -/
def dropStale (reqOffset : Nat) (buffered merged : List MPub) : List MPub :=
  if buffered.isEmpty then merged else merged.filter (fun p => decide (reqOffset < p.offset))

/-- merge with the buffered publications, compute the reply and the committed position -/
def finish (req : Req) (h : Hist) (r : Option (List MPub)) (buffered : List MPub) : Outcome :=
  match merge (r.getD []) buffered with
  | none => .insufficient
  | some (merged, maxSeen) =>
    if r.isSome then
      let pubs := dropStale req.offset buffered merged
      .reply true pubs req.offset (latestOf h.top pubs maxSeen) h.epoch
    else .reply false [] (latestOf h.top merged maxSeen) (latestOf h.top merged maxSeen) h.epoch

/-- the positioned branch of `subscribeCmd`; `buffered` = `LockBufferAndReadBuffered` result -/
def subscribe (req : Req) (h : Hist) (buffered : List MPub) : Outcome :=
  match recDecision req h with
  | none => .unrecoverable
  | some r => finish req h r buffered

end CentrifugeVerif.SubReply
