/-
Model of `Client.writePublicationUpdatePosition` (client.go) for a positioned subscription:
the decision taken for one incoming PUB/SUB delivery against the subscription's stream position.
Core Lean only.

Go facts mirrored (in the order the code tests them, all under `c.mu`):
* lag flag set by the hub (`maxLagExceeded`)              → insufficient state, position unchanged
* epoch differs: subscription epoch empty                  → adopt the publication's epoch, continue
                 otherwise                                 → insufficient state
* `pubOffset > position+1`                                 → insufficient state (gap)
* `pubOffset < position+1`                                 → skipped (stale / duplicate)
* `pubOffset = position+1`                                 → position := pubOffset; pushed unless the
  hub marked it as filtered for this subscriber (and the subscriber does not use delta).
`handleInsufficientState` runs on a spawned goroutine, so further deliveries may still be processed
with the same position before the unsubscribe/disconnect lands; the theorems therefore quantify
over arbitrary continuations.  Epoch `0` stands for the empty epoch string.
Offsets are `Nat`: the `uint64` wrap of `position+1` at 2^64-1 is outside the model (assumption:
positions stay below 2^64-1).
-/
namespace CentrifugeVerif.Live

structure Inc where
  offset : Nat
  epoch : Nat
  lag : Bool := false
  filtered : Bool := false
deriving Repr, DecidableEq, Inhabited

structure Sub where
  pos : Nat
  epoch : Nat
deriving Repr, DecidableEq, Inhabited

inductive Reason | lag | epoch | offset
deriving Repr, DecidableEq

inductive Action
  | deliver (o : Nat)          -- pushed to the client
  | advanceFiltered (o : Nat)  -- position advanced, push withheld by the tags filter
  | skipOld
  | insufficient (r : Reason)
deriving Repr, DecidableEq

def liveStep (s : Sub) (i : Inc) : Sub × Action :=
  if i.lag then (s, .insufficient .lag)
  else if i.epoch ≠ s.epoch ∧ s.epoch ≠ 0 then (s, .insufficient .epoch)
  else
    -- epoch equal, or adopted from the empty epoch (the adoption is stored even if the offset
    -- test below then reports a gap)
    let s1 : Sub := { s with epoch := i.epoch }
    if i.offset > s1.pos + 1 then (s1, .insufficient .offset)
    else if i.offset < s1.pos + 1 then (s1, .skipOld)
    else ({ s1 with pos := i.offset }, if i.filtered then .advanceFiltered i.offset else .deliver i.offset)

/-- run a list of deliveries; returns final state and the actions in order -/
def run (s : Sub) : List Inc → Sub × List Action
  | [] => (s, [])
  | i :: is =>
    let (s1, a) := liveStep s i
    let (s2, as) := run s1 is
    (s2, a :: as)

/-- offsets the position moved over (pushed or withheld by the filter), in order -/
def consumed : List Action → List Nat
  | [] => []
  | .deliver o :: as => o :: consumed as
  | .advanceFiltered o :: as => o :: consumed as
  | _ :: as => consumed as

/-- offsets actually pushed, in order -/
def delivered : List Action → List Nat
  | [] => []
  | .deliver o :: as => o :: delivered as
  | _ :: as => delivered as

end CentrifugeVerif.Live
