/-
Model of `internal/dissolve` (`queue.go`, `dissolve.go`).  Core Lean only.

Part 1 — `queueImpl`: the ring buffer, field by field (`nodes`, `head`, `tail`, `cnt`, `closed`,
`initCap`; the Go field `size` is never written except `Close` setting it to 0 and never read).
Every Go operation that can panic (slice expression out of range, index out of range, integer
division by zero in `%`) is an explicit `none`.

Go facts mirrored:
* `resize(n)`: `nodes := make([]Job, n)`; if `head < tail` then `copy(nodes, q.nodes[head:tail])`
  else `copy(nodes, q.nodes[head:])` and `copy(nodes[len(q.nodes)-head:], q.nodes[:tail])`;
  `tail = cnt % n`, `head = 0`.  `copy` copies `min(len dst, len src)` elements.
* `Add`: refuses when closed; doubles when `cnt == len(nodes)`; writes `nodes[tail]`;
  `tail = (tail+1) % len`; `cnt++`; `cond.Signal()`.
* `Remove`: `(nil,false)` when `cnt == 0` (it does not look at `closed`); reads `nodes[head]`;
  `head = (head+1) % len`; `cnt--`; `if n := len/2; n >= initCap && cnt <= n { resize(n) }`.
* `Close`: `closed = true; cnt = 0; nodes = nil` (head/tail keep their values); `cond.Broadcast()`.
* `Wait`: two critical sections: (lock; closed → `(nil,false)`; `cnt != 0` → unlock, `Remove()`;
  else `cond.Wait()`, unlock, `Remove()`).  Another worker can take the item between the two.

Part 2 — the system: submitters, `W` workers running `runWorker`, a closer.  One label per
critical section / external call.  A job outcome (success / failure) is an input of the `finish`
label, so every failure pattern is covered.  `sync.Cond.Signal` "wakes one goroutine waiting on
c, if there is any": which one is an input (`pick`) of the labels that signal.
-/
namespace CentrifugeVerif.Dissolve

abbrev Job := Nat

structure Queue where
  nodes : List (Option Job)
  head : Nat
  tail : Nat
  cnt : Nat
  closed : Bool
  initCap : Nat
deriving Repr, DecidableEq

/-- `newQueue()` with `initialCapacity` (2 in the repo). -/
def newQueue (initCap : Nat) : Queue :=
  { nodes := List.replicate initCap none, head := 0, tail := 0, cnt := 0, closed := false,
    initCap := initCap }

/-- Go `copy(dst, src)`: the new contents of `dst`. -/
def goCopy {α : Type} (dst src : List α) : List α := src.take dst.length ++ dst.drop src.length

/-- `resize(n)`; `none` = a Go run-time panic. -/
def resize (q : Queue) (n : Nat) : Option Queue :=
  let fresh : List (Option Job) := List.replicate n none
  let nodes? : Option (List (Option Job)) :=
    if q.head < q.tail then
      -- q.nodes[head:tail] needs tail ≤ cap
      if q.tail ≤ q.nodes.length then
        some (goCopy fresh ((q.nodes.drop q.head).take (q.tail - q.head)))
      else none
    else
      -- q.nodes[head:] needs head ≤ len; nodes[len-head:] needs len-head ≤ n; q.nodes[:tail] needs tail ≤ len
      if q.head ≤ q.nodes.length ∧ q.nodes.length - q.head ≤ n ∧ q.tail ≤ q.nodes.length then
        let n1 := goCopy fresh (q.nodes.drop q.head)
        let k := q.nodes.length - q.head
        some (n1.take k ++ goCopy (n1.drop k) (q.nodes.take q.tail))
      else none
  match nodes? with
  | none => none
  | some nodes =>
    if n = 0 then none  -- q.cnt % n
    else some { q with nodes := nodes, tail := q.cnt % n, head := 0 }

/-- `Add`: `none` = panic, `some (q', accepted)`. -/
def add (q : Queue) (j : Job) : Option (Queue × Bool) :=
  if q.closed then some (q, false) else
  let q1? := if q.cnt = q.nodes.length then resize q (q.cnt * 2) else some q
  match q1? with
  | none => none
  | some q1 =>
    if q1.tail < q1.nodes.length then
      some ({ q1 with nodes := q1.nodes.set q1.tail (some j),
                      tail := (q1.tail + 1) % q1.nodes.length, cnt := q1.cnt + 1 }, true)
    else none

/-- `Remove`: `none` = panic (also: a nil job would be returned, which `runWorker` then calls),
`some (q', none)` = `(nil,false)`, `some (q', some j)` = `(j,true)`. -/
def remove (q : Queue) : Option (Queue × Option Job) :=
  if q.cnt = 0 then some (q, none) else
  match q.nodes[q.head]? with
  | none => none
  | some none => none
  | some (some j) =>
    if q.nodes.length = 0 then none else
    let q1 := { q with head := (q.head + 1) % q.nodes.length, cnt := q.cnt - 1 }
    let n := q1.nodes.length / 2
    if n ≥ q1.initCap ∧ q1.cnt ≤ n then
      match resize q1 n with
      | none => none
      | some q2 => some (q2, some j)
    else some (q1, some j)

/-- `Close`. -/
def close (q : Queue) : Queue := { q with closed := true, cnt := 0, nodes := [] }

/-- the ring read from `head`, wrapping. -/
def rot (q : Queue) : List (Option Job) := q.nodes.drop q.head ++ q.nodes.take q.head

/-- the queued slots, oldest first -/
def absO (q : Queue) : List (Option Job) := (rot q).take q.cnt

/-- abstraction: the queued jobs, oldest first -/
def abs (q : Queue) : List Job := (absO q).filterMap id

/-! ## Part 2: the system -/

/-- where a worker goroutine is inside `runWorker` -/
inductive W where
  | idle                 -- top of the loop, about to enter `Wait`
  | parked               -- inside `cond.Wait()`
  | removing             -- `Wait` decided to call `Remove` (saw `cnt != 0`, or was woken)
  | check                -- got `!ok`, about to call `Closed()`
  | holding (j : Job)    -- dequeued `j`, has not called it yet
  | running (j : Job)    -- inside `job()`
  | retrying (j : Job)   -- `job()` returned an error, about to `Add` it again
  | exited
deriving Repr, DecidableEq

structure Sys where
  q : Queue
  ws : List W
  nextId : Nat
  /-- jobs whose `Submit` returned nil, newest first -/
  accepted : List Job
  /-- jobs whose `Submit` returned an error (closed), newest first -/
  rejected : List Job
  succeeded : List Job
  /-- execution log `(job, returned nil)`, newest first -/
  runs : List (Job × Bool)
  /-- number of successful dequeues so far -/
  deqs : Nat
  /-- a dequeue returned a job while the queue was closed (ghost; proved never set) -/
  deqAfterClose : Bool
  /-- a queue operation panicked (ghost; proved never set) -/
  panicked : Bool
deriving Repr, DecidableEq

def init (nWorkers : Nat) (initCap : Nat := 2) : Sys :=
  { q := newQueue initCap, ws := List.replicate nWorkers .idle, nextId := 0, accepted := [],
    rejected := [], succeeded := [], runs := [], deqs := 0, deqAfterClose := false,
    panicked := false }

inductive Label where
  | submit (pick : Nat)
  | wait (w : Nat)
  | remove (w : Nat)
  | check (w : Nat)
  | start (w : Nat)
  | finish (w : Nat) (ok : Bool)
  | readd (w : Nat) (pick : Nat)
  | close
deriving Repr, DecidableEq

/-- `cond.Signal()`: wakes one parked worker if there is any; `pick` says which. -/
def wake (ws : List W) (pick : Nat) : Option (List W) :=
  if ws[pick]? = some W.parked then some (ws.set pick W.removing)
  else if ws.all (fun x => x != W.parked) then some ws
  else none

/-- `cond.Broadcast()` -/
def wakeAll (ws : List W) : List W := ws.map (fun x => if x = W.parked then W.removing else x)

/-- One atomic step.  `none` = the label is not enabled in `s`. -/
def next (s : Sys) : Label → Option Sys
  | .submit pick =>
    match add s.q s.nextId with
    | none => some { s with panicked := true }
    | some (_, false) => some { s with nextId := s.nextId + 1, rejected := s.nextId :: s.rejected }
    | some (q', true) =>
      match wake s.ws pick with
      | none => none
      | some ws' => some { s with q := q', ws := ws', nextId := s.nextId + 1,
                                  accepted := s.nextId :: s.accepted }
  | .wait w =>
    if s.ws[w]? = some W.idle then
      if s.q.closed then some { s with ws := s.ws.set w W.check }
      else if s.q.cnt ≠ 0 then some { s with ws := s.ws.set w W.removing }
      else some { s with ws := s.ws.set w W.parked }
    else none
  | .remove w =>
    if s.ws[w]? = some W.removing then
      match remove s.q with
      | none => some { s with panicked := true }
      | some (q', none) => some { s with q := q', ws := s.ws.set w W.check }
      | some (q', some j) =>
        some { s with q := q', ws := s.ws.set w (W.holding j), deqs := s.deqs + 1,
                      deqAfterClose := s.deqAfterClose || s.q.closed }
    else none
  | .check w =>
    if s.ws[w]? = some W.check then
      some { s with ws := s.ws.set w (if s.q.closed then W.exited else W.idle) }
    else none
  | .start w =>
    match s.ws[w]? with
    | some (W.holding j) => some { s with ws := s.ws.set w (W.running j) }
    | _ => none
  | .finish w ok =>
    match s.ws[w]? with
    | some (W.running j) =>
      if ok then some { s with ws := s.ws.set w W.idle, runs := (j, true) :: s.runs,
                               succeeded := j :: s.succeeded }
      else some { s with ws := s.ws.set w (W.retrying j), runs := (j, false) :: s.runs }
    | _ => none
  | .readd w pick =>
    match s.ws[w]? with
    | some (W.retrying j) =>
      match add s.q j with
      | none => some { s with panicked := true }
      | some (_, false) => some { s with ws := s.ws.set w W.idle }
      | some (q', true) =>
        match wake (s.ws.set w W.idle) pick with
        | none => none
        | some ws' => some { s with q := q', ws := ws' }
    | _ => none
  | .close => some { s with q := close s.q, ws := wakeAll s.ws }

/-- run a label list -/
def run (s : Sys) : List Label → Option Sys
  | [] => some s
  | l :: ls => match next s l with
    | none => none
    | some s' => run s' ls

/-- jobs currently owned by a worker -/
def wjob : W → Option Job
  | .holding j => some j
  | .running j => some j
  | .retrying j => some j
  | _ => none

def heldJobs (ws : List W) : List Job := ws.filterMap wjob

/-- every job that is somewhere in the machine -/
def inflight (s : Sys) : List Job := abs s.q ++ heldJobs s.ws

/-! ### internal (τ) steps for trace validation
The harness observes the system only when every goroutine is durably blocked (parked in
`cond.Wait()` or inside a gated job), i.e. after all worker-internal steps that can happen have
happened.  `tauStep` picks the first enabled internal label; `tauClose` iterates with fuel. -/

def firstParked (ws : List W) : Nat := (ws.findIdx? (· = W.parked)).getD 0

def tauLabel (s : Sys) : Option Label :=
  let rec go (i : Nat) : List W → Option Label
    | [] => none
    | w :: rest =>
      match w with
      | .idle => some (.wait i)
      | .removing => some (.remove i)
      | .check => some (.check i)
      | .holding _ => some (.start i)
      | .retrying _ => some (.readd i (firstParked s.ws))
      | _ => go (i + 1) rest
  go 0 s.ws

/-- returns the final state and the internal labels taken (oldest first) -/
def tauClose : Nat → Sys → List Label → Sys × List Label
  | 0, s, acc => (s, acc.reverse)
  | fuel + 1, s, acc =>
    match tauLabel s with
    | none => (s, acc.reverse)
    | some l => match next s l with
      | none => (s, acc.reverse)
      | some s' => if s'.panicked then (s', (l :: acc).reverse) else tauClose fuel s' (l :: acc)

end CentrifugeVerif.Dissolve
