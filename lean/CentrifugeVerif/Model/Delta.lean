/-
Model of fossil-delta delivery (C14).  Core Lean only.

Everything is parametric in the byte-string type `B` and a codec:
* `create origin target` / `apply origin patch`  = `fdelta.Create` / `fdelta.Apply`
  (github.com/shadowspore/fossil-delta),
* `len`                                           = `len([]byte)`,
* `escape` / `unescape`                           = what the transport does to the `data` field:
  for the JSON protocol with fossil negotiated `json.Escape(convert.BytesToString(data))` on the
  server and JSON string parsing on the client; for Protobuf both are the identity.

Go code mirrored (function by function):
* `getDeltaPub` (hub.go) and the loop body of `makeRecoveredPubsDeltaFossil` /
  `makeRecoveredMapPubsDeltaFossil` (client.go)                       → `encodeAgainst`
* `makeRecoveredPubsDeltaFossil`                                       → `makeRecovered`
* `makeRecoveredMapPubsDeltaFossil` (per key, removals reset the key)  → `makeRecoveredMap`
* the delta part of `writePublicationUpdatePosition` / `writePublication` (client.go): with
  `flagDeltaAllowed` unset send `fullData` and set the flag, otherwise send the prepared delta
  data (`brokerDeltaData` built against the broker's `prevPub` for positioned subscriptions,
  `localDeltaData` built against the channel medium's `latestPublication` otherwise) → `liveStep`
* `buildPreparedPollData` (shared_poll.go) + `keyedWritePublication` (client_keyed.go) → `Keyed.*`
* the client (SDK) side: keeps the last payload of the stream (or of the map key) and applies a
  publication with `delta=true` to it                                 → `Client.recv`, `MapClient.recv`
-/
namespace CentrifugeVerif.Delta

structure Codec (B : Type) where
  create : B → B → B
  apply : B → B → Option B
  len : B → Nat
  escape : B → B
  unescape : B → B

/-- the codec hypothesis (sampled on every run against the real `fdelta`) -/
def Codec.RoundTrip {B : Type} (c : Codec B) : Prop := ∀ b t, c.apply b (c.create b t) = some t
/-- transport hypothesis: the client gets back the bytes the server put into `data`.  It holds for
Protobuf; for JSON it holds for valid UTF-8 strings only (see finding C14-1). -/
def Codec.EscOK {B : Type} (c : Codec B) : Prop := ∀ x, c.unescape (c.escape x) = x

/-- a publication as the broker / history knows it -/
structure Pub (B : Type) where
  off : Nat
  data : B
  key : Nat := 0        -- map key (0 for stream subscriptions)
  removed : Bool := false
  pass : Bool := true   -- outcome of the subscription's tags filters on this publication's tags

/-- a publication on the wire (`protocol.Publication` fields that matter) -/
structure WPub (B : Type) where
  off : Nat
  delta : Bool
  data : B
  key : Nat := 0
  removed : Bool := false

variable {B : Type}

/-- `getDeltaPub` / loop body of `makeRecovered*DeltaFossil`: patch against `prev` unless the patch
is not smaller than the payload; no `prev` ⇒ full. -/
def encodeAgainst (c : Codec B) (prev : Option B) (p : Pub B) : WPub B :=
  match prev with
  | none => { off := p.off, delta := false, data := c.escape p.data, key := p.key, removed := p.removed }
  | some b =>
    let patch := c.create b p.data
    if c.len patch ≥ c.len p.data then
      { off := p.off, delta := false, data := c.escape p.data, key := p.key, removed := p.removed }
    else
      { off := p.off, delta := true, data := c.escape patch, key := p.key, removed := p.removed }

/-- `fullData` of `broadcastPublication` -/
def encodeFull (c : Codec B) (p : Pub B) : WPub B := encodeAgainst c none p

/-- tail of `makeRecoveredPubsDeltaFossil`: every publication against the previous one of the list -/
def recoveredTail (c : Codec B) (prev : B) : List (Pub B) → List (WPub B)
  | [] => []
  | p :: ps => encodeAgainst c (some prev) p :: recoveredTail c p.data ps

/-- `makeRecoveredPubsDeltaFossil` -/
def makeRecovered (c : Codec B) : List (Pub B) → List (WPub B)
  | [] => []
  | p :: ps => encodeFull c p :: recoveredTail c p.data ps

/-- delta decision for one live publication: returns the wire publication and the new
`flagDeltaAllowed`.  `prev` is the base the prepared delta data was built against. -/
def liveStep (c : Codec B) (flag : Bool) (prev : Option B) (p : Pub B) : WPub B × Bool :=
  if flag then (encodeAgainst c prev p, true) else (encodeFull c p, true)

/-- a run of live publications, each with the base the broker / medium reported -/
def liveRun (c : Codec B) (flag : Bool) : List (Option B × Pub B) → List (WPub B)
  | [] => []
  | (prev, p) :: rest => (liveStep c flag prev p).1 :: liveRun c true rest

/-! ### the client -/

/-- SDK side for a stream subscription: the last payload of the channel -/
structure Client (B : Type) where
  held : Option B

/-- one publication: `none` when the client cannot reconstruct (no base / `apply` fails) -/
def Client.recv (c : Codec B) (cl : Client B) (w : WPub B) : Option B :=
  let d := c.unescape w.data
  if w.delta then
    match cl.held with
    | none => none
    | some b => c.apply b d
  else some d

/-- feed a list of wire publications; result = the payloads reconstructed, in order -/
def Client.recvAll (c : Codec B) (cl : Client B) : List (WPub B) → Option (List B)
  | [] => some []
  | w :: ws =>
    match cl.recv c w with
    | none => none
    | some t =>
      match Client.recvAll c { held := some t } ws with
      | none => none
      | some ts => some (t :: ts)

/-! ### map subscriptions: one base per key -/

def lookup (m : List (Nat × B)) (k : Nat) : Option B :=
  match m with
  | [] => none
  | (k', v) :: rest => if k' = k then some v else lookup rest k

def erase : List (Nat × B) → Nat → List (Nat × B)
  | [], _ => []
  | (k', v) :: rest, k => if k' = k then erase rest k else (k', v) :: erase rest k
def insert (m : List (Nat × B)) (k : Nat) (v : B) : List (Nat × B) := (k, v) :: erase m k

/-- `makeRecoveredMapPubsDeltaFossil`: `prevByKey` threaded through the list; removals are never
delta-encoded and forget the key -/
def makeRecoveredMapGo (c : Codec B) (prevByKey : List (Nat × B)) : List (Pub B) → List (WPub B)
  | [] => []
  | p :: ps =>
    if p.removed then
      { off := p.off, delta := false, data := c.escape p.data, key := p.key, removed := true }
        :: makeRecoveredMapGo c (erase prevByKey p.key) ps
    else
      encodeAgainst c (lookup prevByKey p.key) p :: makeRecoveredMapGo c (insert prevByKey p.key p.data) ps

def makeRecoveredMap (c : Codec B) (ps : List (Pub B)) : List (WPub B) := makeRecoveredMapGo c [] ps

/-- SDK side for a map subscription: the value per key -/
structure MapClient (B : Type) where
  vals : List (Nat × B)

def MapClient.recv (c : Codec B) (cl : MapClient B) (w : WPub B) : Option (MapClient B × B) :=
  let d := c.unescape w.data
  if w.removed then some ({ vals := erase cl.vals w.key }, d)
  else if w.delta then
    match lookup cl.vals w.key with
    | none => none
    | some b =>
      match c.apply b d with
      | none => none
      | some t => some ({ vals := insert cl.vals w.key t }, t)
  else some ({ vals := insert cl.vals w.key d }, d)

def MapClient.recvAll (c : Codec B) (cl : MapClient B) : List (WPub B) → Option (MapClient B × List B)
  | [] => some (cl, [])
  | w :: ws =>
    match cl.recv c w with
    | none => none
    | some (cl1, t) =>
      match MapClient.recvAll c cl1 ws with
      | none => none
      | some (cl2, ts) => some (cl2, t :: ts)

/-! ### keyed (shared poll) delta -/
namespace Keyed

/-- `buildPreparedPollData`: `prevData` empty ⇒ no delta data at all -/
structure Prep (B : Type) where
  deltaSub : Bool
  patch : B            -- keyedDeltaPatch (patch, or the full data when the patch is not smaller)
  isReal : Bool        -- keyedDeltaIsReal
  prevVersion : Nat    -- keyedDeltaPrevVersion

def buildPrep (c : Codec B) (data : B) (prev : Option (B × Nat)) (dflt : B) : Prep B :=
  match prev with
  | none => { deltaSub := false, patch := dflt, isReal := false, prevVersion := 0 }
  | some (pd, pv) =>
    let patch := c.create pd data
    let isReal := decide (c.len patch < c.len data)
    { deltaSub := true, patch := if isReal then patch else data, isReal := isReal, prevVersion := pv }

/-- per-connection, per-key state (`keyState`) -/
structure KeyState where
  version : Nat
  deltaReady : Bool

inductive Sent (B : Type)
  | skipped                      -- pubVersion ≤ keyState.version
  | wire (w : WPub B) (viaDelta : Bool)

/-- `keyedWritePublication` on a delta channel (`channelDelta = true`), publication not filtered -/
def write (c : Codec B) (ks : KeyState) (pubVersion : Nat) (data : B) (prep : Prep B) : KeyState × Sent B :=
  if pubVersion ≤ ks.version then (ks, .skipped)
  else
    let deltaPossible := prep.deltaSub && ks.deltaReady
    let useDelta := deltaPossible && ks.deltaReady && decide (ks.version = prep.prevVersion)
    let w : WPub B :=
      if useDelta then { off := pubVersion, delta := prep.isReal, data := c.escape prep.patch }
      else { off := pubVersion, delta := false, data := c.escape data }
    ({ version := pubVersion, deltaReady := true }, .wire w useDelta)

end Keyed

end CentrifugeVerif.Delta
