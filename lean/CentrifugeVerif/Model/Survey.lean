/-
Model of `Node.Survey`, `Node.handleSurveyResponse` and the `surveyRegistry` (`node.go`).
Core Lean only.

Go facts mirrored:
* `Survey`: under `surveyMu` (write): `surveyID++`, `surveyChan := make(chan survey, numNodes)`,
  `surveyRegistry[id] = surveyChan`.  A deferred function deletes the registry entry on every return
  path.  The local handler is invoked synchronously with a callback that does a *blocking* send
  `surveyChan <- …` (uid = own uid); user code may call it at any later time.  Then a collector
  goroutine is spawned: `select { case resp := <-surveyChan: results[resp.UID] = resp.Result; if
  len(results) == numNodes { return } ; case <-ctx.Done(): return }`.  Then `publishControl` (external;
  on error `Survey` returns `nil, err` without waiting for the collector).  Then `wg.Wait()`, return
  `results, ctx.Err()`.
* `handleSurveyResponse` (called by `handleControl`, which drops commands whose uid is the node's
  own): under `surveyMu` (read): `if ch, ok := registry[resp.Id]; ok { select { case ch <- …: default: } }`.

One label per critical section / channel operation.  Survey calls are numbered by start order
(`t`); the id a call gets is `surveyID` after the increment.  `forId` on a reply is ghost: the id
field of the response message that carried it.
-/
namespace CentrifugeVerif.Survey

/-- node uids; `0` is the surveying node itself -/
abbrev Uid := Nat
def selfUid : Uid := 0

structure Reply where
  uid : Uid
  code : Nat
  forId : Nat
deriving Repr, DecidableEq

inductive MainPc where
  | handler      -- registered; local handler being invoked, collector not spawned yet
  | publishing   -- collector spawned; inside publishControl (or about to skip it)
  | waiting      -- wg.Wait()
  | returnedOk   -- returned (results, ctx.Err())
  | returnedErr  -- returned (nil, publish error)
deriving Repr, DecidableEq

inductive CollPc where
  | notStarted | collecting | done
deriving Repr, DecidableEq

structure Sv where
  id : Nat
  numNodes : Nat
  chan : List Reply
  results : List Reply
  main : MainPc
  coll : CollPc
  registered : Bool
  ctxDone : Bool
  /-- what `Survey` returned (snapshot of `results` at return) -/
  returned : List Reply
  /-- `ctx.Err() != nil` at return -/
  retErr : Bool
deriving Repr, DecidableEq

structure State where
  surveyID : Nat
  surveys : List Sv
deriving Repr, DecidableEq

def init : State := { surveyID := 0, surveys := [] }

inductive Label where
  | begin (numNodes : Nat)
  | localReply (t : Nat) (code : Nat)
  | spawn (t : Nat)
  | publish (t : Nat) (ok : Bool)
  | response (uid : Uid) (id : Nat) (code : Nat)
  | collect (t : Nat)
  | ctxDone (t : Nat)
  | collExit (t : Nat)
  | ret (t : Nat)
deriving Repr, DecidableEq

/-- `results[uid] = r` on a Go map kept as an association list in first-insertion order -/
def insertResult (r : Reply) : List Reply → List Reply
  | [] => [r]
  | x :: xs => if x.uid = r.uid then r :: xs else x :: insertResult r xs

/-- non-blocking send into the registered survey with this id (first match), if any -/
def deliver (r : Reply) : List Sv → List Sv
  | [] => []
  | sv :: rest =>
    if sv.registered ∧ sv.id = r.forId then
      (if sv.chan.length < sv.numNodes then { sv with chan := sv.chan ++ [r] } else sv) :: rest
    else sv :: deliver r rest

def upd (s : State) (t : Nat) (sv : Sv) : State := { s with surveys := s.surveys.set t sv }

/-- One atomic step; `none` = not enabled (for `localReply`: the send would block). -/
def next (s : State) : Label → Option State
  | .begin n =>
    let id := s.surveyID + 1
    some { surveyID := id,
           surveys := s.surveys ++ [{ id := id, numNodes := n, chan := [], results := [],
                                      main := .handler, coll := .notStarted, registered := true,
                                      ctxDone := false, returned := [], retErr := false }] }
  | .localReply t code =>
    match s.surveys[t]? with
    | none => none
    | some sv =>
      if sv.chan.length < sv.numNodes then
        some (upd s t { sv with chan := sv.chan ++ [{ uid := selfUid, code := code, forId := sv.id }] })
      else none
  | .spawn t =>
    match s.surveys[t]? with
    | none => none
    | some sv =>
      if sv.main = .handler then some (upd s t { sv with main := .publishing, coll := .collecting })
      else none
  | .publish t ok =>
    match s.surveys[t]? with
    | none => none
    | some sv =>
      if sv.main = .publishing then
        if ok then some (upd s t { sv with main := .waiting })
        else some (upd s t { sv with main := .returnedErr, registered := false })
      else none
  | .response uid id code =>
    if uid = selfUid then some s   -- handleControl: "Sent by this node"
    else some { s with surveys := deliver { uid := uid, code := code, forId := id } s.surveys }
  | .collect t =>
    match s.surveys[t]? with
    | none => none
    | some sv =>
      if sv.coll = .collecting then
        match sv.chan with
        | [] => none
        | r :: rest =>
          let res := insertResult r sv.results
          some (upd s t { sv with chan := rest, results := res,
                                  coll := if res.length = sv.numNodes then .done else .collecting })
      else none
  | .ctxDone t =>
    match s.surveys[t]? with
    | none => none
    | some sv => some (upd s t { sv with ctxDone := true })
  | .collExit t =>
    match s.surveys[t]? with
    | none => none
    | some sv =>
      if sv.coll = .collecting ∧ sv.ctxDone then some (upd s t { sv with coll := .done }) else none
  | .ret t =>
    match s.surveys[t]? with
    | none => none
    | some sv =>
      if sv.main = .waiting ∧ sv.coll = .done then
        let sv' := { sv with main := .returnedOk, registered := false, returned := sv.results }
        some (upd s t { sv' with retErr := sv.ctxDone })
      else none

def run (s : State) : List Label → Option State
  | [] => some s
  | l :: ls => match next s l with
    | none => none
    | some s' => run s' ls

/-! internal steps for trace validation (observation only when every goroutine is durably blocked) -/

def tauLabel (s : State) : Option Label :=
  let rec go (t : Nat) : List Sv → Option Label
    | [] => none
    | sv :: rest =>
      if sv.coll = .collecting ∧ sv.chan ≠ [] then some (.collect t)
      else if sv.coll = .collecting ∧ sv.ctxDone then some (.collExit t)
      else if sv.main = .waiting ∧ sv.coll = .done then some (.ret t)
      else go (t + 1) rest
  go 0 s.surveys

def tauClose : Nat → State → State
  | 0, s => s
  | fuel + 1, s =>
    match tauLabel s with
    | none => s
    | some l => match next s l with
      | none => s
      | some s' => tauClose fuel s'

end CentrifugeVerif.Survey
