/-
Model of `channelWriter` / `perChannelWriter` (client_experimental.go): per-channel batching of
publication / join / leave pushes in front of the connection writer.  Core Lean only.

Go facts mirrored here:
* `Add` stores `config.FlushLatestPublication` into `latestOnly` on *every* call; a publication added
  while it is set replaces the entry of `latestPubs` with the same key (first match) and is appended at
  the end, everything else is appended to `buffer`;
* the delay timer is started only when the total count became 1 and no timer is active; `timerStop` is a
  fresh channel per timer and identifies it (`timer : Option Nat`, a fresh natural per timer);
* a size-triggered flush (`total ≥ MaxSize`) cancels the timer first;
* `flushLocked` emits `buffer ++ latestPubs` when `latestOnly` is set and `latestPubs` is non-empty,
  otherwise just `buffer` (so publications coalesced in `latestPubs` are dropped if the last `Add` came
  with `FlushLatestPublication = false`; and the flush callback can be called with an empty batch);
  both slices are emptied;
* the timer goroutine flushes only if its `stop` channel is still the writer's `timerStop`;
* `close(flush)` cancels the timer, optionally flushes, and drops both slices;
* `perChannelWriter` maps a channel to its writer; `Add` = `getWriter` (creating one) followed by
  `w.Add` *without a lock spanning both*; `delWriter` closes and removes the entry; `Close` closes every
  writer and keeps the entries.
-/
namespace CentrifugeVerif.ChanWriter

inductive Frame | pub | join | leave
deriving Repr, DecidableEq

structure CItem where
  id : Nat
  /-- publication key (`0` stands for `""`) -/
  key : Nat
  frame : Frame
deriving Repr, DecidableEq

structure BatchCfg where
  /-- `MaxSize` (0 = no size trigger) -/
  maxSize : Nat
  /-- `MaxDelay` in ms (0 = no timer) -/
  maxDelay : Nat
  latest : Bool
deriving Repr, DecidableEq

structure CW where
  buffer : List CItem := []
  latestPubs : List CItem := []
  latestOnly : Bool := false
  /-- identity of the active timer (`timerStop`), if any -/
  timer : Option Nat := none
  /-- virtual deadline of the active timer (meaningful only while `timer` is `some`) -/
  deadline : Nat := 0
  /-- supply of timer identities -/
  nextId : Nat := 0
deriving Repr, DecidableEq

/-- remove the first entry with the given key (the `for … break` loop of `Add`) -/
def eraseKey (k : Nat) : List CItem → List CItem
  | [] => []
  | x :: xs => if x.key = k then xs else x :: eraseKey k xs

/-- `flushLocked`: new state and the batch handed to `flushFn` (`none`: no call) -/
def CW.flush (w : CW) : CW × Option (List CItem) :=
  if w.buffer.isEmpty ∧ w.latestPubs.isEmpty then (w, none)
  else
    let batch := if w.latestOnly ∧ !w.latestPubs.isEmpty then w.buffer ++ w.latestPubs else w.buffer
    ({ w with buffer := [], latestPubs := [] }, some batch)

/-- `stopTimerLocked` -/
def CW.stopTimer (w : CW) : CW := { w with timer := none }

/-- first half of `Add`: remember the mode, record the item -/
def CW.record (w : CW) (x : CItem) (c : BatchCfg) : CW :=
  if c.latest ∧ x.frame = .pub then
    { w with latestOnly := c.latest, latestPubs := eraseKey x.key w.latestPubs ++ [x] }
  else { w with latestOnly := c.latest, buffer := w.buffer ++ [x] }

/-- "Start timer on first item." -/
def CW.arm (w : CW) (now : Nat) (c : BatchCfg) : CW :=
  if 0 < c.maxDelay ∧ w.buffer.length + w.latestPubs.length = 1 ∧ w.timer = none then
    { w with timer := some w.nextId, nextId := w.nextId + 1, deadline := now + c.maxDelay }
  else w

/-- `channelWriter.Add(item, config)` at virtual time `now` -/
def CW.add (w : CW) (now : Nat) (x : CItem) (c : BatchCfg) : CW × Option (List CItem) :=
  let w3 := (w.record x c).arm now c
  if 0 < c.maxSize ∧ c.maxSize ≤ w3.buffer.length + w3.latestPubs.length then w3.stopTimer.flush else (w3, none)

/-- the `waitTimer` goroutine of timer `id` saw its timer fire and took the lock -/
def CW.fire (w : CW) (id : Nat) : CW × Option (List CItem) :=
  if w.timer = some id then ({ w.flush.1 with timer := none }, w.flush.2) else (w, none)

/-- `channelWriter.close(flushRemaining)` -/
def CW.close (w : CW) (flushRemaining : Bool) : CW × Option (List CItem) :=
  let r := if flushRemaining then w.stopTimer.flush else (w.stopTimer, none)
  ({ r.1 with buffer := [], latestPubs := [] }, r.2)

/-! ## One channel writer as a transition system -/

inductive Op
  | add (x : CItem) (c : BatchCfg)
  /-- timer goroutine `id` fires (any identity ever handed out, also a cancelled one) -/
  | fire (id : Nat)
  | close (flushRemaining : Bool)
deriving Repr, DecidableEq

def CW.step (w : CW) (now : Nat) : Op → CW × Option (List CItem)
  | .add x c => w.add now x c
  | .fire id => w.fire id
  | .close f => w.close f

/-- run ops (time is irrelevant for what is flushed, only for *when*; `now = 0` throughout) and
collect the batches handed to `flushFn`, in order -/
def CW.run (w : CW) : List Op → CW × List (List CItem)
  | [] => (w, [])
  | op :: ops =>
    let (w1, b) := w.step 0 op
    let (w2, bs) := CW.run w1 ops
    (w2, match b with | some x => x :: bs | none => bs)

/-- the items added by an op sequence, in order -/
def adds : List Op → List CItem
  | [] => []
  | .add x _ :: ops => x :: adds ops
  | _ :: ops => adds ops

/-- specification of latest-publication coalescing: keep an entry iff no later entry has its key -/
def dedupLast : List CItem → List CItem
  | [] => []
  | x :: rest => if rest.any (·.key = x.key) then dedupLast rest else x :: dedupLast rest

/-- what one flush must contain in latest-publication mode, given the items added since the last
flush: the join/leave pushes in order, then the newest publication of each key in last-update order -/
def coalesce (pending : List CItem) : List CItem :=
  pending.filter (·.frame ≠ .pub) ++ dedupLast (pending.filter (·.frame = .pub))

/-! ## `perChannelWriter`: channel ↦ writer, with writer identities so that a handle obtained by
`getWriter` can outlive `delWriter` -/

structure PCW where
  /-- all writers ever created (index = identity); removed ones stay reachable through handles and
  their timer goroutines -/
  heap : List CW := []
  /-- `writers` map: channel ↦ identity -/
  map : List (Nat × Nat) := []
  now : Nat := 0
deriving Repr

def PCW.lookup (p : PCW) (ch : Nat) : Option Nat := (p.map.find? (·.1 = ch)).map (·.2)

/-- `getWriter(channel)` -/
def PCW.getWriter (p : PCW) (ch : Nat) : PCW × Nat :=
  match p.lookup ch with
  | some h => (p, h)
  | none => ({ p with heap := p.heap ++ [{}], map := p.map ++ [(ch, p.heap.length)] }, p.heap.length)

def PCW.update (p : PCW) (h : Nat) (f : CW → CW × Option (List CItem)) : PCW × Option (List CItem) :=
  match p.heap[h]? with
  | none => (p, none)
  | some w => let (w', b) := f w; ({ p with heap := p.heap.set h w' }, b)

/-- `w.Add(item, config)` through a handle -/
def PCW.addH (p : PCW) (h : Nat) (x : CItem) (c : BatchCfg) : PCW × Option (List CItem) :=
  p.update h (fun w => w.add p.now x c)

/-- `perChannelWriter.Add` when nothing interleaves between `getWriter` and `w.Add` -/
def PCW.add (p : PCW) (ch : Nat) (x : CItem) (c : BatchCfg) : PCW × Option (List CItem) :=
  let (p1, h) := p.getWriter ch
  p1.addH h x c

/-- `delWriter(channel, flushRemaining)` -/
def PCW.del (p : PCW) (ch : Nat) (flushRemaining : Bool) : PCW × Option (List CItem) :=
  match p.lookup ch with
  | none => (p, none)
  | some h =>
    let (p1, b) := p.update h (fun w => w.close flushRemaining)
    ({ p1 with map := p1.map.filter (·.1 ≠ ch) }, b)

/-- `Close(flushRemaining)`: every mapped writer is closed (Go iterates the map in random order; the
batches are returned in map-insertion order and compared as a multiset) -/
def PCW.closeAll (p : PCW) (flushRemaining : Bool) : PCW × List (List CItem) :=
  p.map.foldl (fun (acc : PCW × List (List CItem)) e =>
    let (p1, b) := acc.1.update e.2 (fun w => w.close flushRemaining)
    (p1, match b with | some x => acc.2 ++ [x] | none => acc.2)) (p, [])

/-- earliest deadline among active timers -/
def PCW.nextDeadline (p : PCW) : Option Nat :=
  p.heap.foldl (fun acc w =>
    match w.timer, acc with
    | some _, some d => some (min d w.deadline)
    | some _, none => some w.deadline
    | none, acc => acc) none

/-- fire every active timer that is due (in identity order) -/
def PCW.fireDue (p : PCW) : PCW × List (List CItem) :=
  (List.range p.heap.length).foldl (fun (acc : PCW × List (List CItem)) h =>
    match acc.1.heap[h]? with
    | some w =>
      match w.timer with
      | some id =>
        if w.deadline ≤ acc.1.now then
          let (p1, b) := acc.1.update h (fun w => w.fire id)
          (p1, match b with | some x => acc.2 ++ [x] | none => acc.2)
        else acc
      | none => acc
    | none => acc) (p, [])

/-- virtual time advances to `target`, stopping at every deadline; the result is one group of
batches per instant at which something was flushed -/
def PCW.sleep : Nat → PCW → Nat → List (List (List CItem)) → PCW × List (List (List CItem))
  | 0, p, _, acc => (p, acc)
  | fuel + 1, p, target, acc =>
    match p.nextDeadline with
    | some d =>
      if d ≤ target then
        let (p1, bs) := ({ p with now := max p.now d }).fireDue
        PCW.sleep fuel p1 target (if bs.isEmpty then acc else acc ++ [bs])
      else ({ p with now := target }, acc)
    | none => ({ p with now := target }, acc)

end CentrifugeVerif.ChanWriter
