import CentrifugeVerif.Model.MapPage
/-
Executable model of the in-memory map broker: `MemoryMapBroker.{Publish,Remove,Clear,ReadState,
ReadStream}`, `mapHub.{add,remove,clear,getState,getStream,createStreamPosition}`, the idempotency
result cache and the key-TTL machinery (`keyExpires`, `keyExpireQueue`, `nextKeyExpireCheck`, the two
phases of `expireKeysIteration`) of `/repo/map_broker_memory.go`, with
`ResolveAndValidateMapChannelOptions` of `/repo/map_broker.go` and `internal/memstream`.
Core Lean only.  Time (`now`, UnixMilli relative to the start of a scenario) is an input.

Quirks of the Go code that are mirrored on purpose:
* `add` creates the channel (fresh epoch) *before* any check, so a suppressed publish may create it;
  a channel created by a read (`createStreamPosition`) is unordered until the first `add`;
* the empty key `""` skips version / key mode / CAS and the state, but is appended to the stream and
  broadcast; `Remove("")` reports `key_not_found`;
* version check only for stream-backed modes, key ≠ "" and `Version > 0`; an unversioned publish keeps
  the stored version and version epoch; a different non-empty version epoch passes the check;
* `KeyModeIfNew` on an existing key with `RefreshTTLOnSuppress` and `KeyTTL > 0` refreshes the deadline
  (the one documented effect of a suppressed publish) — even when a CAS would have failed afterwards;
* an unknown `KeyMode` string behaves like replace;
* CAS compares the *stored publication's offset* and the *channel epoch*; a missing key is a mismatch
  (for `Remove` also a missing channel); `Remove` checks CAS before key existence;
* ephemeral channels reject CAS and `Version > 0` *before* the idempotency lookup;
* the idempotency cache returns the *cached* position; an entry with `ExpireAt ≤ now` is a miss;
  only unsuppressed operations are saved; `Clear` drops the channel's cache;
* expired keys stay visible (state, key mode, CAS, version) until the sweeper removes them;
* `Stream.Get` with an offset that is not in the stream starts at the front (forward) or returns
  nothing (reverse); `since.Offset - 1` wraps for `0` (uint64);
* `ReadState`: single-key lookup takes priority over `Limit`; `Limit = 0` returns the position only;
  a negative limit returns everything; `scores[key]` of a missing key is `0`.

Abstracted (documented assumptions, see props/C20/meta.json):
* stream TTL (`expireStreams`) and meta TTL (`removeChannels`, `updateMetaTTL`) sweeps are not
  modelled — the correspondence harness uses TTLs beyond the virtual-time horizon;
* the `sortedKeys` cache of `getState` is always rebuilt (the harness exercises the cache);
* the GC of the result cache (`expireResultCache`) is unobservable (lookups test `ExpireAt`) and omitted;
* the binary heap is a list from which the first item of minimal priority is popped (`popMin`);
  the harness never creates equal priorities for different keys of a channel;
* epochs are fresh natural numbers (`0` = the empty epoch string), payloads/tags opaque numbers,
  offsets are unbounded naturals (no `uint64` overflow), channel names contain no NUL byte,
  an event handler is registered and returns `nil`.
-/
namespace CentrifugeVerif.MapHub
open CentrifugeVerif.MapPage

abbrev Key := List Nat

/-! ### association lists (Go maps) -/
section Assoc
variable {κ ν : Type} [DecidableEq κ]

def aget : List (κ × ν) → κ → Option ν
  | [], _ => none
  | (k', v) :: t, k => if k' = k then some v else aget t k

def aset : List (κ × ν) → κ → ν → List (κ × ν)
  | [], k, v => [(k, v)]
  | (k', v') :: t, k, v => if k' = k then (k, v) :: t else (k', v') :: aset t k v

def adel : List (κ × ν) → κ → List (κ × ν)
  | [], _ => []
  | (k', v') :: t, k => if k' = k then adel t k else (k', v') :: adel t k

end Assoc

/-! ### data -/

/-- `StreamPosition`; epoch `0` is the empty string. -/
structure Pos where
  offset : Nat
  epoch : Nat
deriving Repr, DecidableEq, Inhabited

/-- `Publication` (fields the map broker touches). `data = 0`: nil payload; `tag = 0`: nil tags,
`tag = 1`: empty non-nil tags. -/
structure Pub where
  key : Key
  data : Nat
  tag : Nat
  score : Int
  offset : Nat
  removed : Bool
  time : Nat
deriving Repr, DecidableEq, Inhabited

/-- `stateEntry`. -/
structure Entry where
  pub : Pub
  score : Int
  expireAt : Nat
  version : Nat
  vepoch : Nat
deriving Repr, DecidableEq, Inhabited

/-- `memstream.Stream` (items oldest first). -/
structure Stream where
  top : Nat
  items : List Pub
  epoch : Nat
deriving Repr, DecidableEq, Inhabited

def Stream.pos (s : Stream) : Pos := ⟨s.top, s.epoch⟩

/-- `Stream.Add`: the new item gets offset `top+1`; the front is trimmed to `size`. -/
def Stream.add (s : Stream) (p : Pub) (size : Nat) : Stream × Pub :=
  let p' := { p with offset := s.top + 1 }
  let items := s.items ++ [p']
  ({ s with top := s.top + 1, items := items.drop (items.length - size) }, p')

/-- `Stream.Get(offset, useOffset, limit, reverse)` (items only). -/
def Stream.get (s : Stream) (offset : Nat) (useOffset : Bool) (limit : Int) (reverse : Bool) : List Pub :=
  if useOffset && decide (offset ≥ s.top + 1) then [] else
  let idx : Option Nat :=
    if useOffset then
      match s.items.findIdx? (fun p => p.offset == offset) with
      | some i => some i
      | none => if reverse then none else (if s.items.isEmpty then none else some 0)
    else if s.items.isEmpty then none
    else if reverse then some (s.items.length - 1) else some 0
  match idx with
  | none => []
  | some i =>
    if limit = 0 then [] else
    let seq := if reverse then (s.items.take (i + 1)).reverse else s.items.drop i
    if limit > 0 then seq.take limit.toNat else seq

/-- `mapChannel` (without the `sortedKeys` cache). -/
structure Chan where
  stream : Stream
  state : List (Key × Entry)
  ordered : Bool
  scores : List (Key × Int)
deriving Repr, DecidableEq, Inhabited

abbrev ChKey := Nat × Key

/-- `mapHub` + the broker's result cache. -/
structure Hub where
  chans : List (Nat × Chan)
  keyExpires : List (ChKey × Nat)
  /-- `keyExpireQueue` as a multiset in insertion order -/
  queue : List (ChKey × Nat)
  nextKeyCheck : Nat
  /-- `resultCache`: (channel, idempotency key) ↦ (position, expireAt) -/
  cache : List ((Nat × Nat) × (Pos × Nat))
  nextEpoch : Nat
deriving Repr, DecidableEq, Inhabited

def Hub.init : Hub := ⟨[], [], [], 0, [], 1⟩

/-! ### channel options -/

/-- what the resolver returns (fields the harness varies; `StreamTTL`/`MetaTTL` are fixed valid values) -/
structure RawCfg where
  mode : Nat
  keyTTL : Int
  streamSize : Int
  ordered : Bool
deriving Repr, DecidableEq, Inhabited

/-- validated options. -/
structure Cfg where
  mode : Nat
  keyTTL : Nat
  streamSize : Nat
  ordered : Bool
deriving Repr, DecidableEq, Inhabited

def Cfg.hasStream (c : Cfg) : Bool := c.mode == 2 || c.mode == 3
def Cfg.isEphemeral (c : Cfg) : Bool := c.mode == 1

/-- `ResolveAndValidateMapChannelOptions` (`none` = error). -/
def resolve (r : RawCfg) : Option Cfg :=
  if r.mode = 0 then none
  else if r.mode ≠ 1 ∧ r.mode ≠ 2 ∧ r.mode ≠ 3 then none
  else if (r.mode = 1 ∨ r.mode = 2) ∧ r.keyTTL ≤ 0 then none
  else if r.mode = 3 ∧ r.keyTTL ≠ 0 then none
  else if r.mode = 1 ∧ r.streamSize > 0 then none
  else if r.mode ≠ 1 ∧ r.streamSize < 0 then none
  else some { mode := r.mode, keyTTL := r.keyTTL.toNat,
              streamSize := if r.mode = 1 then 0 else if r.streamSize = 0 then 100 else r.streamSize.toNat,
              ordered := r.ordered }

/-! ### operations -/

inductive KeyMode | replace | ifNew | ifExists | other
deriving Repr, DecidableEq, Inhabited

inductive Suppress | none | idempotency | version | keyExists | keyNotFound | positionMismatch
deriving Repr, DecidableEq, Inhabited

structure PubOpts where
  data : Nat := 0
  tag : Nat := 0
  score : Int := 0
  mode : KeyMode := .replace
  refresh : Bool := false
  version : Nat := 0
  vepoch : Nat := 0
  /-- idempotency key, `0` = none -/
  idem : Nat := 0
  /-- `IdempotentResultTTL` in ms, `0` = default 300 s -/
  ittl : Nat := 0
  cas : Option Pos := none
  delta : Bool := false
deriving Repr, DecidableEq, Inhabited

structure RmOpts where
  idem : Nat := 0
  ittl : Nat := 0
  cas : Option Pos := none
  /-- `Tags`, `0` = nil (inherit from the entry) -/
  tag : Nat := 0
deriving Repr, DecidableEq, Inhabited

/-- the raw cursor string read both ways: as an unordered cursor (`key`) and as an ordered one
(`score`, `skey`); the channel's `ordered` flag decides which is used. -/
structure Cursor where
  key : Key
  score : Int
  skey : Key
deriving Repr, DecidableEq, Inhabited

structure StateOpts where
  rev : Option Pos := none
  cursor : Option Cursor := none
  limit : Int := 0
  key : Key := []
  asc : Bool := false
deriving Repr, DecidableEq, Inhabited

structure StreamOpts where
  since : Option Pos := none
  limit : Int := 0
  reverse : Bool := false
deriving Repr, DecidableEq, Inhabited

inductive MOp
  | publish (ch : Nat) (key : Key) (o : PubOpts)
  | remove (ch : Nat) (key : Key) (o : RmOpts)
  | clear (ch : Nat)
  | readState (ch : Nat) (o : StateOpts)
  | readStream (ch : Nat) (o : StreamOpts)
  /-- one `expireKeysIteration` (phase 1, then phase 2 for every collected event) -/
  | sweep
deriving Repr, DecidableEq, Inhabited

inductive Err | config | casEphemeral | versionEphemeral | unrecoverable
deriving Repr, DecidableEq, Inhabited

/-- one `HandlePublication` call. -/
structure Bcast where
  ch : Nat
  pub : Pub
  pos : Pos
  delta : Bool
  prev : Option Pub
deriving Repr, DecidableEq, Inhabited

inductive Res
  /-- `MapUpdateResult` -/
  | update (pos : Pos) (sup : Suppress) (cur : Option (Nat × Nat))
  | err (e : Err)
  /-- `ErrorUnrecoverablePosition` of `ReadState` (the result still carries the position) -/
  | stateErr (pos : Pos)
  | state (pubs : List Pub) (pos : Pos) (cursor : Option Elem) (ordered : Bool)
  | stream (pubs : List Pub) (pos : Pos)
  | done
  /-- phase-1 loop ran out of fuel (never happens: `Proofs/MapExpiry`) -/
  | stuck
deriving Repr, DecidableEq, Inhabited

structure MOut where
  res : Res
  bcs : List Bcast
deriving Repr, DecidableEq, Inhabited

/-! ### hub helpers -/

def Hub.setChan (h : Hub) (ch : Nat) (c : Chan) : Hub := { h with chans := aset h.chans ch c }

/-- a fresh channel as made by `add` / `createStreamPosition`. -/
def Hub.newChan (h : Hub) (ordered : Bool) : Chan :=
  { stream := ⟨0, [], h.nextEpoch⟩, state := [], ordered := ordered, scores := [] }

/-- `createStreamPosition` for a missing channel. -/
def Hub.createPos (h : Hub) (ch : Nat) : Hub × Pos :=
  ({ h with chans := aset h.chans ch (h.newChan false), nextEpoch := h.nextEpoch + 1 }, ⟨0, h.nextEpoch⟩)

/-- register deadline `e` for `ck`: push on the queue, record it, lower `nextKeyExpireCheck`. -/
def Hub.trackTTL (h : Hub) (ck : ChKey) (e : Nat) : Hub :=
  { h with queue := h.queue ++ [(ck, e)], keyExpires := aset h.keyExpires ck e,
           nextKeyCheck := if h.nextKeyCheck = 0 ∨ h.nextKeyCheck > e then e else h.nextKeyCheck }

/-- the version check of `add`: `true` = suppressed. -/
def versionBlocked (cfg : Cfg) (c : Chan) (key : Key) (o : PubOpts) : Bool :=
  cfg.hasStream && key != [] && decide (o.version > 0) &&
    match aget c.state key with
    | some e => (o.vepoch == 0 || o.vepoch == e.vepoch) && decide (o.version ≤ e.version)
    | none => false

/-- the key-mode check of `add`. -/
def keyModeBlocked (c : Chan) (key : Key) (o : PubOpts) : Option Suppress :=
  if key != [] && o.mode != .replace then
    if o.mode == .ifNew && (aget c.state key).isSome then some .keyExists
    else if o.mode == .ifExists && (aget c.state key).isNone then some .keyNotFound
    else none
  else none

/-- the CAS check shared by `add` and `remove`: `some prev` = mismatch (with the current
publication when the key exists). -/
def casBlocked (c : Chan) (key : Key) (cas : Option Pos) : Option (Option Pub) :=
  match cas with
  | none => none
  | some exp =>
    match aget c.state key with
    | none => some none
    | some e => if e.pub.offset ≠ exp.offset ∨ c.stream.epoch ≠ exp.epoch then some (some e.pub) else none

/-- `mapHub.add`.  Returns hub, position, `prevPub`, suppress reason and the stream publication. -/
def add (cfg : Cfg) (h : Hub) (now : Nat) (ch : Nat) (key : Key) (o : PubOpts) :
    Hub × Pos × Option Pub × Suppress × Pub :=
  let pub0 : Pub := { key := key, data := o.data, tag := o.tag, score := o.score, offset := 0,
                      removed := false, time := now }
  let prev : Option Pub :=
    if o.delta && key != [] then
      match aget h.chans ch with
      | some c => (aget c.state key).map (·.pub)
      | none => none
    else none
  -- get or create the channel
  let hc : Hub × Chan :=
    match aget h.chans ch with
    | some c =>
      if cfg.ordered && !c.ordered then
        let c' := { c with ordered := true }
        (h.setChan ch c', c')
      else (h, c)
    | none =>
      let c := h.newChan cfg.ordered
      ({ h with chans := aset h.chans ch c, nextEpoch := h.nextEpoch + 1 }, c)
  let h1 := hc.1
  let c := hc.2
  let pos := c.stream.pos
  if versionBlocked cfg c key o then (h1, pos, none, .version, pub0) else
  match keyModeBlocked c key o with
  | some .keyExists =>
    -- optional TTL refresh of the existing entry
    let h2 :=
      if o.refresh && decide (cfg.keyTTL > 0) then
        match aget c.state key with
        | some e =>
          let c' := { c with state := aset c.state key { e with expireAt := now + cfg.keyTTL } }
          (h1.setChan ch c').trackTTL (ch, key) (now + cfg.keyTTL)
        | none => h1
      else h1
    (h2, pos, none, .keyExists, pub0)
  | some r => (h1, pos, none, r, pub0)
  | none =>
  match (if key != [] then casBlocked c key o.cas else none) with
  | some cur => (h1, pos, cur, .positionMismatch, pub0)
  | none =>
  -- stream
  let sp : Stream × Pub × Pos :=
    if cfg.hasStream then
      let r := c.stream.add pub0 cfg.streamSize
      (r.1, r.2, ⟨r.2.offset, c.stream.epoch⟩)
    else (c.stream, { pub0 with offset := c.stream.top }, c.stream.pos)
  let stream' := sp.1
  let spos := sp.2.2
  if key == [] then
    -- no keyed state; in streamless mode the publication keeps offset 0
    let pubOut := if cfg.hasStream then sp.2.1 else pub0
    (h1.setChan ch { c with stream := stream' }, spos, prev, .none, pubOut)
  else
    let pub := sp.2.1
    let expireAt := if cfg.keyTTL > 0 then now + cfg.keyTTL else 0
    let ve : Nat × Nat :=
      if o.version = 0 then
        match aget c.state key with
        | some e => (e.version, e.vepoch)
        | none => (o.version, o.vepoch)
      else (o.version, o.vepoch)
    let entry : Entry := { pub := pub, score := o.score, expireAt := expireAt, version := ve.1, vepoch := ve.2 }
    let c' : Chan := { c with stream := stream', state := aset c.state key entry,
                              scores := if cfg.ordered then aset c.scores key o.score else c.scores }
    let h2 := h1.setChan ch c'
    let h3 := if cfg.keyTTL > 0 then h2.trackTTL (ch, key) expireAt else h2
    (h3, spos, prev, .none, pub)

/-- `mapHub.remove`.  Returns hub, position, removal publication / current publication, reason. -/
def remove (cfg : Cfg) (h : Hub) (now : Nat) (ch : Nat) (key : Key) (o : RmOpts) :
    Hub × Pos × Option Pub × Suppress :=
  match aget h.chans ch with
  | none => if o.cas.isSome then (h, ⟨0, 0⟩, none, .positionMismatch) else (h, ⟨0, 0⟩, none, .keyNotFound)
  | some c =>
    let pos := c.stream.pos
    match casBlocked c key o.cas with
    | some cur => (h, pos, cur, .positionMismatch)
    | none =>
    match aget c.state key with
    | none => (h, pos, none, .keyNotFound)
    | some e =>
      let tag := if o.tag ≠ 0 then o.tag else e.pub.tag
      let pub0 : Pub := { key := key, data := 0, tag := tag, score := 0, offset := 0, removed := true, time := now }
      let c1 : Chan := { c with state := adel c.state key,
                                scores := if c.ordered then adel c.scores key else c.scores }
      let h1 := { h with keyExpires := adel h.keyExpires (ch, key) }
      if cfg.hasStream then
        let r := c1.stream.add pub0 cfg.streamSize
        (h1.setChan ch { c1 with stream := r.1 }, ⟨r.2.offset, c.stream.epoch⟩, some r.2, .none)
      else
        (h1.setChan ch c1, pos, some pub0, .none)

/-- `mapHub.clear` + `clearResultCache`. -/
def clear (h : Hub) (ch : Nat) : Hub :=
  match aget h.chans ch with
  | none => { h with cache := h.cache.filter (fun e => e.1.1 != ch) }
  | some c =>
    { h with keyExpires := c.state.foldl (fun ke kv => adel ke (ch, kv.1)) h.keyExpires,
             chans := adel h.chans ch,
             cache := h.cache.filter (fun e => e.1.1 != ch) }

/-- `getResultFromCache`. -/
def cacheGet (h : Hub) (now : Nat) (ch idem : Nat) : Option Pos :=
  match aget h.cache (ch, idem) with
  | some (p, exp) => if exp ≤ now then none else some p
  | none => none

/-- `saveResultToCache`. -/
def cachePut (h : Hub) (now : Nat) (ch idem : Nat) (p : Pos) (ittl : Nat) : Hub :=
  { h with cache := aset h.cache (ch, idem) (p, now + (if ittl ≠ 0 then ittl else 300000)) }

/-- `MemoryMapBroker.Publish`. -/
def publish (rc : RawCfg) (h : Hub) (now : Nat) (ch : Nat) (key : Key) (o : PubOpts) : Hub × MOut :=
  match resolve rc with
  | none => (h, ⟨.err .config, []⟩)
  | some cfg =>
    if cfg.isEphemeral && o.cas.isSome then (h, ⟨.err .casEphemeral, []⟩)
    else if cfg.isEphemeral && decide (o.version > 0) then (h, ⟨.err .versionEphemeral, []⟩)
    else
    match (if o.idem ≠ 0 then cacheGet h now ch o.idem else none) with
    | some p => (h, ⟨.update p .idempotency none, []⟩)
    | none =>
      let r := add cfg h now ch key o
      let h1 := r.1
      let pos := r.2.1
      let prev := r.2.2.1
      let sup := r.2.2.2.1
      let pub := r.2.2.2.2
      if sup ≠ .none then
        let cur := if sup = .positionMismatch then prev.map (fun p => (p.offset, p.data)) else none
        (h1, ⟨.update pos sup cur, []⟩)
      else
        let h2 := if o.idem ≠ 0 then cachePut h1 now ch o.idem pos o.ittl else h1
        (h2, ⟨.update pos .none none, [⟨ch, pub, pos, o.delta, prev⟩]⟩)

/-- `MemoryMapBroker.Remove`. -/
def removeOp (rc : RawCfg) (h : Hub) (now : Nat) (ch : Nat) (key : Key) (o : RmOpts) : Hub × MOut :=
  match resolve rc with
  | none => (h, ⟨.err .config, []⟩)
  | some cfg =>
    if cfg.isEphemeral && o.cas.isSome then (h, ⟨.err .casEphemeral, []⟩)
    else
    match (if o.idem ≠ 0 then cacheGet h now ch o.idem else none) with
    | some p => (h, ⟨.update p .idempotency none, []⟩)
    | none =>
      let r := remove cfg h now ch key o
      let h1 := r.1
      let pos := r.2.1
      let rp := r.2.2.1
      let sup := r.2.2.2
      if sup ≠ .none then
        let cur := if sup = .positionMismatch then rp.map (fun p => (p.offset, p.data)) else none
        (h1, ⟨.update pos sup cur, []⟩)
      else
        let h2 := if o.idem ≠ 0 then cachePut h1 now ch o.idem pos o.ittl else h1
        match rp with
        | some pub => (h2, ⟨.update pos .none none, [⟨ch, pub, pos, false, none⟩]⟩)
        | none => (h2, ⟨.update pos .none none, []⟩)

/-- the `(score, key)` elements `getState` sorts. -/
def Chan.elems (c : Chan) : List Elem :=
  c.state.map (fun kv => (if c.ordered then (aget c.scores kv.1).getD 0 else 0, kv.1))

/-- sort direction used by `getState`. -/
def Chan.dir (c : Chan) (asc : Bool) : Bool := if c.ordered then asc else true

/-- `ReadState` / `mapHub.getState`. -/
def getState (rc : RawCfg) (h : Hub) (ch : Nat) (o : StateOpts) : Hub × MOut :=
  match resolve rc with
  | none => (h, ⟨.err .config, []⟩)
  | some _ =>
    match aget h.chans ch with
    | none =>
      let r := h.createPos ch
      match o.rev with
      | some rv => if rv.epoch ≠ 0 then (r.1, ⟨.stateErr r.2, []⟩) else (r.1, ⟨.state [] r.2 none false, []⟩)
      | none => (r.1, ⟨.state [] r.2 none false, []⟩)
    | some c =>
      let pos := c.stream.pos
      if (match o.rev with | some rv => decide (pos.epoch ≠ rv.epoch) | none => false) then
        (h, ⟨.stateErr pos, []⟩)
      else if o.key != [] then
        match aget c.state o.key with
        | none => (h, ⟨.state [] pos none c.ordered, []⟩)
        | some e => (h, ⟨.state [e.pub] pos none c.ordered, []⟩)
      else if o.limit = 0 then (h, ⟨.state [] pos none c.ordered, []⟩)
      else
        let lt := elemLt (c.dir o.asc)
        let sorted := isort lt c.elems
        let cur : Option Elem := o.cursor.map (fun cu => if c.ordered then (cu.score, cu.skey) else (0, cu.key))
        let page := getPage lt sorted cur o.limit
        let pubs := page.items.filterMap (fun e => (aget c.state e.2).map (·.pub))
        (h, ⟨.state pubs pos page.cursor c.ordered, []⟩)

/-- `ReadStream` / `mapHub.getStream`. -/
def getStream (h : Hub) (ch : Nat) (o : StreamOpts) : Hub × MOut :=
  match aget h.chans ch with
  | none =>
    let r := h.createPos ch
    (r.1, ⟨.stream [] r.2, []⟩)
  | some c =>
    let pos := c.stream.pos
    match o.since with
    | none =>
      if o.limit = 0 then (h, ⟨.stream [] pos, []⟩)
      else (h, ⟨.stream (c.stream.get 0 false o.limit o.reverse) pos, []⟩)
    | some s =>
      if s.epoch ≠ 0 ∧ s.epoch ≠ c.stream.epoch then (h, ⟨.err .unrecoverable, []⟩)
      else if !o.reverse && pos.offset == s.offset then (h, ⟨.stream [] pos, []⟩)
      else
        let off := if o.reverse then (if s.offset = 0 then 2 ^ 64 - 1 else s.offset - 1) else s.offset + 1
        (h, ⟨.stream (c.stream.get off true o.limit o.reverse) pos, []⟩)

/-! ### key expiry -/

/-- remove the first item of minimal priority (`heap.Pop`). -/
def popMin : List (ChKey × Nat) → Option ((ChKey × Nat) × List (ChKey × Nat))
  | [] => none
  | x :: t =>
    match popMin t with
    | none => some (x, [])
    | some (m, r) => if x.2 ≤ m.2 then some (x, t) else some (m, x :: r)

/-- `expiredKeyEvent`. -/
structure ExpEvent where
  ch : Nat
  key : Key
  expireAt : Nat
  tag : Nat
  streamSize : Nat
deriving Repr, DecidableEq, Inhabited

/-- the `for h.keyExpireQueue.Len() > 0` loop of phase 1.  Result: hub, `*nextKeyExpireCheck`,
collected events; `none` = out of fuel. -/
def phase1Loop (cfg : Nat → RawCfg) (now : Nat) : Nat → Hub → List ExpEvent → Option (Hub × Nat × List ExpEvent)
  | 0, _, _ => none
  | fuel + 1, h, evs =>
    match popMin h.queue with
    | none => some (h, 0, evs)
    | some ((ck, p), rest) =>
      if p > now then some (h, p, evs)   -- popped and pushed back: the multiset is unchanged
      else
        let h := { h with queue := rest }
        match aget h.keyExpires ck with
        | none => phase1Loop cfg now fuel h evs
        | some stored =>
          if stored > p then phase1Loop cfg now fuel { h with queue := h.queue ++ [(ck, stored)] } evs
          else if ck.2 = [] then phase1Loop cfg now fuel { h with keyExpires := adel h.keyExpires ck } evs
          else
            match aget h.chans ck.1 with
            | none => phase1Loop cfg now fuel { h with keyExpires := adel h.keyExpires ck } evs
            | some c =>
              match aget c.state ck.2 with
              | none => phase1Loop cfg now fuel { h with keyExpires := adel h.keyExpires ck } evs
              | some e =>
                if e.expireAt ≠ p then
                  if e.expireAt > now then
                    phase1Loop cfg now fuel { h with keyExpires := aset h.keyExpires ck e.expireAt,
                                                     queue := h.queue ++ [(ck, e.expireAt)] } evs
                  else phase1Loop cfg now fuel h evs
                else
                  let ss := match resolve (cfg ck.1) with
                    | some rc => if rc.hasStream then rc.streamSize else 0
                    | none => 0
                  phase1Loop cfg now fuel h (evs ++ [⟨ck.1, ck.2, p, e.pub.tag, ss⟩])

/-- minimal priority of a queue (`queue[0].Priority` of the heap). -/
def minPrio (q : List (ChKey × Nat)) : Option Nat := (popMin q).map (·.1.2)

/-- phase 1 of `expireKeysIteration` (one hub-lock region).  `none` = out of fuel. -/
def phase1 (cfg : Nat → RawCfg) (h : Hub) (now : Nat) : Option (Hub × List ExpEvent) :=
  if h.nextKeyCheck = 0 ∨ h.nextKeyCheck > now then some (h, [])
  else
    match phase1Loop cfg now (3 * h.queue.length + 3) h [] with
    | none => none
    | some (h1, next, evs) =>
      -- heap compaction
      if h1.queue.length > 2 * h1.keyExpires.length + 100 then
        let q := h1.keyExpires
        let next' := match minPrio q with | some p => p | none => next
        some ({ h1 with queue := q, nextKeyCheck := next' }, evs)
      else some ({ h1 with nextKeyCheck := next }, evs)

/-- phase 2 of `expireKeysIteration` for one event (one `pubLock → hub lock` region).
`now1` is the `now` captured by phase 1, `now2` the current time. -/
def phase2 (h : Hub) (now1 now2 : Nat) (ev : ExpEvent) : Hub × List Bcast :=
  match aget h.chans ev.ch with
  | none => (h, [])
  | some c =>
    match aget c.state ev.key with
    | none => (h, [])
    | some e =>
      if e.expireAt = ev.expireAt then
        let pub0 : Pub := { key := ev.key, data := 0, tag := ev.tag, score := 0, offset := 0,
                            removed := true, time := now2 }
        let c1 : Chan := { c with state := adel c.state ev.key,
                                  scores := if c.ordered then adel c.scores ev.key else c.scores }
        let h1 := { h with keyExpires := adel h.keyExpires (ev.ch, ev.key) }
        if ev.streamSize > 0 then
          let r := c1.stream.add pub0 ev.streamSize
          (h1.setChan ev.ch { c1 with stream := r.1 }, [⟨ev.ch, r.2, ⟨r.2.offset, c.stream.epoch⟩, false, none⟩])
        else
          (h1.setChan ev.ch c1, [⟨ev.ch, pub0, c.stream.pos, false, none⟩])
      else if e.expireAt > now1 then
        ({ h with keyExpires := aset h.keyExpires (ev.ch, ev.key) e.expireAt,
                  queue := h.queue ++ [((ev.ch, ev.key), e.expireAt)],
                  nextKeyCheck := if h.nextKeyCheck = 0 ∨ e.expireAt < h.nextKeyCheck then e.expireAt
                                  else h.nextKeyCheck }, [])
      else (h, [])

/-- phase 2 over all events. -/
def phase2All (now1 now2 : Nat) : Hub → List ExpEvent → Hub × List Bcast
  | h, [] => (h, [])
  | h, ev :: evs =>
    let r := phase2 h now1 now2 ev
    let r' := phase2All now1 now2 r.1 evs
    (r'.1, r.2 ++ r'.2)

/-- one whole `expireKeysIteration` with no interleaved operation. -/
def sweep (cfg : Nat → RawCfg) (h : Hub) (now : Nat) : Hub × MOut :=
  match phase1 cfg h now with
  | none => (h, ⟨.stuck, []⟩)
  | some (h1, evs) =>
    let r := phase2All now now h1 evs
    (r.1, ⟨.done, r.2⟩)

/-- the map broker as a state machine; `cfg` is the channel-options resolver, `now` the clock. -/
def step (cfg : Nat → RawCfg) (h : Hub) (now : Nat) : MOp → Hub × MOut
  | .publish ch key o => publish (cfg ch) h now ch key o
  | .remove ch key o => removeOp (cfg ch) h now ch key o
  | .clear ch => (clear h ch, ⟨.done, []⟩)
  | .readState ch o => getState (cfg ch) h ch o
  | .readStream ch o => getStream h ch o
  | .sweep => sweep cfg h now

/-- run a timed op sequence from a hub; collects the outputs. -/
def run (cfg : Nat → RawCfg) : Hub → List (Nat × MOp) → Hub × List MOut
  | h, [] => (h, [])
  | h, (now, op) :: rest =>
    let r := step cfg h now op
    let r' := run cfg r.1 rest
    (r'.1, r.2 :: r'.2)

end CentrifugeVerif.MapHub
