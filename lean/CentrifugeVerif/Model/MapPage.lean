/-
Model of the map-state pagination of `mapHub.getState` (`/repo/map_broker_memory.go`) and of the
cursor searches `findUnorderedCursorPosition` / `findOrderedCursorPosition`
(`/repo/map_broker.go`).  Core Lean only.

Go facts mirrored here:
* the channel's keys are sorted with `sort.Strings` (unordered) or `sort.Slice` with the comparator
  `(score, key)` ascending / `(score, key)` descending (ordered).  The comparator is a strict total
  order on distinct keys, so the (unstable) sort has exactly one possible result; a structural
  insertion sort computes it;
* an element is the pair `(score, key)`; an unordered channel behaves like an ascending ordered one
  in which every score is `0` (cursor = the key alone);
* the start index of a page is `0` for the empty cursor, otherwise `sort.Search(n, pred)` (binary
  search, modelled literally with fuel) where `pred i` = "element `i` lies strictly after the
  cursor in the sort direction";
* `start ≥ total` gives an empty page without cursor;
* `limit > 0`: `end = min(start+limit, total)`, and only when `end < total` the cursor of the last
  element of the page is returned; `limit < 0` returns everything from `start` without cursor.
  (`limit = 0` never reaches this code: `getState` returns the position only.)
* Go strings are compared bytewise: `bytesLt`.
-/
namespace CentrifugeVerif.MapPage

/-- Go's `<` on strings: lexicographic on bytes. -/
def bytesLt : List Nat → List Nat → Bool
  | [], [] => false
  | [], _ :: _ => true
  | _ :: _, [] => false
  | a :: as, b :: bs => if a < b then true else if b < a then false else bytesLt as bs

/-- `(score, key)`. -/
abbrev Elem := Int × List Nat

/-- the `less` of `sort.Slice` in `getState` with `wantAsc = true`. -/
def elemLtAsc (a b : Elem) : Bool :=
  if a.1 < b.1 then true else if b.1 < a.1 then false else bytesLt a.2 b.2

/-- the `less` of `sort.Slice` in `getState` for direction `asc`; at the same time the predicate of
`findOrderedCursorPosition` (`elemLt asc cursor elem`) and, with all scores `0` and `asc = true`,
of `findUnorderedCursorPosition`. -/
def elemLt (asc : Bool) (a b : Elem) : Bool :=
  if asc then elemLtAsc a b else elemLtAsc b a

section Generic
variable {α : Type} (lt : α → α → Bool)

/-- insertion before the first element that is greater. -/
def ins (a : α) : List α → List α
  | [] => [a]
  | b :: l => if lt a b then a :: b :: l else b :: ins a l

/-- the sorted key list (insertion sort; structural). -/
def isort : List α → List α
  | [] => []
  | a :: l => ins lt a (isort l)

/-- the loop of Go's `sort.Search`: `for i < j { h := (i+j)/2; if !f(h) {i = h+1} else {j = h} }`. -/
def bsearch (f : Nat → Bool) : Nat → Nat → Nat → Nat
  | 0, i, _ => i
  | fuel + 1, i, j =>
    if i < j then
      let h := (i + j) / 2
      if !f h then bsearch f fuel (h + 1) j else bsearch f fuel i h
    else i

/-- `sort.Search(n, f)`; fuel `n` suffices because `j - i` strictly decreases
(`Proofs/MapPage.lean: search_spec`). -/
def search (n : Nat) (f : Nat → Bool) : Nat := bsearch f n 0 n

/-- `find…CursorPosition`: index of the first element strictly after cursor `c`. -/
def afterCursor (sorted : List α) (c : α) : Nat :=
  search sorted.length (fun i => match sorted[i]? with | some x => lt c x | none => true)

structure Page (α : Type) where
  items : List α
  cursor : Option α
deriving Repr, DecidableEq

/-- one `getState` page over the sorted element list (`limit ≠ 0`). -/
def getPage (sorted : List α) (cur : Option α) (limit : Int) : Page α :=
  let total := sorted.length
  if total = 0 then ⟨[], none⟩ else
  let start := match cur with
    | none => 0
    | some c => afterCursor lt sorted c
  if start ≥ total then ⟨[], none⟩ else
  if limit > 0 then
    let e := min (start + limit.toNat) total
    ⟨(sorted.drop start).take (e - start), if e < total then sorted[e - 1]? else none⟩
  else ⟨sorted.drop start, none⟩

/-- the client's loop: request pages, starting from the empty cursor, while the returned cursor is
non-empty.  Result: concatenation of the pages and whether the loop finished within the fuel. -/
def paginate (sorted : List α) (limit : Int) : Nat → Option α → List α → List α × Bool
  | 0, _, acc => (acc, false)
  | fuel + 1, cur, acc =>
    let p := getPage lt sorted cur limit
    match p.cursor with
    | none => (acc ++ p.items, true)
    | some c => paginate sorted limit fuel (some c) (acc ++ p.items)

/-- full pagination of a key set: fuel = size + 1. -/
def paginateAll (keys : List α) (limit : Int) : List α × Bool :=
  paginate lt (isort lt keys) limit (keys.length + 1) none []

end Generic

end CentrifugeVerif.MapPage
