import CentrifugeVerif.DriverLib
import CentrifugeVerif.Model.SubProto
import CentrifugeVerif.Model.SubProtoSpec
import Std.Data.HashSet
/-!
Trace validation driver shared by C04 / C05 / C07.

Input line: `trace <chan names, comma separated> <event>;<event>;…` — the event list is exactly what
the Go harness printed for one schedule (see `props/C04/harness/zz_verif_subproto_test.go`).
The driver keeps the set of model states that are consistent with the events seen so far:

* between two events every thread whose next step is *silent* (a `c.mu` section, a hub operation that
  makes no external call, a channel close, …) may have advanced any number of steps in any order, so
  the set is closed under those steps (`closure`); `close()`'s map iteration order is a silent choice;
* `arrive A tag` keeps the states in which thread `A` stands in front of the external call `tag`;
  `pass A tag outcome` takes that step with the outcome the harness injected; `ev A bsub` is the
  (non-parking) `Broker.Subscribe` call inside `addSubscription`; `done A ret` requires `A` finished;
* the wait-gate timeout `tmo` of a waiting thread may fire at any time, so it is part of the closure (a
  timeout that did not happen leads to states the following `obs` / `arrive` events discard);
* `obs σ` (taken when every goroutine is parked or blocked) keeps the quiescent states whose
  abstract projection prints exactly as `σ`; `final σ` requires a settled state printing as `σ`.

Output: `accept jl=<join/leave log with generations>` when the set never became empty, otherwise `reject i=<event index> …`.
-/
namespace CentrifugeVerif.SubProto.Driver
open CentrifugeVerif DriverLib CentrifugeVerif.SubProto

inductive Tag
  | silent | blocked | fin | pick
  | gate (name : String)
  | obs (name : String)
  deriving DecidableEq, Repr

def tagOf (s : State) (t : Thread) : Tag :=
  match t.pc with
  | .sReserve | .sReadGen | .sCheck1 | .sCheck2 | .sCommit | .sRbHub | .sRbClose | .sCloseGate | .sPush
  | .sErrDel | .sErrHub | .sErrClose | .uStatus | .uSnap | .uRemove | .uHubRm
  | .cRemoveClient | .cWriter | .cExit => .silent
  | .sHubAdd => if (aget s.hub t.ch).isSome then .silent else .obs "bsub"
  | .sOnSub => .gate "onsub"
  | .sPresAdd => .gate "presadd"
  | .sReply => .gate "reply"
  | .sRbPres | .sDeferPres | .uPresRm => .gate "presrm"
  | .sDpf | .cDpf => .gate "dpf"
  | .sJoin => .gate "join"
  | .sErrOut => .gate "replyerr"
  | .uWait => match t.capGate with
      | some g => if g ∈ s.closedGates then .silent else .blocked
      | none => .blocked
  | .uTmoLog => .gate "tmolog"
  | .uLeave => .gate "leave"
  | .uOnUnsub => .gate "onunsub"
  | .uOut => .gate "reply"
  | .cEnter => if s.connectMu.isSome then .blocked else .silent
  | .cTClose => .gate "tclose"
  | .cLoop => if t.pending.isEmpty then .silent else .pick
  | .cOnDisc => .gate "ondisc"
  | .done => .fin

/-- a model state together with the harness actor names of its threads -/
structure Cfg where
  st : State
  names : List (String × Tid)
  deriving DecidableEq

def holdTid : Tid := 1000000

def insertNew (acc : List Cfg) (c : Cfg) : List Cfg × Bool :=
  if acc.contains c then (acc, false) else (c :: acc, true)

/-- with observer connections on the channels the connection is never the first subscriber on the node, so
`addSubscription` makes no `Broker.Subscribe` call: the hub add is a silent step -/
def tagE (observers : Bool) (s : State) (t : Thread) : Tag :=
  if observers && t.pc == .sHubAdd then .silent else tagOf s t

/-- all successors of `c` by one silent step (or a `close()` channel pick; or, when `tmo`, a
wait-gate timeout) -/
def silentSuccs (observers : Bool) (tmo : Bool) (c : Cfg) : List Cfg :=
  c.st.threads.foldl (init := []) fun acc (tid, t) =>
    let viaStep (o : Outcome) (acc : List Cfg) : List Cfg :=
      match next c.st (.step tid o) with
      | some s' => { c with st := s' } :: acc
      | none => acc
    let acc := match tagE observers c.st t with
      | .silent => viaStep .ok acc
      | .pick => t.pending.foldl (fun a ch => viaStep (.pick ch) a) acc
      | _ => acc
    if tmo && t.pc == .uWait then viaStep .tmo acc else acc

def closureFuel (observers : Bool) (tmo : Bool) : Nat → List Cfg → List Cfg → List Cfg
  | 0, _, seen => seen
  | fuel + 1, frontier, seen =>
    if frontier.isEmpty then seen else
    let (seen', new) := frontier.foldl (init := (seen, [])) fun (sn, nw) c =>
      (silentSuccs observers tmo c).foldl (init := (sn, nw)) fun (sn, nw) c' =>
        if sn.contains c' then (sn, nw) else (c' :: sn, c' :: nw)
    closureFuel observers tmo fuel new seen'

def closure (observers : Bool) (tmo : Bool) (cs : List Cfg) : List Cfg :=
  let start := cs.foldl (fun acc c => (insertNew acc c).1) []
  closureFuel observers tmo 4000 start start

def resolve (c : Cfg) (name : String) : Option (Tid × Thread) :=
  if name.startsWith "x" then
    c.st.threads.find? fun (_, t) => t.kind == .close && t.auto && t.pc != .cEnter && t.pc != .done
  else
    match c.names.find? (·.1 == name) with
    | some (_, tid) => (aget c.st.threads tid).map fun t => (tid, t)
    | none => none

structure Env where
  chans : List String
  observers : Bool := false

def chanIdx (e : Env) (name : String) : Option Nat := e.chans.idxOf? name

def chanName (e : Env) (i : Nat) : String := e.chans.getD i "?"

def showEntry (en : Entry) : String :=
  s!"g{en.gen}" ++
  (if en.subscribed then
    "S" ++ (if en.presence then "p" else "") ++ (if en.joinLeave then "j" else "") ++ (if en.serverSide then "v" else "")
   else "R") ++ (if en.gate.isSome then "o" else "n")

def project (e : Env) (s : State) : String :=
  let st := match s.status with | .connecting => 1 | .connected => 2 | .closed => 3
  let head := s!"st={st} reg={if s.registered then 1 else 0} cg={s.connGauge} sg={s.subGauge}"
  let chs := (List.range e.chans.length).map fun i =>
    let en := match aget s.channels i with | some en => showEntry en | none => "-"
    let h := match aget s.hub i with | some g => s!"h{g}" | none => "h-"
    let p := if i ∈ s.presence then "p1" else "p0"
    s!" {chanName e i}:{en},{h},{p}"
  let lg := s.log.filterMap fun ev => match ev with
    | .join ch _ => some ("J" ++ chanName e ch)
    | .leave ch _ => some ("L" ++ chanName e ch)
    | _ => none
  head ++ String.join chs ++ " log=" ++ ",".intercalate lg

def parseKind : String → Option Kind
  | "csub" => some .csub | "ssub" => some .ssub | "cunsub" => some .cunsub
  | "sunsub" => some .sunsub | "close" => some .close | _ => none

def parseOutcome : String → Option Outcome
  | "ok" => some .ok | "fail" => some .fail | "faildisc" => some .failDisc | _ => none

def quiescent (observers : Bool) (c : Cfg) : Bool :=
  c.st.threads.all fun (_, t) => match tagE observers c.st t with
    | .silent | .pick | .obs _ => false
    | _ => true

def settled (c : Cfg) : Bool := c.st.threads.all fun (_, t) => t.pc == .done

def expectedRet (t : Thread) : String :=
  match t.kind with
  | .csub => if t.resGen == 0 && t.ret == .err then "err" else "ok"
  | .ssub => if t.ret == .err then "err" else "ok"
  | _ => "ok"

/-- process one event; `none` = malformed event -/
def stepEvent (e : Env) (cs : List Cfg) (ev : String) : Option (List Cfg) :=
  match words ev with
  | ["spawn", a, kind, ch, pj] =>
    match parseKind kind with
    | none => none
    | some k =>
      let chI := (chanIdx e ch).getD 0
      let o : Opts := ⟨pj.contains 'p', pj.contains 'j'⟩
      some <| (closure e.observers true cs).filterMap fun c =>
        match next c.st (.spawn k chI o) with
        | some s' => some { st := s', names := (a, c.st.nextTid) :: c.names }
        | none => none
  | ["arrive", a, tag, _ch] =>
    some <| (closure e.observers true cs).filter fun c =>
      match resolve c a with
      | some (_, t) => tagOf c.st t == .gate tag
      | none => false
  | ["pass", a, tag, _ch, out] =>
    match parseOutcome out with
    | none => none
    | some o =>
      some <| (closure e.observers true cs).filterMap fun c =>
        match resolve c a with
        | some (tid, t) =>
          if tagOf c.st t == .gate tag then
            match next c.st (.step tid o) with
            | some s' => some { c with st := s' }
            | none => none
          else none
        | none => none
  | ["ev", a, "bsub", _ch, out] =>
    match parseOutcome out with
    | none => none
    | some o =>
      some <| (closure e.observers true cs).filterMap fun c =>
        match resolve c a with
        | some (tid, t) =>
          if tagOf c.st t == .obs "bsub" then
            match next c.st (.step tid o) with
            | some s' => some { c with st := s' }
            | none => none
          else none
        | none => none
  | ["done", a, ret] =>
    some <| (closure e.observers true cs).filter fun c =>
      match resolve c a with
      | some (_, t) => t.pc == .done && expectedRet t == ret
      | none => false
  | ["anon", _] => some cs
  | ["hold"] =>
    some <| (closure e.observers true cs).filterMap fun c =>
      if c.st.connectMu.isNone then some { c with st := { c.st with connectMu := some holdTid } } else none
  | ["unhold"] =>
    some <| (closure e.observers true cs).filterMap fun c =>
      if c.st.connectMu == some holdTid then some { c with st := { c.st with connectMu := none } } else none
  | "obs" :: rest =>
    let σ := " ".intercalate rest
    some <| (closure e.observers true cs).filter fun c => quiescent e.observers c && project e c.st == σ
  | "final" :: rest =>
    let σ := " ".intercalate (rest.takeWhile (· ≠ "|"))
    some <| (closure e.observers true cs).filter fun c => settled c && project e c.st == σ
  | _ => none

def showJL (s : State) : String :=
  ",".intercalate <| s.log.filterMap fun ev => match ev with
    | .join ch g => some s!"J{ch}:{g}"
    | .leave ch g => some s!"L{ch}:{g}"
    | _ => none

def runEvents (e : Env) : List String → Nat → List Cfg → String
  | [], _, cs => match cs with
    | c :: _ => "accept jl=" ++ showJL c.st
    | [] => "accept jl="
  | ev :: rest, i, cs =>
    match stepEvent e cs ev with
    | none => s!"reject i={i} malformed ev={ev}"
    | some [] =>
      let before := closure e.observers true cs
      let sample := match before with
        | c :: _ => project e c.st ++ " panicked=" ++ toString c.st.panicked
        | [] => "<empty>"
      s!"reject i={i} ev={ev} cands={before.length} sample={sample}"
    | some cs' => runEvents e rest (i + 1) cs'

/-! ### bounded explorer: all interleavings of a fixed set of operations -/

def allOutcomes (tmo fails : Bool) (t : Thread) : List Outcome :=
  [.ok] ++ (if fails then [.fail, .failDisc] else []) ++ (if tmo then [.tmo] else []) ++ t.pending.map .pick

def succs (tmo fails : Bool) (s : State) : List (Label × State) :=
  s.threads.foldl (init := []) fun acc (tid, t) =>
    (allOutcomes tmo fails t).foldl (init := acc) fun acc o =>
      match next s (.step tid o) with
      | some s' => (.step tid o, s') :: acc
      | none => acc

structure ExploreRes where
  states : Nat := 0
  settled : Nat := 0
  deadlocks : Nat := 0
  bad : List (String × List Label) := []   -- first violation per predicate

def showOutcome : Outcome → String
  | .ok => "ok" | .fail => "fail" | .failDisc => "faildisc" | .tmo => "tmo" | .pick ch => s!"pick{ch}"

def showLabel : Label → String
  | .spawn _ ch _ => s!"spawn:{ch}"
  | .step t o => s!"{t}.{showOutcome o}"

def noteBad (r : ExploreRes) (name : String) (path : List Label) : ExploreRes :=
  if r.bad.any (·.1 == name) then r else { r with bad := (name, path.reverse) :: r.bad }

partial def exploreLoop (tmo fails : Bool) (limit : Nat) (queue : List (State × List Label))
    (next' : List (State × List Label)) (seen : Std.HashSet State) (r : ExploreRes) : ExploreRes :=
  match queue with
  | [] => if next'.isEmpty || r.states ≥ limit then r else exploreLoop tmo fails limit next' [] seen r
  | (s, path) :: rest =>
    let r := { r with states := r.states + 1 }
    let r := if s.panicked then noteBad r "panic" path else r
    let r := if tmo then r else (invAll s).foldl (fun r (n, ok) => if ok then r else noteBad r ("inv" ++ n) path) r
    let ss := succs tmo fails s
    let r :=
      if settledB s then
        let r := { r with settled := r.settled + 1 }
        let r := if c04Ok s then r else noteBad r "c04" path
        let r := if c05Ok s then r else noteBad r "c05" path
        let r := if c07CountOk s then r else noteBad r "c07count" path
        if c07Ok s then r else noteBad r "c07" path
      else if ss.isEmpty then noteBad { r with deadlocks := r.deadlocks + 1 } "deadlock" path
      else r
    let (next', seen) := ss.foldl (init := (next', seen)) fun (nq, sn) (l, s') =>
      if sn.contains s' then (nq, sn) else ((s', l :: path) :: nq, sn.insert s')
    exploreLoop tmo fails limit rest next' seen r

/-- `explore tmo=0|1 fails=0|1 limit=N kind:ch:pj …` -/
def explore (ws : List String) : String :=
  let tmo := kv ws "tmo" == some "1"
  let fails := kv ws "fails" == some "1"
  let limit := (kvNat ws "limit").getD 200000
  let specs := ws.filter fun w => (w.splitOn ":").length == 3
  let s0 := specs.foldl (init := State.init) fun s w =>
    match w.splitOn ":" with
    | [k, ch, pj] =>
      match parseKind k with
      | some kind => (next s (.spawn kind (ch.toNat?.getD 0) ⟨pj.contains 'p', pj.contains 'j'⟩)).getD s
      | none => s
    | _ => s
  let r := exploreLoop tmo fails limit [(s0, [])] [] (Std.HashSet.emptyWithCapacity.insert s0) {}
  let bad := r.bad.map fun (n, p) => s!"{n}=[{" ".intercalate (p.map showLabel)}]"
  s!"states={r.states} settled={r.settled} deadlocks={r.deadlocks} " ++ " ".intercalate bad.reverse

def step (line : String) : String :=
  match words line with
  | "trace+obs" :: chans :: rest =>
    let e : Env := { chans := chans.splitOn ",", observers := true }
    let evs := ((" ".intercalate rest).splitOn ";").map (fun x => (x.trimAscii).toString)
    runEvents e evs 0 [{ st := State.init, names := [] }]
  | "trace" :: chans :: rest =>
    let e : Env := { chans := chans.splitOn "," }
    let evs := ((" ".intercalate rest).splitOn ";").map (fun x => (x.trimAscii).toString)
    runEvents e evs 0 [{ st := State.init, names := [] }]
  | "explore" :: rest => explore rest
  | _ => "bad-op"

def main : IO Unit := runPure step

end CentrifugeVerif.SubProto.Driver
