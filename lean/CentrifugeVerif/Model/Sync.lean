import CentrifugeVerif.Model.Live
import CentrifugeVerif.Model.SubReply
/-
Transition system for `recovery.PubSubSync` + the positioned subscribe sequence of `subscribeCmd`
+ the channel's broadcaster (`Client.writePublication` → `SyncPublication` →
`writePublicationUpdatePosition`).  Core Lean only.

Labels are the atomic steps of the Go code (one lock region each):

subscriber (client.go `subscribeCmd`, in program order)
  sStart   `StartBuffering`                 (subSyncMu): entry created, inSubscribe := 1
  sHubAdd  `node.addSubscription`           (shard lock): the client becomes reachable by broadcasts
  sHist    history read                     (broker call; its answer `hist` is a parameter)
  sLock    `LockBufferAndReadBuffered`      (subSyncMu, then pubBufferMu taken and KEPT)
  sReply   merge + write of the subscribe reply (or abort with StopBuffering + hub removal)
  sCommit  `commitSubscription`             (c.mu): flagSubscribed + stream position installed
  sStop    `StopBuffering`                  (subSyncMu): inSubscribe := 0, pubBufferMu released, entry deleted

broadcaster, one delivery at a time (memory broker: per-channel publish lock; Redis: one PUB/SUB
reader per shard — an assumption of the model), for an ARBITRARY delivery `d`
  bStart d  hub lookup (shard RLock) — not in hub ⇒ dropped; then `SyncPublication`'s first
            region (subSyncMu): entry found ⇒ remember it, else go live
  bCheck    atomic load of inSubscribe on the remembered entry
  bLock     pubBufferMu (blocks while the subscriber keeps it): re-check inSubscribe ⇒ append to
            the buffer, or go live
  bLive     `writePublicationUpdatePosition` under c.mu: not (yet) subscribed ⇒ dropped,
            else `Live.liveStep`
-/
namespace CentrifugeVerif.Sync
open CentrifugeVerif.Live CentrifugeVerif.SubReply CentrifugeVerif.Merge

inductive SPc | s0 | s1 | s2 | s3 | s4 | s5 | s6 | s7 | failed
deriving Repr, DecidableEq

inductive BPc
  | idle
  | gotEntry (d : Inc)
  | wantMu (d : Inc)
  | live (d : Inc)
deriving Repr, DecidableEq

inductive Event
  | reply (recovered : Bool) (pubs : List MPub) (off : Nat)
  | push (o : Nat)
  | insufficient
deriving Repr, DecidableEq

structure St where
  spc : SPc := .s0
  entry : Bool := false
  inSub : Bool := false
  muHeld : Bool := false
  buffer : List MPub := []
  taken : List MPub := []
  inHub : Bool := false
  sub : Option Sub := none          -- committed (flagSubscribed) stream position
  pending : Option (Nat × Nat) := none  -- (pos, epoch) computed at sReply, installed at sCommit
  bpc : BPc := .idle
  log : List Event := []
  dropped : List Inc := []          -- deliveries that reached bLive while not subscribed
deriving Repr, DecidableEq

inductive Label
  | sStart | sHubAdd | sHist | sLock | sReply | sCommit | sStop
  | bStart (d : Inc) | bCheck | bLock | bLive
deriving Repr, DecidableEq

def toMPub (d : Inc) (id : Nat) : MPub := { offset := d.offset, filtered := d.filtered, id := id }

/-- `next req hist s l = none` means label `l` is not enabled in `s`. -/
def next (req : Req) (hist : Hist) (s : St) : Label → Option St
  | .sStart => if s.spc = .s0 then some { s with spc := .s1, entry := true, inSub := true, buffer := [] } else none
  | .sHubAdd => if s.spc = .s1 then some { s with spc := .s2, inHub := true } else none
  | .sHist => if s.spc = .s2 then some { s with spc := .s3 } else none
  | .sLock =>
    if s.spc = .s3 ∧ s.muHeld = false then
      some { s with spc := .s4, muHeld := true, taken := s.buffer, buffer := [] }
    else none
  | .sReply =>
    if s.spc = .s4 then
      match subscribe req hist s.taken with
      | .reply r pubs off pos e =>
        some { s with spc := .s5, log := s.log ++ [.reply r pubs off], pending := some (pos, e) }
      | _ =>
        -- error paths: StopBuffering, hub entry removed by the caller's rollback
        some { s with spc := .failed, inSub := false, muHeld := false, entry := false, inHub := false }
    else none
  | .sCommit =>
    if s.spc = .s5 then
      match s.pending with
      | some (pos, e) => some { s with spc := .s6, sub := some ⟨pos, e⟩ }
      | none => none
    else none
  | .sStop => if s.spc = .s6 then some { s with spc := .s7, inSub := false, muHeld := false, entry := false } else none
  | .bStart d =>
    if s.bpc = .idle then
      if s.inHub = false then some s                      -- no hub entry: not routed to this client
      else if s.entry then some { s with bpc := .gotEntry d }
      else some { s with bpc := .live d }
    else none
  | .bCheck =>
    match s.bpc with
    | .gotEntry d => if s.inSub then some { s with bpc := .wantMu d } else some { s with bpc := .live d }
    | _ => none
  | .bLock =>
    match s.bpc with
    | .wantMu d =>
      if s.muHeld then none                                -- blocked on pubBufferMu
      else if s.inSub then some { s with bpc := .idle, buffer := s.buffer ++ [toMPub d s.buffer.length] }
      else some { s with bpc := .live d }
    | _ => none
  | .bLive =>
    match s.bpc with
    | .live d =>
      match s.sub with
      | none => some { s with bpc := .idle, dropped := s.dropped ++ [d] }
      | some sub =>
        let (sub', a) := liveStep sub d
        let ev : List Event := match a with
          | .deliver o => [.push o]
          | .insufficient _ => [.insufficient]
          | _ => []
        some { s with bpc := .idle, sub := some sub', log := s.log ++ ev }
    | _ => none

/-- run a label sequence; `none` if some label was not enabled -/
def runLabels (req : Req) (hist : Hist) (s : St) : List Label → Option St
  | [] => some s
  | l :: ls => match next req hist s l with
    | none => none
    | some s' => runLabels req hist s' ls

def Reachable (req : Req) (hist : Hist) (s : St) : Prop :=
  ∃ ls, runLabels req hist {} ls = some s

/-- offsets pushed, in log order -/
def pushes : List Event → List Nat
  | [] => []
  | .push o :: es => o :: pushes es
  | _ :: es => pushes es

end CentrifugeVerif.Sync
