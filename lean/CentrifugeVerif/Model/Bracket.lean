/-
C10 — channel pushes are bracketed by the subscription's start and end.

Labelled transition system for ONE connection and ONE channel, read off `client.go`
(`subscribeCmd`, `Client.Subscribe`, `commitSubscription`, `unsubscribe`, `handleUnsubscribe`,
`Client.Unsubscribe`, `writePublication`, `writePublicationUpdatePosition`, `writeJoin`,
`writeLeave`, `writeEncodedPushData`, `writeEncodedCommandReply`), `hub.go`
(`subShard.broadcastPublication/broadcastJoin/broadcastLeave` — the shard read lock is held for
the whole delivery loop), `client_experimental.go` (`perChannelWriter`), `writer.go` (queue →
transport) and `internal/recovery/sync.go` (`PubSubSync`).  Core Lean only.

State components and the Go objects they stand for:
* `chan`      `c.channels[ch]`: generation and `flagSubscribed` (a reservation has the flag unset)
* `hub`       this client's hub entry for the channel (with its generation)
* `subLock`   `Node.subLock(ch)` is held (by the subscriber parked inside `Broker.Subscribe`)
* `buf`       `PubSubSync` state of the channel: off / buffering / buffer locked
* `S`, `U`    the in-flight subscribe attempt / unsubscribe call (program counter + captured locals)
* `looked`    broadcasters holding the shard read lock, before their `flagSubscribed` check
* `checked`   broadcasters holding the shard read lock, after the check (or on the path that has none)
* `batch`     the per-channel writer's buffer; `queue` the connection's message queue;
  `inflight`  what the writer goroutine has dequeued but not yet written; `wire` what reached
              `Transport.Write/WriteMany`, in order.

Every label is one lock region or one external call of the Go code.  Labels that would block on a
mutex in Go are *disabled* here (`next = none`): taking the shard write lock while a broadcaster
holds the read lock, a positioned publication while the recovery buffer is locked, `subLock`.

Not modelled (stated in the evidence): failing subscribe attempts and their rollbacks, the 5 s
wait-gate of `unsubscribe` (an unsubscribe is only started when no subscribe attempt is in flight),
connection close, delta/filters, insufficient-state handling, several concurrent unsubscribe calls
for the same channel.
-/
namespace CentrifugeVerif.Bracket

/-- what a broadcaster carries -/
inductive Kind
  | pub0    -- publication without offset (channel published without history)
  | pubPos  -- publication with offset > 0
  | join
  | leave
deriving DecidableEq, Repr, Inhabited

def Kind.isPub : Kind → Bool
  | .pub0 | .pubPos => true
  | _ => false

/-- decoded transport frames of the channel -/
inductive Frame
  | subStart            -- subscribe reply (client-side) or subscribe push (server-side)
  | subEnd              -- unsubscribe reply or unsubscribe push
  | push (k : Kind) (id : Nat)   -- `id` names the broadcast it came from (payload identity; never inspected)
deriving DecidableEq, Repr, Inhabited

structure Cfg where
  /-- subscription made with `Client.Subscribe` (ends with a subscribe push) -/
  serverSide : Bool
  /-- `EnablePositioning` / `EnableRecovery` -/
  positioned : Bool
  /-- `GetChannelBatchConfig` returns a non-zero `MaxDelay` -/
  batching : Bool
  /-- `ConnectReply.ReplyWithoutQueue` -/
  rwq : Bool
  /-- SWITCH.  `true` = the code as it is since /repo commit 9c975f8e (= props/C10/proposed_fix.diff):
  `writePublication`'s `pub.Offset == 0` branch checks `flagSubscribed`.  `false` = the code before
  that commit (no check; finding C10-1, kept as a regression witness). -/
  offset0Checked : Bool
  /-- assumption switch: a subscribe attempt and an unsubscribe call for the channel never overlap -/
  serial : Bool
  /-- `MemoryBroker.Publish` holds `pubLock(ch)` across delivery: one publication in flight -/
  pubSerial : Bool
deriving DecidableEq, Repr, Inhabited

inductive SPc
  | reserved     -- reservation in `c.channels` (client-side: inside the OnSubscribe handler)
  | started      -- after `StartBuffering` and the first closed/unsubscribed check
  | hubAdded     -- `hub.addSub` done, inside `Broker.Subscribe` (holds `subLock`)
  | subUnlocked  -- `addSubscription` returned; about to call `addPresence`
  | presAdded    -- presence added; about to read history / stream top
  | bufLocked    -- `LockBufferAndReadBuffered` + merge done
  | replied      -- client-side: subscribe reply written (direct or queued)
  | committed    -- `commitSubscription` installed the context (flagSubscribed)
  | pushed       -- server-side: subscribe push enqueued
  | stopped      -- client-side: `StopBuffering` done
deriving DecidableEq, Repr, Inhabited

inductive UPc
  | snap         -- snapshot of `c.channels[ch]` taken
  | removed      -- entry deleted from `c.channels` (+ `delWriter`); about to remove presence
  | hubRemoved   -- `removeSubscription` done (or nothing to do); about to write reply / push
deriving DecidableEq, Repr, Inhabited

inductive Buf | off | open | locked
deriving DecidableEq, Repr, Inhabited

structure SThread where
  pc : SPc
  gen : Nat
deriving DecidableEq, Repr, Inhabited

structure UThread where
  pc : UPc
  gen : Nat
  /-- server-side `Client.Unsubscribe` (unsubscribe push, always through the queue) -/
  viaPush : Bool
  /-- `removedNow` -/
  owns : Bool
deriving DecidableEq, Repr, Inhabited

structure State where
  chan : Option (Nat × Bool) := none
  hub : Option Nat := none
  nextGen : Nat := 1
  subLock : Bool := false
  buf : Buf := .off
  S : Option SThread := none
  U : Option UThread := none
  looked : List (Kind × Nat) := []
  checked : List (Kind × Nat) := []
  batch : List Frame := []
  queue : List Frame := []
  inflight : List Frame := []
  wire : List Frame := []
deriving DecidableEq, Repr, Inhabited

inductive Label
  | sSpawn                 -- validate + reserve under `c.mu`
  | sStep                  -- the subscribe attempt's next atomic step
  | uSpawn (viaPush : Bool)
  | uStep
  | bStart (k : Kind) (id : Nat)  -- shard read lock + lookup (+ `SyncPublication` for positioned pubs)
  | bCheck (i : Nat)       -- the `flagSubscribed` check under `c.mu` of `looked[i]`
  | bEnqueue (i : Nat)     -- `writeEncodedPushData` of `checked[i]`, then release of the read lock
  | wGrab                  -- writer goroutine dequeues everything queued
  | wWrite                 -- … and hands it to the transport
  | tFlush                 -- per-channel writer's delay timer fires
deriving DecidableEq, Repr, Inhabited

def State.init : State := {}

/-- a reply: directly to the transport with `ReplyWithoutQueue`, else through the queue -/
def emitReply (cfg : Cfg) (s : State) (f : Frame) : State :=
  if cfg.rwq then { s with wire := s.wire ++ [f] } else { s with queue := s.queue ++ [f] }

/-- a push that is not batched (subscribe / unsubscribe push) -/
def emitQueue (s : State) (f : Frame) : State := { s with queue := s.queue ++ [f] }

/-- publication / join / leave push: `writeEncodedPushData` -/
def emitChanPush (cfg : Cfg) (s : State) (f : Frame) : State :=
  if cfg.batching then { s with batch := s.batch ++ [f] } else { s with queue := s.queue ++ [f] }

def shardFree (s : State) : Bool := s.looked.isEmpty && s.checked.isEmpty

def pubInFlight (s : State) : Bool := (s.looked ++ s.checked).any (·.1.isPub)

/-- one atomic step of the subscribe attempt -/
def sStep (cfg : Cfg) (s : State) (t : SThread) : Option State :=
  match t.pc with
  | .reserved =>
    -- StartBuffering (positioned only); client-side: first closed/unsubscribed check passes
    some { s with buf := if cfg.positioned then .open else s.buf, S := some { t with pc := .started } }
  | .started =>
    -- addSubscription: subLock, shard write lock, hub entry overwritten with this generation
    if shardFree s && !s.subLock then
      some { s with hub := some t.gen, subLock := true, S := some { t with pc := .hubAdded } }
    else none
  | .hubAdded =>
    some { s with subLock := false, S := some { t with pc := .subUnlocked } }
  | .subUnlocked =>
    some { s with S := some { t with pc := .presAdded } }
  | .presAdded =>
    some { s with buf := if cfg.positioned then .locked else s.buf, S := some { t with pc := .bufLocked } }
  | .bufLocked =>
    if cfg.serverSide then
      -- Client.Subscribe: commitSubscription right after subscribeCmd returned
      match s.chan with
      | some (g, _) =>
        if g = t.gen then some { s with chan := some (t.gen, true), S := some { t with pc := .committed } }
        else some { s with buf := .off, hub := if s.hub = some t.gen then none else s.hub, S := none }
      | none => some { s with buf := .off, hub := if s.hub = some t.gen then none else s.hub, S := none }
    else
      some { emitReply cfg s .subStart with S := some { t with pc := .replied } }
  | .replied =>
    match s.chan with
    | some (g, _) =>
      if g = t.gen then some { s with chan := some (t.gen, true), S := some { t with pc := .committed } }
      else some { s with buf := .off, hub := if s.hub = some t.gen then none else s.hub, S := none }
    | none => some { s with buf := .off, hub := if s.hub = some t.gen then none else s.hub, S := none }
  | .committed =>
    if cfg.serverSide then
      some { emitQueue s .subStart with S := some { t with pc := .pushed } }
    else
      some { s with buf := .off, S := some { t with pc := .stopped } }
  | .pushed => some { s with buf := .off, S := none }
  | .stopped => some { s with S := none }

/-- one atomic step of the unsubscribe call -/
def uStep (cfg : Cfg) (s : State) (u : UThread) : Option State :=
  match u.pc with
  | .snap =>
    match s.chan with
    | some (g, _) =>
      if g = u.gen then
        some { s with chan := none, batch := if cfg.batching then [] else s.batch,
                      U := some { u with pc := .removed, owns := true } }
      else some { s with U := some { u with pc := .hubRemoved, owns := false } }
    | none => some { s with U := some { u with pc := .hubRemoved, owns := false } }
  | .removed =>
    if shardFree s && !s.subLock then
      some { s with hub := if s.hub = some u.gen then none else s.hub, U := some { u with pc := .hubRemoved } }
    else none
  | .hubRemoved =>
    if u.viaPush then some { emitQueue s .subEnd with U := none }
    else some { emitReply cfg s .subEnd with U := none }

def next (cfg : Cfg) (s : State) : Label → Option State
  | .sSpawn =>
    if s.S.isNone && s.chan.isNone && (!cfg.serial || s.U.isNone) then
      some { s with chan := some (s.nextGen, false), nextGen := s.nextGen + 1,
                    S := some { pc := .reserved, gen := s.nextGen } }
    else none
  | .sStep =>
    match s.S with
    | some t => sStep cfg s t
    | none => none
  | .uSpawn viaPush =>
    if s.U.isNone && (!cfg.serial || s.S.isNone) then
      match s.chan with
      | some (g, true) => some { s with U := some { pc := .snap, gen := g, viaPush := viaPush, owns := false } }
      | some (_, false) => none   -- would wait on `subscribingCh` (not modelled)
      | none => some { s with U := some { pc := .hubRemoved, gen := 0, viaPush := viaPush, owns := false } }
    else none
  | .uStep =>
    match s.U with
    | some u => uStep cfg s u
    | none => none
  | .bStart k id =>
    if cfg.pubSerial && k.isPub && pubInFlight s then none
    else match s.hub with
      | none => some s
      | some _ =>
        match k with
        | .pubPos =>
          if cfg.positioned then
            match s.buf with
            | .open => some s              -- appended to the recovery buffer, delivered inside the reply
            | .locked => none              -- blocks on `pubBufferMu`
            | .off => some { s with looked := s.looked ++ [(k, id)] }
          else some { s with looked := s.looked ++ [(k, id)] }
        | .pub0 =>
          if cfg.offset0Checked then some { s with looked := s.looked ++ [(k, id)] }
          else some { s with checked := s.checked ++ [(k, id)] }
        | _ => some { s with looked := s.looked ++ [(k, id)] }
  | .bCheck i =>
    match s.looked[i]? with
    | none => none
    | some k =>
      let s' := { s with looked := s.looked.eraseIdx i }
      match s.chan with
      | some (_, true) => some { s' with checked := s'.checked ++ [k] }
      | _ => some s'
  | .bEnqueue i =>
    match s.checked[i]? with
    | none => none
    | some k => some (emitChanPush cfg { s with checked := s.checked.eraseIdx i } (.push k.1 k.2))
  | .wGrab =>
    if s.inflight.isEmpty && !s.queue.isEmpty then some { s with inflight := s.queue, queue := [] } else none
  | .wWrite =>
    if !s.inflight.isEmpty then some { s with wire := s.wire ++ s.inflight, inflight := [] } else none
  | .tFlush =>
    if !s.batch.isEmpty then some { s with queue := s.queue ++ s.batch, batch := [] } else none

def run (cfg : Cfg) (s : State) : List Label → Option State
  | [] => some s
  | l :: ls => (next cfg s l).bind (fun s' => run cfg s' ls)

def Reachable (cfg : Cfg) (s : State) : Prop := ∃ ls, run cfg State.init ls = some s

/-! ### well-bracketedness of a frame sequence -/

/-- scanning automaton: `open` = "after a subscribe reply/push with no unsubscribe reply/push since" -/
def stepF (o : Bool) : Frame → Option Bool
  | .subStart => some true
  | .subEnd => some false
  | .push _ _ => if o then some true else none

def scanFrom (o : Bool) : List Frame → Option Bool
  | [] => some o
  | f :: fs => (stepF o f).bind (fun o' => scanFrom o' fs)

/-- every push lies after a subscribe reply/push and before the next unsubscribe reply/push -/
def wellBracketed (l : List Frame) : Bool := (scanFrom false l).isSome

/-! ### harness-level view (used by the driver): which program counters are gates -/

def SThread.atGate (cfg : Cfg) (t : SThread) : Option String :=
  match t.pc with
  | .reserved => if cfg.serverSide then none else some "onsub"
  | .hubAdded => some "brokersub"
  | .subUnlocked => some "addpres"
  | .presAdded => if cfg.positioned then some "history" else none
  | .replied => some "replytrace"
  | .committed => if cfg.serverSide then some "pushtrace" else none
  | _ => none

def UThread.atGate (u : UThread) : Option String :=
  match u.pc with
  | .removed => some "rmpres"
  | .hubRemoved => if u.owns then some "onunsub" else none
  | .snap => none

end CentrifugeVerif.Bracket
