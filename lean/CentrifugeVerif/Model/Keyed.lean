/-
Model of the shared-poll keyed delivery path (C25): `applyRefreshResponse`, `handlePublishedData`
(`SharedPollPublish`, local mode), `flipEpochAndCollectClients` (shared_poll.go), `keyedWritePublication`,
`keyedWriteRemoval`, track / untrack / cleanupKeyed (client_keyed.go), as *sequential* functions: every
operation runs to completion before the next one starts.  In-flight poll responses that race with a
publish are expressed by issuing the (stale) response after the publish.

Payloads are opaque ids (`Data`).  The delta codec is abstract: a patch created from base `b` to target
`t` applied to held bytes `h` yields `t` when `h = b` and garbage (`none`) otherwise (hypothesis
`apply b (create b t) = some t`; nothing is assumed about other bases).  `real b t` says whether the
patch is smaller than the target (the server sends the full payload otherwise); the harness payloads make
this "same family" (`sameFamily`).

Core Lean only.
-/
namespace CentrifugeVerif.Keyed

abbrev Key := String
abbrev Data := String
abbrev ConnId := String

/-- association-list helpers -/
def alookup {β : Type} (k : String) : List (String × β) → Option β
  | [] => none
  | (k', v) :: r => if k' = k then some v else alookup k r

def aerase {β : Type} (k : String) : List (String × β) → List (String × β)
  | [] => []
  | (k', v) :: r => if k' = k then aerase k r else (k', v) :: aerase k r

def aset {β : Type} (k : String) (v : β) (l : List (String × β)) : List (String × β) :=
  (k, v) :: aerase k l

/-- sharedPollTrackedEntry (the fields that matter sequentially). -/
structure Entry where
  version : Nat := 0
  data : Option Data := none      -- only with KeepLatestData
  hash : Option Data := none      -- versionless, !KeepLatestData: the content whose xxhash is stored
  needsBroadcast : Bool := false
  deriving Repr, DecidableEq, Inhabited

/-- keyedKeyState plus the ghost `held` = what the SDK holds for the key (`none` = nothing usable). -/
structure KeySt where
  version : Nat := 0
  deltaReady : Bool := false
  held : Option Data := none
  deriving Repr, DecidableEq, Inhabited

structure Conn where
  subscribed : Bool := false
  delta : Bool := false            -- keyed.channels[ch].deltaType != none
  keys : List (Key × KeySt) := []
  gen : Nat := 0                   -- ChannelContext.subGen of the current subscription
  deriving Repr, DecidableEq, Inhabited

structure Cfg where
  versionless : Bool
  keep : Bool
  shut : Bool := false        -- ChannelShutdownDelay < 0: the channel state is dropped as soon as its last key goes
  deriving Repr, DecidableEq

/-- preparedData of buildPreparedPollData. -/
structure Prep where
  deltaSub : Bool := false
  prevData : Option Data := none
  prevVersion : Nat := 0
  deriving Repr, DecidableEq

/-- a delivery stalled between phase 1 (optimistic check) and phase 3 (re-check under c.mu) of
keyedWritePublication, with the decisions phase 1 took. -/
structure Stalled where
  cid : ConnId
  key : Key
  version : Nat
  data : Data
  prep : Prep
  deltaPossible : Bool
  channelDelta : Bool
  deriving Repr, DecidableEq

/-- a track request whose (asynchronous) OnTrack verdict is still pending; `gen` = subscription generation
captured when the request arrived. -/
structure PendingTrack where
  cid : ConnId
  key : Key
  version : Nat
  gen : Nat
  deriving Repr, DecidableEq

structure St where
  cfg : Cfg
  chanExists : Bool := false        -- sharedPollChannelState exists (created by the first track)
  epoch : String := ""
  counter : Nat := 0
  entries : List (Key × Entry) := []
  hub : List (Key × List ConnId) := []
  conns : List (ConnId × Conn) := []
  stalled : Option Stalled := none
  ptracks : List PendingTrack := []
  genCounter : Nat := 0
  deriving Repr

inductive Ev where
  | push (c : ConnId) (k : Key) (version prev : Nat) (delta : Bool) (res : Option Data)
      -- `prev` (ghost) = the connection's key version before the push; `res` = bytes held afterwards
  | item (c : ConnId) (k : Key) (version : Nat) (d : Data)      -- cached item in the track reply
  | removal (c : ConnId) (k : Key)
  | unsub (c : ConnId) (code : Nat)
  | disc (c : ConnId) (code : Nat)
  | err (c : ConnId) (code : Nat)
  deriving Repr, DecidableEq

def family (d : Data) : String := String.ofList (d.toList.take 1)
def sameFamily (a b : Data) : Bool := family a == family b

def buildPrep (prevData : Option Data) (prevVersion : Nat) : Prep :=
  match prevData with
  | none => {}
  | some p => { deltaSub := true, prevData := some p, prevVersion := prevVersion }

/-- keyedWritePublication for one connection (sequential: phase 1 and phase 3 see the same state). -/
def writePub (cid : ConnId) (c : Conn) (k : Key) (pubVersion : Nat) (d : Data) (prep : Prep) :
    Conn × List Ev :=
  match alookup k c.keys with
  | none => (c, [])
  | some ks =>
    if pubVersion ≤ ks.version then (c, []) else
    let deltaPossible := c.delta && prep.deltaSub && ks.deltaReady
    let useDelta := deltaPossible && ks.version == prep.prevVersion
    match (if useDelta then prep.prevData else none) with
    | some base =>
      if sameFamily base d then
        -- a real patch: the SDK applies it to what it holds
        let res := if ks.held = some base then some d else none
        let held' := if ks.held = some base then some d else ks.held
        ({ c with keys := aset k { version := pubVersion, deltaReady := true, held := held' } c.keys },
          [Ev.push cid k pubVersion ks.version true res])
      else
        ({ c with keys := aset k { version := pubVersion, deltaReady := true, held := some d } c.keys },
          [Ev.push cid k pubVersion ks.version false (some d)])
    | none =>
      ({ c with keys := aset k { version := pubVersion, deltaReady := ks.deltaReady || c.delta, held := some d } c.keys },
        [Ev.push cid k pubVersion ks.version false (some d)])

/-- phase 3 of a stalled keyedWritePublication: re-check under the lock against the *current* key state,
with phase 1's `deltaPossible` / `channelDelta`. -/
def writePub3 (c : Conn) (w : Stalled) : Conn × List Ev :=
  match alookup w.key c.keys with
  | none => (c, [])
  | some ks =>
    if w.version ≤ ks.version then (c, []) else
    let useDelta := w.deltaPossible && ks.deltaReady && ks.version == w.prep.prevVersion
    match (if useDelta then w.prep.prevData else none) with
    | some base =>
      if sameFamily base w.data then
        let res := if ks.held = some base then some w.data else none
        let held' := if ks.held = some base then some w.data else ks.held
        ({ c with keys := aset w.key { version := w.version, deltaReady := true, held := held' } c.keys },
          [Ev.push w.cid w.key w.version ks.version true res])
      else
        ({ c with keys := aset w.key { version := w.version, deltaReady := ks.deltaReady || w.channelDelta, held := some w.data } c.keys },
          [Ev.push w.cid w.key w.version ks.version false (some w.data)])
    | none =>
      ({ c with keys := aset w.key { version := w.version, deltaReady := ks.deltaReady || w.channelDelta, held := some w.data } c.keys },
        [Ev.push w.cid w.key w.version ks.version false (some w.data)])

def subscribersOf (s : St) (k : Key) : List ConnId := (alookup k s.hub).getD []

/-- hub.broadcastToKey -/
def broadcast (s : St) (k : Key) (v : Nat) (d : Data) (prep : Prep) : St × List Ev :=
  (subscribersOf s k).foldl (fun (acc : St × List Ev) cid =>
    match alookup cid acc.1.conns with
    | none => acc
    | some c =>
      let (c', evs) := writePub cid c k v d prep
      ({ acc.1 with conns := aset cid c' acc.1.conns }, acc.2 ++ evs)) (s, [])

/-- scheduleShutdown after the item index became empty: with an immediate shutdown delay the channel state
(entries, epoch, synthetic version counter) and the keyed hub are dropped. -/
def maybeShutdown (s : St) : St :=
  if s.cfg.shut && s.chanExists && s.entries.isEmpty then
    { s with chanExists := false, epoch := "", counter := 0, hub := [] }
  else s

/-- hub.removeSubscriber + SharedPollManager.untrack when the key has no subscriber left. -/
def hubRemove (s : St) (k : Key) (cid : ConnId) : St :=
  let subs := (subscribersOf s k).filter (· ≠ cid)
  if subs.isEmpty then
    maybeShutdown { s with hub := aerase k s.hub, entries := if s.chanExists then aerase k s.entries else s.entries }
  else { s with hub := aset k subs s.hub }

/-- cleanupKeyed: drop every tracked key of the connection. -/
def cleanupConn (s : St) (cid : ConnId) : St :=
  match alookup cid s.conns with
  | none => s
  | some c =>
    let s1 := c.keys.foldl (fun acc kv => hubRemove acc kv.1 cid) s
    { s1 with conns := aset cid { subscribed := false, delta := false, keys := [], gen := c.gen } s1.conns }

/-- all clients present in the keyed hub (collectAllClients), each once, sorted for determinism. -/
def hubClients (s : St) : List ConnId :=
  (s.hub.foldl (fun acc kv => kv.2.foldl (fun a c => if a.contains c then a else a ++ [c]) acc) [])

/-- flipEpochAndCollectClients + Unsubscribe(insufficient state) of every collected client. -/
def flipEpoch (s : St) (ep : String) : St × List Ev :=
  if s.epoch = ep then (s, []) else
  let s1 := { s with epoch := ep, entries := s.entries.map fun kv => (kv.1, ({} : Entry)) }
  let cl := hubClients s1
  cl.foldl (fun acc cid => (cleanupConn acc.1 cid, acc.2 ++ [Ev.unsub cid 2500])) (s1, [])

structure Item where
  key : Key
  version : Nat := 0
  data : Data := ""
  removed : Bool := false
  prev : Option Data := none
  deriving Repr, DecidableEq

structure Update where
  key : Key
  version : Nat
  data : Data
  prevData : Option Data := none
  prevVersion : Nat := 0
  deriving Repr, DecidableEq

/-- versionless, content unchanged: re-broadcast (stored version, response data) when a late joiner asked. -/
def unchangedVL (counter : Nat) (entry : Entry) (e : Item) : Nat × Entry × Option Update :=
  if entry.needsBroadcast && entry.version > 0 then
    (counter, { entry with needsBroadcast := false }, some { key := e.key, version := entry.version, data := e.data })
  else (counter, entry, none)

/-- versionless, content changed (or first data): synthetic version from the channel counter. -/
def changedVL (cfg : Cfg) (counter : Nat) (entry : Entry) (e : Item) : Nat × Entry × Option Update :=
  (counter + 1,
   { entry with needsBroadcast := false, version := counter + 1, data := if cfg.keep then some e.data else entry.data },
   some { key := e.key, version := counter + 1, data := e.data,
          prevData := if cfg.keep then entry.data else none, prevVersion := entry.version })

/-- one item of the locked loop of applyRefreshResponse: new counter / entry and the pending update. -/
def respItem (cfg : Cfg) (counter : Nat) (entry : Entry) (e : Item) : Nat × Entry × Option Update :=
  if cfg.versionless && e.version == 0 then
    if entry.version > 0 then
      if cfg.keep then
        if entry.data = some e.data then unchangedVL counter entry e else changedVL cfg counter entry e
      else
        if entry.hash = some e.data then unchangedVL counter entry e
        else changedVL cfg counter { entry with hash := some e.data } e
    else
      changedVL cfg counter (if cfg.keep then entry else { entry with hash := some e.data }) e
  else if e.version ≤ entry.version then
    if entry.needsBroadcast && entry.version > 0 then
      if cfg.keep then
        (counter, { entry with needsBroadcast := false },
          some { key := e.key, version := entry.version, data := entry.data.getD "" })
      else if e.version = entry.version then
        (counter, { entry with needsBroadcast := false }, some { key := e.key, version := e.version, data := e.data })
      else (counter, entry, none)
    else (counter, entry, none)
  else
    (counter,
     { entry with needsBroadcast := false, version := e.version, data := if cfg.keep then some e.data else entry.data },
     some { key := e.key, version := e.version, data := e.data,
            prevData := if cfg.keep then entry.data else e.prev, prevVersion := entry.version })

/-- the locked loop: returns the new state, the updates in order and the removed keys in order. -/
def respLoop (s : St) : List Item → St × List Update × List Key
  | [] => (s, [], [])
  | e :: rest =>
    if e.removed then
      let (s', us, rs) := respLoop s rest
      (s', us, e.key :: rs)
    else
      match alookup e.key s.entries with
      | none => respLoop s rest
      | some entry =>
        let (cnt, entry', u) := respItem s.cfg s.counter entry e
        let s1 := { s with counter := cnt, entries := aset e.key entry' s.entries }
        let (s', us, rs) := respLoop s1 rest
        (s', (match u with | some x => x :: us | none => us), rs)

/-- keyedWriteRemoval to every subscriber of the key, then removeAllSubscribers + delete(itemIndex). -/
def removeKey (s : St) (k : Key) : St × List Ev :=
  let subs := subscribersOf s k
  let (s1, evs) := subs.foldl (fun (acc : St × List Ev) cid =>
    match alookup cid acc.1.conns with
    | none => acc
    | some c =>
      match alookup k c.keys with
      | none => (acc.1, acc.2 ++ [Ev.removal cid k])
      | some _ => ({ acc.1 with conns := aset cid { c with keys := aerase k c.keys } acc.1.conns }, acc.2 ++ [Ev.removal cid k])) (s, [])
  ({ s1 with hub := aerase k s1.hub, entries := aerase k s1.entries }, evs)

def applyResp (s : St) (ep : String) (items : List Item) : St × List Ev :=
  let (s0, ev0) := if s.cfg.versionless then (s, []) else flipEpoch s ep
  let (s1, updates, removals) := respLoop s0 items
  let (s2, ev1) := updates.foldl (fun (acc : St × List Ev) u =>
    let (a, e) := broadcast acc.1 u.key u.version u.data (buildPrep (if u.prevData == some "" then none else u.prevData) u.prevVersion)
    (a, acc.2 ++ e)) (s1, [])
  let (s3, ev2) := removals.foldl (fun (acc : St × List Ev) k => let (a, e) := removeKey acc.1 k; (a, acc.2 ++ e)) (s2, [])
  (s3, ev0 ++ ev1 ++ ev2)

/-- handlePublishedData (SharedPollPublish in local mode, versioned channels). -/
def publish (s : St) (k : Key) (v : Nat) (ep : String) (d : Data) : St × List Ev :=
  if !s.chanExists then (s, []) else
  let (s0, ev0) := flipEpoch s ep
  match alookup k s0.entries with
  | none => (s0, ev0)
  | some entry =>
    if v ≤ entry.version then (s0, ev0) else
    let prevData := if s0.cfg.keep then entry.data else none
    let entry' : Entry := { entry with version := v, data := if s0.cfg.keep then some d else entry.data }
    let s1 := { s0 with entries := aset k entry' s0.entries }
    let (s2, ev1) := broadcast s1 k v d (buildPrep prevData entry.version)
    (s2, ev0 ++ ev1)

/-- handleTrack with a single item (key, client-provided version). -/
def track (s : St) (cid : ConnId) (k : Key) (v : Nat) : St × List Ev :=
  match alookup cid s.conns with
  | none => (s, [])
  | some c =>
    if !c.subscribed then (s, []) else
    -- trackKeys
    let isNew := (alookup k s.entries).isNone
    let entry := (alookup k s.entries).getD {}
    let s1 := { s with chanExists := true, entries := if isNew then aset k entry s.entries else s.entries }
    -- commit per-connection state
    let heldOld := ((alookup k c.keys).map (·.held)).getD none
    let ks0 : KeySt := { version := v, deltaReady := false, held := if v = 0 then none else heldOld }
    -- cached item in the reply
    let cached := !s.cfg.versionless && s.cfg.keep && entry.version != 0 && entry.data.isSome && entry.version > v
    let ks1 : KeySt := if cached then { version := entry.version, deltaReady := true, held := entry.data } else ks0
    let ev := if cached then [Ev.item cid k entry.version (entry.data.getD "")] else []
    let c1 := { c with keys := aset k ks1 c.keys }
    -- addSubscribers
    let subs := subscribersOf s1 k
    let s2 := { s1 with conns := aset cid c1 s1.conns, hub := aset k (if subs.contains cid then subs else subs ++ [cid]) s1.hub }
    -- warm key without cached data: markNeedsBroadcast
    let warm := (!isNew && v == 0) || (entry.version > v)
    let direct := !s.cfg.versionless && s.cfg.keep && entry.version != 0 && entry.data.isSome
    let s3 := if warm && !direct then { s2 with entries := aset k { entry with needsBroadcast := true } s2.entries } else s2
    (s3, ev)

def untrack (s : St) (cid : ConnId) (k : Key) : St :=
  match alookup cid s.conns with
  | none => s
  | some c =>
    match alookup k c.keys with
    | none => s
    | some _ =>
      let s1 := { s with conns := aset cid { c with keys := aerase k c.keys } s.conns }
      hubRemove s1 k cid

def subscribe (s : St) (cid : ConnId) (delta : Bool) : St :=
  { s with genCounter := s.genCounter + 1,
           conns := aset cid { subscribed := true, delta := delta, keys := [], gen := s.genCounter + 1 } s.conns }

/-- SharedPollPublish whose broadcast stalls, for the key's only subscriber, between phase 1 and phase 3 of
keyedWritePublication (everything before the broadcast is as in `publish`). -/
def publishStall (s : St) (k : Key) (v : Nat) (ep : String) (d : Data) : St × List Ev :=
  if !s.chanExists then (s, []) else
  let (s0, ev0) := flipEpoch s ep
  match alookup k s0.entries with
  | none => (s0, ev0)
  | some entry =>
    if v ≤ entry.version then (s0, ev0) else
    let prevData := if s0.cfg.keep then entry.data else none
    let entry' : Entry := { entry with version := v, data := if s0.cfg.keep then some d else entry.data }
    let s1 := { s0 with entries := aset k entry' s0.entries }
    let prep := buildPrep prevData entry.version
    match subscribersOf s1 k with
    | [cid] =>
      match alookup cid s1.conns with
      | none => (s1, ev0)
      | some c =>
        match alookup k c.keys with
        | none => (s1, ev0)
        | some ks =>
          if v ≤ ks.version then (s1, ev0) else
          ({ s1 with stalled := some { cid := cid, key := k, version := v, data := d, prep := prep,
                                       deltaPossible := c.delta && prep.deltaSub && ks.deltaReady, channelDelta := c.delta } }, ev0)
    | _ => (s1, ev0)

/-- the stalled delivery resumes (phase 3). -/
def release (s : St) : St × List Ev :=
  match s.stalled with
  | none => (s, [])
  | some w =>
    let s1 := { s with stalled := none }
    match alookup w.cid s1.conns with
    | none => (s1, [])
    | some c =>
      let (c', evs) := writePub3 c w
      ({ s1 with conns := aset w.cid c' s1.conns }, evs)

/-- the OnTrack verdict of the oldest pending track request arrives: commit only onto the subscription the
request was issued on (generation match), else roll back and answer permission denied. -/
def trackCallback (s : St) : St × List Ev :=
  match s.ptracks with
  | [] => (s, [])
  | p :: rest =>
    let s1 := { s with ptracks := rest }
    match alookup p.cid s1.conns with
    | none => (s1, [])
    | some c =>
      if c.subscribed && c.gen == p.gen then track s1 p.cid p.key p.version
      else (maybeShutdown { s1 with chanExists := true }, [Ev.err p.cid 103])

/-- SharedPollRevokeKeys(channel, [k], all users). -/
def revoke (s : St) (k : Key) : St × List Ev :=
  if !s.chanExists then (s, []) else
  let (s1, evs) := removeKey s k
  (maybeShutdown s1, evs)

inductive Op where
  | sub (c : ConnId) (delta : Bool)
  | trk (c : ConnId) (k : Key) (v : Nat)
  | utk (c : ConnId) (k : Key)
  | unsub (c : ConnId)
  | close (c : ConnId)
  | resp (ep : String) (items : List Item)
  | pub (k : Key) (v : Nat) (ep : String) (d : Data)
  | rvk (k : Key)
  | bgpub (k : Key) (v : Nat) (ep : String) (d : Data)     -- publish stalling inside keyedWritePublication
  | rel                                                     -- the stalled delivery resumes
  | trkd (c : ConnId) (k : Key) (v : Nat)                   -- track, OnTrack verdict deferred
  | tcb                                                     -- oldest deferred verdict arrives
  deriving Repr

def step (s : St) : Op → St × List Ev
  | .sub c d => (subscribe s c d, [])
  | .trk c k v => track s c k v
  | .utk c k => (untrack s c k, [])
  | .unsub c => (cleanupConn s c, [])
  | .close c => let s1 := cleanupConn s c; ({ s1 with conns := aerase c s1.conns }, [Ev.disc c 3000])
  | .resp ep items => applyResp s ep items
  | .pub k v ep d => if s.cfg.versionless then (s, []) else publish s k v ep d
  | .rvk k => revoke s k
  | .bgpub k v ep d => if s.cfg.versionless then (s, []) else publishStall s k v ep d
  | .rel => release s
  | .trkd c k v =>
    match alookup c s.conns with
    | some cn => if cn.subscribed then ({ s with ptracks := s.ptracks ++ [{ cid := c, key := k, version := v, gen := cn.gen }] }, [])
                 else (s, [Ev.err c 103])
    | none => (s, [])
  | .tcb => trackCallback s

def run (s : St) : List Op → St × List Ev
  | [] => (s, [])
  | op :: rest =>
    let (s1, e1) := step s op
    let (s2, e2) := run s1 rest
    (s2, e1 ++ e2)

end CentrifugeVerif.Keyed
