/-
Shared helpers for the line-protocol drivers (core Lean only).
A driver reads one operation per line on stdin and prints exactly one canonical line per
operation on stdout.  Lines starting with `#` and empty lines are echoed as `#`.
-/
namespace CentrifugeVerif.DriverLib

def hexDigit (c : Char) : Option Nat :=
  if '0' ≤ c ∧ c ≤ '9' then some (c.toNat - '0'.toNat)
  else if 'a' ≤ c ∧ c ≤ 'f' then some (c.toNat - 'a'.toNat + 10)
  else if 'A' ≤ c ∧ c ≤ 'F' then some (c.toNat - 'A'.toNat + 10)
  else none

/-- Decode a hex string (`-` or empty = empty byte list). -/
def unhex (s : String) : Option (List UInt8) :=
  if s == "-" then some [] else
  let rec go : List Char → List UInt8 → Option (List UInt8)
    | [], acc => some acc.reverse
    | [_], _ => none
    | a :: b :: rest, acc =>
      match hexDigit a, hexDigit b with
      | some x, some y => go rest (UInt8.ofNat (x * 16 + y) :: acc)
      | _, _ => none
  go s.toList []

def hexNibble (n : Nat) : Char :=
  if n < 10 then Char.ofNat ('0'.toNat + n) else Char.ofNat ('a'.toNat + n - 10)

/-- Encode bytes as lowercase hex (`-` for empty). -/
def hex (bs : List UInt8) : String :=
  if bs.isEmpty then "-" else
  String.ofList (bs.foldr (fun b acc => hexNibble (b.toNat / 16) :: hexNibble (b.toNat % 16) :: acc) [])

def words (s : String) : List String :=
  (s.splitOn " ").filter (· ≠ "")

def stripEOL (s : String) : String :=
  let cs := s.toList.reverse.dropWhile (fun c => c == '\n' || c == '\r')
  String.ofList cs.reverse

def joinWith (sep : String) (xs : List String) : String :=
  sep.intercalate xs

/-- key=value lookup inside a word list. -/
def kv (ws : List String) (k : String) : Option String :=
  ws.findSome? fun w =>
    match w.splitOn "=" with
    | k' :: rest => if k' == k && !rest.isEmpty then some ("=".intercalate rest) else none
    | _ => none

def kvNat (ws : List String) (k : String) : Option Nat := (kv ws k).bind String.toNat?
def kvInt (ws : List String) (k : String) : Option Int := (kv ws k).bind String.toInt?

/-- Stateless driver loop. -/
partial def loopPure (h : IO.FS.Stream) (out : IO.FS.Stream) (f : String → String) : IO Unit := do
  let line ← h.getLine
  if line.isEmpty then return ()
  let l := stripEOL line
  if l.isEmpty || l.startsWith "#" then out.putStrLn "#" else out.putStrLn (f l)
  loopPure h out f

/-- Stateful driver loop. -/
partial def loopState {σ : Type} (h : IO.FS.Stream) (out : IO.FS.Stream)
    (f : σ → String → σ × String) (s : σ) : IO Unit := do
  let line ← h.getLine
  if line.isEmpty then return ()
  let l := stripEOL line
  if l.isEmpty || l.startsWith "#" then
    out.putStrLn "#"
    loopState h out f s
  else
    let (s', o) := f s l
    out.putStrLn o
    loopState h out f s'

def runPure (f : String → String) : IO Unit := do
  let i ← IO.getStdin
  let o ← IO.getStdout
  loopPure i o f
  o.flush

def runState {σ : Type} (f : σ → String → σ × String) (s : σ) : IO Unit := do
  let i ← IO.getStdin
  let o ← IO.getStdout
  loopState i o f s
  o.flush

end CentrifugeVerif.DriverLib
