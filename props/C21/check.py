"""C21 — map state pagination enumerates every key exactly once (memory broker part).

Proof: lean/CentrifugeVerif/Props/C21.lean (pages_concat_eq_sorted … over Model/MapPage.lean, lifted to the
hub model Model/MapHub.lean).
Tie: the real MemoryMapBroker is paginated (`pages` op: ReadState from the empty cursor while the returned cursor
is non-empty) for page sizes 1 … n+1 and -1, both directions, over key sets with score ties, Min/MaxInt64 scores,
keys with NUL bytes and keys that are prefixes of one another; the Lean driver runs the same lines.
Oracle: the statement itself on the implementation's output: the concatenation of the pages is the sorted key
list, every key exactly once, no page exceeds `limit`, no empty page comes with a cursor, the loop finishes;
single-key reads return exactly the stored entry.
The Redis/Lua half of C21 is out of scope here (no Redis server, no Lua interpreter): partial.
"""
import json
import os
import sys

HERE = os.path.dirname(os.path.abspath(__file__))
sys.path.insert(0, os.path.join(HERE, "..", "C20"))
import maplib  # noqa: E402
import refmap  # noqa: E402

I64MAX, I64MIN = 2 ** 63 - 1, -2 ** 63
ALPHA = [0x00, 0x00, 0x01, 0x61, 0x61, 0x62, 0x7f, 0x80, 0xff]
SCORES = [0, 0, 1, 1, 1, -1, 5, I64MAX, I64MAX, I64MIN, I64MIN, I64MAX - 1, I64MIN + 1, 10, 9, 100, -100]


def hx(b):
    return b.hex() if b else "-"


def gen_key(rng, pool):
    if pool and rng.random() < 0.45:
        k = rng.choice(pool)
        r = rng.random()
        if r < 0.5:
            return k + bytes([rng.choice(ALPHA)])      # extension: k is a prefix of the new key
        if r < 0.7 and len(k) > 1:
            return k[:-1]                              # prefix
        return k                                       # overwrite
    return bytes(rng.choice(ALPHA) for _ in range(rng.randint(1, 3)))


def pub(ch, key, dt, data, score):
    return "pub ch=%d key=%s dt=%d data=%d tag=0 score=%d mode=r rtos=0 ver=0 vep=0 idem=0 ittl=0 cas=- delta=0" % (ch, hx(key), dt, data, score)


def gen_scenario(rng, thorough):
    modes = ["E:60000:0", "R:60000:0", "P:0:0", "R:60000:3"]
    lines = ["reset " + " ".join("c%d=%s:%d" % (i, rng.choice(modes), o) for i, o in enumerate([1, 0, rng.randint(0, 1)]))]
    ref = refmap.Ref()
    ref.line(lines[0])

    def emit(l):
        lines.append(l)
        ref.line(l)
    ch = rng.choice([0, 0, 1, 2])
    n = rng.choice([0, 1, 2, 3, 4, 5, 6, 8, 11, 14])
    pool = []
    scores = rng.sample(SCORES, rng.randint(2, 4) if rng.random() < 0.6 else 1)      # few distinct scores => many ties

    def read_empty():
        # a reader arrives before the first publish (of this epoch): the read creates the channel record
        r = rng.random()
        if r < 0.4:
            emit("state ch=%d dt=0 lim=%d cur=- key=- asc=%d rev=-" % (ch, rng.choice([-1, 0, 2]), rng.randint(0, 1)))
        elif r < 0.7:
            emit("stream ch=%d dt=0 since=- lim=%d rev=0" % (ch, rng.choice([-1, 0])))
        else:
            emit("pages ch=%d dt=0 lim=%d asc=%d" % (ch, rng.choice([1, 3, -1]), rng.randint(0, 1)))
    pre = rng.random()
    if pre < 0.45:
        read_empty()
    elif pre < 0.6:
        # populate, clear, read the empty channel, populate again
        for i in range(rng.randint(1, 3)):
            emit(pub(ch, gen_key(rng, pool), 1, 100 + i, rng.choice(scores)))
        emit("clear ch=%d dt=1" % ch)
        if rng.random() < 0.8:
            read_empty()
    for i in range(n):
        k = gen_key(rng, pool)
        pool.append(k)
        emit(pub(ch, k, 1, i + 1, rng.choice(scores)))
    if pool and rng.random() < 0.3:
        emit("rm ch=%d key=%s dt=1 idem=0 ittl=0 cas=- tag=0" % (ch, hx(rng.choice(pool))))
    size = len(ref.chans[ch].state) if ch in ref.chans else 0
    lims = list(range(1, size + 2)) + [-1]
    if not thorough and len(lims) > 7:
        lims = sorted(rng.sample(lims[:-2], 5)) + lims[-2:]
    for lim in lims:
        for asc in (0, 1):
            emit("pages ch=%d dt=0 lim=%d asc=%d" % (ch, lim, asc))
    # single-key reads: stored keys, a prefix / an extension of a stored key, an absent key
    for k in rng.sample(pool, min(3, len(pool))) + [rng.choice(pool)[:-1] if pool else b"zz", (rng.choice(pool) if pool else b"z") + b"\x00"]:
        if k:
            emit("state ch=%d dt=0 lim=%d cur=- key=%s asc=%d rev=-" % (ch, rng.choice([0, 1, -1]), hx(k), rng.randint(0, 1)))
    # explicit pages from cursors that are / are not in the list (a key removed between two pages)
    c = ref.chans.get(ch)
    if c and c.state:
        for _ in range(3):
            k = rng.choice(sorted(c.state))
            sc = c.state[k]["pub"]["score"]
            variants = [(sc, k), (sc, k + b"\x00"), (sc, k[:-1]), (sc + rng.choice([-1, 1]) if I64MIN < sc < I64MAX else sc, k), (sc, b"")]
            s2, k2 = rng.choice(variants)
            raw = (str(s2).encode() + b"\x00" + k2) if c.ordered else (k2 or b"\x00")
            emit("state ch=%d dt=0 lim=%d cur=%s key=- asc=%d rev=-" % (ch, rng.choice([1, 2, 3, -1]), hx(raw), rng.randint(0, 1)))
        # the state changes between pages: remove the cursor key, continue from its cursor
        k = rng.choice(sorted(c.state))
        sc = c.state[k]["pub"]["score"]
        raw = (str(sc).encode() + b"\x00" + k) if c.ordered else k
        emit("rm ch=%d key=%s dt=1 idem=0 ittl=0 cas=- tag=0" % (ch, hx(k)))
        emit("state ch=%d dt=0 lim=2 cur=%s key=- asc=%d rev=-" % (ch, hx(raw), rng.randint(0, 1)))
        emit("pages ch=%d dt=0 lim=2 asc=%d" % (ch, rng.randint(0, 1)))
    return lines


def oracle(lines, im):
    """C21's statement on the implementation's own output (keys tracked from the unsuppressed publishes/removes)."""
    cfgs, state = {}, {}
    for l, o in zip(lines, im):
        ws = l.split()
        kv = refmap.kvs(ws[1:])
        f = maplib.fields(o)
        if ws[0] == "reset":
            cfgs = {int(w.split("=")[0][1:]): w.split("=")[1].split(":") for w in ws[1:]}
            state = {}
            continue
        ch = int(kv.get("ch", -1))
        st = state.setdefault(ch, {})
        if ws[0] == "pub" and f.get("status") == "ok" and f.get("sup") == "-" and kv["key"] != "-":
            st[refmap.unhex(kv["key"])] = int(kv["score"])
        elif ws[0] == "rm" and f.get("status") == "ok" and f.get("sup") == "-":
            st.pop(refmap.unhex(kv["key"]), None)
        elif ws[0] == "clear":
            state[ch] = {}
        elif ws[0] == "pages" and f.get("status") == "ok":
            lim, asc = int(kv["lim"]), kv["asc"] == "1"
            ordered = cfgs.get(ch, ["U", "0", "0", "0"])[3] == "1" and bool(st)
            if lim == 0:
                continue
            if ordered:
                want = sorted(st, key=lambda k: (st[k], k), reverse=not asc)
            else:
                want = sorted(st)
            got = [refmap.unhex(x) for x in f["keys"].split(",")] if f["keys"] != "-" else []
            sizes = [int(x) for x in f["sizes"].split(",")]
            sg = {"op": "pages", "ordered": ordered, "asc": asc, "lim": lim, "n": len(want)}
            if f["done"] != "1":
                return ("pagination did not terminate within 64 requests for %d keys (no progress)" % len(want), dict(sg, what="no-termination"))
            if len(got) != len(set(got)):
                return ("pagination returned a key twice: %s" % [x.hex() for x in got], dict(sg, what="duplicate"))
            if set(got) != set(want):
                return ("pagination lost/added keys: got %s want %s" % ([x.hex() for x in got], [x.hex() for x in want]), dict(sg, what="lost-key"))
            if got != want:
                return ("pagination order differs from the channel's sort order: got %s want %s" % ([x.hex() for x in got], [x.hex() for x in want]), dict(sg, what="order"))
            if lim > 0 and any(s > lim for s in sizes):
                return ("a page of the memory broker exceeds the limit %d: sizes %s" % (lim, sizes), dict(sg, what="page-size"))
            if any(s == 0 for s in sizes[:-1]):
                return ("an empty page was returned together with a cursor (no progress): sizes %s" % sizes, dict(sg, what="empty-page"))
        elif ws[0] == "state" and f.get("status") == "ok" and kv["key"] != "-":
            k = refmap.unhex(kv["key"])
            pubs = [] if f["pubs"] == "-" else f["pubs"].split(",")
            if (k in st) != (len(pubs) == 1) or (pubs and refmap.unhex(pubs[0].split("/")[0]) != k):
                return ("single-key read of %s returned %s although the key is %s" % (k.hex(), f["pubs"], "stored" if k in st else "absent"),
                        {"op": "state-key", "stored": k in st, "returned": len(pubs)})
    return None


def run(ctx):
    ctx.rule = ("per scenario one channel (ordered/unordered, ephemeral/recoverable/persistent) is filled with 0..14 keys over "
                "the byte alphabet {00,01,61,62,7f,80,ff} (keys extending / prefixing one another) with 1..4 distinct scores "
                "out of a set containing Min/MaxInt64 (ties), optionally one removal; then the full pagination loop for page "
                "sizes 1..n+1 and -1 in both directions, single-key reads (stored, prefix, extension), pages from cursors not "
                "in the list and a removal of the cursor key between two pages; non-trivial = at least 2 keys and a tie or a "
                "prefix pair; distinct = distinct scenario text")
    ctx.assumptions = ["Redis/Lua pagination (map_broker_read_*.lua, HSCAN contract) is out of scope: no Redis server / Lua VM",
                       "the decimal score <-> string round trip of the ordered cursor is exercised by the differential run, "
                       "not proved (the theorem is stated on structured cursors)"]
    proofs_ok = ctx.lean_obligations()
    binary = maplib.build(ctx)
    if binary is None:
        ctx.violation("correspondence", "harness no longer builds against package centrifuge",
                      signature={"kind": "harness-build"}, replay={"log": getattr(ctx, "build_error", "")}, no_input=True)
        return
    if ctx.replay:
        ops = json.load(open(ctx.replay)).get("ops", [])
    else:
        corpus = [l.rstrip("\n") for l in open(os.path.join(HERE, "corpus.ops")) if l.strip() and not l.startswith("#")]
        ops = list(corpus)
        for _ in range(ctx.scale(500, 6000)):
            ops += gen_scenario(ctx.rng, ctx.thorough)

    def nontrivial(lines, im):
        keys = {refmap.kvs(l.split()[1:]).get("key") for l in lines if l.startswith("pub")}
        scores = [refmap.kvs(l.split()[1:]).get("score") for l in lines if l.startswith("pub")]
        pref = any(a != b and a and b and a.startswith(b) for a in keys for b in keys)
        return len(keys) >= 2 and (pref or len(set(scores)) < len(scores))
    maplib.DRIVER = "drv_c21"

    def proj(line):
        # the statement does not fix the number of requests: a trailing empty page is no violation
        if " n=" in line and " sizes=" in line:
            return " ".join(w for w in line.split() if not (w.startswith("n=") or w.startswith("sizes=")))
        # a single page's cursor is not what the statement speaks about (the loop's outcome is): a deviating cursor
        # alone is reported as a correspondence break by the model comparison, its consequences by the `pages` lines
        if " cursor=" in line:
            return " ".join(w for w in line.split() if not w.startswith("cursor="))
        return line
    _, _, model_ok = maplib.compare_all(ctx, binary, ops, "map state pagination deviates from the reference", nontrivial,
                                        extra_oracle=oracle, driver_name="Drivers/C21.lean (Model/MapHub.lean, Model/MapPage.lean)",
                                        ref_proj=proj)
    if not (proofs_ok and model_ok):
        ctx.proof_broken()
