//go:build verif

package centrifuge

// Verification harness for C13 (injected with `go test -overlay`, never part of the repo).
// Drives the real perChannelWriter/channelWriter with a recording flush callback inside a synctest
// bubble (batch timers are virtual).  Protocol: see /verif/lean/Drivers/C13.lean.
// The `race` op runs the unsubscribe-versus-broadcast schedule on a real Node + Client.

import (
	"bufio"
	"context"
	"fmt"
	"os"
	"regexp"
	"runtime"
	"strconv"
	"strings"
	"sync"
	"testing"
	"testing/synctest"
	"time"

	"github.com/centrifugal/centrifuge/internal/queue"
	"github.com/centrifugal/protocol"
)

type verifC13H struct {
	mu      sync.Mutex
	batches []string
	pcw     *perChannelWriter
	handle  *channelWriter
	// gate inside the flush callback (op `gadd`)
	gateArmed bool
	entered   chan struct{}
	gate      chan struct{}
	// client-level scenario (ops `creset`, `cadd`, `csleep`)
	cnode   *Node
	cclient *Client
	csink   chan []byte
	cpos    bool
}

func (h *verifC13H) flushFn(items []queue.Item) error {
	h.mu.Lock()
	var gate chan struct{}
	if h.gateArmed {
		// the first flush after arming blocks here; what it was handed is looked at only after
		// the release (a batch that aliases the writer's buffer shows what an Add did to it)
		h.gateArmed = false
		gate = h.gate
		close(h.entered)
	}
	h.mu.Unlock()
	if gate != nil {
		<-gate
	}
	ids := make([]string, 0, len(items))
	for _, it := range items {
		ids = append(ids, it.Channel)
	}
	h.mu.Lock()
	h.batches = append(h.batches, "["+strings.Join(ids, ",")+"]")
	h.mu.Unlock()
	return nil
}

func (h *verifC13H) takeGroup() string {
	h.mu.Lock()
	defer h.mu.Unlock()
	if len(h.batches) == 0 {
		return ""
	}
	s := strings.Join(h.batches, ";")
	h.batches = nil
	return s
}

func verifC13Out(groups []string) string {
	var g []string
	for _, x := range groups {
		if x != "" {
			g = append(g, x)
		}
	}
	if len(g) == 0 {
		return "out=-"
	}
	return "out=" + strings.Join(g, "|")
}

func verifC13KV(ws []string, k string) (string, bool) {
	for _, w := range ws {
		if strings.HasPrefix(w, k+"=") {
			return w[len(k)+1:], true
		}
	}
	return "", false
}

func verifC13Int(ws []string, k string) (int, bool) {
	s, ok := verifC13KV(ws, k)
	if !ok {
		return 0, false
	}
	n, err := strconv.Atoi(s)
	return n, err == nil && n >= 0
}

func verifC13Add(ws []string) (queue.Item, ChannelBatchConfig, bool) {
	f, ok0 := verifC13KV(ws, "f")
	key, ok1 := verifC13Int(ws, "key")
	id, ok2 := verifC13Int(ws, "id")
	size, ok3 := verifC13Int(ws, "size")
	delay, ok4 := verifC13Int(ws, "delay")
	latest, ok5 := verifC13Int(ws, "latest")
	if !(ok0 && ok1 && ok2 && ok3 && ok4 && ok5) {
		return queue.Item{}, ChannelBatchConfig{}, false
	}
	var ft protocol.FrameType
	switch f {
	case "p":
		ft = protocol.FrameTypePushPublication
	case "j":
		ft = protocol.FrameTypePushJoin
	case "l":
		ft = protocol.FrameTypePushLeave
	default:
		return queue.Item{}, ChannelBatchConfig{}, false
	}
	k := ""
	if key != 0 {
		k = strconv.Itoa(key)
	}
	// the item identity travels in Channel (the writers never look at it)
	it := queue.Item{Data: []byte("x"), Channel: strconv.Itoa(id), Key: k, FrameType: ft}
	cfg := ChannelBatchConfig{MaxSize: int64(size), MaxDelay: time.Duration(delay) * time.Millisecond, FlushLatestPublication: latest != 0}
	return it, cfg, true
}

// verifC13Gate blocks the goroutine that reaches it (once) until released.  It is installed in the
// application's LogHandler: at trace level Client.writePublication logs the outgoing push
// ("-out->") after its subscribed check and right before it hands the push to
// perChannelWriter.Add, so the log callback is a hook exactly inside the window.
type verifC13Gate struct {
	armed   chan struct{} // closed = gate armed
	reached chan struct{}
	release chan struct{}
	once    sync.Once
}

func (g *verifC13Gate) pass() {
	select {
	case <-g.armed:
		first := false
		g.once.Do(func() { first = true })
		if first {
			close(g.reached)
			<-g.release
		}
	default:
	}
}

// verifC13Race: a broadcast that already found the connection among the channel's subscribers is
// held in the trace-log callback while the client's unsubscribe command runs up to (and including)
// delWriter; then the broadcast continues into perChannelWriter.Add.  Reports what the transport
// received after the unsubscribe reply.
func verifC13Race(delayMs int) (res string) {
	defer func() {
		if r := recover(); r != nil {
			res = fmt.Sprintf("PANIC %v", r)
		}
	}()
	tr := &verifC13Gate{armed: make(chan struct{}), reached: make(chan struct{}), release: make(chan struct{})}
	node, err := New(Config{
		LogLevel: LogLevelTrace,
		LogHandler: func(entry LogEntry) {
			if entry.Message == "-out->" {
				if p, ok := entry.Fields["push"].(string); ok && strings.Contains(p, "late") {
					tr.pass()
				}
			}
		},
		GetChannelBatchConfig: func(channel string) ChannelBatchConfig {
			return ChannelBatchConfig{MaxDelay: time.Duration(delayMs) * time.Millisecond}
		},
	})
	if err != nil {
		return "race-setup-failed"
	}
	node.OnConnect(func(client *Client) {
		client.OnSubscribe(func(e SubscribeEvent, cb SubscribeCallback) { cb(SubscribeReply{}, nil) })
	})
	if err := node.Run(); err != nil {
		return "race-setup-failed"
	}
	defer func() {
		_ = node.Shutdown(context.Background())
		time.Sleep(30 * time.Second)
		synctest.Wait()
	}()
	ctx, cancelFn := context.WithCancel(context.Background())
	tt := newTestTransport(cancelFn)
	tt.setProtocolVersion(ProtocolVersion2)
	tt.setProtocolType(ProtocolTypeJSON)
	sink := make(chan []byte, 1000)
	tt.setSink(sink)
	c, _, err := NewClient(SetCredentials(ctx, &Credentials{UserID: "u"}), node, tt)
	if err != nil {
		return "race-setup-failed"
	}
	rw := testReplyWriterWrapper()
	if err := c.connectCmd(&protocol.ConnectRequest{}, &protocol.Command{Id: 1}, time.Now(), rw.rw); err != nil {
		return "race-setup-failed"
	}
	c.triggerConnect()
	c.scheduleOnConnectTimers()
	rw = testReplyWriterWrapper()
	if err := c.handleSubscribe(&protocol.SubscribeRequest{Channel: "ch"}, &protocol.Command{Id: 2}, time.Now(), rw.rw); err != nil {
		return "race-setup-failed"
	}
	synctest.Wait()
	close(tr.armed)
	pubDone := make(chan struct{})
	go func() {
		_, _ = node.Publish("ch", []byte(`{"verif":"late"}`))
		close(pubDone)
	}()
	<-tr.reached // the broadcast holds the hub shard lock and is about to hand the push to the channel writer
	unsubDone := make(chan struct{})
	go func() {
		urw := testReplyWriterWrapper()
		_ = c.handleUnsubscribe(&protocol.UnsubscribeRequest{Channel: "ch"}, &protocol.Command{Id: 3}, time.Now(), urw.rw)
		close(unsubDone)
	}()
	// wait (without the virtual clock: the unsubscribe goroutine ends up blocked on the hub mutex,
	// which is not a durable block) until the unsubscribe has removed the channel and its writer
	for {
		c.mu.RLock()
		_, still := c.channels["ch"]
		c.mu.RUnlock()
		if !still {
			break
		}
		runtime.Gosched()
	}
	close(tr.release)
	<-pubDone
	<-unsubDone
	synctest.Wait()
	time.Sleep(time.Duration(delayMs+5) * time.Millisecond)
	synctest.Wait()
	var msgs []string
	for {
		select {
		case m := <-sink:
			msgs = append(msgs, string(m))
			continue
		default:
		}
		break
	}
	unsubAt, lateAt := -1, -1
	for i, m := range msgs {
		if strings.Contains(m, `"unsubscribe"`) && strings.Contains(m, `"id":3`) {
			unsubAt = i
		}
		if strings.Contains(m, `late`) {
			lateAt = i
		}
	}
	after := 0
	if unsubAt >= 0 && lateAt > unsubAt {
		after = 1
	}
	got := 0
	if lateAt >= 0 {
		got = 1
	}
	ur := 0
	if unsubAt >= 0 {
		ur = 1
	}
	if os.Getenv("VERIF_C13_DEBUG") != "" {
		fmt.Fprintf(os.Stderr, "race msgs: %q\n", msgs)
	}
	return fmt.Sprintf("race unsub_reply=%d pub_delivered=%d pub_after_unsub=%d", ur, got, after)
}

func (h *verifC13H) cstop() {
	if h.cnode != nil {
		if h.cclient != nil {
			_ = h.cclient.close(DisconnectForceNoReconnect)
		}
		_ = h.cnode.Shutdown(context.Background())
		time.Sleep(30 * time.Second)
		synctest.Wait()
		h.cnode, h.cclient, h.csink = nil, nil, nil
	}
}

// creset: a real Node with a channel batch config and a real Client subscribed to "ch" with
// PushJoinLeave; publications, joins and leaves then travel hub -> client -> perChannelWriter ->
// connection writer -> transport.
func (h *verifC13H) creset(delayMs, size, latest, pos int) string {
	h.cstop()
	cfg := ChannelBatchConfig{MaxSize: int64(size), MaxDelay: time.Duration(delayMs) * time.Millisecond, FlushLatestPublication: latest != 0}
	node, err := New(Config{
		LogLevel:              LogLevelError,
		LogHandler:            func(entry LogEntry) {},
		GetChannelBatchConfig: func(channel string) ChannelBatchConfig { return cfg },
	})
	if err != nil {
		return "creset-failed"
	}
	node.OnConnect(func(client *Client) {
		client.OnSubscribe(func(e SubscribeEvent, cb SubscribeCallback) {
			cb(SubscribeReply{Options: SubscribeOptions{PushJoinLeave: true, EnablePositioning: pos != 0}}, nil)
		})
	})
	if err := node.Run(); err != nil {
		return "creset-failed"
	}
	h.cnode = node
	h.cpos = pos != 0
	ctx, cancelFn := context.WithCancel(context.Background())
	tt := newTestTransport(cancelFn)
	tt.setProtocolVersion(ProtocolVersion2)
	tt.setProtocolType(ProtocolTypeJSON)
	h.csink = make(chan []byte, 10000)
	tt.setSink(h.csink)
	c, _, err := NewClient(SetCredentials(ctx, &Credentials{UserID: "u"}), node, tt)
	if err != nil {
		return "creset-failed"
	}
	rw := testReplyWriterWrapper()
	if err := c.connectCmd(&protocol.ConnectRequest{}, &protocol.Command{Id: 1}, time.Now(), rw.rw); err != nil {
		return "creset-failed"
	}
	c.triggerConnect()
	c.scheduleOnConnectTimers()
	h.cclient = c
	rw = testReplyWriterWrapper()
	if err := c.handleSubscribe(&protocol.SubscribeRequest{Channel: "ch"}, &protocol.Command{Id: 2}, time.Now(), rw.rw); err != nil {
		return "creset-failed"
	}
	synctest.Wait()
	for len(h.csink) > 0 {
		<-h.csink
	}
	return "creset"
}

var verifC13IDRe = regexp.MustCompile(`"vid":(\d+)|"client":"id(\d+)"`)

func (h *verifC13H) cseq() string {
	var ids []string
	for len(h.csink) > 0 {
		m := string(<-h.csink)
		for _, sm := range verifC13IDRe.FindAllStringSubmatch(m, -1) {
			if sm[1] != "" {
				ids = append(ids, sm[1])
			} else {
				ids = append(ids, sm[2])
			}
		}
	}
	return "seq=[" + strings.Join(ids, ",") + "]"
}

func (h *verifC13H) step(ws []string) (res string) {
	defer func() {
		if r := recover(); r != nil {
			res = "PANIC"
		}
	}()
	if len(ws) == 0 {
		return "bad-op"
	}
	switch ws[0] {
	case "creset":
		d, ok1 := verifC13Int(ws, "delay")
		sz, ok2 := verifC13Int(ws, "size")
		l, ok3 := verifC13Int(ws, "latest")
		if !ok1 || !ok2 || !ok3 || (d == 0 && sz == 0) {
			return "bad-op"
		}
		pos, _ := verifC13Int(ws, "pos")
		return h.creset(d, sz, l, pos)
	case "cadd":
		if h.cnode == nil {
			return "bad-op"
		}
		f, ok1 := verifC13KV(ws, "f")
		id, ok2 := verifC13Int(ws, "id")
		if !ok1 || !ok2 {
			return "bad-op"
		}
		switch f {
		case "p":
			// keyed publication; for a positioned subscriber it also carries an offset (history on), so
			// it takes the position-tracking write path
			var opts []PublishOption
			if key, ok := verifC13Int(ws, "key"); ok && key != 0 {
				opts = append(opts, WithKey("k"+strconv.Itoa(key)))
			}
			if h.cpos {
				opts = append(opts, WithHistory(1000, time.Minute))
			}
			if _, err := h.cnode.Publish("ch", []byte(`{"vid":`+strconv.Itoa(id)+`}`), opts...); err != nil {
				return "publish-failed"
			}
		case "j":
			_ = h.cnode.publishJoin("ch", &ClientInfo{ClientID: "id" + strconv.Itoa(id), UserID: "x"})
		case "l":
			_ = h.cnode.publishLeave("ch", &ClientInfo{ClientID: "id" + strconv.Itoa(id), UserID: "x"})
		default:
			return "bad-op"
		}
		synctest.Wait()
		return h.cseq()
	case "cunsub":
		if h.cnode == nil {
			return "bad-op"
		}
		urw := testReplyWriterWrapper()
		if err := h.cclient.handleUnsubscribe(&protocol.UnsubscribeRequest{Channel: "ch"}, &protocol.Command{Id: 3}, time.Now(), urw.rw); err != nil {
			return "cunsub-failed"
		}
		synctest.Wait()
		return h.cseq()
	case "csub":
		if h.cnode == nil {
			return "bad-op"
		}
		srw := testReplyWriterWrapper()
		if err := h.cclient.handleSubscribe(&protocol.SubscribeRequest{Channel: "ch"}, &protocol.Command{Id: 4}, time.Now(), srw.rw); err != nil {
			return "csub-failed"
		}
		synctest.Wait()
		return h.cseq()
	case "csleep":
		if h.cnode == nil || len(ws) != 2 {
			return "bad-op"
		}
		d, err := strconv.Atoi(ws[1])
		if err != nil || d < 0 {
			return "bad-op"
		}
		time.Sleep(time.Duration(d) * time.Millisecond)
		synctest.Wait()
		return h.cseq()
	case "race":
		d := 10
		if len(ws) == 2 {
			if n, err := strconv.Atoi(ws[1]); err == nil && n > 0 {
				d = n
			}
		}
		return verifC13Race(d)
	case "reset":
		// no Node may be alive while virtual time is fast-forwarded (its periodic tasks would run
		// thousands of times)
		h.cstop()
		if h.pcw != nil {
			h.pcw.Close(false)
			// let timers of writers that were removed from the map (still reachable through a
			// handle) run out before the next scenario starts
			time.Sleep(time.Hour)
			synctest.Wait()
		}
		h.pcw = newPerChannelWriter(h.flushFn)
		h.handle = nil
		h.takeGroup()
		return "reset"
	}
	if h.pcw == nil {
		return "bad-op"
	}
	switch ws[0] {
	case "add":
		ch, ok := verifC13KV(ws, "ch")
		it, cfg, ok2 := verifC13Add(ws)
		if !ok || !ok2 {
			return "bad-op"
		}
		h.pcw.Add(it, ch, cfg)
		synctest.Wait()
		return verifC13Out([]string{h.takeGroup()})
	case "get":
		ch, ok := verifC13KV(ws, "ch")
		if !ok {
			return "bad-op"
		}
		h.handle = h.pcw.getWriter(ch)
		return "got"
	case "addh":
		it, cfg, ok := verifC13Add(ws)
		if !ok || h.handle == nil {
			return "bad-op"
		}
		h.handle.Add(it, cfg)
		synctest.Wait()
		return verifC13Out([]string{h.takeGroup()})
	case "gadd":
		// an Add that races a timer flush which is held inside the flush callback
		ch, ok := verifC13KV(ws, "ch")
		it, cfg, ok2 := verifC13Add(ws)
		if !ok || !ok2 {
			return "bad-op"
		}
		h.mu.Lock()
		h.gateArmed = true
		h.entered = make(chan struct{})
		h.gate = make(chan struct{})
		entered, gate := h.entered, h.gate
		h.mu.Unlock()
		in := false
		for i := 0; i < 64 && !in; i++ {
			time.Sleep(time.Millisecond)
			synctest.Wait()
			select {
			case <-entered:
				in = true
			default:
			}
		}
		if !in {
			h.mu.Lock()
			h.gateArmed = false
			h.mu.Unlock()
			h.pcw.Add(it, ch, cfg)
			synctest.Wait()
			return verifC13Out([]string{h.takeGroup()})
		}
		addDone := make(chan struct{})
		go func() {
			h.pcw.Add(it, ch, cfg)
			close(addDone)
		}()
		// give the Add every chance to run while the flush is held (it blocks on the writer's
		// mutex when the flush callback is invoked under that lock; a mutex block is not durable,
		// so the virtual clock cannot be used to wait here)
		for i := 0; i < 2000; i++ {
			select {
			case <-addDone:
				i = 2000
			default:
				runtime.Gosched()
			}
		}
		close(gate)
		<-addDone
		synctest.Wait()
		return verifC13Out([]string{h.takeGroup()})
	case "sleep":
		if len(ws) != 2 {
			return "bad-op"
		}
		d, err := strconv.Atoi(ws[1])
		if err != nil || d < 0 {
			return "bad-op"
		}
		var groups []string
		for i := 0; i < d; i++ {
			time.Sleep(time.Millisecond)
			synctest.Wait()
			groups = append(groups, h.takeGroup())
		}
		return verifC13Out(groups)
	case "del":
		ch, ok := verifC13KV(ws, "ch")
		fl, ok2 := verifC13Int(ws, "flush")
		if !ok || !ok2 {
			return "bad-op"
		}
		h.pcw.delWriter(ch, fl != 0)
		synctest.Wait()
		return verifC13Out([]string{h.takeGroup()})
	case "closeall":
		fl, ok := verifC13Int(ws, "flush")
		if !ok {
			return "bad-op"
		}
		h.pcw.Close(fl != 0)
		synctest.Wait()
		return verifC13Out([]string{h.takeGroup()})
	}
	return "bad-op"
}

func TestVerifC13(t *testing.T) {
	in, err := os.Open(os.Getenv("VERIF_OPS"))
	if err != nil {
		t.Skip("no VERIF_OPS")
	}
	defer in.Close()
	out, err := os.Create(os.Getenv("VERIF_OUT"))
	if err != nil {
		t.Fatal(err)
	}
	defer out.Close()
	bw := bufio.NewWriter(out)
	defer bw.Flush()
	var lines []string
	sc := bufio.NewScanner(in)
	sc.Buffer(make([]byte, 1<<20), 1<<26)
	for sc.Scan() {
		lines = append(lines, sc.Text())
	}
	synctest.Test(t, func(t *testing.T) {
		h := &verifC13H{}
		for _, line := range lines {
			if line == "" || strings.HasPrefix(line, "#") {
				fmt.Fprintln(bw, "#")
				continue
			}
			fmt.Fprintln(bw, h.step(strings.Fields(line)))
			bw.Flush()
		}
		if h.pcw != nil {
			h.pcw.Close(false)
		}
		h.cstop()
		synctest.Wait()
	})
}
