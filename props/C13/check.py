"""C13 — per-channel batching preserves order and coalesces correctly.

Proof: lean/CentrifugeVerif/Props/C13.lean over Model/ChanWriter.lean.
Tie: the real perChannelWriter/channelWriter (client_experimental.go) with a recording flush callback is
run inside a synctest bubble (virtual batch timers) on the same op lines as the Lean driver; outputs are
compared per virtual instant.  Oracle: the statement itself — every flushed batch must equal what the
specification prescribes for the items added to that channel since its last flush (in order; in
latest-publication mode join/leave pushes followed by the newest publication per key in last-update
order), nothing twice, nothing that was dropped by close(false)/delWriter(false).
"""
import json
import os
import re
from vlib.core import diff_lines, ddmin


def gen_scenario(rng):
    ops = ["reset"]
    nch = rng.choice([1, 1, 2, 3])
    cfgs = {}
    for c in range(1, nch + 1):
        while True:
            size = rng.choice([0, 0, 1, 2, 3, 5])
            delay = rng.choice([0, 5, 10, 10])
            if size or delay:
                break
        cfgs[c] = [size, delay, rng.choice([0, 0, 1, 1])]
    vary = rng.random() < 0.12
    nid = 0
    n = rng.choice([4, 8, 15, 30, 50])
    have_handle = False
    gadds = rng.choice([0, 0, 0, 1, 2])
    for _ in range(n):
        r = rng.random()
        c = rng.randint(1, nch)
        size, delay, latest = cfgs[c]
        if vary and rng.random() < 0.3:
            size, delay, latest = rng.choice([0, 1, 2, 4]), rng.choice([0, 5, 10]), rng.choice([0, 1])
            if not size and not delay:
                delay = 5
        f = rng.choice(["p", "p", "p", "p", "j", "l"])
        key = rng.choice([0, 0, 1, 1, 2, 3]) if f == "p" else 0
        if r < 0.62:
            nid += 1
            ops.append(f"add ch={c} f={f} key={key} id={nid} size={size} delay={delay} latest={latest}")
        elif r < 0.82:
            d = max(delay, 1)
            ops.append(f"sleep {rng.choice([1, d - 1, d, d, d + 1, 2 * d, 25])}")
        elif r < 0.88:
            ops.append(f"del ch={c} flush={rng.choice([0, 0, 1])}")
        elif r < 0.91:
            ops.append(f"closeall flush={rng.choice([0, 1])}")
        elif r < 0.93:
            ops.append(f"get ch={c}")
            have_handle = True
        elif r < 0.96 and gadds > 0:
            gadds -= 1
            nid += 1
            ops.append(f"gadd ch={c} f={f} key={key} id={nid} size={size} delay={delay} latest={latest}")
        elif have_handle:
            nid += 1
            ops.append(f"addh f={f} key={key} id={nid} size={size} delay={delay} latest={latest}")
        else:
            ops.append("sleep 1")
    if rng.random() < 0.5:
        ops.append("sleep 30")
    if rng.random() < 0.5:
        ops.append(f"closeall flush={rng.choice([0, 1, 1])}")
    return ops


def gen_client_scenario(rng):
    """publications, joins and leaves through a real Node + Client with a channel batch config"""
    while True:
        size = rng.choice([0, 0, 2, 3, 5])
        delay = rng.choice([0, 5, 10, 10])
        if size or delay:
            break
    latest = rng.choice([0, 0, 1, 1])
    pos = rng.choice([0, 1])
    ops = [f"creset delay={delay} size={size} latest={latest} pos={pos}"]
    nid = 0
    nkeys = rng.choice([0, 2, 3])
    subbed = True
    p_unsub = rng.choice([0.0, 0.08, 0.15])
    for _ in range(rng.choice([4, 8, 14, 24])):
        if rng.random() < p_unsub:
            # unsubscribe (and later resubscribe) while pushes may sit in the channel batch
            ops.append("cunsub" if subbed else "csub")
            subbed = not subbed
            continue
        if rng.random() < 0.75:
            nid += 1
            f = rng.choice(['p', 'p', 'p', 'p', 'j', 'l'])
            key = rng.randint(1, nkeys) if (f == 'p' and nkeys) else 0
            ops.append(f"cadd f={f} id={nid} key={key}")
        else:
            d = max(delay, 1)
            ops.append(f"csleep {rng.choice([1, d - 1, d, d + 1, 2 * d])}")
    ops.append(f"csleep {max(delay, 1) + 1}")
    return ops


def client_oracle(sc, out):
    cfg = kvs(sc[0])
    latest, delay = cfg["latest"] == "1", int(cfg["delay"])
    size = int(cfg["size"])
    kinds, keys, delivered, pending = {}, {}, [], []
    subbed, dropped = True, set()

    def spec(pend):
        if not latest:
            return list(pend)
        nonpub = [i for i in pend if kinds[i] != "p"]
        pubs = [i for i in pend if kinds[i] == "p"]
        newest = [i for n, i in enumerate(pubs) if not any(keys[j] == keys[i] for j in pubs[n + 1:])]
        return nonpub + newest

    for op, o in zip(sc, out):
        ws = op.split()
        if o == "<missing>":
            return f"no output for `{op}` (crash, deadlock or hang)"
        if o == "PANIC" or o.endswith("-failed"):
            return f"`{op}`: {o}"
        if ws[0] == "creset":
            continue
        if o == "bad-op":
            return "harness rejected op " + op
        if ws[0] == "cadd":
            kv = kvs(op)
            i = int(kv["id"])
            kinds[i], keys[i] = kv["f"], kv.get("key", "0")
            if subbed:
                pending.append(i)
            else:
                dropped.add(i)
        if ws[0] == "cunsub":
            # the subscription ends here: what is still batched for the channel must never be delivered
            dropped.update(pending)
            pending = []
            subbed = False
        if ws[0] == "csub":
            subbed = True
        got = [int(x) for x in o[len("seq=["):-1].split(",") if x]
        for i in got:
            if i not in kinds:
                return f"at `{op}` the connection received push {i} that was never produced"
            if i in delivered:
                return f"push {i} delivered twice"
            if i in dropped:
                return (f"at `{op}` push {i}, produced before the unsubscribe (or while unsubscribed), was delivered "
                        f"after the subscription ended")
            delivered.append(i)
        if got:
            # one op causes at most one flush of the channel's batch
            want = spec(pending)
            if got != want:
                what = ("join/leave pushes then the newest publication of each key in last-update order"
                        if latest else "the pushes produced since the last flush, in order")
                return f"at `{op}` the connection received {got}; expected {what} = {want}"
            pending = []
        if ws[0] == "cadd" and size > 0 and len(spec(pending)) >= size:
            return (f"after `{op}` {len(spec(pending))} pushes are batched for the channel although MaxSize is {size} "
                    f"(no size-triggered flush)")
        if ws[0] == "csleep" and delay > 0 and int(ws[1]) >= delay and pending:
            return f"after `{op}` pushes {spec(pending)[:6]} are still not delivered although MaxDelay {delay}ms elapsed"
    return None


def kvs(op):
    return dict(w.split("=", 1) for w in op.split()[1:] if "=" in w)


def parse_out(line):
    """-> list of groups, each a list of batches (lists of ids)"""
    if not line.startswith("out=") or line == "out=-":
        return []
    return [[[int(x) for x in b.strip("[]").split(",") if x] for b in g.split(";")] for g in line[4:].split("|")]


def canon(line):
    if not line.startswith("out="):
        return line
    gs = parse_out(line)
    return "out=" + "|".join(";".join(sorted("[" + ",".join(map(str, b)) + "]" for b in g)) for g in gs) if gs else "out=-"


def coalesce(pending):
    """spec: join/leave in order, then newest publication per key in last-update order"""
    nonpub = [x for x in pending if x["f"] != "p"]
    pubs = [x for x in pending if x["f"] == "p"]
    out = []
    for i, x in enumerate(pubs):
        if not any(y["key"] == x["key"] for y in pubs[i + 1:]):
            out.append(x)
    return nonpub + out


def oracle(sc, out):
    """Writers are tracked by identity (a channel maps to a writer; `get` keeps a handle)."""
    if sc and sc[0].startswith("creset"):
        return client_oracle(sc, out)
    writers = {}      # wid -> dict(pending=[items], latest flags seen, closed)
    chmap = {}        # channel -> wid
    item_w = {}       # id -> wid
    delivered = set()
    handle = None
    nw = 0

    def new_writer():
        nonlocal nw
        nw += 1
        writers[nw] = {"pending": [], "modes": set(), "delays": set(), "sizes": set()}
        return nw

    def do_add(wid, kv):
        it = {"id": int(kv["id"]), "f": kv["f"], "key": kv["key"]}
        w = writers[wid]
        w["pending"].append(it)
        w["modes"].add(kv["latest"])
        w["delays"].add(int(kv["delay"]))
        w["sizes"].add(int(kv["size"]))
        w["lastmode"] = kv["latest"]
        item_w[it["id"]] = wid

    for op, o in zip(sc, out):
        ws = op.split()
        if o == "<missing>":
            return f"no output for `{op}` (crash, deadlock or hang)"
        if o == "PANIC":
            return f"panic at `{op}`"
        if o == "bad-op":
            return "harness rejected op " + op
        kv = kvs(op)
        if ws[0] == "race":
            okv = kvs(o)
            if okv.get("pub_after_unsub") == "1":
                return ("race: a publication that passed the subscribed check was buffered by the per-channel "
                        "writer and delivered after the unsubscribe reply")
            if okv.get("unsub_reply") != "1":
                return "race: no unsubscribe reply"
            continue
        if ws[0] == "reset":
            writers, chmap, item_w, delivered, handle = {}, {}, {}, set(), None
            continue
        late_add = None
        if ws[0] == "gadd":
            # the Add races a timer flush that is held in the flush callback: batches without the new
            # item were cut before the Add, so they are judged first
            if kv["ch"] not in chmap:
                chmap[kv["ch"]] = new_writer()
            late_add = (chmap[kv["ch"]], kv)
        if ws[0] == "add":
            if kv["ch"] not in chmap:
                chmap[kv["ch"]] = new_writer()
            do_add(chmap[kv["ch"]], kv)
        elif ws[0] == "get":
            if kv["ch"] not in chmap:
                chmap[kv["ch"]] = new_writer()
            handle = chmap[kv["ch"]]
        elif ws[0] == "addh":
            do_add(handle, kv)
        dropped_now = []
        if ws[0] == "del" and kv["flush"] == "0" and kv["ch"] in chmap:
            dropped_now = [chmap[kv["ch"]]]
        if ws[0] == "closeall" and kv["flush"] == "0":
            dropped_now = list(chmap.values())
        batches = [b for g in parse_out(o) for b in g]
        if late_add:
            nid_ = int(late_add[1]["id"])
            batches = [b for b in batches if nid_ not in b] + ["ADD"] + [b for b in batches if nid_ in b]
        for g in [batches]:
            for b in g:
                if b == "ADD":
                    do_add(late_add[0], late_add[1])
                    continue
                if not b:
                    continue
                wids = {item_w.get(i) for i in b}
                if None in wids:
                    return f"at `{op}` an item that was never added was flushed: {b}"
                if len(wids) != 1:
                    return f"at `{op}` one batch mixes items of different channel writers: {b}"
                wid = wids.pop()
                w = writers[wid]
                for i in b:
                    if i in delivered:
                        return f"item {i} flushed twice"
                    delivered.add(i)
                if wid in dropped_now:
                    return f"`{op}` flushed {b} although it must drop what is buffered"
                pend_ids = [x["id"] for x in w["pending"]]
                if any(i not in pend_ids for i in b):
                    return (f"at `{op}` batch {b} contains items that were dropped earlier or already "
                            f"flushed (pending {pend_ids})")
                if w["modes"] == {"0"}:
                    want = pend_ids
                    if b != want:
                        return (f"at `{op}` batch {b} differs from the items added since the last flush "
                                f"{want} (order/loss)")
                elif w["modes"] == {"1"}:
                    want = [x["id"] for x in coalesce(w["pending"])]
                    if b != want:
                        return (f"at `{op}` latest-publication batch {b}: expected join/leave pushes then the newest "
                                f"publication per key in last-update order = {want}")
                # (a writer whose adds came with different FlushLatestPublication values is outside the
                # statement: only membership and at-most-once are checked for it)
                if len(w["sizes"]) == 1 and 0 not in w["sizes"] and len(w["modes"]) == 1 \
                        and len(b) > max(w["sizes"]):
                    return f"at `{op}` batch of {len(b)} items exceeds MaxSize {max(w['sizes'])}"
                w["pending"] = []
                w["modes"], w["delays"], w["sizes"] = set(), set(), set()
                if "lastmode" in w:
                    pass
        for wid in dropped_now:
            writers[wid]["pending"] = []
            writers[wid]["modes"], writers[wid]["delays"], writers[wid]["sizes"] = set(), set(), set()
        if ws[0] == "del" and kv["ch"] in chmap:
            wid = chmap.pop(kv["ch"])
            if kv["flush"] == "1" and writers[wid]["pending"] and "0" not in writers[wid]["modes"] | {"x"} :
                pass
            if kv["flush"] == "1" and writers[wid]["pending"] and len(writers[wid]["modes"]) == 1:
                return f"`{op}` did not flush the pending items {[x['id'] for x in writers[wid]['pending']]}"
        if ws[0] == "closeall" and kv["flush"] == "1":
            for wid in chmap.values():
                if writers[wid]["pending"] and len(writers[wid]["modes"]) == 1:
                    return f"`{op}` did not flush the pending items {[x['id'] for x in writers[wid]['pending']]}"
        if ws[0] == "sleep":
            d = int(ws[1])
            for wid, w in writers.items():
                if w["pending"] and len(w["modes"]) == 1 and w["delays"] and 0 not in w["delays"] \
                        and d >= max(w["delays"]):
                    return (f"after `{op}` items {[x['id'] for x in w['pending']]} are still buffered although "
                            f"MaxDelay {max(w['delays'])}ms elapsed")
        if ws[0] in ("add", "addh", "gadd"):
            wid = chmap[kv["ch"]] if ws[0] != "addh" else handle
            w = writers[wid]
            if w["pending"] and len(w["sizes"]) == 1 and 0 not in w["sizes"] and len(w["modes"]) == 1:
                cnt = len(w["pending"]) if w["modes"] == {"0"} else len(coalesce(w["pending"]))
                if cnt >= max(w["sizes"]):
                    return f"after `{op}` {cnt} items are buffered although MaxSize is {max(w['sizes'])}"
    return None


def signature(sc, msg):
    return {"oracle": re.sub(r"[\d\[\], ]+", "N", msg)[:70], "via": sc[0].split()[0] if len(sc) == 1 else "ops"}


def split_scenarios(ops):
    scs, cur = [], []
    for op in ops:
        if op.split()[0] == "race":
            if cur:
                scs.append(cur)
            scs.append([op])
            cur = []
            continue
        if op.split()[0] in ("reset", "creset") and cur:
            scs.append(cur)
            cur = []
        cur.append(op)
    if cur:
        scs.append(cur)
    return scs


def run(ctx):
    ctx.rule = ("random scenarios over 1-3 channels with per-channel batch configs (MaxSize in {0,1,2,3,5}, MaxDelay in "
                "{0,5,10}ms, FlushLatestPublication on/off, 12% with a config that varies per add): add "
                "publication/join/leave with keys, virtual sleeps around the delay, delWriter/Close with and "
                "without flush, handle obtained before delWriter and used after, Add racing a timer flush held in the "
                "flush callback; plus client-level scenarios (publication/join/leave through a real Node+Client with a "
                "batch config); non-trivial = a flush or a drop "
                "happened; distinct = distinct scenario text")
    ctx.assumptions = ["several channel timers due at the same virtual instant may fire in any order: batches are "
                       "compared as a multiset per instant",
                       "perChannelWriter.Close iterates a Go map: its batches are compared as a multiset"]
    proofs_ok = ctx.lean_obligations()
    binary = ctx.go_test_binary(".", ["props/C13/harness/root/zz_verif_c13_test.go"])
    if binary is None:
        ctx.violation("correspondence", "harness no longer builds against client_experimental.go",
                      signature={"kind": "harness-build"}, replay={"log": getattr(ctx, "build_error", "")},
                      no_input=True)
        return
    here = os.path.dirname(__file__)
    # re-derive the known findings from their stored replays (KNOWN-FINDING only if they still reproduce)
    fpath = os.path.join(here, "findings.json")
    if os.path.exists(fpath) and not ctx.replay:
        for f in json.load(open(fpath)).get("findings", []):
            fops = f["replay"]["ops"]
            fo = ctx.go_run(binary, "TestVerifC13", fops, timeout=120)
            fo = fo + ["<missing>"] * (len(fops) - len(fo))
            msg = oracle(fops, fo)
            if msg:
                ctx.violation("property", msg, signature=signature(fops, msg), replay={"ops": fops, "impl": fo})
                ctx.count("known-finding-reproduced")
            else:
                ctx.notes.append(f"finding {f['id']} no longer reproduces on this tree")
    if ctx.replay:
        scs = split_scenarios(json.load(open(ctx.replay)).get("ops", []))
    else:
        corpus = [l.strip() for l in open(os.path.join(here, "corpus.ops")) if l.strip() and not l.startswith("#")]
        scs = split_scenarios(corpus) + [gen_scenario(ctx.rng) for _ in range(ctx.scale(2500, 25000))]
        scs += [[f"race {d}"] for d in (5, 10, 50)]
        scs += [gen_client_scenario(ctx.rng) for _ in range(ctx.scale(120, 3000))]
    ops = [op for s in scs for op in s]
    ctx.log("harness built")
    impl = ctx.go_run(binary, "TestVerifC13", ops, timeout=ctx.scale(300, 1500))
    ctx.log(f"implementation ran {len(impl)}/{len(ops)} lines")
    model = ctx.lean_run(ops)
    ctx.log("model ran")
    if model is None:
        proofs_ok = False
        model = []
    pos, nviol, ndiff = 0, 0, 0
    for s in scs:
        out = impl[pos:pos + len(s)]
        mout = model[pos:pos + len(s)]
        pos += len(s)
        out = out + ["<missing>"] * (len(s) - len(out))
        flushed = any((o.startswith("out=") and o != "out=-") or (o.startswith("seq=[") and o != "seq=[]") for o in out)
        ctx.record("\n".join(s), nontrivial=flushed or any(" flush=0" in op for op in s))
        for op, o in zip(s, out):
            ctx.count(op.split()[0])
            if o.startswith("seq=[") and o != "seq=[]":
                ctx.count("client-delivery:" + op.split()[0])
            if o.startswith("out=") and o != "out=-":
                ctx.count("flush:" + op.split()[0])
        msg = oracle(s, out)
        if msg and ctx._match_known(signature(s, msg)) is not None:
            ctx.violation("property", msg, signature=signature(s, msg), replay={"ops": s, "impl": out})
            ctx.count("known-finding-instances")
            continue
        if msg:
            nviol += 1
            if nviol <= 3:
                def fails(sub):
                    sub = [s[0]] + [x for x in sub if x != s[0]]
                    o = ctx.go_run(binary, "TestVerifC13", sub)
                    m = oracle(sub, o + ["<missing>"] * (len(sub) - len(o)))
                    return m is not None and not m.startswith("harness rejected")
                small = s
                try:
                    if fails(s):
                        small = [s[0]] + [x for x in ddmin(s, fails) if x != s[0]]
                except Exception as e:
                    ctx.notes.append(f"shrink failed: {e}")
                so = ctx.go_run(binary, "TestVerifC13", small)
                smsg = oracle(small, so + ["<missing>"] * (len(small) - len(so))) or msg
                ctx.violation("property", smsg, signature=signature(small, smsg),
                              replay={"ops": small, "impl": so, "original": s})
            continue
        if mout:
            a = [canon(x) for x in out]
            b = [canon(x) for x in mout + ["<missing>"] * (len(s) - len(mout))]
            for i, op, x, y in diff_lines(s, a, b):
                ndiff += 1
                if ndiff <= 3:
                    ctx.violation("correspondence", f"model and implementation differ at `{op}`: impl `{x}` model `{y}`",
                                  signature={"kind": "diff", "op": op.split()[0]},
                                  replay={"ops": s[:i + 1], "impl": out[:i + 1], "model": mout[:i + 1],
                                          "correspondence": "Drivers/C13.lean vs client_experimental.go"},
                                  no_input=True)
                break
    ctx.traces_validated = len(scs)
    ctx.extra["disagreements"] = ndiff
    if not proofs_ok:
        ctx.proof_broken()
