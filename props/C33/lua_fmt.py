"""Translator for C33: extracts the PUB/SUB payload framing expressions from the Redis Lua scripts
(`payload = "__" .. "p1:" .. top_offset .. …`) and the join/leave prefixes from broker_redis.go and
renders them as `Gen/RedisPushFmt.lean`.  Fails loudly on anything it does not understand, so a
changed script changes (or breaks) the model instead of being silently ignored."""
import os
import re

VARS = {
    "top_offset": "offset", "current_epoch": "epoch", "prev_message_payload": "prev",
    "message_payload": "payload", "#prev_message_payload": "prevLen", "#message_payload": "payloadLen",
}


class TranslateError(Exception):
    pass


def strip_comment(line):
    # the scripts contain no "--" inside string literals on the relevant lines; verify
    i = line.find("--")
    if i >= 0:
        if line[:i].count('"') % 2 == 1:
            raise TranslateError("'--' inside a string literal: " + line)
        line = line[:i]
    return line.rstrip()


def payload_exprs(src):
    """All right-hand sides of `payload = …` / `local payload = …` as token lists."""
    lines = [strip_comment(l) for l in src.splitlines()]
    out = []
    i = 0
    while i < len(lines):
        m = re.match(r"^\s*(local\s+)?payload\s*=\s*(.*)$", lines[i])
        if not m:
            i += 1
            continue
        expr = m.group(2)
        j = i + 1
        # continuation: the expression continues while it ends with `..` or the next line starts with `..`
        while expr.rstrip().endswith("..") or (j < len(lines) and lines[j].lstrip().startswith("..")):
            if j >= len(lines):
                raise TranslateError("unterminated payload expression")
            expr += " " + lines[j].strip()
            j += 1
        out.append(tokenize(expr))
        i = j
    return out


def tokenize(expr):
    toks = []
    s = expr.strip()
    pos = 0
    expect_operand = True
    while pos < len(s):
        if s[pos].isspace():
            pos += 1
            continue
        if expect_operand:
            m = re.match(r'"((?:[^"\\])*)"', s[pos:])
            if m:
                toks.append(("lit", m.group(1)))
                pos += m.end()
            else:
                m = re.match(r"#?[A-Za-z_][A-Za-z_0-9]*", s[pos:])
                if not m:
                    raise TranslateError(f"unsupported operand at `{s[pos:]}` in `{expr}`")
                name = m.group(0)
                if name not in VARS:
                    raise TranslateError(f"unknown variable `{name}` in payload expression `{expr}`")
                toks.append((VARS[name], None))
                pos += m.end()
            expect_operand = False
        else:
            if not s.startswith("..", pos):
                raise TranslateError(f"expected `..` at `{s[pos:]}` in `{expr}`")
            pos += 2
            expect_operand = True
    if expect_operand:
        raise TranslateError("dangling `..` in " + expr)
    return toks


def classify(exprs, name):
    """exactly one delta ("d1:") and one positioned ("p1:") framing per script"""
    res = {}
    for t in exprs:
        lits = [v for k, v in t if k == "lit"]
        kind = "delta" if any(v.startswith("d1:") for v in lits) else "plain" if any(v.startswith("p1:") for v in lits) else None
        if kind is None:
            raise TranslateError(f"{name}: payload expression with neither p1: nor d1: marker: {t}")
        if kind in res and res[kind] != t:
            raise TranslateError(f"{name}: two different {kind} framings")
        res[kind] = t
    if set(res) != {"delta", "plain"}:
        raise TranslateError(f"{name}: expected one delta and one plain framing, found {sorted(res)}")
    return res


def list_prev_source(src):
    """What the list script uses as previous payload (raw list head = framed entry)."""
    m = re.search(r'prev_message_payload\s*=\s*redis\.call\("lindex",\s*list_key,\s*0\)\s*or\s*""', src)
    pushes_framed = re.search(r'redis\.call\("lpush",\s*list_key,\s*payload\)', src) is not None
    return bool(m), pushes_framed


def go_prefixes(src):
    out = {}
    for nm in ("joinTypePrefix", "leaveTypePrefix", "metaSep"):
        m = re.search(nm + r'\s*=\s*\[\]byte\("([^"\\]*)"\)', src)
        if not m:
            raise TranslateError("cannot find " + nm)
        out[nm] = m.group(1)
    m = re.search(r'contentSep\s*=\s*"([^"\\]*)"', src)
    if not m:
        raise TranslateError("cannot find contentSep")
    out["contentSep"] = m.group(1)
    return out


def extract(repo):
    fm = {}
    for key, fn in (("stream", "broker_history_add_stream.lua"), ("list", "broker_history_add_list.lua")):
        src = open(os.path.join(repo, "internal", "redis_lua", fn)).read()
        fm[key] = classify(payload_exprs(src), fn)
        if key == "list":
            fm["list_prev_is_list_head"], fm["list_pushes_framed"] = list_prev_source(src)
    fm["go"] = go_prefixes(open(os.path.join(repo, "broker_redis.go")).read())
    return fm


def lean_bytes(s):
    return "[" + ", ".join(str(b) for b in s.encode()) + "]"


def lean_pieces(toks):
    ps = []
    for k, v in toks:
        ps.append(f".lit {lean_bytes(v)} /- {v!r} -/" if k == "lit" else "." + k)
    return "[" + ",\n   ".join(ps) + "]"


def render_lean(fm):
    g = fm["go"]
    return f"""import CentrifugeVerif.Model.RedisPushPiece
/-! GENERATED by props/C33/lua_fmt.py from internal/redis_lua/broker_history_add_{{stream,list}}.lua
and broker_redis.go — do not edit. -/
namespace CentrifugeVerif.Gen.RedisPushFmt
open CentrifugeVerif.RedisPush

def streamPlain : List Piece :=
  {lean_pieces(fm['stream']['plain'])}

def streamDelta : List Piece :=
  {lean_pieces(fm['stream']['delta'])}

def listPlain : List Piece :=
  {lean_pieces(fm['list']['plain'])}

def listDelta : List Piece :=
  {lean_pieces(fm['list']['delta'])}

/-- the list script takes `lindex list_key 0` (an entry it stored *framed*) as previous payload -/
def listPrevIsFramedListHead : Bool := {'true' if fm['list_prev_is_list_head'] and fm['list_pushes_framed'] else 'false'}

def joinPrefix : Bytes := {lean_bytes(g['joinTypePrefix'])} /- {g['joinTypePrefix']!r} -/
def leavePrefix : Bytes := {lean_bytes(g['leaveTypePrefix'])} /- {g['leaveTypePrefix']!r} -/
def metaSep : Bytes := {lean_bytes(g['metaSep'])} /- {g['metaSep']!r} -/
def contentSep : Bytes := {lean_bytes(g['contentSep'])} /- {g['contentSep']!r} -/

end CentrifugeVerif.Gen.RedisPushFmt
"""


def render_py(toks, off, epoch, prev, payload):
    """Python rendering of a framing (bytes).  Lua formats numbers with %.14g."""
    out = b""
    for k, v in toks:
        if k == "lit":
            out += v.encode()
        elif k == "offset":
            out += lua_num(off)
        elif k == "epoch":
            out += epoch
        elif k == "prevLen":
            out += lua_num(len(prev))
        elif k == "prev":
            out += prev
        elif k == "payloadLen":
            out += lua_num(len(payload))
        elif k == "payload":
            out += payload
    return out


def lua_num(n):
    if n >= 10 ** 14:
        raise ValueError("Lua %.14g formatting switches to exponent notation; outside the modelled domain")
    return str(n).encode()
