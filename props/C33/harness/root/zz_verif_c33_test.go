//go:build verif

package centrifuge

// Verification harness for C33 (injected with `go test -overlay`, never part of the repo).
// Reads one operation per line from $VERIF_OPS, writes one canonical line per op to $VERIF_OUT.
//   ext <hex>    -> extractPushData    (PANIC | ok=.. type=.. off=.. epoch=.. delta=.. data=.. prev=..)
//   pdp <hex>    -> parseDeltaPush     (PANIC | err=<kind> | ok off=.. epoch=.. pl=.. prev=.. l=.. payload=..)
//   handle <hex> -> RedisBroker.handleRedisClientMessage with a recording handler
//                   (PANIC | err | nothing | pub … | join … | leave …)
//   marshal <datahex> <delta>, marshalinfo <user> <client> -> the protobuf bytes the broker frames
// Other ops (model only) answer "n/a".

import (
	"bufio"
	"encoding/hex"
	"fmt"
	"os"
	"strings"
	"testing"

	"github.com/centrifugal/protocol"
)

func verifC33Hex(b []byte) string {
	if len(b) == 0 {
		return "-"
	}
	return hex.EncodeToString(b)
}

func verifC33Unhex(s string) ([]byte, bool) {
	if s == "-" {
		return []byte{}, true
	}
	b, err := hex.DecodeString(s)
	return b, err == nil
}

func verifC33B(b bool) string {
	if b {
		return "1"
	}
	return "0"
}

func verifC33ErrKind(err error) string {
	m := err.Error()
	switch {
	case strings.HasPrefix(m, "input does not start with the expected prefix"):
		return "noPrefix"
	case strings.HasPrefix(m, "invalid format, missing offset"):
		return "missingOffset"
	case strings.HasPrefix(m, "error parsing offset"):
		return "badOffset"
	case strings.HasPrefix(m, "invalid format, missing epoch"):
		return "missingEpoch"
	case strings.HasPrefix(m, "invalid format, missing prev payload length"):
		return "missingPrevLen"
	case strings.HasPrefix(m, "error parsing prev payload length"):
		return "badPrevLen"
	case strings.HasPrefix(m, "input is shorter than expected prev payload length"):
		return "shortPrev"
	case strings.HasPrefix(m, "invalid format, missing payload"):
		return "missingPayload"
	case strings.HasPrefix(m, "error parsing payload_length"):
		return "badPayloadLen"
	case strings.HasPrefix(m, "input is shorter than expected payload length"):
		return "shortPayload"
	}
	return "other:" + strings.ReplaceAll(m, " ", "_")
}

type verifC33Handler struct{ got string }

func (h *verifC33Handler) HandlePublication(ch string, pub *Publication, sp StreamPosition, delta bool, prev *Publication) error {
	pv := "nil"
	if prev != nil {
		pv = verifC33Hex(prev.Data)
	}
	h.got = fmt.Sprintf("pub ch=%s off=%d puboff=%d epoch=%s delta=%s data=%s prev=%s", verifC33Hex([]byte(ch)), sp.Offset,
		pub.Offset, verifC33Hex([]byte(sp.Epoch)), verifC33B(delta), verifC33Hex(pub.Data), pv)
	return nil
}
func (h *verifC33Handler) HandleJoin(ch string, info *ClientInfo) error {
	h.got = fmt.Sprintf("join ch=%s user=%s client=%s", verifC33Hex([]byte(ch)), verifC33Hex([]byte(info.UserID)), verifC33Hex([]byte(info.ClientID)))
	return nil
}
func (h *verifC33Handler) HandleLeave(ch string, info *ClientInfo) error {
	h.got = fmt.Sprintf("leave ch=%s user=%s client=%s", verifC33Hex([]byte(ch)), verifC33Hex([]byte(info.UserID)), verifC33Hex([]byte(info.ClientID)))
	return nil
}

func verifC33Step(line string) (res string) {
	defer func() {
		if r := recover(); r != nil {
			res = "PANIC"
		}
	}()
	ws := strings.Fields(line)
	if len(ws) < 2 {
		return "bad-op"
	}
	switch ws[0] {
	case "ext":
		in, ok := verifC33Unhex(ws[1])
		if !ok {
			return "bad-op"
		}
		// the function aliases its input; give it a private copy
		data, typ, sp, delta, prev, okk := extractPushData(append([]byte(nil), in...))
		return fmt.Sprintf("ok=%s type=%d off=%d epoch=%s delta=%s data=%s prev=%s", verifC33B(okk), int(typ),
			sp.Offset, verifC33Hex([]byte(sp.Epoch)), verifC33B(delta), verifC33Hex(data), verifC33Hex(prev))
	case "pdp":
		in, ok := verifC33Unhex(ws[1])
		if !ok {
			return "bad-op"
		}
		d, err := parseDeltaPush(string(in))
		if err != nil {
			return "err=" + verifC33ErrKind(err)
		}
		return fmt.Sprintf("ok off=%d epoch=%s pl=%d prev=%s l=%d payload=%s", d.Offset, verifC33Hex([]byte(d.Epoch)),
			d.PrevPayloadLength, verifC33Hex([]byte(d.PrevPayload)), d.PayloadLength, verifC33Hex([]byte(d.Payload)))
	case "handle":
		in, ok := verifC33Unhex(ws[1])
		if !ok {
			return "bad-op"
		}
		b := &RedisBroker{messagePrefix: "centrifuge.client."}
		h := &verifC33Handler{}
		err := b.handleRedisClientMessage(false, h, channelID("centrifuge.client.ch"), append([]byte(nil), in...))
		if err != nil {
			return "err"
		}
		if h.got == "" {
			return "nothing"
		}
		return h.got
	case "marshal":
		// marshal <datahex> <delta 0|1>: the bytes RedisBroker.publish hands to Redis for a Publication
		in, ok := verifC33Unhex(ws[1])
		if !ok || len(ws) < 3 {
			return "bad-op"
		}
		pp := &protocol.Publication{Data: in, Delta: ws[2] == "1"}
		bs, err := pp.MarshalVT()
		if err != nil {
			return "err"
		}
		return "bytes=" + verifC33Hex(bs)
	case "marshalinfo":
		// marshalinfo <userhex> <clienthex>: the bytes publishJoin/publishLeave frame
		u, ok1 := verifC33Unhex(ws[1])
		if !ok1 || len(ws) < 3 {
			return "bad-op"
		}
		c, ok2 := verifC33Unhex(ws[2])
		if !ok2 {
			return "bad-op"
		}
		bs, err := infoToProto(&ClientInfo{UserID: string(u), ClientID: string(c)}).MarshalVT()
		if err != nil {
			return "err"
		}
		return "bytes=" + verifC33Hex(bs)
	}
	return "n/a"
}

func TestVerifC33(t *testing.T) {
	opsPath, outPath := os.Getenv("VERIF_OPS"), os.Getenv("VERIF_OUT")
	if opsPath == "" || outPath == "" {
		t.Skip("VERIF_OPS/VERIF_OUT not set")
	}
	in, err := os.Open(opsPath)
	if err != nil {
		t.Fatal(err)
	}
	defer in.Close()
	out, err := os.Create(outPath)
	if err != nil {
		t.Fatal(err)
	}
	defer out.Close()
	w := bufio.NewWriter(out)
	defer w.Flush()
	sc := bufio.NewScanner(in)
	sc.Buffer(make([]byte, 1<<20), 1<<26)
	for sc.Scan() {
		line := strings.TrimRight(sc.Text(), "\r\n")
		if line == "" || strings.HasPrefix(line, "#") {
			fmt.Fprintln(w, "#")
			continue
		}
		fmt.Fprintln(w, verifC33Step(line))
	}
}
