"""C33 — Redis PUB/SUB payload framing round-trips; parsing is total.

Proof: lean/CentrifugeVerif/Props/C33.lean over Model/RedisPush.lean (+ Gen/RedisPushFmt.lean, regenerated
on every run from the Lua scripts by lua_fmt.py).
Tie: T1 (translator) + T2: differential run of extractPushData / parseDeltaPush / handleRedisClientMessage
(in-package harness, `recover`) against the Lean driver on a malformed stream near the grammar and a
round-trip stream whose frames are rendered from the *extracted* Lua expressions around payloads marshalled
by the real protobuf code.
Oracle: (a) no op may panic, (b) the decoded tuple equals what was framed.
Findings: C33-1…4 (slice-bounds panics on four narrow input shapes) are FIXED in /repo by e8dc9ebe — their replay
ops stay in corpus.ops, a regression is a VIOLATION again (signature class "regression-…"); C33-6 (the first guard
`len(input) < prevPayloadLength+1` overflowed for a declared length of MaxInt64) is FIXED by efc5e395, its replay ops
stay in corpus.ops too (signature class "prevLenMaxInt"); C33-5 (known, re-derived every run): list script + delta
hands the framed list entry over as previous payload.
"""
import json
import os
import sys

sys.path.insert(0, os.path.dirname(os.path.abspath(__file__)))
import lua_fmt  # noqa: E402
from vlib.core import REPO  # noqa: E402

HERE = os.path.dirname(os.path.abspath(__file__))
HARNESS = "props/C33/harness/root/zz_verif_c33_test.go"
I63 = 2 ** 63
U64 = 2 ** 64


def hx(b):
    return b.hex() if b else "-"


def unhx(s):
    return b"" if s == "-" else bytes.fromhex(s)


# ------------------------------------------------------------------ independent Python classifier
def go_parse_uint(s):
    if not s:
        return None
    v = 0
    for c in s:
        if not 48 <= c <= 57:
            return None
        v = v * 10 + (c - 48)
        if v >= U64:
            return None
    return v


def go_atoi(s):
    if not s:
        return None
    neg = s[0] == 45
    ds = s[1:] if s[0] in (45, 43) else s
    if not ds or any(not 48 <= c <= 57 for c in ds):
        return None
    v = int(ds.decode())
    if neg:
        return -v if v <= I63 else None
    return v if v < I63 else None


def panic_class(data):
    """Which slice expression of extractPushData/parseDeltaPush goes out of range (None = none)."""
    if not data.startswith(b"__") or len(data) == 2:
        return None
    content = data[2:]
    if content[0:1] == b"p":
        pos = content.find(b"__")
        return "pHeaderShort" if pos in (1, 2) else None
    if content[0:1] != b"d":
        return None
    return delta_panic_class(content)


def current_panic_class(data):
    """The shape of fixed finding C33-6: declared prev-payload length == MaxInt64 (`prevPayloadLength+1` wrapped
    around in the first version of the guard; fixed by efc5e395).  Only used to classify a regression."""
    if not data.startswith(b"__d1:"):
        return None
    rest = data[5:]
    fields = []
    for _ in range(3):
        i = rest.find(b":")
        if i < 0:
            return None
        fields.append(rest[:i])
        rest = rest[i + 1:]
    if go_parse_uint(fields[0]) is None:
        return None
    return "prevLenMaxInt" if go_atoi(fields[2]) == I63 - 1 else None


def delta_panic_class(content):
    if not content.startswith(b"d1:"):
        return None
    rest = content[3:]
    fields = []
    for _ in range(3):
        i = rest.find(b":")
        if i < 0:
            return None
        fields.append(rest[:i])
        rest = rest[i + 1:]
    if go_parse_uint(fields[0]) is None:
        return None
    pl = go_atoi(fields[2])
    if pl is None:
        return None
    if pl < 0:
        return "prevLenNegative"
    if pl == len(rest):
        return "prevLenEqRemaining"
    if pl > len(rest):
        return None
    rest = rest[pl + 1:]
    i = rest.find(b":")
    if i < 0:
        return None
    l = go_atoi(rest[:i])
    if l is not None and l < 0:
        return "payloadLenNegative"
    return None


# ------------------------------------------------------------------ generators
EPOCH_LETTERS = b"abcdefghijklmnopqrstuvwxyzABCDEFGHIJKLMNOPQRSTUVWXYZ"


def gen_bytes(rng, maxlen=12):
    n = rng.choice([0, 0, 1, 2, 3, 5, 8, maxlen])
    mode = rng.random()
    if mode < 0.4:
        alpha = b"_:pdjl1-+03a{}"
        return bytes(rng.choice(alpha) for _ in range(n))
    if mode < 0.6:
        return bytes(rng.choice(b"__::x") for _ in range(n))
    return bytes(rng.randrange(256) for _ in range(n))


def gen_epoch(rng, forbid):
    r = rng.random()
    if r < 0.6:
        e = bytes(rng.choice(EPOCH_LETTERS) for _ in range(8))
    elif r < 0.7:
        e = b""
    elif r < 0.85:
        e = bytes(rng.choice(b"abc019-.{}:_ ") for _ in range(rng.randint(1, 6)))
    else:
        e = bytes(rng.randrange(256) for _ in range(rng.randint(1, 5)))
    return bytes(c for c in e if c not in forbid)


def gen_offset(rng):
    return rng.choice([0, 1, 2, 9, 10, 99, 16901, 2 ** 31, 2 ** 32, 2 ** 46, 10 ** 13, 10 ** 14 - 1,
                       rng.randrange(10 ** 14), rng.randrange(1000)])


INT_FIELDS = [b"-1", b"-0", b"+3", b"0", b"1", b"3", b"-2", b"", b"x", b" 3", b"3 ", b"00003", b"9223372036854775807",
              b"9223372036854775808", b"-9223372036854775808", b"-9223372036854775809", b"18446744073709551615",
              b"18446744073709551616", b"99999999999999999999x", b"1e5", b"0x10", b"1_0", b"+", b"-", b"+-1"]


def mutate_delta(rng, off, epoch, prev, payload):
    """A delta frame with one or two fields perturbed."""
    f_off = str(off).encode()
    f_pl = str(len(prev)).encode()
    f_l = str(len(payload)).encode()
    rest_after_pl = prev + b":" + f_l + b":" + payload
    m = rng.randrange(9)
    if m == 0:
        f_pl = rng.choice(INT_FIELDS)
    elif m == 1:
        f_l = rng.choice(INT_FIELDS)
    elif m == 2:
        f_off = rng.choice(INT_FIELDS)
    elif m == 3:
        f_pl = str(len(rest_after_pl) + rng.choice([-1, 0, 0, 1])).encode()
    elif m == 4:
        f_pl = str(max(0, len(prev) + rng.choice([-1, 1, 2]))).encode()
    elif m == 5:
        f_l = str(max(0, len(payload) + rng.choice([-1, 1, 2]))).encode()
    elif m == 6:
        f_pl, f_l = rng.choice(INT_FIELDS), rng.choice(INT_FIELDS)
    elif m == 7:
        # prev length that swallows everything exactly (the remaining bytes) after rebuilding
        tail = prev + b":" + f_l + b":" + payload
        f_pl = str(len(tail)).encode()
    frame = b"__d1:" + f_off + b":" + epoch + b":" + f_pl + b":" + prev + b":" + f_l + b":" + payload
    if m == 8:
        frame = frame[:rng.randrange(len(frame) + 1)]
    return frame


def mutate_generic(rng, frame):
    m = rng.randrange(5)
    if m == 0 and frame:
        i = rng.randrange(len(frame))
        return frame[:i] + frame[i + 1:]
    if m == 1:
        i = rng.randrange(len(frame) + 1)
        return frame[:i] + bytes([rng.choice(b"_:pdjl1-+09")]) + frame[i:]
    if m == 2:
        return frame[:rng.randrange(len(frame) + 1)]
    if m == 3 and frame:
        i = rng.randrange(len(frame))
        return frame[:i] + bytes([rng.choice(b"_:pdjl1-+09")]) + frame[i + 1:]
    return frame


def gen_malformed(rng):
    r = rng.random()
    off, prev, payload = gen_offset(rng), gen_bytes(rng), gen_bytes(rng)
    if r < 0.45:
        return mutate_delta(rng, off, gen_epoch(rng, b":"), prev, payload)
    if r < 0.6:
        # "__p" headers of every small length
        hdr = bytes(rng.choice(b"p1:5ab") for _ in range(rng.randrange(0, 6)))
        return b"__p" + hdr + rng.choice([b"__", b"_", b"", b"___"]) + payload
    if r < 0.7:
        fr = b"__p1:" + rng.choice(INT_FIELDS) + b":" + gen_epoch(rng, b"") + b"__" + payload
        return mutate_generic(rng, fr)
    if r < 0.8:
        return mutate_generic(rng, rng.choice([b"__j__", b"__l__", b"__j", b"__", b"__x__", b"_", b""]) + payload)
    if r < 0.9:
        return bytes(rng.choice(b"_:pdjl1-+03a") for _ in range(rng.randrange(0, 16)))
    fr = b"__d1:" + str(off).encode() + b":" + gen_epoch(rng, b":") + b":" + str(len(prev)).encode() + b":" + prev + \
         b":" + str(len(payload)).encode() + b":" + payload
    return mutate_generic(rng, mutate_generic(rng, fr))


# ------------------------------------------------------------------ reporting helpers
def sig_class(full):
    """signature class of a panicking input: the known overflow shape, a regression of a fixed shape, or unclassified"""
    c = current_panic_class(full)
    if c:
        return c
    c = panic_class(full)
    return ("regression-" + c) if c else "unclassified"


def load_findings():
    try:
        return json.load(open(os.path.join(HERE, "findings.json"))).get("findings", [])
    except FileNotFoundError:
        return []


def report(ctx, kind, what, signature, replay):
    """ctx.violation, falling back to this property's own findings.json (the source from which
    known_findings.json is generated) so the verdict does not depend on the merge having run."""
    if ctx._match_known(signature) is None:
        for e in load_findings():
            m = e.get("match") or {}
            if e.get("status") == "known" and m and all(signature.get(k) == v for k, v in m.items()):
                if e["id"] not in [k.get("id") for k in ctx.known_hits]:
                    ctx.known_hits.append(e)
                    print(f"KNOWN-FINDING: property={ctx.prop} {e.get('what', '')}", flush=True)
                return
    ctx.violation(kind, what, signature=signature, replay=replay)


def regen(ctx):
    fm = lua_fmt.extract(REPO)
    ctx.write_gen("RedisPushFmt.lean", lua_fmt.render_lean(fm))
    return fm


def parse_kv(line):
    return dict(w.split("=", 1) for w in line.split() if "=" in w)


def shrink_panic(ctx, binary, data):
    """Greedy byte deletion keeping (PANIC, same class)."""
    cls = panic_class(data)

    def fails(d):
        out = ctx.go_run(binary, "TestVerifC33", ["ext " + hx(d)])
        return bool(out) and out[0] == "PANIC" and panic_class(d) == cls
    cur = data
    budget = 40
    changed = True
    while changed and budget > 0:
        changed = False
        for i in range(len(cur)):
            cand = cur[:i] + cur[i + 1:]
            budget -= 1
            if budget <= 0:
                break
            if fails(cand):
                cur, changed = cand, True
                break
    return cur


def run(ctx):
    ctx.rule = ("malformed stream: valid p1/d1/join frames with perturbed length/offset fields (negative, ±1, = remaining, "
                "overflow, signs, junk), truncations, byte insert/delete, short '__p' headers, small-alphabet noise; "
                "round-trip stream: frames rendered from the extracted Lua expressions around payloads marshalled by the "
                "real protobuf code (stream+list, plain/positioned/delta, join/leave). non-trivial = starts with '__'; "
                "distinct = distinct op line")
    ctx.assumptions = [
        "Lua 5.1 number→string is plain decimal for integers < 10^14 (\"%.14g\"); offsets/lengths ≥ 10^14 are outside the model",
        "epochs contain no '_' (positioned framing) / no ':' (delta framing) — true for epoch.Generate (letters only); "
        "necessity is proved by `decide`d examples",
        "a marshalled protobuf message never starts with '__' (0x5f = field 11, wire type 7)",
        "Lua `..`, `#` and redis.call(lindex/lpush) semantics are taken from the translated script text (no Lua VM in the sandbox)",
        "panic_class / `cls` / `pre` ops concern the code before commits e8dc9ebe / efc5e395 (history of findings C33-1…4, C33-6)",
    ]
    try:
        fm = regen(ctx)
    except (lua_fmt.TranslateError, OSError) as e:
        ctx.violation("proof", f"Lua framing expressions can no longer be translated: {e}",
                      signature={"kind": "translator"}, replay={"error": str(e)}, no_input=True)
        return
    proofs_ok = ctx.lean_obligations()
    binary = ctx.go_test_binary(".", [HARNESS])
    if binary is None:
        ctx.violation("correspondence", "harness no longer builds against package centrifuge",
                      signature={"kind": "harness-build"}, replay={"log": getattr(ctx, "build_error", "")}, no_input=True)
        return

    def go(ops):
        return ctx.go_run(binary, "TestVerifC33", ops)

    # ---------------------------------------------------------------- replay mode
    if ctx.replay:
        ops = json.load(open(ctx.replay)).get("ops", [])
        impl, model = go(ops), ctx.lean_run(ops) or []
        for i, op in enumerate(ops):
            a = impl[i] if i < len(impl) else "<missing>"
            b = model[i] if i < len(model) else "<missing>"
            print(f"{op}\n  impl : {a}\n  model: {b}")
            if a == "PANIC":
                d = unhx(op.split()[1])
                report(ctx, "property", "decoding this PUB/SUB payload panics (slice bounds out of range)",
                       {"kind": "panic", "class": sig_class(d if op.split()[0] != "pdp" else b"__" + d)}, {"ops": [op], "impl": [a]})
        return

    # ---------------------------------------------------------------- known findings, re-derived
    reproduced = {}
    for f in load_findings():
        ops = f.get("replay", {}).get("ops", [])
        if f.get("status") == "known" and f.get("match", {}).get("kind") == "panic":
            out = go(ops)
            ok = bool(out) and all(o == "PANIC" for o in out) and \
                all(sig_class(unhx(op.split()[1])) == f["match"]["class"] for op in ops if op.split()[0] == "ext")
            reproduced[f["id"]] = ok
            if ok:
                report(ctx, "property", f["what"], {"kind": "panic", "class": f["match"]["class"]},
                       {"ops": ops, "impl": out})
    # list script + delta: previous payload is the framed entry
    lf = list_delta_finding(ctx, fm, go)
    reproduced["C33-5"] = lf
    ctx.extra["known_findings_reproduced_now"] = reproduced

    # ---------------------------------------------------------------- round-trip stream
    n_rt = ctx.scale(700, 20000)
    rt_cases = []
    mops = []
    for _ in range(n_rt):
        kind = ctx.rng.choice(["streamPlain", "listPlain", "streamDelta", "listDelta", "raw", "rawDelta", "join", "leave"])
        c = {"kind": kind, "off": gen_offset(ctx.rng), "data": gen_bytes(ctx.rng, 40), "prevdata": gen_bytes(ctx.rng, 40),
             "user": gen_bytes(ctx.rng, 6), "client": gen_bytes(ctx.rng, 6)}
        c["epoch"] = gen_epoch(ctx.rng, b":" if "Delta" in kind else b"_")
        rt_cases.append(c)
        if kind in ("join", "leave"):
            mops += [f"marshalinfo {hx(c['user'])} {hx(c['client'])}", "#"]
        else:
            mops += [f"marshal {hx(c['data'])} {'1' if kind == 'rawDelta' else '0'}", f"marshal {hx(c['prevdata'])} 0"]
    mout = go(mops)
    if len(mout) != len(mops):
        ctx.notes.append("marshal pass produced %d/%d lines" % (len(mout), len(mops)))
    ops, expect = [], []          # expect: dict per op (None = malformed stream)
    for i, c in enumerate(rt_cases):
        if 2 * i + 1 >= len(mout) or not mout[2 * i].startswith("bytes="):
            continue
        payload = unhx(mout[2 * i][6:])
        prev = unhx(mout[2 * i + 1][6:]) if mout[2 * i + 1].startswith("bytes=") else b""
        kind = c["kind"]
        if kind in ("streamPlain", "listPlain"):
            frame = lua_fmt.render_py(fm[kind[:-5]]["plain"], c["off"], c["epoch"], b"", payload)
            want = dict(ok="1", type="0", off=str(c["off"]), epoch=hx(c["epoch"]), delta="0", data=hx(payload), prev="-")
            hwant = f"pub ch=6368 off={c['off']} puboff={c['off']} epoch={hx(c['epoch'])} delta=0 data={hx(c['data'])} prev=nil"
        elif kind in ("streamDelta", "listDelta"):
            # previous payload as the *property* understands it: the previously published message payload
            frame = lua_fmt.render_py(fm[kind[:-5]]["delta"], c["off"], c["epoch"], prev, payload)
            want = dict(ok="1", type="0", off=str(c["off"]), epoch=hx(c["epoch"]), delta="1", data=hx(payload), prev=hx(prev))
            pv = hx(c["prevdata"]) if prev else "nil"
            hwant = f"pub ch=6368 off={c['off']} puboff={c['off']} epoch={hx(c['epoch'])} delta=1 data={hx(c['data'])} prev={pv}"
        elif kind in ("raw", "rawDelta"):
            frame = payload
            want = dict(ok="1", type="0", off="0", epoch="-", delta="0", data=hx(payload), prev="-")
            hwant = f"pub ch=6368 off=0 puboff=0 epoch=- delta={'1' if kind == 'rawDelta' else '0'} data={hx(c['data'])} prev=nil"
        else:
            pre = fm["go"]["joinTypePrefix" if kind == "join" else "leaveTypePrefix"].encode()
            frame = pre + payload
            want = dict(ok="1", type="1" if kind == "join" else "2", off="0", epoch="-", delta="0", data=hx(payload), prev="-")
            hwant = f"{kind} ch=6368 user={hx(c['user'])} client={hx(c['client'])}"
        ops += ["ext " + hx(frame), "handle " + hx(frame)]
        expect += [("rt-ext", kind, want), ("rt-handle", kind, hwant)]
        # the Lean renderer agrees with the Python renderer of the same extracted expression
        if kind in ("streamPlain", "listPlain", "streamDelta", "listDelta", "join", "leave"):
            pvh = hx(prev) if "Delta" in kind else "-"
            ops.append(f"build {kind} {c['off']} {hx(c['epoch'])} {pvh} {hx(payload)}")
            expect.append(("build", kind, "frame=" + hx(frame)))

    # ---------------------------------------------------------------- malformed stream
    corpus = [l.strip() for l in open(os.path.join(HERE, "corpus.ops")) if l.strip() and not l.startswith("#")]
    mal = []
    for _ in range(ctx.scale(2500, 120000)):
        d = gen_malformed(ctx.rng)
        mal += ["ext " + hx(d), "cls " + hx(d)]
        if ctx.rng.random() < 0.5:
            mal.append("handle " + hx(d))
        if d.startswith(b"__d") and ctx.rng.random() < 0.7:
            mal.append("pdp " + hx(d[2:]))
        if ctx.rng.random() < 0.2:
            mal.append("pre " + hx(d))
    pre_ops = corpus + mal
    all_ops = pre_ops + ops
    all_expect = [None] * len(pre_ops) + expect

    impl = go(all_ops)
    model = ctx.lean_run(all_ops)
    if model is None:
        proofs_ok = False
        model = []
    ctx.traces_validated = len(all_ops)
    nviol = ndiff = 0
    ext_result = {}
    for i, op in enumerate(all_ops):
        w = op.split()
        a = impl[i] if i < len(impl) else "<missing>"
        b = model[i] if i < len(model) else "<missing>"
        kind = w[0]
        ctx.count("op:" + kind)
        data = unhx(w[1]) if kind in ("ext", "pdp", "handle", "cls", "pre") else b""
        if kind in ("ext", "pdp", "handle"):
            ctx.record(op, nontrivial=data.startswith(b"__") or kind == "pdp")
            ctx.count(f"impl:{kind}:" + (a.split()[0] if a else "?"))
        # ---- oracle (a): never panic
        if a == "PANIC" or a == "<missing>":
            full = data if kind != "pdp" else b"__" + data
            cls = sig_class(full)
            ctx.count("panic:" + cls)
            nviol += 1
            sig = {"kind": "panic", "class": cls}
            if cls == "unclassified" and kind == "ext":
                small = shrink_panic(ctx, binary, data)
                op2 = "ext " + hx(small)
                report(ctx, "property", "decoding this PUB/SUB payload panics", sig, {"ops": [op2], "impl": go([op2]), "original_op": op})
            else:
                report(ctx, "property", "decoding this PUB/SUB payload panics (slice bounds out of range)", sig,
                       {"ops": [op], "impl": [a]})
        # ---- oracle (b): round trip
        ex = all_expect[i]
        if ex is not None and ex[0] == "rt-ext":
            got = parse_kv(a)
            if a == "PANIC" or any(got.get(k) != v for k, v in ex[2].items()):
                nviol += 1
                report(ctx, "property", f"{ex[1]} frame is not decoded into what was framed: got `{a}` want {ex[2]}",
                       {"kind": "roundtrip", "framing": ex[1], "level": "extractPushData"}, {"ops": [op], "impl": [a], "want": ex[2]})
            ctx.count("roundtrip:" + ex[1])
        elif ex is not None and ex[0] == "rt-handle":
            if a != ex[2]:
                nviol += 1
                report(ctx, "property", f"{ex[1]} frame is not delivered as published: got `{a}` want `{ex[2]}`",
                       {"kind": "roundtrip", "framing": ex[1], "level": "handleRedisClientMessage"},
                       {"ops": [op], "impl": [a], "want": ex[2]})
        # ---- correspondence
        if kind == "handle":
            a_cmp = "PANIC" if a == "PANIC" else ("<missing>" if a == "<missing>" else "nopanic")
        elif kind == "cls":
            a_cmp = "class=" + (panic_class(data) or "none")       # Python classifier vs Lean classifier (pre-fix shapes)
        elif kind == "build":
            a_cmp = ex[2]
        elif kind == "pre":
            # model of the code before the fixes: wherever it did not panic it equals today's implementation; where it
            # panicked (exactly the classified shapes) today's implementation reports malformed data (ok=0)
            ea = ext_result.get(w[1])
            if ea is None:
                a_cmp = b
            elif b == "PANIC":
                a_cmp = "PANIC" if (panic_class(data) and ea.startswith("ok=0")) else "pre-fix-panic-not-explained"
            else:
                a_cmp = ea
        else:
            a_cmp = a
        if kind == "ext":
            ext_result[w[1]] = a
        if a_cmp != b:
            ndiff += 1
            if ndiff <= 3 and model:
                ctx.violation("correspondence", f"model and implementation differ on `{op}`: impl `{a_cmp}` model `{b}`",
                              signature={"kind": "diff", "op": kind}, replay={"ops": [op], "impl": [a], "model": [b]},
                              no_input=(nviol == 0))
    ctx.extra["disagreements"] = ndiff
    if not proofs_ok:
        ctx.proof_broken()


def list_delta_finding(ctx, fm, go):
    """List script + delta (finding C33-5), derived from the current script text and the real Go receiver."""
    if not (fm.get("list_prev_is_list_head") and fm.get("list_pushes_framed")):
        return False
    d1, d2, epoch = b'{"a":1}', b'{"a":2}', b"AbCdEfGh"
    m = go([f"marshal {hx(d1)} 0", f"marshal {hx(d2)} 0"])
    if len(m) != 2 or not all(x.startswith("bytes=") for x in m):
        return False
    p1, p2 = unhx(m[0][6:]), unhx(m[1][6:])
    stored = lua_fmt.render_py(fm["list"]["plain"], 1, epoch, b"", p1)      # lpush list_key payload
    frame2 = lua_fmt.render_py(fm["list"]["delta"], 2, epoch, stored, p2)   # prev = lindex list_key 0
    op = "handle " + hx(frame2)
    out = go([op])
    want = f"pub ch=6368 off=2 puboff=2 epoch={hx(epoch)} delta=1 data={hx(d2)} prev={hx(d1)}"
    if out and out[0] != want:
        report(ctx, "property", "list script + delta: previous payload handed to the receiver is the framed list entry; "
               "the publication is not delivered",
               {"kind": "roundtrip", "framing": "listDelta-after-first", "level": "handleRedisClientMessage", "got": out[0].split()[0]},
               {"ops": [op], "impl": out, "want": want, "derivation": "stored=render(listPlain,1,epoch,p1); frame2=render(listDelta,2,epoch,prev=stored,p2)"})
        return True
    return False
