"""C26 — broker subscription tracks local interest.

Proof: lean/CentrifugeVerif/Props/C26.lean over Model/Interest.lean (per-channel transition system of
addSubscription / removeSubscription / deferred unsubscribe job under subLock, any broker failure
pattern).
Tie: schedule-controlled trace validation on a real running Node whose stream Broker and MapBroker are
the memory brokers wrapped to record, fail on demand and block on gates; the harness calls
Node.addSubscription / Node.removeSubscription in scripted orders inside a testing/synctest bubble (job
delay and cool-down on the virtual clock).  The Lean driver replays the same ops through
`Interest.next` (one copy per channel, plus the timing layer) and the observation lines (broker call
log with hub counts at call entry/exit, API returns, hub count / broker subscribed flags / lock held
per channel) must agree after every op.
Oracle: the property statement on the implementation's own trace.

Scripts are pre-filtered through the Lean driver: a scenario is cut before the first op at which the
model says a goroutine would have to wait for `subLock` while its holder waits for virtual time (that
cannot be executed under synctest: the virtual clock would never advance).  The number of cut scenarios
is reported; it does not depend on the Go code.
"""
import json
from vlib.core import diff_lines, ddmin

HARNESS = ["props/C26/harness/root/zz_verif_c26_test.go"]
CHANS = ["s1", "s2", "m1", "m2"]


def kind_of(ch):
    return "m" if ch.startswith("m") else "s"


def gen_scenario(rng):
    ops = ["reset"]
    chans = rng.sample(CHANS, rng.choice([1, 1, 2, 3]))
    subs = {ch: {} for ch in chans}      # rough hub membership: client -> gen (generator aid only)
    held = set()                          # channels with a (probably) gated Subscribe
    gen_ctr = {ch: 0 for ch in chans}
    n = rng.choice([5, 10, 20, 35, 50])
    pfail = rng.choice([0.0, 0.1, 0.3])
    phold = rng.choice([0.0, 0.1, 0.25])
    for _ in range(n):
        ch = rng.choice(chans)
        r = rng.random()
        q = "q" if ch in held and rng.random() < 0.8 else ""
        if ch in held and r < 0.5:
            ops.append(f"release {ch} {rng.choice(['ok', 'ok', 'fail'])}")
            held.discard(ch)
        elif r < 0.30:
            c = rng.randint(1, 4)
            gen_ctr[ch] += 1
            res = "hold" if rng.random() < phold else ("fail" if rng.random() < pfail else "ok")
            kind = kind_of(ch) if rng.random() < 0.97 else rng.choice("sm")
            ops.append(f"{q}add {c} {ch} {gen_ctr[ch]} {kind} {res}")
            if not q:
                if res == "hold" and not subs[ch]:
                    held.add(ch)
                if res != "fail" or subs[ch]:
                    subs[ch][c] = gen_ctr[ch]
        elif r < 0.55:
            if subs[ch] and rng.random() < 0.85:
                c = rng.choice(list(subs[ch]))
                g = subs[ch][c] if rng.random() < 0.8 else rng.choice([0, subs[ch][c] - 1, 99])
            else:
                c, g = rng.randint(1, 5), rng.choice([0, 1, 2])
            ops.append(f"{q}rm {c} {ch} {g}")
            if not q and c in subs[ch] and g in (0, subs[ch][c]):
                del subs[ch][c]
        elif r < 0.75:
            ops.append(f"tick {rng.choice([1, 100, 400, 499, 500, 501, 600, 999, 1000, 1001, 1500, 2500])}")
        elif r < 0.85:
            ops.append(f"setunsub {ch} {rng.choice(['ok', 'fail', 'fail', 'hold'])}")
        elif r < 0.90:
            ops.append(f"release {ch} {rng.choice(['ok', 'fail'])}")
            held.discard(ch)
        elif r < 0.95:
            # race block: gated Unsubscribe of the pending job, a subscriber arrives meanwhile
            ops.append(f"setunsub {ch} hold")
            ops.append(f"tick {rng.choice([1000, 1100, 1600])}")
            c = rng.randint(1, 4)
            gen_ctr[ch] += 1
            ops.append(f"qadd {c} {ch} {gen_ctr[ch]} {kind_of(ch)} {rng.choice(['ok', 'ok', 'fail'])}")
            ops.append(f"release {ch} ok")
            subs[ch][c] = gen_ctr[ch]
        else:
            ops.append("settle")
    for ch in chans:
        if rng.random() < 0.7:
            ops.append(f"release {ch} {rng.choice(['ok', 'fail'])}")
    ops.append("settle")
    return ops


def gen_kindswitch(rng):
    """One channel name used by subscriptions of one kind, everyone leaves, deferred work drains (settle),
    then used by the other kind, and so on (map -> empty -> stream -> empty and the reverse)."""
    ops = ["reset"]
    ch = rng.choice(["x1", "x2", "s1", "m1"])
    kind = rng.choice("sm")
    gen = 0
    for _ in range(rng.choice([2, 2, 3, 4])):
        clients = rng.sample([1, 2, 3, 4], rng.choice([1, 1, 2, 3]))
        live = {}
        for c in clients:
            gen += 1
            res = "fail" if rng.random() < 0.1 else "ok"
            ops.append(f"add {c} {ch} {gen} {kind} {res}")
            if res == "ok" or live:
                live[c] = gen
            if rng.random() < 0.3:
                ops.append(f"tick {rng.choice([100, 600, 1100])}")
        if rng.random() < 0.3:
            ops.append(f"setunsub {ch} fail")
        for c in list(live):
            ops.append(f"rm {c} {ch} {live[c] if rng.random() < 0.9 else 0}")
            if rng.random() < 0.3:
                ops.append(f"tick {rng.choice([100, 400, 1000, 1500])}")
        if rng.random() < 0.2:
            ops.append(f"rm {rng.randint(1, 5)} {ch} 0")     # absent client: the "empty" quirk job
        ops.append("settle")
        if rng.random() < 0.8:
            kind = "m" if kind == "s" else "s"
    return ops


def parse_line(line):
    ws = line.split()
    r = ws[0][2:]
    evs = [] if ws[1] == "ev=-" else ws[1][3:].split(",")
    st = {}
    for w in ws[2:]:
        ch, v = w.split("=")
        cnt, s, m, l = v.split("/")
        st[ch] = {"cnt": int(cnt), "s": s == "1", "m": m == "1", "lock": l == "1"}
    return r, evs, st


def oracle(ops, out):
    """Property statement on the real trace of one scenario.  None = holds.

    The broker that serves a channel is the one of the kind its current subscribers were added with.
    The kind of a channel may change only at a settled point: no subscriber, and a `settle` since the
    last call that touched the channel (deferred work drained).  A script that mixes kinds otherwise is
    judged only up to that point (it is still compared with the model)."""
    cur_kind, clean, prev = {}, {}, {}
    for op, line in zip(ops, out):
        if line.startswith("PANIC") or line == "<missing>":
            return "panic or crash of the implementation"
        if not line.startswith("r="):
            continue
        r, evs, st = parse_line(line)
        w = op.split()
        if w[0] in ("add", "qadd", "rm", "qrm"):
            ch = w[2]
            if w[0] in ("add", "qadd"):
                k = w[4]
                if ch not in cur_kind or (clean.get(ch, True) and prev.get(ch, {"cnt": 0})["cnt"] == 0):
                    cur_kind[ch] = k
                elif cur_kind[ch] != k:
                    return None   # kinds mixed at a non-settled point: outside the statement's domain
            clean[ch] = False
        for e in evs:
            p = e.split(":")
            if p[0] == "U":
                if int(p[4]) != 0 or int(p[5]) != 0:
                    return "broker Unsubscribe ran while the channel had local subscribers"
            if p[0] == "S":
                if int(p[4]) < 1 or int(p[5]) < 1:
                    return "broker Subscribe ran for a channel without the subscriber registered in the hub"
        for ch, v in st.items():
            k = cur_kind.get(ch)
            servedk = v["m"] if k == "m" else v["s"]
            if v["cnt"] > 0 and k is not None and not servedk and not v["lock"]:
                return "local subscribers but not subscribed in the serving broker (no call in flight)"
        if op.strip() == "settle" and r == "-":
            for ch, v in st.items():
                k = cur_kind.get(ch)
                if v["lock"]:
                    return "settled but a sub lock is still held"
                for b in ("s", "m"):
                    want = v["cnt"] > 0 and k == b
                    if v[b] and not want:
                        return ("settled: subscribed in the %s broker without local subscribers of that kind"
                                % ("map" if b == "m" else "stream"))
                    if want and not v[b]:
                        return "settled: local subscribers without subscription in the serving broker"
                if v["cnt"] == 0:
                    clean[ch] = True
        if st:
            prev = st
    return None


def uses_only_own_kind(ops):
    for o in ops:
        w = o.split()
        if w[0] in ("add", "qadd") and w[4] != kind_of(w[2]):
            return False
    return True


def split_scenarios(ops):
    idx = [i for i, o in enumerate(ops) if o.strip() == "reset"] + [len(ops)]
    if idx[0] != 0:
        idx = [0] + idx
    return [(a, b) for a, b in zip(idx, idx[1:]) if b > a]


def strip_fin(l):
    return l[:-6] if l.endswith(" fin=0") or l.endswith(" fin=1") else l


def prefilter(ctx, ops):
    """Cut every scenario before the first op the model cannot execute under the virtual clock."""
    model = ctx.lean_run(ops)
    if model is None:
        return None, 0
    keep, cut = [], 0
    for a, b in split_scenarios(ops):
        g = ops[a:b]
        m = model[a:b]
        bad = next((i for i, l in enumerate(m) if l.startswith("reject") or l.endswith("fin=0")), None)
        if bad is not None:
            cut += 1
            g = g[:bad]
        if len(g) > 1:
            keep += g
    return keep, cut


def run(ctx):
    ctx.rule = ("random scripts over 1-3 channels (stream and map kinds), clients 1-5 with fresh / stale / zero "
                "subscription generations: add (broker Subscribe ok / failing / gated), remove (present, absent, stale "
                "generation), queued add/remove while the lock is held by a gated broker call, release with either "
                "outcome, Unsubscribe outcome modes ok / failing (cool-down, retries) / gated, virtual ticks around the "
                "1 s job delay and 500 ms cool-down, settle; race blocks 'gated Unsubscribe + arriving subscriber'; "
                "non-trivial = scenario with a broker failure, a gate or a job that found subscribers; distinct = "
                "distinct op list; plus kind-switch scripts: one channel name used by map subscriptions, emptied, settled, then "
                "by stream subscriptions (and the reverse), with failing subscribes/unsubscribes and absent-client removes")
    ctx.assumptions = [
        "a failed broker Subscribe/Unsubscribe leaves the broker-side subscription unchanged; both are idempotent",
        "the kind (stream/map) of a channel changes only at settled points (no subscriber, deferred work drained): "
        "theorems hold for a fixed kind (hypothesis WF) and settled_empty_eq_init restarts them with the other kind; "
        "scripts 'map -> empty -> settle -> stream -> empty' and the reverse are generated and judged per broker; a "
        "script that switches kind while a job is still pending (the old broker then stays subscribed: the job finds "
        "subscribers and gives up) is compared with the model but not judged by the oracle",
        "the dissolver keeps every submitted job until it returns nil (C40) and the node is not shut down",
        "each subLock critical section is atomic with respect to other holders of the same lock (sync.Mutex); hub "
        "mutations happen only in addSubscription/removeSubscription (checked: grep of hub.addSub/removeSub callers)",
        "observation at durably-blocked points (testing/synctest)"]
    proofs_ok = ctx.lean_obligations()
    binary = ctx.go_test_binary(".", HARNESS)
    if binary is None:
        ctx.violation("correspondence", "harness no longer builds against package centrifuge",
                      signature={"kind": "harness-build"}, replay={"log": getattr(ctx, "build_error", "")},
                      no_input=True)
        return
    ncut = 0
    if ctx.replay:
        ops = json.load(open(ctx.replay)).get("ops", [])
    else:
        ops = [l.rstrip("\n") for l in open("props/C26/corpus.ops") if l.strip() and not l.startswith("#")]
        for _ in range(ctx.scale(500, 8000)):
            ops += gen_scenario(ctx.rng)
        for _ in range(ctx.scale(150, 2500)):
            ops += gen_kindswitch(ctx.rng)
    total = len(split_scenarios(ops))
    ops, ncut = prefilter(ctx, ops)
    if ops is None:
        ctx.proof_broken()
        return
    ctx.extra["scenarios_cut_by_model_prefilter"] = ncut
    if total and ncut > 0.5 * total:
        ctx.violation("correspondence", "the model rejects more than half of the generated scripts",
                      signature={"kind": "prefilter"}, replay={"cut": ncut, "total": total}, no_input=True)
    impl = ctx.go_run(binary, "TestVerifC26", ops, timeout=3000)
    crash = ctx.last_go_crash
    model = [strip_fin(l) for l in (ctx.lean_run(ops) or [])]
    timed_out = "HARNESS-TIMEOUT" in impl
    if timed_out:
        impl = impl[:impl.index("HARNESS-TIMEOUT")]
        ctx.notes.append("harness watchdog fired: remaining scenarios dropped (harness error, not a violation)")

    def fails(cand):
        out = ctx.go_run(binary, "TestVerifC26", cand)
        if "HARNESS-TIMEOUT" in out:
            out = out[:out.index("HARNESS-TIMEOUT")]
            return oracle(cand[:len(out)], out) is not None
        out += ["<missing>"] * (len(cand) - len(out))
        return oracle(cand, out) is not None

    nviol = ndiff = dropped = 0
    scs = split_scenarios(ops)
    for a, b in scs:
        g_ops = ops[a:b]
        if len(impl) < b and timed_out:
            # cut short by the watchdog: judge what was observed, compare nothing
            dropped += 1
            part = impl[a:b]
            msg = oracle(g_ops[:len(part)], part) if part else None
            if msg:
                nviol += 1
                ctx.violation("property", msg, signature={"oracle": msg[:70]},
                              replay={"ops": g_ops, "impl": part, "note": "scenario did not finish (watchdog)"})
            continue
        g_impl = impl[a:b] + ["<missing>"] * (b - a - len(impl[a:b]))
        g_model = model[a:b]
        text = " ".join(g_impl)
        nontriv = (":fail:" in text) or any(o.split()[-1] == "hold" for o in g_ops)
        ctx.record(" ; ".join(g_ops)[:400], nontrivial=nontriv)
        for o in g_ops:
            ctx.count("op:" + o.split()[0])
        for l in g_impl:
            if l.startswith("r="):
                r, evs, _ = parse_line(l)
                ctx.count("r:" + r)
                for e in evs:
                    p = e.split(":")
                    if p[0] in "SU":
                        ctx.count(f"broker:{p[0]}:{p[2]}:{p[3]}")
        msg = oracle(g_ops, g_impl)
        if msg:
            nviol += 1
            if nviol <= 3:
                small = g_ops
                try:
                    if len(g_ops) > 2 and fails(g_ops):
                        def f(c):
                            cand = [g_ops[0]] + c
                            # never execute a candidate the model cannot run under the virtual clock
                            m = ctx.lean_run(cand) or []
                            return not any(l.startswith("reject") or l.endswith("fin=0") for l in m) and fails(cand)
                        small = [g_ops[0]] + ddmin(g_ops[1:], f)
                except Exception as e:
                    ctx.notes.append(f"shrink failed: {e}")
                sout = ctx.go_run(binary, "TestVerifC26", small)
                smsg = oracle(small, sout + ["<missing>"] * (len(small) - len(sout))) or msg
                ctx.violation("property", smsg, signature={"oracle": smsg[:70]},
                              replay={"ops": small, "impl": sout, "original_ops": g_ops, "crash": (crash or "")[-1500:]})
        gd = list(diff_lines(g_ops, g_impl, g_model))
        if gd and g_model:
            ndiff += 1
            if ndiff <= 3:
                i, op, x, y = gd[0]
                ctx.violation("correspondence",
                              f"model and implementation differ at op {i} `{op}`: impl `{x}` model `{y}`",
                              signature={"kind": "diff", "op": op.split()[0]},
                              replay={"ops": g_ops, "impl": g_impl, "model": g_model,
                                      "correspondence": "Drivers/C26.lean vs node.go addSubscription/removeSubscription"},
                              no_input=(nviol == 0))
    ctx.traces_validated = len(scs) - dropped
    ctx.extra["disagreements"] = ndiff
    ctx.extra["ops"] = len(ops)
    ctx.extra["scenarios_dropped_by_harness_timeout"] = dropped
    if scs and dropped > 0.2 * len(scs) and nviol == 0:
        ctx.violation("correspondence", "the harness could not drive more than 20% of the scenarios (watchdog)",
                      signature={"kind": "harness-timeout"}, replay={"dropped": dropped, "total": len(scs)},
                      no_input=True)
    if not proofs_ok:
        ctx.proof_broken()
