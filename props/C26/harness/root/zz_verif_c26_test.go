//go:build verif

package centrifuge

// Verification harness for C26 (injected with `go test -overlay`, never part of the repo).
//
// A real running Node whose stream Broker and MapBroker are the memory implementations wrapped so
// that Subscribe/Unsubscribe are recorded, can fail on demand and can block on a gate.  The harness
// calls Node.addSubscription / Node.removeSubscription (the functions the property is anchored in)
// from goroutines inside a testing/synctest bubble; the dissolver job's 1 s delay and 500 ms
// cool-down run on the virtual clock.  After every op: synctest.Wait(), then one observation line.
// No wall-clock sleeps or timeouts inside the bubble.
//
//   reset
//   add c ch gen s|m ok|fail|hold       addSubscription; a broker Subscribe (if any) gets that outcome
//   rm c ch gen                         removeSubscription
//   qadd … / qrm …                      same, issued while ch's lock is held by a gated broker call:
//                                       the goroutine is started and not waited for ("queued")
//   release ch ok|fail                  the gated broker call on ch returns
//   setunsub ch ok|fail|hold            outcome of following broker Unsubscribe calls on ch (hold: one shot)
//   tick MS                             virtual time passes
//   settle                              all outcomes ok, 3 s pass
//
// Output: `r=… ev=e1,e2,… <ch>=<hub count>/<stream subscribed>/<map subscribed>/<lock held> …`
// events: S:ch:kind:res:cntEntry:cntExit, U:ch:kind:res:cntEntry:cntExit, ret:add|rm:c:ch:err

import (
	"context"
	"bufio"
	"errors"
	"fmt"
	"os"
	"sort"
	"strconv"
	"strings"
	"sync"
	"testing"
	"testing/synctest"
	"time"
)

type verifC26Transport struct{}

func (verifC26Transport) Name() string                     { return "verif" }
func (verifC26Transport) AcceptProtocol() string           { return "" }
func (verifC26Transport) Protocol() ProtocolType           { return ProtocolTypeJSON }
func (verifC26Transport) ProtocolVersion() ProtocolVersion { return ProtocolVersion2 }
func (verifC26Transport) Unidirectional() bool             { return false }
func (verifC26Transport) Emulation() bool                  { return false }
func (verifC26Transport) DisabledPushFlags() uint64        { return 0 }
func (verifC26Transport) PingPongConfig() PingPongConfig   { return PingPongConfig{} }
func (verifC26Transport) Write([]byte) error               { return nil }
func (verifC26Transport) WriteMany(...[]byte) error        { return nil }
func (verifC26Transport) Close(Disconnect) error           { return nil }

type verifC26Held struct {
	gate chan bool
	kind string
	call string
}

type verifC26Scn struct {
	n        *Node
	mu       sync.Mutex
	events   []string
	subd     map[string]bool // kind+":"+ch -> subscribed
	subPlan  map[string]string
	unsubMod map[string]string
	held     map[string]*verifC26Held
	queued   map[string]bool
	clients  map[int]*Client
	chans    map[string]bool
}

func (s *verifC26Scn) brokerCall(call, kind string, chs []string) error {
	var firstErr error
	for _, ch := range chs {
		entry := s.n.hub.NumSubscribers(ch)
		s.mu.Lock()
		mode := "ok"
		if call == "S" {
			if m, ok := s.subPlan[ch]; ok {
				mode = m
				delete(s.subPlan, ch)
			}
		} else {
			if m, ok := s.unsubMod[ch]; ok {
				mode = m
				if m == "hold" {
					delete(s.unsubMod, ch)
				}
			}
		}
		var h *verifC26Held
		if mode == "hold" {
			h = &verifC26Held{gate: make(chan bool), kind: kind, call: call}
			s.held[ch] = h
		}
		s.mu.Unlock()
		ok := mode == "ok"
		if h != nil {
			ok = <-h.gate
		}
		exit := s.n.hub.NumSubscribers(ch)
		res := "fail"
		if ok {
			res = "ok"
		}
		s.mu.Lock()
		if ok {
			s.subd[kind+":"+ch] = call == "S"
		}
		s.events = append(s.events, fmt.Sprintf("%s:%s:%s:%s:%d:%d", call, ch, kind, res, entry, exit))
		s.mu.Unlock()
		if !ok && firstErr == nil {
			firstErr = errors.New("scripted broker failure")
		}
	}
	return firstErr
}

type verifC26Broker struct {
	*MemoryBroker
	s *verifC26Scn
}

func (b *verifC26Broker) Subscribe(chs ...string) error   { return b.s.brokerCall("S", "s", chs) }
func (b *verifC26Broker) Unsubscribe(chs ...string) error { return b.s.brokerCall("U", "s", chs) }

type verifC26MapBroker struct {
	*MemoryMapBroker
	s *verifC26Scn
}

func (b *verifC26MapBroker) Subscribe(chs ...string) error   { return b.s.brokerCall("S", "m", chs) }
func (b *verifC26MapBroker) Unsubscribe(chs ...string) error { return b.s.brokerCall("U", "m", chs) }

func (s *verifC26Scn) client(c int) *Client {
	if cl, ok := s.clients[c]; ok {
		return cl
	}
	cl := &Client{uid: "c" + strconv.Itoa(c), node: s.n, transport: verifC26Transport{}}
	s.clients[c] = cl
	return cl
}

func (s *verifC26Scn) lockHeld(ch string) bool {
	mu := s.n.subLock(ch)
	if mu.TryLock() {
		mu.Unlock()
		return false
	}
	return true
}

func verifC26B(b bool) int {
	if b {
		return 1
	}
	return 0
}

// canonical event order: per channel in log order, channels sorted; inside a channel every
// maximal run of Unsubscribe events is sorted (same-instant jobs race for the lock).
func verifC26Canon(evs []string) string {
	if len(evs) == 0 {
		return "-"
	}
	chOf := func(e string) string {
		p := strings.Split(e, ":")
		if p[0] == "ret" {
			return p[3]
		}
		return p[1]
	}
	by := map[string][]string{}
	var chs []string
	for _, e := range evs {
		c := chOf(e)
		if _, ok := by[c]; !ok {
			chs = append(chs, c)
		}
		by[c] = append(by[c], e)
	}
	sort.Strings(chs)
	var out []string
	for _, c := range chs {
		l := by[c]
		for i := 0; i < len(l); {
			j := i
			for j < len(l) && strings.HasPrefix(l[j], "U:") {
				j++
			}
			if j > i {
				sort.Strings(l[i:j])
				i = j
			} else {
				i++
			}
		}
		out = append(out, l...)
	}
	return strings.Join(out, ",")
}

func (s *verifC26Scn) obs(r string) string {
	s.mu.Lock()
	queued := len(s.queued) > 0
	s.mu.Unlock()
	if !queued {
		synctest.Wait()
	}
	s.mu.Lock()
	defer s.mu.Unlock()
	evs := s.events
	s.events = nil
	parts := []string{"r=" + r, "ev=" + verifC26Canon(evs)}
	if queued {
		// a goroutine is blocked on the sub lock (not durably): state is not observed now
		return strings.Join(parts, " ")
	}
	var chs []string
	for ch := range s.chans {
		chs = append(chs, ch)
	}
	sort.Strings(chs)
	for _, ch := range chs {
		parts = append(parts, fmt.Sprintf("%s=%d/%d/%d/%d", ch, s.n.hub.NumSubscribers(ch),
			verifC26B(s.subd["s:"+ch]), verifC26B(s.subd["m:"+ch]), verifC26B(s.lockHeld(ch))))
	}
	return strings.Join(parts, " ")
}

func (s *verifC26Scn) doAdd(c int, ch string, gen uint64, kind, res string) {
	s.mu.Lock()
	s.subPlan[ch] = res
	s.mu.Unlock()
	_, err := s.n.addSubscription(ch, subInfo{client: s.client(c), subGen: gen, isMap: kind == "m"})
	s.mu.Lock()
	delete(s.subPlan, ch)
	delete(s.queued, ch)
	s.events = append(s.events, fmt.Sprintf("ret:add:%d:%s:%d", c, ch, verifC26B(err != nil)))
	s.mu.Unlock()
}

func (s *verifC26Scn) doRm(c int, ch string, gen uint64) {
	err := s.n.removeSubscription(ch, s.client(c), gen)
	s.mu.Lock()
	delete(s.queued, ch)
	s.events = append(s.events, fmt.Sprintf("ret:rm:%d:%s:%d", c, ch, verifC26B(err != nil)))
	s.mu.Unlock()
}

func (s *verifC26Scn) op(ws []string) string {
	switch ws[0] {
	case "add", "qadd", "rm", "qrm":
		isAdd := ws[0] == "add" || ws[0] == "qadd"
		isQ := ws[0][0] == 'q'
		if (isAdd && len(ws) != 6) || (!isAdd && len(ws) != 4) {
			return "bad-op"
		}
		c, _ := strconv.Atoi(ws[1])
		ch := ws[2]
		gen, _ := strconv.ParseUint(ws[3], 10, 64)
		s.mu.Lock()
		s.chans[ch] = true
		_, gateHeld := s.held[ch]
		already := s.queued[ch]
		anyQueued := len(s.queued) > 0
		s.mu.Unlock()
		if isQ {
			// at most one queued call at a time (it spins on a mutex: nothing else can be waited for)
			if !gateHeld || already || anyQueued {
				return s.obs("bad-q")
			}
			s.mu.Lock()
			s.queued[ch] = true
			s.mu.Unlock()
		} else {
			if anyQueued {
				return s.obs("refused")
			}
			if s.lockHeld(ch) {
				return s.obs("busy")
			}
		}
		if isAdd {
			go s.doAdd(c, ch, gen, ws[4], ws[5])
		} else {
			go s.doRm(c, ch, gen)
		}
		if isQ {
			return s.obs("queued")
		}
		return s.obs("-")
	case "release":
		ch := ws[1]
		s.mu.Lock()
		h := s.held[ch]
		q := s.queued[ch]
		otherQ := len(s.queued) > 0 && !q
		if !otherQ {
			delete(s.held, ch)
		}
		s.mu.Unlock()
		if otherQ {
			return s.obs("refused")
		}
		if h == nil {
			return s.obs("disabled")
		}
		if h.call == "U" && ws[2] != "ok" && q {
			// the job would sleep 500 ms holding the lock while the queued goroutine spins on the mutex
			s.mu.Lock()
			s.held[ch] = h
			s.mu.Unlock()
			return s.obs("refused")
		}
		h.gate <- ws[2] == "ok"
		// the queued goroutine (if any) now runs; it clears its queued mark when done or it ends up
		// gated itself.  Wait for it before observing.
		for i := 0; i < 1000; i++ {
			synctest.Wait()
			s.mu.Lock()
			_, again := s.held[ch]
			if again {
				delete(s.queued, ch)
			}
			left := len(s.queued)
			s.mu.Unlock()
			if left == 0 {
				break
			}
		}
		return s.obs("-")
	case "setunsub":
		s.mu.Lock()
		s.unsubMod[ws[1]] = ws[2]
		s.chans[ws[1]] = true
		s.mu.Unlock()
		return s.obs("-")
	case "tick":
		s.mu.Lock()
		q := len(s.queued) > 0
		s.mu.Unlock()
		if q {
			return s.obs("refused")
		}
		ms, _ := strconv.Atoi(ws[1])
		time.Sleep(time.Duration(ms) * time.Millisecond)
		return s.obs("-")
	case "settle":
		s.mu.Lock()
		q := len(s.queued) > 0 || len(s.held) > 0
		if !q {
			s.unsubMod = map[string]string{}
		}
		s.mu.Unlock()
		if q {
			return s.obs("refused")
		}
		time.Sleep(3 * time.Second)
		return s.obs("-")
	}
	return "bad-op"
}

func verifC26Scenario(t *testing.T, lines []string, emit func(string)) {
	cnt := 0
	add := func(l string) { cnt++; emit(l) }
	defer func() {
		if r := recover(); r != nil {
			for cnt < len(lines) {
				add(fmt.Sprintf("PANIC %v", r))
			}
		}
	}()
	synctest.Test(t, func(t *testing.T) {
		n, err := New(Config{LogLevel: LogLevelNone})
		if err != nil {
			panic(err)
		}
		s := &verifC26Scn{n: n, subd: map[string]bool{}, subPlan: map[string]string{}, unsubMod: map[string]string{},
			held: map[string]*verifC26Held{}, queued: map[string]bool{}, clients: map[int]*Client{}, chans: map[string]bool{}}
		mb, err := NewMemoryBroker(n, MemoryBrokerConfig{})
		if err != nil {
			panic(err)
		}
		n.SetBroker(&verifC26Broker{MemoryBroker: mb, s: s})
		mmb, err := NewMemoryMapBroker(n, MemoryMapBrokerConfig{})
		if err != nil {
			panic(err)
		}
		n.SetMapBroker(&verifC26MapBroker{MemoryMapBroker: mmb, s: s})
		if err := n.Run(); err != nil {
			panic(err)
		}
		add(s.obs("-"))
		for _, l := range lines[1:] {
			add(s.op(strings.Fields(l)))
		}
		// tear down: release gates, let jobs finish, stop the node
		for i := 0; i < 100; i++ {
			s.mu.Lock()
			hs := s.held
			s.held = map[string]*verifC26Held{}
			s.unsubMod = map[string]string{}
			s.mu.Unlock()
			for _, h := range hs {
				h.gate <- true
			}
			synctest.Wait()
			if len(hs) == 0 {
				break
			}
		}
		time.Sleep(5 * time.Second)
		synctest.Wait()
		_ = n.Shutdown(context.Background())
		synctest.Wait()
	})
}

func TestVerifC26(t *testing.T) {
	in, err := os.Open(os.Getenv("VERIF_OPS"))
	if err != nil {
		t.Skip("no VERIF_OPS")
	}
	defer in.Close()
	outf, err := os.Create(os.Getenv("VERIF_OUT"))
	if err != nil {
		t.Fatal(err)
	}
	defer outf.Close()
	w := bufio.NewWriter(outf)
	defer w.Flush()
	var lines []string
	sc := bufio.NewScanner(in)
	sc.Buffer(make([]byte, 1<<20), 1<<26)
	for sc.Scan() {
		lines = append(lines, sc.Text())
	}
	// watchdog outside the bubble (real time): a scenario that cannot finish (a goroutine spinning on
	// a mutex whose holder waits for virtual time) must not hang the check; the run is cut short and
	// the check counts the missing scenarios as harness errors, never as violations.
	var wmu sync.Mutex
	progress := make(chan struct{}, 1)
	go func() {
		for {
			select {
			case <-progress:
			case <-time.After(90 * time.Second):
				wmu.Lock()
				fmt.Fprintln(w, "HARNESS-TIMEOUT")
				w.Flush()
				os.Exit(0)
			}
		}
	}()
	emit := func(l string) {
		wmu.Lock()
		fmt.Fprintln(w, l)
		w.Flush()
		wmu.Unlock()
		select {
		case progress <- struct{}{}:
		default:
		}
	}
	for i := 0; i < len(lines); {
		ws := strings.Fields(lines[i])
		if len(ws) == 1 && ws[0] == "reset" {
			j := i + 1
			for j < len(lines) && strings.TrimSpace(lines[j]) != "reset" {
				j++
			}
			verifC26Scenario(t, lines[i:j], emit)
			i = j
		} else {
			fmt.Fprintln(w, "bad-op")
			i++
		}
	}
}
