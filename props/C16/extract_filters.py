"""Translator (T1) for C16: lists, per delivery-path function of the CURRENT source, every application
of a tags filter (`filter.Match(<filter expr>, …)`, `publicationFiltered(<tags>, <filter expr>)`), the
"withhold unless delta" tests of the write path, and how subscribeCmd / handleSubRefresh pass the
filters on — and emits Gen/FilterCalls.lean.  Props/C16Paths.lean pins the expected lists, so a
dropped (or re-targeted) filter application changes the generated file and breaks a theorem."""
import os
import re

FUNCS = [
    ("hub.go", "func (s *subShard) broadcastPublication(", "broadcastPublication"),
    ("client.go", "func isStreamRecovered(", "isStreamRecovered"),
    ("node.go", "func (n *Node) recoverCache(", "recoverCache"),
    ("client_map.go", "func (c *Client) handleMapStatePhase(", "handleMapStatePhase"),
    ("client_map.go", "func (c *Client) handleMapStreamPhase(", "handleMapStreamPhase"),
    ("client_map.go", "func (c *Client) handleMapTransitionToLive(", "handleMapTransitionToLive"),
    ("client.go", "func (c *Client) writePublicationUpdatePosition(", "writePublicationUpdatePosition"),
    ("client.go", "func (c *Client) writePublication(", "writePublication"),
    ("client.go", "func (c *Client) subscribeCmd(", "subscribeCmd"),
    ("client.go", "func (c *Client) handleSubRefresh(", "handleSubRefresh"),
    ("hub.go", "func (s *subShard) updateServerTagsFilter(", "updateServerTagsFilter"),
]

PATS = [
    ("match", re.compile(r"filter\.Match\(\s*([^,]+?)\s*,")),
    ("filtered", re.compile(r"publicationFiltered\(\s*[^,]+,\s*([^)]+?)\s*\)")),
    ("withhold", re.compile(r"(prep\.wasFiltered\s*&&\s*!prep\.deltaSub)")),
    ("marker", re.compile(r"(syncPub\s*=\s*prep\.filteredPub)")),
    ("onlyIfNotServerFiltered", re.compile(r"(!wasFiltered\s*&&\s*sub\.tagsFilter\s*!=\s*nil)")),
    ("call", re.compile(r"\b(isStreamRecovered|recoverCache)\(([^)]*)\)")),
    ("update", re.compile(r"(updateServerTagsFilter)\(")),
    ("invalidate", re.compile(r"(UnsubscribeCodeStateInvalidated)")),
    ("changedAndMap", re.compile(r"(changed\s*&&\s*isMapSub)")),
    ("hashEq", re.compile(r"(sub\.serverTagsFilter\.hash\s*==\s*tf\.hash)")),
]


WS = re.compile(r"\s+")


def func_body(src, header):
    i = src.index(header)
    j = src.find("\nfunc ", i + 1)
    return src[i:j if j > 0 else len(src)]


def strip_comments(body):
    return "\n".join(l.split("//")[0] for l in body.splitlines())


def calls(body):
    hits = []
    for name, rx in PATS:
        for m in rx.finditer(body):
            if name == "call":
                args = [a.strip() for a in m.group(2).split(",")]
                # keep only the filter arguments (last two)
                if len(args) < 2 or m.group(0).startswith("func"):
                    continue
                hits.append((m.start(), f"{m.group(1)}:{args[-2]}:{args[-1]}"))
            else:
                txt = WS.sub(" ", m.group(1))
                hits.append((m.start(), name + ":" + txt))
    return [h for _, h in sorted(hits)]


def generate(repo):
    out = ["/- REGENERATED on every run by props/C16/extract_filters.py from /repo. Do not edit. -/",
           "namespace CentrifugeVerif.Gen.FilterCalls", ""]
    cache = {}
    for fname, header, name in FUNCS:
        if fname not in cache:
            cache[fname] = open(os.path.join(repo, fname)).read()
        try:
            body = strip_comments(func_body(cache[fname], header))
            # the header line itself declares parameters, not calls
            body = body[body.index("{"):] if "{" in body else body
            lst = calls(body)
        except ValueError:
            lst = ["<function not found>"]
        q = "[" + ", ".join('"%s"' % x.replace('"', "'") for x in lst) + "]"
        out.append(f"/-- filter applications found in `{name}` ({fname}) -/")
        out.append(f"def {name} : List String := {q}")
        out.append("")
    out.append("end CentrifugeVerif.Gen.FilterCalls")
    return "\n".join(out) + "\n"


if __name__ == "__main__":
    print(generate(os.environ.get("VERIF_REPO", "/repo")))
