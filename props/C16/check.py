"""C16 — tags filters are enforced on every delivery path.

Proof: lean/CentrifugeVerif/Props/C16.lean (one theorem per delivery path over Model/FilterPaths.lean, `Match`
a parameter) + Props/C16Paths.lean (the filter applications found in the CURRENT source, regenerated on every
run by extract_filters.py, are the ones the model was written against).
Tie: a real Node (MemoryBroker / MemoryMapBroker behind recording + window-injecting wrappers) with random
server/client filter pairs × random publication tags through live, stream recovery (with in-window
publications), cache recovery, map state pages / stream pages / live transition / recovering re-join,
streamless maps and sub-refresh with a changed server filter.  One oracle over replies + pushes: nothing
delivered that the REAL filter.Match excludes for either filter; the Lean driver recomputes every delivered
list from the candidates the brokers handed out and the Match bits.
"""
import json
import os
import re
import subprocess
from concurrent.futures import ThreadPoolExecutor

HARNESS = ["props/C16/harness/root/zz_verif_c16_test.go"]
HERE = os.path.dirname(os.path.abspath(__file__))
SECTIONS = ["reply", "state", "stream", "trans", "winpush", "push", "rejoin"]


def regen(ctx):
    import sys
    sys.path.insert(0, HERE)
    import extract_filters
    from vlib.core import REPO
    ctx.write_gen("FilterCalls.lean", extract_filters.generate(REPO))


# ----------------------------------------------------------------------------- generator
VALS = ["x", "y", "z"]


def gen_leaf(rng):
    key = rng.choice(["a", "b"])
    cmp_ = rng.choice(["eq", "eq", "neq", "in", "nin", "ex", "nex"])
    if cmp_ in ("eq", "neq"):
        return f"L{cmp_}.{key}.{rng.choice(VALS)}"
    if cmp_ in ("in", "nin"):
        vs = rng.sample(VALS, rng.randint(1, 2))          # never "" in the value set (C15's finding)
        return f"L{cmp_}.{key}." + ".".join(vs)
    return f"L{cmp_}.{key}"


def gen_filter(rng, depth=0):
    r = rng.random()
    if depth >= 2 or r < 0.5:
        return gen_leaf(rng)
    if r < 0.7:
        return f"A({gen_filter(rng, depth + 1)},{gen_filter(rng, depth + 1)})"
    if r < 0.88:
        return f"O({gen_filter(rng, depth + 1)},{gen_filter(rng, depth + 1)})"
    return f"N({gen_filter(rng, depth + 1)})"


def gen_tags(rng):
    v = lambda: rng.choice(["x", "x", "y", "z", "_"])
    return f"a{v()}b{v()}"


def gen(rng):
    r = rng.random()
    if r < 0.08:
        old = gen_filter(rng) if rng.random() < 0.8 else "-"
        rr = rng.random()
        new = old if rr < 0.3 and old != "-" else ("-" if rr < 0.4 else gen_filter(rng))
        pubs = ";".join(gen_tags(rng) for _ in range(rng.randint(1, 5)))
        return f"rf map={rng.choice([0, 1])} old={old} new={new} pubs={pubs}"
    if r < 0.22:
        # several concurrent subscribers of one channel (same protocol), own filters each, many publications
        k = rng.choice([2, 2, 3, 4])
        sfs = "|".join(gen_filter(rng) if rng.random() < 0.6 else "-" for _ in range(k))
        cfs = "|".join(gen_filter(rng) if rng.random() < 0.6 else "-" for _ in range(k))
        pubs = ";".join(gen_tags(rng) for _ in range(rng.choice([6, 12, 20, 30])))
        return f"fs path=multi proto={rng.choice(['json', 'pb'])} pos={rng.choice([0, 1])} sfs={sfs} cfs={cfs} pubs={pubs}"
    path = rng.choice(["live", "rec", "rec", "cache", "cache", "map", "map", "map", "streamless"])
    sf = gen_filter(rng) if rng.random() < 0.75 else "-"
    cf = gen_filter(rng) if rng.random() < 0.75 else "-"
    n = rng.choice([2, 4, 6, 9, 14])
    pre = mid = win = post = 0
    lim, roff, pos = 100, 0, 0
    nkeys = rng.choice([2, 3, 9])
    specs = []
    for i in range(n):
        s = gen_tags(rng)
        if path in ("map", "streamless") and rng.random() < 0.6:
            s += f"@{rng.randrange(nkeys)}"
        specs.append(s)
    if path == "live":
        pos = rng.choice([0, 1])
    elif path == "rec":
        pos = 1
        pre = rng.randint(0, n)
        win = rng.randint(0, min(3, n - pre))
        roff = rng.randint(0, pre)
    elif path == "cache":
        pos = 1
        pre = rng.randint(0, n)
        win = rng.randint(0, min(2, n - pre)) if rng.random() < 0.4 else 0
        if rng.random() < 0.55:
            # cache empty (or everything in it filtered): the OnCacheEmpty handler populates it with the
            # `mid` publications and reports Populated -> retry of recoverCache
            pre = rng.choice([0, 0, 1])
            mid = rng.randint(1, min(5, n - pre))
            win = 0
    elif path == "map":
        pos = 1
        pre = rng.randint(0, n)
        mid = rng.randint(0, n - pre) if rng.random() < 0.6 else 0
        win = rng.randint(0, min(3, n - pre - mid))
        post = rng.randint(0, min(3, n - pre - mid - win)) if rng.random() < 0.5 else 0
        lim = rng.choice([1, 2, 3, 100])
        if rng.random() < 0.4 and n >= 6:
            # force stream pages: several state pages, then more than one page of publications during pagination
            lim = rng.choice([1, 2])
            pre = rng.randint(2, 3)
            mid = rng.randint(min(lim + 2, n - pre), n - pre)
            win = rng.randint(0, min(2, n - pre - mid))
            post = 0
            specs = [sp.split("@")[0] + (f"@{i}" if i < pre else (f"@{rng.randrange(9)}" if rng.random() < 0.5 else "")) for i, sp in enumerate(specs)]
    else:
        pre = rng.randint(0, n)
        win = rng.randint(0, min(3, n - pre))
        lim = rng.choice([1, 2, 100])
    proto = rng.choice(["json", "pb"])
    return (f"fs path={path} proto={proto} pos={pos} sf={sf} cf={cf} pubs={';'.join(specs)} pre={pre} mid={mid} "
            f"win={win} post={post} lim={lim} roff={roff}")


# ----------------------------------------------------------------------------- oracle
SEC_RX = re.compile(r"(?:^| )((?:c\.)?[a-z]+)=(\[[0-9,\-]*\])")


def parse_out(out):
    kv = {}
    for w in out.split():
        if "=" in w:
            k, v = w.split("=", 1)
            kv[k] = v
    secs = {k: [int(x) for x in v.strip("[]").split(",") if x] for k, v in kv.items() if v.startswith("[")}
    return kv, secs


def oracle(op, out):
    """C16's statement: nothing delivered (reply, state, stream pages, transition, pushes, re-join) that either
    filter excludes — judged by the real filter.Match bits the harness printed."""
    if out.startswith("PANIC"):
        return [("panic in the implementation: " + out, {"kind": "panic"})]
    if out.startswith("harness-error") or out.startswith("bad-op") or out == "<missing>":
        return []
    kv, secs = parse_out(out)
    tb = [(t[0] == "1", t[1] == "1") for t in kv.get("T", "").split(",") if t]
    okv = dict(w.split("=", 1) for w in op.split()[1:] if "=" in w)
    res = []
    if op.startswith("rf "):
        refresh = kv.get("refresh", "")
        changed = okv["new"] != "-" and okv["new"] != okv["old"]
        if okv["map"] == "1" and changed and refresh != "unsub:2502":
            res.append(("sub-refresh changed the server tags filter of a map subscription but it was not unsubscribed "
                        f"with state-invalidated (outcome {refresh})", {"kind": "refresh-not-invalidated"}))
        if refresh == "replied":
            col = 1 if okv["new"] != "-" else 0
            for i in secs.get("push", []):
                if 0 <= i < len(tb) and not tb[i][col]:
                    res.append((f"after sub-refresh publication {i} was pushed although the server filter now in force excludes it",
                                {"kind": "leak", "section": "push-after-refresh", "filter": "server"}))
        return res
    if okv.get("path") == "multi":
        nsub = len(okv["sfs"].split("|"))
        for k in range(nsub):
            tk = [(t[0] == "1", t[1] == "1") for t in kv.get(f"T{k}", "").split(",") if t]
            for i in secs.get(f"push{k}", []):
                if i < 0 or i >= len(tk):
                    res.append((f"subscriber {k}: delivered something that is not one of the publications ({i})",
                                {"kind": "unknown-publication", "section": "push", "path": "multi"}))
                elif not tk[i][0] or not tk[i][1]:
                    which = "server" if not tk[i][0] else "client"
                    res.append((f"subscriber {k} of {nsub} on one channel: publication {i} excluded by its {which} tags "
                                "filter was pushed to it", {"kind": "leak", "section": "push", "path": "multi", "filter": which}))
        return res
    for sec in SECTIONS + ["early"]:
        for i in secs.get(sec, []):
            if i < 0 or i >= len(tb):
                res.append((f"section {sec}: delivered something that is not one of the publications ({i})",
                            {"kind": "unknown-publication", "section": sec, "path": okv["path"]}))
                continue
            sm, cm = tb[i]
            if not sm or not cm:
                which = "server" if not sm else "client"
                res.append((f"publication {i} excluded by the {which} tags filter was delivered in section `{sec}` (path {okv['path']})",
                            {"kind": "leak", "section": sec, "path": okv["path"], "filter": which}))
    return res


def model_line(op, out):
    kv, _ = parse_out(out)
    extra = [f"{k}={v}" for k, v in kv.items() if re.fullmatch(r"T\d*", k)]
    if "rec" in kv:
        extra.append("rec=" + kv["rec"])
    extra += [f"{k}={v}" for k, v in kv.items() if k.startswith("c.")]
    return op + " " + " ".join(extra)


def impl_canon(op, out):
    """what the Lean driver prints: delivered sections only"""
    kv, _ = parse_out(out)
    if op.startswith("rf "):
        return f"refresh={kv.get('refresh', '?')} push={kv.get('push', '[]')}"
    okv = dict(w.split("=", 1) for w in op.split()[1:] if "=" in w)
    if okv["path"] == "multi":
        return " ".join(f"push{k}={kv.get(f'push{k}', '?')}" for k in range(len(okv["sfs"].split("|"))))
    order = {"live": ["push"], "rec": ["reply", "push"], "cache": ["reply", "push"],
             "map": ["state", "stream", "trans", "push", "rejoin"],
             "streamless": ["state", "stream", "trans", "winpush", "push"]}[okv["path"]]
    return " ".join(f"{s}={kv[s]}" for s in order if s in kv)


# ----------------------------------------------------------------------------- run
def run_parallel(ctx, binary, ops, workers=4):
    n = len(ops)
    if n == 0:
        return []
    chunk = (n + workers - 1) // workers
    chunks = [ops[i:i + chunk] for i in range(0, n, chunk)]
    with ThreadPoolExecutor(max_workers=workers) as ex:
        res = list(ex.map(lambda ic: _run_chunk(ctx, binary, ic), enumerate(chunks)))
    out = []
    for c, r in zip(chunks, res):
        r = r + ["<missing>"] * (len(c) - len(r))
        out += r[:len(c)]
    return out


def _run_chunk(ctx, binary, ic):
    from vlib.core import go_env
    i, lines = ic
    ops = os.path.join(ctx.tmp, f"c16ops{i}_{id(lines)}.txt")
    outp = ops + ".out"
    open(ops, "w").write("\n".join(lines) + "\n")
    e = go_env()
    e.update({"VERIF_OPS": ops, "VERIF_OUT": outp})
    try:
        subprocess.run([binary, "-test.run", "^TestVerifC16$", "-test.count=1", "-test.timeout=3000s"],
                       stdout=subprocess.PIPE, stderr=subprocess.STDOUT, env=e, timeout=3100, cwd=ctx.tmp)
    except subprocess.TimeoutExpired:
        pass
    return open(outp).read().splitlines() if os.path.exists(outp) else []


def shrink(ctx, binary, op, sig):
    """drop trailing/leading publications while the same signature shows (fs lines only)"""
    if not op.startswith("fs ") or " path=multi " in op:
        return op
    kv = dict(w.split("=", 1) for w in op.split()[1:])
    specs = kv["pubs"].split(";")

    def build(specs, kv):
        return "fs " + " ".join(f"{k}={v}" for k, v in kv.items() if k != "pubs") + " pubs=" + ";".join(specs)

    def fails(o):
        out = ctx.go_run(binary, "TestVerifC16", [o])
        return bool(out) and any(s == sig for _, s in oracle(o, out[0]))
    budget = 20
    # try removing live publications (those after pre+mid+win and before post) one at a time from the end
    changed = True
    while changed and budget > 0:
        changed = False
        for part in ("live", "pre", "mid", "win", "post"):
            pre, mid, win, post = (int(kv[k]) for k in ("pre", "mid", "win", "post"))
            n = len(specs)
            ranges = {"pre": (0, pre), "mid": (pre, pre + mid), "win": (pre + mid, pre + mid + win),
                      "live": (pre + mid + win, n - post), "post": (n - post, n)}
            a, b = ranges[part]
            if b <= a or n <= 1:
                continue
            kv2 = dict(kv)
            if part != "live":
                kv2[part] = str(int(kv[part]) - 1)
            if part == "pre" and int(kv2.get("roff", 0)) > int(kv2["pre"]):
                kv2["roff"] = kv2["pre"]
            specs2 = specs[:b - 1] + specs[b:]
            budget -= 1
            cand = build(specs2, kv2)
            if fails(cand):
                specs, kv, changed = specs2, kv2, True
                break
            if budget <= 0:
                break
    return build(specs, kv)


def run(ctx):
    ctx.rule = ("scenario = (delivery path: live positioned/not, stream recovery with in-window publications, cache "
                "recovery, map subscription [state pages, publications during pagination, stream pages, live transition "
                "with in-window publications, live, recovering re-join], streamless map, sub-refresh with old/new server "
                "filter) × random server and client filter trees (eq/neq/in/nin/ex/nex, and/or/not, depth ≤ 2 over tags "
                "a,b) × random publication tags (values x,y,z or absent) × JSON/Protobuf; non-trivial = at least one "
                "publication excluded and one delivered; distinct = distinct scenario line")
    ctx.assumptions = [
        "filter.Match itself is C15's subject: the oracle evaluates the real Match, the theorems take it as a parameter",
        "filters with \"\" in an in/nin value set are not generated (C15's finding)",
        "subscriptions without delta (the code delivers filtered publications to delta subscribers by design)",
        "MemoryMapBroker in ephemeral mode publishes without offsets, so the streamless `buffered` list is empty in the "
        "differential run (in-window publications are pushed directly and judged as pushes)",
    ]
    regen(ctx)
    proofs_ok = ctx.lean_obligations(modules=["CentrifugeVerif.Props.C16", "CentrifugeVerif.Props.C16Paths"])
    if not proofs_ok:
        ctx.extra["regenerated_filter_calls"] = open(os.path.join("lean", "CentrifugeVerif", "Gen", "FilterCalls.lean")).read()[-3000:]
    ctx.log("lean obligations done")
    binary = ctx.go_test_binary(".", HARNESS)
    if binary is None:
        ctx.violation("correspondence", "harness no longer builds against package centrifuge",
                      signature={"kind": "harness-build"}, replay={"log": getattr(ctx, "build_error", "")}, no_input=True)
        if not proofs_ok:
            ctx.proof_broken()
        return
    if ctx.replay:
        ops = json.load(open(ctx.replay)).get("ops", [])
    else:
        corpus = [l.strip() for l in open(os.path.join(HERE, "corpus.ops")) if l.strip() and not l.startswith("#")]
        known = []
        try:
            for f in json.load(open(os.path.join(HERE, "findings.json")))["findings"]:
                known += f.get("replay", {}).get("ops", [])
        except FileNotFoundError:
            pass
        ops = known + corpus + [gen(ctx.rng) for _ in range(ctx.scale(600, 15000))]
    impl = run_parallel(ctx, binary, ops, workers=4)
    ctx.log("implementation done")
    mlines = [model_line(op, impl[i]) for i, op in enumerate(ops)]
    model = ctx.lean_run(mlines)
    if model is None:
        proofs_ok = False
        model = []
    herr = ndiff = 0
    seen = {}
    for i, op in enumerate(ops):
        out = impl[i]
        kv, secs = parse_out(out)
        okv = dict(w.split("=", 1) for w in op.split()[1:] if "=" in w)
        path = okv.get("path", "refresh" if op.startswith("rf ") else "?")
        tb = [t for k, v in kv.items() if re.fullmatch(r"T\d*", k) for t in v.split(",") if t]
        ndel = sum(len(v) for k, v in secs.items() if not k.startswith("c."))
        nexcl = len([t for t in tb if t != "11"])
        ctx.record(op, nontrivial=ndel > 0 and nexcl > 0)
        ctx.count("path:" + path)
        if out.startswith("harness-error") or out.startswith("bad-op") or out == "<missing>":
            herr += 1
            ctx.count("harness-error:" + out[:40])
            continue
        for k, v in secs.items():
            if not k.startswith("c."):
                ctx.count("delivered:" + k, len(v))
                ctx.count("withheld:" + k, max(0, len(secs.get("c." + k, [])) - len(v)))
        if "sub" in kv:
            ctx.count("subscribe:" + kv["sub"])
        if "refresh" in kv:
            ctx.count("refresh:" + kv["refresh"])
        for msg, sig in oracle(op, out):
            key = json.dumps(sig, sort_keys=True)
            seen[key] = seen.get(key, 0) + 1
            if seen[key] == 1:
                small = op if ctx.replay else shrink(ctx, binary, op, sig)
                sout = ctx.go_run(binary, "TestVerifC16", [small])
                r2 = oracle(small, sout[0]) if sout else []
                m2 = [m for m, s in r2 if s == sig]
                ctx.violation("property", m2[0] if m2 else msg, signature=sig,
                              replay={"ops": [small if m2 else op], "impl": sout if m2 else [out]})
        if "sub" in kv:
            continue                      # subscribe refused: nothing to compare
        a = impl_canon(op, out)
        b = model[i] if i < len(model) else "<missing>"
        if a != b:
            ndiff += 1
            if ndiff <= 3:
                ctx.violation("correspondence", f"model and implementation differ: impl `{a}` model `{b}`",
                              signature={"kind": "diff", "path": path},
                              replay={"ops": [op], "impl": [out], "model": [b],
                                      "correspondence": "Drivers/C16.lean (Model/FilterPaths.lean) vs hub/client/client_map/node filter applications"},
                              no_input=not ctx.violations)
    ctx.traces_validated = len(ops) - herr
    ctx.extra["harness_errors_dropped"] = herr
    ctx.extra["disagreements"] = ndiff
    ctx.extra["violation_signatures"] = seen
    if herr > max(3, len(ops) // 10):
        ctx.notes.append(f"{herr} scenarios dropped as harness errors")
    if not proofs_ok:
        ctx.proof_broken()
