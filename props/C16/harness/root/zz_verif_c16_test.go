//go:build verif

package centrifuge

// Verification harness for C16 (injected with `go test -overlay`; never part of the repo).
//
//   fs path=live|rec|cache|map|streamless proto=json|pb pos=0|1 sf=<F|-> cf=<F|-> pubs=<spec;…>
//      pre=N mid=N win=N post=N lim=L roff=R
//   rf map=0|1 old=<F|-> new=<F|-> pubs=<spec;…>
//
// Filter syntax (prefix): L<cmp>.<key>.<val>[.<val>…]  A(f,f)  O(f,f)  N(f)
// Publication spec: a<v>b<v>[@<key digit>] with v in {x,y,z,_ (absent)}; publication i has data {"i":i}.
// Partition of `pubs`: `pre` published before the subscribe, `mid` after the first state page (map),
// `win` inside the subscribe window (published by a wrapper broker from inside the history / stream
// read, or from Broker.Subscribe for streamless maps), `post` after an unsubscribe followed by a
// recovering re-join (map), the rest live.
// A real Node with MemoryBroker / MemoryMapBroker behind recording wrappers: the wrappers record what
// the broker handed to each path BEFORE the filters (the candidates).  Output:
//   T=<sm><cm>,…   per publication: real filter.Match(server) / filter.Match(client)
//   <section>=[ids] c.<section>=[ids]   delivered ids / candidate ids per section
// sections: reply push state stream trans rejoin

import (
	"bufio"
	"bytes"
	"context"
	stdjson "encoding/json"
	"fmt"
	"io"
	"os"
	"strconv"
	"strings"
	"sync"
	"testing"
	"time"

	"github.com/centrifugal/centrifuge/internal/filter"
	"github.com/centrifugal/protocol"
)

type verifC16Transport struct {
	mu      sync.Mutex
	proto   ProtocolType
	replies []*protocol.Reply
	closed  bool
	disc    *Disconnect
	notify  chan struct{}
}

func (t *verifC16Transport) Name() string                    { return "verif" }
func (t *verifC16Transport) AcceptProtocol() string           { return "" }
func (t *verifC16Transport) Protocol() ProtocolType           { return t.proto }
func (t *verifC16Transport) ProtocolVersion() ProtocolVersion { return ProtocolVersion2 }
func (t *verifC16Transport) Unidirectional() bool             { return false }
func (t *verifC16Transport) Emulation() bool                  { return false }
func (t *verifC16Transport) DisabledPushFlags() uint64        { return 0 }
func (t *verifC16Transport) PingPongConfig() PingPongConfig {
	return PingPongConfig{PingInterval: time.Hour, PongTimeout: time.Minute}
}
func (t *verifC16Transport) add(b []byte) {
	data := append([]byte(nil), b...)
	if t.proto == ProtocolTypeJSON {
		dec := protocol.NewJSONReplyDecoder(data)
		for {
			r, err := dec.Decode()
			if r != nil && (err == nil || err == io.EOF) {
				t.replies = append(t.replies, r)
			}
			if err != nil {
				return
			}
		}
	}
	var r protocol.Reply
	if err := r.UnmarshalVT(data); err == nil {
		t.replies = append(t.replies, &r)
	}
}
func (t *verifC16Transport) ping() {
	select {
	case t.notify <- struct{}{}:
	default:
	}
}
func (t *verifC16Transport) Write(b []byte) error {
	t.mu.Lock()
	t.add(b)
	t.mu.Unlock()
	t.ping()
	return nil
}
func (t *verifC16Transport) WriteMany(bs ...[]byte) error {
	t.mu.Lock()
	for _, b := range bs {
		t.add(b)
	}
	t.mu.Unlock()
	t.ping()
	return nil
}
func (t *verifC16Transport) Close(d Disconnect) error {
	t.mu.Lock()
	t.closed = true
	dd := d
	t.disc = &dd
	t.mu.Unlock()
	t.ping()
	return nil
}
func (t *verifC16Transport) waitFor(cond func(rs []*protocol.Reply, closed bool) bool) bool {
	deadline := time.Now().Add(10 * time.Second)
	for {
		t.mu.Lock()
		ok := cond(t.replies, t.closed)
		t.mu.Unlock()
		if ok {
			return true
		}
		if time.Now().After(deadline) {
			return false
		}
		select {
		case <-t.notify:
		case <-time.After(20 * time.Millisecond):
		}
	}
}

// ---------------------------------------------------------------- filters and publications

func verifC16ParseFilter(s string) (*protocol.FilterNode, string, bool) {
	if s == "" {
		return nil, s, false
	}
	switch s[0] {
	case 'L':
		end := strings.IndexAny(s, ",)")
		if end < 0 {
			end = len(s)
		}
		parts := strings.Split(s[1:end], ".")
		if len(parts) < 2 {
			return nil, s, false
		}
		n := &protocol.FilterNode{Op: "", Cmp: parts[0], Key: parts[1]}
		vals := parts[2:]
		if parts[0] == "in" || parts[0] == "nin" {
			n.Vals = vals
		} else if len(vals) > 0 {
			n.Val = vals[0]
		}
		return n, s[end:], true
	case 'A', 'O':
		if len(s) < 2 || s[1] != '(' {
			return nil, s, false
		}
		l, rest, ok := verifC16ParseFilter(s[2:])
		if !ok || rest == "" || rest[0] != ',' {
			return nil, s, false
		}
		r, rest2, ok := verifC16ParseFilter(rest[1:])
		if !ok || rest2 == "" || rest2[0] != ')' {
			return nil, s, false
		}
		op := "and"
		if s[0] == 'O' {
			op = "or"
		}
		return &protocol.FilterNode{Op: op, Nodes: []*protocol.FilterNode{l, r}}, rest2[1:], true
	case 'N':
		if len(s) < 2 || s[1] != '(' {
			return nil, s, false
		}
		l, rest, ok := verifC16ParseFilter(s[2:])
		if !ok || rest == "" || rest[0] != ')' {
			return nil, s, false
		}
		return &protocol.FilterNode{Op: "not", Nodes: []*protocol.FilterNode{l}}, rest[1:], true
	}
	return nil, s, false
}

func verifC16Filter(s string) (*protocol.FilterNode, bool) {
	if s == "-" || s == "" {
		return nil, true
	}
	f, rest, ok := verifC16ParseFilter(s)
	if !ok || rest != "" {
		return nil, false
	}
	return f, true
}

type verifC16Pub struct {
	idx  int
	tags map[string]string
	key  string
}

func verifC16ParsePubs(s string) ([]verifC16Pub, bool) {
	var out []verifC16Pub
	if s == "" || s == "-" {
		return nil, true
	}
	for i, spec := range strings.Split(s, ";") {
		key := "k" + strconv.Itoa(i)
		if at := strings.IndexByte(spec, '@'); at >= 0 {
			key = "k" + spec[at+1:]
			spec = spec[:at]
		}
		if len(spec) != 4 || spec[0] != 'a' || spec[2] != 'b' {
			return nil, false
		}
		tags := map[string]string{}
		if spec[1] != '_' {
			tags["a"] = string(spec[1])
		}
		if spec[3] != '_' {
			tags["b"] = string(spec[3])
		}
		out = append(out, verifC16Pub{idx: i, tags: tags, key: key})
	}
	return out, true
}

func verifC16PubID(data []byte, isJSON bool) int {
	var x struct {
		I *int `json:"i"`
	}
	if err := stdjson.Unmarshal(data, &x); err != nil || x.I == nil {
		return -1
	}
	return *x.I
}

func verifC16IDs(pubs []*Publication) []int {
	var out []int
	for _, p := range pubs {
		out = append(out, verifC16PubID(p.Data, true))
	}
	return out
}

func verifC16Fmt(ids []int) string {
	s := make([]string, len(ids))
	for i, v := range ids {
		s[i] = strconv.Itoa(v)
	}
	return "[" + strings.Join(s, ",") + "]"
}

// ---------------------------------------------------------------- recording / injecting brokers

type verifC16Broker struct {
	*MemoryBroker
	mu       sync.Mutex
	lastHist []int
	histSeen bool
	inject   func()
}

func (b *verifC16Broker) History(ch string, opts HistoryOptions) ([]*Publication, StreamPosition, error) {
	pubs, sp, err := b.MemoryBroker.History(ch, opts)
	b.mu.Lock()
	if opts.Filter.Limit != 0 {
		b.lastHist = verifC16IDs(pubs)
		b.histSeen = true
	}
	inj := b.inject
	if opts.Filter.Limit != 0 {
		b.inject = nil
	} else {
		inj = nil
	}
	b.mu.Unlock()
	if inj != nil {
		inj()
	}
	return pubs, sp, err
}

type verifC16MapBroker struct {
	*MemoryMapBroker
	node       *Node
	mu         sync.Mutex
	lastState  []int
	lastStream []int
	injectRead func() // run after the first positioned stream read made while the subscriber is in the hub
	injectSub  func() // run from Subscribe (streamless window)
}

func (b *verifC16MapBroker) Subscribe(chs ...string) error {
	err := b.MemoryMapBroker.Subscribe(chs...)
	b.mu.Lock()
	inj := b.injectSub
	b.injectSub = nil
	b.mu.Unlock()
	if inj != nil {
		inj()
	}
	return err
}

func (b *verifC16MapBroker) ReadState(ctx context.Context, ch string, opts MapReadStateOptions) (MapStateResult, error) {
	res, err := b.MemoryMapBroker.ReadState(ctx, ch, opts)
	b.mu.Lock()
	b.lastState = append(b.lastState, verifC16IDs(res.Publications)...)
	b.mu.Unlock()
	return res, err
}

func (b *verifC16MapBroker) ReadStream(ctx context.Context, ch string, opts MapReadStreamOptions) (MapStreamResult, error) {
	res, err := b.MemoryMapBroker.ReadStream(ctx, ch, opts)
	if opts.Filter.Since == nil || opts.Filter.Limit == 0 {
		return res, err
	}
	b.mu.Lock()
	b.lastStream = append(b.lastStream, verifC16IDs(res.Publications)...)
	var inj func()
	if b.injectRead != nil && b.node.hub.NumSubscribers(ch) > 0 {
		inj = b.injectRead
		b.injectRead = nil
	}
	b.mu.Unlock()
	if inj != nil {
		inj()
	}
	return res, err
}

func (b *verifC16MapBroker) take() (state, stream []int) {
	b.mu.Lock()
	defer b.mu.Unlock()
	state, stream = b.lastState, b.lastStream
	b.lastState, b.lastStream = nil, nil
	return
}

// ---------------------------------------------------------------- scenario

type verifC16Run struct {
	node    *Node
	client  *Client
	tr      *verifC16Transport
	isJSON  bool
	cursor  int
	cmdID   uint32
	fence   int
	out     []string
	pubs    []verifC16Pub
	publish func(p verifC16Pub) error
}

func (r *verifC16Run) section(name string, delivered, cand []int) {
	r.out = append(r.out, name+"="+verifC16Fmt(delivered)+" c."+name+"="+verifC16Fmt(cand))
}

func (r *verifC16Run) doFence() {
	r.fence++
	marker := []byte(fmt.Sprintf(`{"fence":%d}`, r.fence))
	if err := r.client.Send(marker); err != nil {
		return
	}
	r.tr.waitFor(func(rs []*protocol.Reply, closed bool) bool {
		if closed {
			return true
		}
		for i := len(rs) - 1; i >= 0 && i >= len(rs)-50; i-- {
			if rs[i].Push != nil && rs[i].Push.Message != nil && bytes.Equal(rs[i].Push.Message.Data, marker) {
				return true
			}
		}
		return false
	})
}

func (r *verifC16Run) pushes() (ids []int, unsub string) {
	r.tr.mu.Lock()
	rs := append([]*protocol.Reply(nil), r.tr.replies[r.cursor:]...)
	r.cursor = len(r.tr.replies)
	r.tr.mu.Unlock()
	for _, x := range rs {
		if x.Push == nil {
			continue
		}
		if x.Push.Pub != nil {
			ids = append(ids, verifC16PubID(x.Push.Pub.Data, r.isJSON))
		}
		if x.Push.Unsubscribe != nil {
			unsub = fmt.Sprintf("unsub:%d", x.Push.Unsubscribe.Code)
		}
	}
	return
}

func (r *verifC16Run) command(cmd *protocol.Command) (*protocol.Reply, bool) {
	r.cmdID++
	cmd.Id = r.cmdID
	id := cmd.Id
	r.client.HandleCommand(cmd, 0)
	var rep *protocol.Reply
	ok := r.tr.waitFor(func(rs []*protocol.Reply, closed bool) bool {
		for _, x := range rs {
			if x.Id == id {
				rep = x
				return true
			}
		}
		return closed
	})
	return rep, ok && rep != nil
}

func verifC16ProtoIDs(pubs []*protocol.Publication, isJSON bool) []int {
	var out []int
	for _, p := range pubs {
		out = append(out, verifC16PubID(p.Data, isJSON))
	}
	return out
}

func verifC16Scenario(line string) (res string) {
	defer func() {
		if r := recover(); r != nil {
			res = fmt.Sprintf("PANIC %v", r)
		}
	}()
	kv := verifC14KVc16(line)
	if kv["path"] == "multi" {
		return verifC16Multi(kv)
	}
	isRefresh := strings.HasPrefix(line, "rf ")
	path := kv["path"]
	isJSON := kv["proto"] != "pb"
	positioned := kv["pos"] == "1"
	atoi := func(k string) int { v, _ := strconv.Atoi(kv[k]); return v }
	pre, mid, win, post, lim, roff := atoi("pre"), atoi("mid"), atoi("win"), atoi("post"), atoi("lim"), atoi("roff")
	sfS, cfS := kv["sf"], kv["cf"]
	if isRefresh {
		sfS, cfS = kv["old"], "-"
		if kv["map"] == "1" {
			path = "map"
		} else {
			path = "live"
		}
		lim = 100
	}
	sf, ok1 := verifC16Filter(sfS)
	cf, ok2 := verifC16Filter(cfS)
	newF, ok3 := verifC16Filter(kv["new"])
	pubs, ok4 := verifC16ParsePubs(kv["pubs"])
	if !ok1 || !ok2 || !ok3 || !ok4 {
		return "bad-op"
	}
	if sf != nil && filter.Validate(sf) != nil || cf != nil && filter.Validate(cf) != nil {
		return "bad-op invalid-filter"
	}
	isMap := path == "map" || path == "streamless"
	const ch = "ch"

	cfg := Config{
		LogLevel:                        LogLevelError,
		LogHandler:                      func(e LogEntry) {},
		ClientChannelPositionMaxTimeLag: time.Hour,
		ClientChannelPositionCheckDelay: time.Hour,
	}
	if isMap {
		mode := MapModeRecoverable
		if path == "streamless" {
			mode = MapModeEphemeral
		}
		cfg.Map = MapConfig{GetMapChannelOptions: func(channel string) MapChannelOptions {
			return MapChannelOptions{Mode: mode, KeyTTL: time.Hour, MinPageSize: 1}
		}}
	}
	node, err := New(cfg)
	if err != nil {
		return "harness-error new-node " + err.Error()
	}
	var sbroker *verifC16Broker
	var mbroker *verifC16MapBroker
	if isMap {
		mb, err := NewMemoryMapBroker(node, MemoryMapBrokerConfig{})
		if err != nil {
			return "harness-error map-broker " + err.Error()
		}
		mbroker = &verifC16MapBroker{MemoryMapBroker: mb, node: node}
		node.SetMapBroker(mbroker)
	} else {
		b, err := NewMemoryBroker(node, MemoryBrokerConfig{})
		if err != nil {
			return "harness-error broker " + err.Error()
		}
		sbroker = &verifC16Broker{MemoryBroker: b}
		node.SetBroker(sbroker)
	}
	// cache path: the OnCacheEmpty handler populates the cache with the `mid` publications and asks for
	// the retry (`Populated`)
	var populate func() bool
	popFired := 0
	if path == "cache" {
		node.OnCacheEmpty(func(e CacheEmptyEvent) (CacheEmptyReply, error) {
			popFired++
			if populate == nil || popFired > 1 {
				return CacheEmptyReply{}, nil
			}
			return CacheEmptyReply{Populated: populate()}, nil
		})
	}
	node.OnConnecting(func(ctx context.Context, e ConnectEvent) (ConnectReply, error) {
		return ConnectReply{Credentials: &Credentials{UserID: "u"}}, nil
	})
	node.OnConnect(func(c *Client) {
		c.OnSubscribe(func(e SubscribeEvent, cb SubscribeCallback) {
			opts := SubscribeOptions{AllowTagsFilter: true, ServerTagsFilter: sf}
			if isMap {
				opts.Type = SubscriptionTypeMap
			} else {
				opts.EnableRecovery, opts.EnablePositioning = positioned, positioned
				if path == "cache" {
					opts.RecoveryMode = RecoveryModeCache
				}
			}
			rep := SubscribeReply{Options: opts}
			if isRefresh {
				rep.ClientSideRefresh = true
				rep.Options.ExpireAt = time.Now().Unix() + 3600
			}
			cb(rep, nil)
		})
		c.OnSubRefresh(func(e SubRefreshEvent, cb SubRefreshCallback) {
			cb(SubRefreshReply{ExpireAt: time.Now().Unix() + 3600, ServerTagsFilter: newF}, nil)
		})
	})
	if err := node.Run(); err != nil {
		return "harness-error run " + err.Error()
	}
	defer func() { _ = node.Shutdown(context.Background()) }()

	proto := ProtocolTypeJSON
	if !isJSON {
		proto = ProtocolTypeProtobuf
	}
	tr := &verifC16Transport{notify: make(chan struct{}, 1), proto: proto}
	ctx, cancel := context.WithCancel(context.Background())
	defer cancel()
	client, closeFn, err := NewClient(ctx, node, tr)
	if err != nil {
		return "harness-error new-client"
	}
	defer func() { _ = closeFn() }()
	r := &verifC16Run{node: node, client: client, tr: tr, isJSON: isJSON, pubs: pubs}
	if rep, ok := r.command(&protocol.Command{Connect: &protocol.ConnectRequest{}}); !ok || rep.Error != nil {
		return "harness-error connect"
	}
	r.cursor = 1
	publish := func(p verifC16Pub) error {
		data := []byte(`{"i":` + strconv.Itoa(p.idx) + `}`)
		if isMap {
			_, err := node.MapPublish(context.Background(), ch, p.key, MapPublishOptions{Data: data, Tags: p.tags})
			return err
		}
		opts := []PublishOption{WithTags(p.tags)}
		if positioned || path == "rec" || path == "cache" {
			opts = append(opts, WithHistory(1000, time.Hour))
		}
		_, err := node.Publish(ch, data, opts...)
		return err
	}
	// real Match of every publication (the oracle's facts)
	var tbits []string
	for _, p := range pubs {
		sm, cm := true, true
		if isRefresh {
			if newF != nil {
				cm, _ = filter.Match(newF, p.tags) // second column = the NEW server filter for rf lines
			}
		} else if cf != nil {
			cm, _ = filter.Match(cf, p.tags)
		}
		if sf != nil {
			sm, _ = filter.Match(sf, p.tags)
		}
		b := func(x bool) string {
			if x {
				return "1"
			}
			return "0"
		}
		tbits = append(tbits, b(sm)+b(cm))
	}
	r.out = append(r.out, "T="+strings.Join(tbits, ","))

	if pre+mid+win+post > len(pubs) {
		return "bad-op partition"
	}
	pPre := pubs[:pre]
	pMid := pubs[pre : pre+mid]
	pWin := pubs[pre+mid : pre+mid+win]
	pLive := pubs[pre+mid+win : len(pubs)-post]
	pPost := pubs[len(pubs)-post:]
	idsOf := func(ps []verifC16Pub) []int {
		var out []int
		for _, p := range ps {
			out = append(out, p.idx)
		}
		return out
	}
	for _, p := range pPre {
		if err := publish(p); err != nil {
			return "harness-error publish " + err.Error()
		}
	}
	injected := false
	injectWin := func() {
		injected = true
		for _, p := range pWin {
			_ = publish(p)
		}
	}
	winIDs := func() []int {
		if injected {
			return idsOf(pWin)
		}
		return nil
	}
	var tf *protocol.FilterNode = cf
	if path == "cache" {
		populate = func() bool {
			for _, p := range pMid {
				_ = publish(p)
			}
			return len(pMid) > 0
		}
	}
	var mapOffset uint64
	var mapEpoch string

	if !isMap {
		req := &protocol.SubscribeRequest{Channel: ch, Tf: tf}
		if path == "rec" || path == "cache" {
			req.Recover = true
			req.Offset = uint64(roff)
			sbroker.mu.Lock()
			sbroker.inject = injectWin
			sbroker.mu.Unlock()
		}
		rep, ok := r.command(&protocol.Command{Subscribe: req})
		if !ok {
			return "harness-error subscribe"
		}
		if rep.Error != nil {
			return strings.Join(r.out, " ") + fmt.Sprintf(" sub=err%d", rep.Error.Code)
		}
		if path == "rec" || path == "cache" {
			sbroker.mu.Lock()
			hist := sbroker.lastHist
			sbroker.mu.Unlock()
			rec := 0
			if rep.Subscribe.Recovered {
				rec = 1
			}
			r.out = append(r.out, fmt.Sprintf("rec=%d", rec))
			if path == "cache" {
				r.out = append(r.out, fmt.Sprintf("pop=%d", popFired))
			}
			r.section("reply", verifC16ProtoIDs(rep.Subscribe.Publications, isJSON), hist)
			r.out = append(r.out, "c.win="+verifC16Fmt(winIDs()))
		}
		r.doFence()
		early, _ := r.pushes()
		if len(early) > 0 {
			r.out = append(r.out, "early="+verifC16Fmt(early))
		}
	} else {
		// play the map subscribe protocol
		req := &protocol.SubscribeRequest{Channel: ch, Type: int32(SubscriptionTypeMap), Phase: MapPhaseState, Limit: int32(lim), Tf: tf}
		var state, stream, cState, cStream []int
		var offset uint64
		var epoch string
		first := true
		mbroker.mu.Lock()
		if path == "streamless" {
			mbroker.injectSub = injectWin
		} else {
			mbroker.injectRead = injectWin
		}
		mbroker.mu.Unlock()
		for step := 0; ; step++ {
			if step > 200 {
				return "harness-error map-protocol-loop"
			}
			rep, ok := r.command(&protocol.Command{Subscribe: req})
			if !ok {
				return "harness-error map-subscribe"
			}
			cs, cst := mbroker.take()
			if rep.Error != nil {
				return strings.Join(r.out, " ") + fmt.Sprintf(" sub=err%d", rep.Error.Code)
			}
			sr := rep.Subscribe
			state = append(state, verifC16ProtoIDs(sr.State, isJSON)...)
			cState = append(cState, cs...)
			if sr.Phase == MapPhaseLive {
				r.section("state", state, cState)
				r.section("stream", stream, cStream)
				r.section("trans", verifC16ProtoIDs(sr.Publications, isJSON), cst)
				r.out = append(r.out, "c.win="+verifC16Fmt(winIDs()))
				offset, epoch = sr.Offset, sr.Epoch
				break
			}
			if sr.Phase == MapPhaseStream {
				stream = append(stream, verifC16ProtoIDs(sr.Publications, isJSON)...)
				cStream = append(cStream, cst...)
				req = &protocol.SubscribeRequest{Channel: ch, Type: int32(SubscriptionTypeMap), Phase: MapPhaseStream, Limit: int32(lim), Offset: sr.Offset, Epoch: sr.Epoch}
				continue
			}
			// state phase reply
			if first {
				first = false
				for _, p := range pMid {
					if err := publish(p); err != nil {
						return "harness-error publish-mid " + err.Error()
					}
				}
			}
			if sr.Cursor != "" {
				req = &protocol.SubscribeRequest{Channel: ch, Type: int32(SubscriptionTypeMap), Phase: MapPhaseState, Limit: int32(lim), Cursor: sr.Cursor}
			} else {
				req = &protocol.SubscribeRequest{Channel: ch, Type: int32(SubscriptionTypeMap), Phase: MapPhaseStream, Limit: int32(lim), Offset: sr.Offset, Epoch: sr.Epoch}
			}
		}
		r.doFence()
		early, _ := r.pushes()
		if len(early) > 0 {
			// streamless window publications carry no offset: they are written directly
			r.section("winpush", early, winIDs())
		}
		mapOffset, mapEpoch = offset, epoch
	}
	if isRefresh {
		// a map subscription whose server filter changed gets an unsubscribe push and NO reply
		r.cmdID++
		rid := r.cmdID
		r.client.HandleCommand(&protocol.Command{Id: rid, SubRefresh: &protocol.SubRefreshRequest{Channel: ch, Token: "t"}}, 0)
		var rep *protocol.Reply
		r.tr.waitFor(func(rs []*protocol.Reply, closed bool) bool {
			for _, x := range rs {
				if x.Id == rid {
					rep = x
					return true
				}
				if x.Push != nil && x.Push.Unsubscribe != nil {
					return true
				}
			}
			return closed
		})
		outcome := "none"
		if rep != nil && rep.Error != nil {
			outcome = fmt.Sprintf("err%d", rep.Error.Code)
		} else if rep != nil && rep.SubRefresh != nil {
			outcome = "replied"
		}
		r.doFence()
		_, unsub := r.pushes()
		if unsub != "" {
			outcome = unsub
		}
		r.out = append(r.out, "refresh="+outcome)
	}
	for _, p := range pLive {
		if err := publish(p); err != nil {
			return "harness-error publish-live " + err.Error()
		}
	}
	r.doFence()
	got, unsub := r.pushes()
	r.section("push", got, idsOf(pLive))
	if unsub != "" {
		r.out = append(r.out, unsub)
	}
	if post > 0 && path == "map" && !isRefresh {
		if _, ok := r.command(&protocol.Command{Unsubscribe: &protocol.UnsubscribeRequest{Channel: ch}}); !ok {
			return "harness-error unsubscribe"
		}
		r.doFence()
		r.pushes()
		for _, p := range pPost {
			if err := publish(p); err != nil {
				return "harness-error publish-post " + err.Error()
			}
		}
		mbroker.take()
		rep, ok := r.command(&protocol.Command{Subscribe: &protocol.SubscribeRequest{
			Channel: ch, Type: int32(SubscriptionTypeMap), Phase: MapPhaseLive, Recover: true, Offset: mapOffset, Epoch: mapEpoch, Tf: tf}})
		if !ok {
			return "harness-error rejoin"
		}
		_, cst := mbroker.take()
		if rep.Error != nil {
			r.out = append(r.out, fmt.Sprintf("rejoin=err%d", rep.Error.Code))
		} else {
			r.section("rejoin", verifC16ProtoIDs(rep.Subscribe.Publications, isJSON), cst)
		}
	}
	return strings.Join(r.out, " ")
}

// verifC16Multi: several concurrent subscribers of ONE channel on the same protocol, each with its own
// server and client filter (`sfs=` / `cfs=`, `|`-separated), many live publications; per subscriber
// `T<k>=…`, `push<k>=[…]`, `c.push<k>=[…]`.  (The prepared-payload cache of the hub is shared by the
// subscribers of a channel, keyed by protocol/delta/useID/filtered.)
func verifC16Multi(kv map[string]string) string {
	isJSON := kv["proto"] != "pb"
	positioned := kv["pos"] == "1"
	sfs := strings.Split(kv["sfs"], "|")
	cfs := strings.Split(kv["cfs"], "|")
	if len(sfs) != len(cfs) || len(sfs) == 0 {
		return "bad-op"
	}
	pubs, okp := verifC16ParsePubs(kv["pubs"])
	if !okp {
		return "bad-op"
	}
	var sfN, cfN []*protocol.FilterNode
	for i := range sfs {
		a, ok1 := verifC16Filter(sfs[i])
		b, ok2 := verifC16Filter(cfs[i])
		if !ok1 || !ok2 || (a != nil && filter.Validate(a) != nil) || (b != nil && filter.Validate(b) != nil) {
			return "bad-op invalid-filter"
		}
		sfN = append(sfN, a)
		cfN = append(cfN, b)
	}
	const ch = "ch"
	node, err := New(Config{LogLevel: LogLevelError, LogHandler: func(e LogEntry) {},
		ClientChannelPositionMaxTimeLag: time.Hour, ClientChannelPositionCheckDelay: time.Hour})
	if err != nil {
		return "harness-error new-node " + err.Error()
	}
	node.OnConnecting(func(ctx context.Context, e ConnectEvent) (ConnectReply, error) {
		return ConnectReply{Credentials: &Credentials{UserID: "u"}}, nil
	})
	node.OnConnect(func(c *Client) {
		c.OnSubscribe(func(e SubscribeEvent, cb SubscribeCallback) {
			k, _ := strconv.Atoi(string(e.Data))
			var f *FilterNode
			if k >= 0 && k < len(sfN) {
				f = sfN[k]
			}
			cb(SubscribeReply{Options: SubscribeOptions{AllowTagsFilter: true, ServerTagsFilter: f,
				EnableRecovery: positioned, EnablePositioning: positioned}}, nil)
		})
	})
	if err := node.Run(); err != nil {
		return "harness-error run " + err.Error()
	}
	defer func() { _ = node.Shutdown(context.Background()) }()
	proto := ProtocolTypeJSON
	if !isJSON {
		proto = ProtocolTypeProtobuf
	}
	var runs []*verifC16Run
	for k := range sfN {
		tr := &verifC16Transport{notify: make(chan struct{}, 1), proto: proto}
		ctx, cancel := context.WithCancel(context.Background())
		defer cancel()
		client, closeFn, err := NewClient(ctx, node, tr)
		if err != nil {
			return "harness-error new-client"
		}
		defer func() { _ = closeFn() }()
		r := &verifC16Run{node: node, client: client, tr: tr, isJSON: isJSON}
		if rep, ok := r.command(&protocol.Command{Connect: &protocol.ConnectRequest{}}); !ok || rep.Error != nil {
			return "harness-error connect"
		}
		rep, ok := r.command(&protocol.Command{Subscribe: &protocol.SubscribeRequest{Channel: ch, Tf: cfN[k], Data: []byte(strconv.Itoa(k))}})
		if !ok || rep.Error != nil {
			return "harness-error subscribe"
		}
		r.doFence()
		r.pushes()
		runs = append(runs, r)
	}
	var out []string
	for k := range runs {
		var tb []string
		for _, p := range pubs {
			sm, cm := true, true
			if sfN[k] != nil {
				sm, _ = filter.Match(sfN[k], p.tags)
			}
			if cfN[k] != nil {
				cm, _ = filter.Match(cfN[k], p.tags)
			}
			b := func(x bool) string {
				if x {
					return "1"
				}
				return "0"
			}
			tb = append(tb, b(sm)+b(cm))
		}
		out = append(out, fmt.Sprintf("T%d=%s", k, strings.Join(tb, ",")))
	}
	var all []int
	for _, p := range pubs {
		opts := []PublishOption{WithTags(p.tags)}
		if positioned {
			opts = append(opts, WithHistory(1000, time.Hour))
		}
		if _, err := node.Publish(ch, []byte(`{"i":`+strconv.Itoa(p.idx)+`}`), opts...); err != nil {
			return "harness-error publish " + err.Error()
		}
		all = append(all, p.idx)
	}
	for k, r := range runs {
		r.doFence()
		got, unsub := r.pushes()
		out = append(out, fmt.Sprintf("push%d=%s c.push%d=%s", k, verifC16Fmt(got), k, verifC16Fmt(all)))
		if unsub != "" {
			out = append(out, fmt.Sprintf("end%d=%s", k, unsub))
		}
	}
	return strings.Join(out, " ")
}

func verifC14KVc16(line string) map[string]string {
	m := map[string]string{}
	for _, w := range strings.Fields(line) {
		if i := strings.IndexByte(w, '='); i > 0 {
			m[w[:i]] = w[i+1:]
		}
	}
	return m
}

func TestVerifC16(t *testing.T) {
	in, err := os.Open(os.Getenv("VERIF_OPS"))
	if err != nil {
		t.Skip("no VERIF_OPS")
	}
	defer in.Close()
	out, err := os.Create(os.Getenv("VERIF_OUT"))
	if err != nil {
		t.Fatal(err)
	}
	defer out.Close()
	w := bufio.NewWriter(out)
	defer w.Flush()
	sc := bufio.NewScanner(in)
	sc.Buffer(make([]byte, 1<<20), 1<<26)
	for sc.Scan() {
		line := sc.Text()
		if line == "" || strings.HasPrefix(line, "#") {
			fmt.Fprintln(w, "#")
			continue
		}
		fmt.Fprintln(w, verifC16Scenario(line))
		w.Flush()
	}
}
