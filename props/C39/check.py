"""C39 — recovery merge: sorted, deduplicated, detects gaps.

Proof: lean/CentrifugeVerif/Props/C39.lean over Model/Merge.lean.
Tie: differential run of internal/recovery.MergePublications against the Lean driver on the same
generated inputs; plus an independent oracle (the property statement itself, evaluated on the
implementation's output) so that a disagreement is classified as property violation or as a mere
correspondence break.
"""
import json
from vlib.core import diff_lines

U64 = 2 ** 64 - 1


def gen_case(rng):
    kind = rng.random()
    base = rng.choice([0, 1, 2, 5, 100, 2 ** 32, U64 - 40]) if rng.random() < 0.3 else rng.randint(0, 50)
    nrec = rng.choice([0, 0, 1, 2, 3, 5, 8, 13])
    nbuf = rng.choice([0, 0, 1, 1, 2, 3, 5, 8])
    rec, buf = [], []
    o = base
    pfilt = rng.choice([0.0, 0.0, 0.15, 0.4, 0.9])
    pgap = rng.choice([0.0, 0.0, 0.1, 0.3])
    for _ in range(nrec):
        o += 1
        if rng.random() < pgap:
            o += rng.randint(1, 3)
        rec.append([o, 1 if rng.random() < pfilt else 0])
    # buffered: usually overlaps the tail of recovered and continues
    if rec and rng.random() < 0.7:
        o = max(base, o - rng.randint(0, min(3, len(rec))))
    for _ in range(nbuf):
        o += 1
        if rng.random() < pgap:
            o += rng.randint(1, 3)
        buf.append([o, 1 if rng.random() < pfilt else 0])
    if kind < 0.15:  # unsorted / duplicated inputs
        rng.shuffle(rec)
        rng.shuffle(buf)
        if rec and rng.random() < 0.5:
            rec.append(list(rng.choice(rec)))
        if buf and rng.random() < 0.5:
            buf.append(list(rng.choice(buf)))
    elif kind < 0.25:  # same offset filtered and unfiltered
        if rec:
            x = rng.choice(rec)
            (buf if rng.random() < 0.5 else rec).append([x[0], 1 - x[1]])
    rec = [[min(a, U64), f] for a, f in rec]
    buf = [[min(a, U64), f] for a, f in buf]
    return rec, buf


def fmt(rec, buf):
    return "merge " + " ".join(f"{o}:{f}" for o, f in rec) + " | " + " ".join(f"{o}:{f}" for o, f in buf)


def parse_op(op):
    ws = op.split()[1:]
    i = ws.index("|")
    f = lambda xs: [[int(w.split(":")[0]), int(w.split(":")[1])] for w in xs]
    return f(ws[:i]), f(ws[i + 1:])


def oracle(op, out):
    """The property statement evaluated on the implementation's own output.  None = holds."""
    rec, buf = parse_op(op)
    allp = rec + buf
    nf = sorted({o for o, f in allp if not f})
    fl = {o for o, f in allp if f}
    hole = False
    if buf and len(nf) >= 2:
        for a, b in zip(nf, nf[1:]):
            if b - a - 1 > len(fl):
                hole = True
                break
            if any(x not in fl for x in range(a + 1, b)):
                hole = True
                break
    if out == "PANIC":
        return "panic"
    if out.startswith("ok=0"):
        if out != "ok=0":
            return "failure result carries data: " + out
        return None if hole else "reported failure although there is no uncovered hole (or nothing was buffered)"
    if not out.startswith("ok=1"):
        return "unparseable output " + out
    kv = dict(w.split("=", 1) for w in out.split()[1:])
    offs = [int(x) for x in kv["offs"].split(",") if x]
    ids = [x for x in kv.get("ids", "").split(",") if x]
    if hole:
        return "merge succeeded although merged offsets have a hole not covered by filtered placeholders"
    if any(b <= a for a, b in zip(offs, offs[1:])):
        return "result offsets not strictly increasing (unordered or duplicate)"
    if any(i.endswith("F") for i in ids):
        return "result carries a filtered placeholder"
    if offs != nf:
        return f"result offsets {offs} are not the union of unfiltered offsets {nf}"
    for off, i in zip(offs, ids):
        j = int(i)
        if j >= len(allp) or allp[j][0] != off or allp[j][1]:
            return "returned entry is not an unfiltered input with that offset"
    mx = max([o for o, _ in allp], default=0)
    if int(kv["max"]) != mx:
        return f"max seen offset {kv['max']} != {mx}"
    return None


def strip_ids(line):
    return " ".join(w for w in line.split() if not w.startswith("ids="))


def signature(op, msg):
    rec, buf = parse_op(op)
    return {"oracle": msg.split(" (")[0][:60], "buffered": bool(buf)}


def shrink(ctx, binary, op, msg0):
    """Greedy shrink of a failing merge input (drop entries while the oracle still fails)."""
    rec, buf = parse_op(op)
    cur = (rec, buf)

    def fails(r, b):
        o = fmt(r, b)
        out = ctx.go_run(binary, "TestVerifC39", [o])
        return bool(out) and oracle(o, out[0]) is not None
    changed = True
    budget = 60
    while changed and budget > 0:
        changed = False
        r, b = cur
        for which in (0, 1):
            lst = (r, b)[which]
            for i in range(len(lst)):
                cand = lst[:i] + lst[i + 1:]
                nr, nb = (cand, b) if which == 0 else (r, cand)
                budget -= 1
                if budget <= 0:
                    break
                if fails(nr, nb):
                    cur, changed = (nr, nb), True
                    break
            if changed or budget <= 0:
                break
    return fmt(*cur)


def run(ctx):
    ctx.rule = ("random (recovered, buffered) publication lists: contiguous runs with overlaps, gaps, filtered "
                "placeholders, duplicates, unsorted inputs, offsets near 2^64; non-trivial = buffered non-empty or "
                "contains a filtered/duplicate entry; distinct = distinct op line")
    ctx.assumptions = ["sort.Slice is unstable: which of several equal-offset entries survives is not compared, "
                       "only validated against the input", "payload bytes are not inspected by the algorithm"]
    proofs_ok = ctx.lean_obligations()
    binary = ctx.go_test_binary("internal/recovery", ["props/C39/harness/internal__recovery/zz_verif_c39_test.go"])
    if binary is None:
        ctx.violation("correspondence", "harness no longer builds against internal/recovery",
                      signature={"kind": "harness-build"}, replay={"log": getattr(ctx, "build_error", "")},
                      no_input=True)
        return
    if ctx.replay:
        ops = json.load(open(ctx.replay)).get("ops", [])
    else:
        corpus = [l.strip() for l in open("props/C39/corpus.ops") if l.strip() and not l.startswith("#")]
        n = ctx.scale(4000, 200000)
        ops = corpus + [fmt(*gen_case(ctx.rng)) for _ in range(n)]
    impl = ctx.go_run(binary, "TestVerifC39", ops)
    model = ctx.lean_run(ops)
    if model is None:
        proofs_ok = False
        model = []
    nviol = 0
    for i, op in enumerate(ops):
        out = impl[i] if i < len(impl) else "<missing>"
        rec, buf = parse_op(op)
        ctx.record(op, nontrivial=bool(buf) or any(f for _, f in rec))
        ctx.count("buffered" if buf else "no-buffered")
        ctx.count("impl:" + out.split()[0])
        msg = oracle(op, out) if out != "<missing>" else "implementation produced no output (crash?)"
        if msg:
            nviol += 1
            if nviol <= 3:
                small = shrink(ctx, binary, op, msg)
                sout = ctx.go_run(binary, "TestVerifC39", [small])
                ctx.violation("property", msg, signature=signature(small, msg),
                              replay={"ops": [small], "impl": sout, "original_op": op})
    ctx.traces_validated = len(ops)
    ndiff = 0
    for i, op, a, b in diff_lines(ops, [strip_ids(x) for x in impl], model):
        ndiff += 1
        if ndiff <= 3 and model:
            # implementation and model disagree; the oracle above already ran on every case
            ctx.violation("correspondence", f"model and implementation differ: impl `{a}` model `{b}`",
                          signature={"kind": "diff", "impl": a.split()[0], "model": b.split()[0]},
                          replay={"ops": [op], "impl": [a], "model": [b],
                                  "correspondence": "Drivers/C39.lean vs internal/recovery.MergePublications"},
                          no_input=(nviol == 0))
    ctx.extra["disagreements"] = ndiff
    if not proofs_ok:
        ctx.proof_broken()
