//go:build verif

package recovery

// Verification harness for C39 (injected with `go test -overlay`, never part of the repo).
// Reads one operation per line from $VERIF_OPS and writes one canonical line per operation
// to $VERIF_OUT.  Line: `merge <pubs> | <pubs>`, pubs = `offset:filtered` separated by spaces.
// Output: `ok=1 offs=… max=… ids=…` or `ok=0`.  (`ids` = input positions of the returned
// entries; the model does not predict them because sort.Slice is unstable; the check validates
// them against the input instead.)

import (
	"bufio"
	"fmt"
	"os"
	"strconv"
	"strings"
	"testing"

	"github.com/centrifugal/protocol"
)

func verifC39Parse(ws []string, start int) ([]*protocol.Publication, bool) {
	out := make([]*protocol.Publication, 0, len(ws))
	for i, w := range ws {
		parts := strings.Split(w, ":")
		if len(parts) != 2 {
			return nil, false
		}
		off, err := strconv.ParseUint(parts[0], 10, 64)
		if err != nil {
			return nil, false
		}
		p := &protocol.Publication{Offset: off, Data: []byte(strconv.Itoa(start + i))}
		switch parts[1] {
		case "0":
		case "1":
			p.Time = -1
		default:
			return nil, false
		}
		out = append(out, p)
	}
	return out, true
}

func verifC39Step(line string) (res string) {
	defer func() {
		if r := recover(); r != nil {
			res = "PANIC"
		}
	}()
	ws := strings.Fields(line)
	if len(ws) == 0 || ws[0] != "merge" {
		return "bad-op"
	}
	ws = ws[1:]
	sep := -1
	for i, w := range ws {
		if w == "|" {
			sep = i
			break
		}
	}
	if sep < 0 {
		return "bad-op"
	}
	rec, ok := verifC39Parse(ws[:sep], 0)
	if !ok {
		return "bad-op"
	}
	buf, ok := verifC39Parse(ws[sep+1:], len(rec))
	if !ok {
		return "bad-op"
	}
	if len(buf) == 0 {
		buf = nil // both nil and empty occur at call sites; the op picks via "nilrec"
	}
	pubs, maxSeen, okm := MergePublications(rec, buf)
	if !okm {
		if pubs != nil || maxSeen != 0 {
			return "ok=0 nonzero-on-failure"
		}
		return "ok=0"
	}
	offs := make([]string, 0, len(pubs))
	ids := make([]string, 0, len(pubs))
	for _, p := range pubs {
		offs = append(offs, strconv.FormatUint(p.Offset, 10))
		id := string(p.Data)
		if p.Time == -1 {
			id += "F"
		}
		ids = append(ids, id)
	}
	return fmt.Sprintf("ok=1 offs=%s max=%d ids=%s", strings.Join(offs, ","), maxSeen, strings.Join(ids, ","))
}

func TestVerifC39(t *testing.T) {
	in, err := os.Open(os.Getenv("VERIF_OPS"))
	if err != nil {
		t.Skip("no VERIF_OPS")
	}
	defer in.Close()
	out, err := os.Create(os.Getenv("VERIF_OUT"))
	if err != nil {
		t.Fatal(err)
	}
	defer out.Close()
	w := bufio.NewWriter(out)
	defer w.Flush()
	sc := bufio.NewScanner(in)
	sc.Buffer(make([]byte, 1<<20), 1<<26)
	for sc.Scan() {
		line := sc.Text()
		if line == "" || strings.HasPrefix(line, "#") {
			fmt.Fprintln(w, "#")
			continue
		}
		fmt.Fprintln(w, verifC39Step(line))
	}
}
