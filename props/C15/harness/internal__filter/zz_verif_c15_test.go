//go:build verif

package filter

// Verification harness for C15 (injected with `go test -overlay`, never part of the repo).
// One op per line from $VERIF_OPS, one canonical line per op to $VERIF_OUT.
//
//	eval <khex:vhex>* | <tree>  -> validate=<ok|err:kind|PANIC> match=<true|false|err:kind|PANIC> hash=<hex> stable=<0|1>
//	dec <ahex> <bhex>           -> pa=<0|1> pb=<0|1> cmp=<-1|0|1|na>
//
// <tree> = N <op> <key> <cmp> <val> <nvals> <val>* <nchildren> <child>*   child = <tree> | Z (nil pointer)
// all strings hex encoded, "-" = empty.  `hash` is the marshalled tree (what Hash feeds to SHA-256);
// `stable` = Hash of two independently built copies is equal and equals sha256 of those bytes.

import (
	"bufio"
	"bytes"
	"crypto/sha256"
	"encoding/hex"
	"fmt"
	"os"
	"strconv"
	"strings"
	"testing"

	"github.com/centrifugal/protocol"
	"github.com/quagmt/udecimal"
)

func verifC15Str(w string) (string, bool) {
	if w == "-" {
		return "", true
	}
	b, err := hex.DecodeString(w)
	if err != nil {
		return "", false
	}
	return string(b), true
}

// variant 0 leaves absent slices nil, variant 1 uses empty non-nil slices.
func verifC15Node(ws []string, variant int) (*protocol.FilterNode, []string, bool) {
	if len(ws) < 7 || ws[0] != "N" {
		return nil, nil, false
	}
	f := &protocol.FilterNode{}
	var ok bool
	if f.Op, ok = verifC15Str(ws[1]); !ok {
		return nil, nil, false
	}
	if f.Key, ok = verifC15Str(ws[2]); !ok {
		return nil, nil, false
	}
	if f.Cmp, ok = verifC15Str(ws[3]); !ok {
		return nil, nil, false
	}
	if f.Val, ok = verifC15Str(ws[4]); !ok {
		return nil, nil, false
	}
	nv, err := strconv.Atoi(ws[5])
	if err != nil || nv < 0 || len(ws) < 6+nv+1 {
		return nil, nil, false
	}
	if variant == 1 {
		f.Vals = []string{}
		f.Nodes = []*protocol.FilterNode{}
	}
	for i := 0; i < nv; i++ {
		s, ok := verifC15Str(ws[6+i])
		if !ok {
			return nil, nil, false
		}
		f.Vals = append(f.Vals, s)
	}
	rest := ws[6+nv:]
	nc, err := strconv.Atoi(rest[0])
	if err != nil || nc < 0 {
		return nil, nil, false
	}
	rest = rest[1:]
	for i := 0; i < nc; i++ {
		if len(rest) == 0 {
			return nil, nil, false
		}
		if rest[0] == "Z" {
			f.Nodes = append(f.Nodes, nil)
			rest = rest[1:]
			continue
		}
		c, r, ok := verifC15Node(rest, variant)
		if !ok {
			return nil, nil, false
		}
		f.Nodes = append(f.Nodes, c)
		rest = r
	}
	return f, rest, true
}

func verifC15ValidateKind(err error) string {
	if err == nil {
		return "ok"
	}
	m := err.Error()
	switch {
	case strings.Contains(m, "leaf node must have cmp set"):
		return "err:noCmp"
	case strings.Contains(m, "comparison requires Val"):
		return "err:needVal"
	case strings.Contains(m, "must not use Val or Vals"):
		return "err:exNoValVals"
	case strings.Contains(m, "comparison must not use Vals"):
		return "err:noVals"
	case strings.Contains(m, "comparison requires non-empty Vals"):
		return "err:needVals"
	case strings.Contains(m, "comparison must not use Val"):
		return "err:noVal"
	case strings.Contains(m, "unknown comparison operator"):
		return "err:unknownCmp"
	case strings.Contains(m, "leaf node requires key"):
		return "err:needKey"
	case strings.Contains(m, "node must have at least one child"):
		return "err:emptyChildren"
	case strings.Contains(m, "not node must have exactly one child"):
		return "err:notArity"
	case strings.Contains(m, "invalid op"):
		return "err:badOp"
	}
	return "err:other"
}

func verifC15MatchKind(b bool, err error) string {
	if err == nil {
		return strconv.FormatBool(b)
	}
	m := err.Error()
	switch {
	case strings.Contains(m, "invalid Compare value"):
		return "err:badCmp"
	case strings.Contains(m, "NOT must have exactly one child"):
		return "err:notArity"
	case strings.Contains(m, "invalid filter op"):
		return "err:badOp"
	}
	return "err:other"
}

func verifC15Validate(f *protocol.FilterNode) (res string) {
	defer func() {
		if r := recover(); r != nil {
			res = "PANIC"
		}
	}()
	return verifC15ValidateKind(Validate(f))
}

func verifC15Match(f *protocol.FilterNode, tags map[string]string) (res string) {
	defer func() {
		if r := recover(); r != nil {
			res = "PANIC"
		}
	}()
	b, err := Match(f, tags)
	if err != nil && b {
		return "err-with-true"
	}
	return verifC15MatchKind(b, err)
}

func verifC15Hash(f, g *protocol.FilterNode) (res string) {
	defer func() {
		if r := recover(); r != nil {
			res = "hash=PANIC stable=0"
		}
	}()
	raw, err := f.MarshalVT()
	if err != nil {
		return "hash=ERR stable=0"
	}
	h1 := Hash(f)
	h2 := Hash(g)
	h3 := Hash(f)
	stable := h1 == h2 && h1 == h3 && bytes.Equal(h1[:], verifC15Sum(raw))
	s := "-"
	if len(raw) > 0 {
		s = hex.EncodeToString(raw)
	}
	st := 0
	if stable {
		st = 1
	}
	return fmt.Sprintf("hash=%s stable=%d", s, st)
}

func verifC15Sum(b []byte) []byte {
	h := sha256.Sum256(b)
	return h[:]
}

func verifC15Step(line string) string {
	ws := strings.Fields(line)
	if len(ws) == 0 {
		return "bad-op"
	}
	switch ws[0] {
	case "dec":
		if len(ws) != 3 {
			return "bad-op"
		}
		a, ok1 := verifC15Str(ws[1])
		b, ok2 := verifC15Str(ws[2])
		if !ok1 || !ok2 {
			return "bad-op"
		}
		da, ea := udecimal.Parse(a)
		db, eb := udecimal.Parse(b)
		cmp := "na"
		if ea == nil && eb == nil {
			cmp = strconv.Itoa(da.Cmp(db))
		}
		return fmt.Sprintf("pa=%d pb=%d cmp=%s", verifC15B2I(ea == nil), verifC15B2I(eb == nil), cmp)
	case "eval":
		sep := -1
		for i, w := range ws {
			if w == "|" {
				sep = i
				break
			}
		}
		if sep < 0 {
			return "bad-op"
		}
		var tags map[string]string
		if sep > 1 {
			tags = map[string]string{}
		}
		for _, w := range ws[1:sep] {
			kv := strings.Split(w, ":")
			if len(kv) != 2 {
				return "bad-op"
			}
			k, ok1 := verifC15Str(kv[0])
			v, ok2 := verifC15Str(kv[1])
			if !ok1 || !ok2 {
				return "bad-op"
			}
			if _, dup := tags[k]; dup {
				return "bad-op"
			}
			tags[k] = v
		}
		f, rest, ok := verifC15Node(ws[sep+1:], 0)
		if !ok || len(rest) != 0 {
			return "bad-op"
		}
		g, _, _ := verifC15Node(ws[sep+1:], 1)
		return "validate=" + verifC15Validate(f) + " match=" + verifC15Match(f, tags) + " " + verifC15Hash(f, g)
	}
	return "bad-op"
}

func verifC15B2I(b bool) int {
	if b {
		return 1
	}
	return 0
}

func TestVerifC15(t *testing.T) {
	in, err := os.Open(os.Getenv("VERIF_OPS"))
	if err != nil {
		t.Skip("no VERIF_OPS")
	}
	defer in.Close()
	out, err := os.Create(os.Getenv("VERIF_OUT"))
	if err != nil {
		t.Fatal(err)
	}
	defer out.Close()
	w := bufio.NewWriter(out)
	defer w.Flush()
	sc := bufio.NewScanner(in)
	sc.Buffer(make([]byte, 1<<20), 1<<26)
	for sc.Scan() {
		line := sc.Text()
		if line == "" || strings.HasPrefix(line, "#") {
			fmt.Fprintln(w, "#")
			continue
		}
		fmt.Fprintln(w, verifC15Step(line))
	}
}
