"""C15 — tags filter evaluation matches its specification.

Proof: lean/CentrifugeVerif/Props/C15.lean over Model/Filter.lean + Model/Decimal.lean.
Tie: internal/filter.{Match,Validate,Hash} and udecimal.{Parse,Cmp} are run against the Lean driver on
the same generated trees / tag maps / numerals; the property statement (an independent Python
denotation of the filter language, a well-formedness predicate, exact rational comparison) is
evaluated on the implementation's outputs.
"""
import json
import os
import re
from fractions import Fraction
from vlib.core import diff_lines

HERE = os.path.dirname(os.path.abspath(__file__))

VAL_CMPS = [b"eq", b"neq", b"sw", b"ew", b"ct", b"gt", b"gte", b"lt", b"lte"]
NUM_CMPS = [b"gt", b"gte", b"lt", b"lte"]
SET_CMPS = [b"in", b"nin"]
EX_CMPS = [b"ex", b"nex"]
ALL_CMPS = VAL_CMPS + SET_CMPS + EX_CMPS


# ---------------------------------------------------------------------------------- encoding
def hx(b):
    return b.hex() if b else "-"


def unhx(w):
    return b"" if w == "-" else bytes.fromhex(w)


def node(op=b"", key=b"", cmp=b"", val=b"", vals=(), nodes=()):
    return {"op": op, "key": key, "cmp": cmp, "val": val, "vals": list(vals), "nodes": list(nodes)}


def tree_tokens(n):
    if n is None:
        return ["Z"]
    ws = ["N", hx(n["op"]), hx(n["key"]), hx(n["cmp"]), hx(n["val"]), str(len(n["vals"]))]
    ws += [hx(v) for v in n["vals"]]
    ws.append(str(len(n["nodes"])))
    for c in n["nodes"]:
        ws += tree_tokens(c)
    return ws


def fmt_eval(tags, n):
    return "eval " + " ".join(f"{hx(k)}:{hx(v)}" for k, v in tags.items()) + " | " + " ".join(tree_tokens(n))


def parse_tree(ws, i=0):
    assert ws[i] == "N"
    op, key, cmp, val = (unhx(w) for w in ws[i + 1:i + 5])
    nv = int(ws[i + 5])
    vals = [unhx(w) for w in ws[i + 6:i + 6 + nv]]
    j = i + 6 + nv
    nc = int(ws[j])
    j += 1
    nodes = []
    for _ in range(nc):
        if ws[j] == "Z":
            nodes.append(None)
            j += 1
        else:
            c, j = parse_tree(ws, j)
            nodes.append(c)
    return node(op, key, cmp, val, vals, nodes), j


def parse_eval(op):
    ws = op.split()
    sep = ws.index("|")
    tags = {}
    for w in ws[1:sep]:
        k, v = w.split(":")
        tags[unhx(k)] = unhx(v)
    n, _ = parse_tree(ws, sep + 1)
    return tags, n


# ---------------------------------------------------------------------------------- specification (oracle)
NUM_RE = re.compile(rb"([+-]?)([0-9]+)(?:\.([0-9]{1,19}))?")
NUM_RE_BIG_QUIRK = re.compile(rb"-\+([0-9]+)(?:\.([0-9]{1,19}))?")


def numeral(b):
    """Numerals the engine accepts (pinned by the `dec` differential stream) and their exact value."""
    if len(b) == 0 or len(b) > 200:
        return None
    m = NUM_RE.fullmatch(b)
    if m:
        frac = m.group(3) or b""
        v = Fraction(int(m.group(2) + frac), 10 ** len(frac))
        return -v if m.group(1) == b"-" else v
    if len(b) > 41:  # big.Int path only: "-+ddd" is read as a negative number
        m = NUM_RE_BIG_QUIRK.fullmatch(b)
        if m:
            frac = m.group(2) or b""
            return -Fraction(int(m.group(1) + frac), 10 ** len(frac))
    return None


def well_formed(n):
    if n is None:
        return False
    op = n["op"]
    if op == b"":
        c = n["cmp"]
        if c in VAL_CMPS:
            return n["val"] != b"" and not n["vals"] and n["key"] != b""
        if c in SET_CMPS:
            return len(n["vals"]) > 0 and n["val"] == b"" and n["key"] != b""
        if c in EX_CMPS:
            return n["val"] == b"" and not n["vals"]
        return False
    if op in (b"and", b"or"):
        return len(n["nodes"]) >= 1 and all(well_formed(c) for c in n["nodes"])
    if op == b"not":
        return len(n["nodes"]) == 1 and well_formed(n["nodes"][0])
    return False


def sem(n, tags):
    """Denotation of a well-formed filter (the property text)."""
    op = n["op"]
    if op == b"and":
        return all(sem(c, tags) for c in n["nodes"])
    if op == b"or":
        return any(sem(c, tags) for c in n["nodes"])
    if op == b"not":
        return not sem(n["nodes"][0], tags)
    c, v = n["cmp"], tags.get(n["key"])
    if v is None:  # a missing key equals no value and is in no set
        return c in (b"neq", b"nin", b"nex")
    if c == b"eq":
        return v == n["val"]
    if c == b"neq":
        return v != n["val"]
    if c == b"in":
        return v in n["vals"]
    if c == b"nin":
        return v not in n["vals"]
    if c == b"ex":
        return True
    if c == b"nex":
        return False
    if c == b"sw":
        return v.startswith(n["val"])
    if c == b"ew":
        return v.endswith(n["val"])
    if c == b"ct":
        return n["val"] in v
    a, b = numeral(v), numeral(n["val"])
    if a is None or b is None:
        return False
    return {b"gt": a > b, b"gte": a >= b, b"lt": a < b, b"lte": a <= b}[c]


def kvs(line):
    return dict(w.split("=", 1) for w in line.split() if "=" in w)


def oracle_eval(op, out):
    """None, or (key, message)."""
    tags, n = parse_eval(op)
    kv = kvs(out)
    if not {"validate", "match", "hash", "stable"} <= set(kv):
        return ("unparseable", "unparseable output " + out)
    wf = well_formed(n)
    if wf and kv["validate"] != "ok":
        return ("validate-rejects", f"Validate rejects a well-formed tree ({kv['validate']})")
    if not wf and kv["validate"] == "ok":
        return ("validate-accepts", "Validate accepts a tree that is not well-formed")
    if kv["stable"] != "1":
        return ("hash", "Hash differs between structurally equal trees (or is not the SHA-256 of the encoding)")
    if wf:
        if kv["match"] not in ("true", "false"):
            return ("match-error", f"Match of a validated tree does not return a value ({kv['match']})")
        want = sem(n, tags)
        if (kv["match"] == "true") != want:
            return ("match-value", f"Match returns {kv['match']} but the filter denotes {str(want).lower()}")
    return None


def oracle_dec(op, out):
    ws = op.split()
    a, b = numeral(unhx(ws[1])), numeral(unhx(ws[2]))
    kv = kvs(out)
    if (kv.get("pa") == "1") != (a is not None) or (kv.get("pb") == "1") != (b is not None):
        return ("numeral-accept", f"udecimal.Parse acceptance differs from the pinned grammar: {out}")
    want = "na" if a is None or b is None else str((a > b) - (a < b))
    if kv.get("cmp") != want:
        return ("numeral-cmp", f"Cmp = {kv.get('cmp')} but exact comparison gives {want}")
    return None


# ---------------------------------------------------------------------------------- generators
KEYS = [b"k", b"a", b"b", b"price", b"n", "кл".encode(), b"k2", b"x y"]
STRS = [b"", b"a", b"b", b"ab", b"abc", b"bc", b"aab", b"A", b" ", "é".encode(), b"\xc3", b"\xa9", b"\xff\x00",
        b"1", b"2", b"10", b"1.5", b"-3"]


def gen_numeral(rng):
    r = rng.random()
    if r < 0.12:
        return rng.choice([b"", b"+", b"-", b".", b"+1", b"1.", b".5", b"-.5", b"+.5", b"-0", b"+0", b"0", b"00", b"0.0",
                           b"1e3", b"1E3", b"1_000", b" 1", b"1 ", b"0x10", b"1.2.3", b"1..2", b"Inf", b"NaN", b"1,5",
                           "٣".encode(), "１".encode(), "1٣".encode(), b"--1", b"++1", b"+-1", b"-+1", b"1-", b"1+",
                           b"-", b"+.", b"1.-5", b"1.+5"])
    sign = rng.choice([b"", b"", b"", b"-", b"-", b"+", b"-+", b"++", b"--", b"+-"]) if rng.random() < 0.25 else \
        rng.choice([b"", b"", b"-", b"+"])
    nint = rng.choice([1, 1, 1, 2, 3, 5, 18, 19, 20, 21, 37, 38, 39, 40, 41, 42, 60, 150, 178, 179, 180, 181, 198, 199,
                       200, 201]) if rng.random() < 0.35 else rng.choice([1, 1, 2, 3])
    lead = rng.choice(["", "", "0", "00", "9", "99"])
    digits = (lead + "".join(rng.choice("0123456789") for _ in range(nint)))[:max(nint, 1)]
    if rng.random() < 0.1:
        digits = rng.choice(["340282366920938463463374607431768211455", "340282366920938463463374607431768211456",
                             "18446744073709551615", "18446744073709551616", "9" * 38, "9" * 39, "1" + "0" * 38])
    s = sign + digits.encode()
    r = rng.random()
    if r < 0.5:
        nf = rng.choice([1, 1, 2, 3, 18, 19, 19, 20, 21]) if rng.random() < 0.4 else rng.choice([1, 2])
        fr = "".join(rng.choice("0123456789") for _ in range(nf))
        if rng.random() < 0.3:
            fr = fr[:-1] + "0"
        s += b"." + fr.encode()
    if rng.random() < 0.04:
        i = rng.randint(0, len(s))
        s = s[:i] + rng.choice([b"x", b".", b"-", b"+", b" ", b"e", "٣".encode()]) + s[i:]
    return s


def related_numeral(rng, a):
    """a numeral with the same or a neighbouring value, written differently"""
    r = rng.random()
    try:
        if r < 0.2:
            return a + (b"0" if b"." in a else b".0")
        if r < 0.35:
            sgn = a[:1] if a[:1] in (b"+", b"-") else b""
            return sgn + b"0" + a[len(sgn):]
        if r < 0.5:
            return (b"-" + a.lstrip(b"+-")) if not a.startswith(b"-") else a[1:]
        if r < 0.7 and a and a[-1:].isdigit():
            d = int(a[-1:])
            return a[:-1] + str((d + rng.choice([1, 9])) % 10).encode()
        if r < 0.8:
            return a
    except Exception:
        pass
    return gen_numeral(rng)


def gen_value(rng, numeric=False):
    if numeric or rng.random() < 0.2:
        return gen_numeral(rng)
    if rng.random() < 0.1:
        return bytes(rng.randint(0, 255) for _ in range(rng.randint(1, 4)))
    return rng.choice(STRS)


def gen_tags(rng):
    tags = {}
    for k in rng.sample(KEYS, rng.choice([0, 0, 1, 2, 3, 5])):
        tags[k] = gen_value(rng, numeric=(k in (b"price", b"n") and rng.random() < 0.8))
    if rng.random() < 0.05:
        tags[b""] = gen_value(rng)
    return tags


def gen_leaf(rng, tags):
    c = rng.choice(ALL_CMPS)
    key = rng.choice(KEYS) if rng.random() < 0.85 or not tags else rng.choice(list(tags))
    if c in NUM_CMPS:
        key = rng.choice([b"price", b"n", key])
        tv = tags.get(key)
        val = related_numeral(rng, tv) if tv and rng.random() < 0.6 else gen_numeral(rng)
        if val == b"":
            val = b"0"
        return node(key=key, cmp=c, val=val)
    if c in VAL_CMPS:
        tv = tags.get(key)
        if tv and rng.random() < 0.5:
            i, j = sorted((rng.randint(0, len(tv)), rng.randint(0, len(tv))))
            val = rng.choice([tv, tv[:j], tv[i:], tv[i:j], tv + b"x"]) or b"a"
        else:
            val = gen_value(rng) or b"a"
        return node(key=key, cmp=c, val=val)
    if c in SET_CMPS:
        vals = [gen_value(rng) for _ in range(rng.choice([1, 1, 2, 3, 5]))]
        if rng.random() < 0.25:
            vals[rng.randrange(len(vals))] = b""
        if key in tags and rng.random() < 0.4:
            vals[rng.randrange(len(vals))] = tags[key]
        return node(key=key, cmp=c, vals=vals)
    return node(key=key if rng.random() < 0.8 else b"", cmp=c)


def gen_tree(rng, tags, depth):
    if depth <= 0 or rng.random() < 0.35:
        return gen_leaf(rng, tags)
    op = rng.choice([b"and", b"or", b"not"])
    if op == b"not":
        return node(op=op, nodes=[gen_tree(rng, tags, depth - 1)])
    return node(op=op, nodes=[gen_tree(rng, tags, depth - 1) for _ in range(rng.choice([1, 2, 2, 3, 4]))])


def all_nodes(n, acc=None):
    acc = [] if acc is None else acc
    if n is not None:
        acc.append(n)
        for c in n["nodes"]:
            all_nodes(c, acc)
    return acc


def corrupt(rng, n):
    """one random corruption of a (copy of a) tree: malformed stream for Validate / panic detection"""
    n = json.loads(json.dumps(n, default=lambda b: {"__b": b.hex()}), object_hook=lambda d: bytes.fromhex(d["__b"]) if "__b" in d else d)
    t = rng.choice(all_nodes(n))
    k = rng.randrange(14)
    if k == 0:
        t["op"] = rng.choice([b"xor", b"AND", b"nand", b"leaf", b"And", b" and", b"no"])
    elif k == 1 and t["nodes"]:
        t["nodes"][rng.randrange(len(t["nodes"]))] = None
    elif k == 2:
        t["nodes"] = []
    elif k == 3:
        t["nodes"] = t["nodes"] + [gen_leaf(rng, {})]
    elif k == 4:
        t["cmp"] = rng.choice([b"", b"like", b"EQ", b"eqq", b"e", b"g", b"ltee", b"=="])
    elif k == 5:
        t["val"] = b""
    elif k == 6:
        t["vals"] = t["vals"] + [rng.choice(STRS)]
    elif k == 7:
        t["vals"] = []
    elif k == 8:
        t["key"] = b""
    elif k == 9:
        t["val"] = rng.choice(STRS) or b"v"
    elif k == 10:
        t["nodes"] = t["nodes"] + [None]
    elif k == 11:
        t["op"] = rng.choice([b"and", b"or", b"not", b""])
    elif k == 12:
        t["cmp"] = rng.choice(ALL_CMPS)
    else:
        t["key"], t["cmp"], t["val"] = b"k", rng.choice(ALL_CMPS), b"v"  # inner node carrying leaf fields
    return n


def gen_eval(rng):
    tags = gen_tags(rng)
    n = gen_tree(rng, tags, rng.choice([0, 1, 2, 3, 4, 6]))
    r = rng.random()
    if r < 0.25:
        n = corrupt(rng, n)
        if rng.random() < 0.3:
            n = corrupt(rng, n)
    return fmt_eval(tags, n)


def gen_dec(rng):
    a = gen_numeral(rng)
    b = related_numeral(rng, a) if rng.random() < 0.6 else gen_numeral(rng)
    return f"dec {hx(a)} {hx(b)}"


# ---------------------------------------------------------------------------------- blame / signature
def size(n):
    return len(tree_tokens(n))


def blame(ctx, binary, op, key):
    """smallest sub-filter (with the fewest tags) on which the oracle still fails with `key`"""
    tags, n = parse_eval(op)
    cands = sorted((c for c in all_nodes(n)), key=size)
    ops = [fmt_eval(tags, c) for c in cands]
    outs = ctx.go_run(binary, "TestVerifC15", ops)
    best = op
    for o, out in zip(ops, outs):
        r = oracle_eval(o, out)
        if r and r[0] == key:
            best = o
            break
    tags, n = parse_eval(best)
    # drop tags / set members one at a time
    changed = True
    while changed:
        changed = False
        trials = []
        for k in list(tags):
            t2 = dict(tags)
            del t2[k]
            trials.append(fmt_eval(t2, n))
        if n["op"] == b"" and len(n["vals"]) > 1:
            for i in range(len(n["vals"])):
                n2 = dict(n, vals=n["vals"][:i] + n["vals"][i + 1:])
                trials.append(fmt_eval(tags, n2))
        if not trials:
            break
        outs = ctx.go_run(binary, "TestVerifC15", trials)
        for o, out in zip(trials, outs):
            r = oracle_eval(o, out)
            if r and r[0] == key:
                tags, n = parse_eval(o)
                changed = True
                break
    return fmt_eval(tags, n)


def signature(op, key):
    tags, n = parse_eval(op)
    sig = {"oracle": key, "root": (n["op"] or b"leaf").decode("latin1")}
    if n["op"] == b"":
        c = n["cmp"]
        sig["cmp_class"] = ("set" if c in SET_CMPS else "numeric" if c in NUM_CMPS else "exists" if c in EX_CMPS
                            else c.decode("latin1"))
        sig["key_absent"] = n["key"] not in tags
        sig["empty_in_vals"] = b"" in n["vals"]
    return sig


def install_local_findings(ctx):
    """known_findings.json is the coordinator's union of props/*/findings.json; until it is
    regenerated, entries of this property's own findings.json are honoured the same way."""
    try:
        local = json.load(open(os.path.join(HERE, "findings.json"))).get("findings", [])
    except FileNotFoundError:
        local = []
    orig = ctx._match_known

    def match(sig):
        r = orig(sig)
        if r is not None:
            return r
        for e in local:
            m = e.get("match") or {}
            if e.get("property") == ctx.prop and e.get("status") == "known" and m and \
                    all(sig.get(k) == v for k, v in m.items()):
                return e
        return None
    ctx._match_known = match
    return local


def strip_stable(line):
    return " ".join(w for w in line.split() if not w.startswith("stable="))


def run(ctx):
    ctx.rule = ("type-directed random filter trees (depth <= 6, all 13 leaf operators, and/or/not) over random tag "
                "maps (absent keys, empty strings, non-UTF-8 bytes, numerals), 25% with 1-2 corruptions (nil children, "
                "wrong arity, unknown op/cmp, missing/extra Val/Vals/Key); numeral pairs from an edge grammar (signs, "
                "dots, 19/20 fractional digits, 19..201 integer digits, u128 boundary, non-ASCII digits, exponent). "
                "non-trivial = well-formed tree with at least one inner node, or a numeral pair where both parse; "
                "distinct = distinct op line")
    ctx.assumptions = [
        "tag maps have unique keys (Go map); trees carry no protobuf unknown fields",
        "SHA-256 itself is not modelled: Hash is compared through its input bytes (MarshalVT) and checked in the "
        "harness to be sha256 of exactly those bytes, and equal for two independently built copies of the tree",
        "the numeral grammar/value of udecimal v1.10.1 is mirrored by Model/Decimal.lean and pinned by the `dec` "
        "differential stream, not proved from udecimal's source"]
    local = install_local_findings(ctx)
    proofs_ok = ctx.lean_obligations()
    binary = ctx.go_test_binary("internal/filter", ["props/C15/harness/internal__filter/zz_verif_c15_test.go"])
    if binary is None:
        ctx.violation("correspondence", "harness no longer builds against internal/filter",
                      signature={"kind": "harness-build"}, replay={"log": getattr(ctx, "build_error", "")},
                      no_input=True)
        return
    if ctx.replay:
        ops = json.load(open(ctx.replay)).get("ops", [])
    else:
        not_repro = []
        for e in local:  # re-derive each known finding from its stored replay
            if e.get("status") != "known" or not e.get("replay"):
                continue
            fops = e["replay"]["ops"]
            fout = ctx.go_run(binary, "TestVerifC15", fops)
            hit = False
            for o, out in zip(fops, fout):
                r = oracle_eval(o, out) if o.startswith("eval") else oracle_dec(o, out)
                if r:
                    ctx.violation("property", r[1], signature=signature(o, r[0]) if o.startswith("eval") else
                                  {"oracle": r[0]}, replay={"ops": [o], "impl": [out], "finding": e.get("id")})
                    hit = True
            if not hit or e.get("id") not in [k.get("id") for k in ctx.known_hits]:
                not_repro.append(e.get("id"))
        ctx.extra["known_findings_not_reproduced"] = not_repro
        corpus = [l.strip() for l in open(os.path.join(HERE, "corpus.ops")) if l.strip() and not l.startswith("#")]
        n = ctx.scale(8000, 300000)
        ops = corpus + [gen_eval(ctx.rng) for _ in range(n)] + [gen_dec(ctx.rng) for _ in range(n // 2)]
    ctx.log(f"{len(ops)} ops generated")
    impl = ctx.go_run(binary, "TestVerifC15", ops)
    ctx.log("implementation run done")
    model = ctx.lean_run(ops)
    ctx.log("model run done")
    if model is None:
        proofs_ok = False
        model = []
    nviol = 0
    failing = []  # (op, oracle key, message)
    for i, op in enumerate(ops):
        out = impl[i] if i < len(impl) else "<missing>"
        if op.startswith("eval"):
            try:
                tags, n = parse_eval(op)
            except Exception:
                continue
            wf = well_formed(n)
            ctx.record(op, nontrivial=wf and n["op"] != b"")
            kv = kvs(out)
            ctx.count("tree:" + ("well-formed" if wf else "malformed"))
            ctx.count("validate:" + kv.get("validate", "?"))
            ctx.count("match:" + kv.get("match", "?"))
            for x in all_nodes(n):
                ctx.count("node:" + ((x["op"] or b"leaf-" + x["cmp"]).decode("latin1")[:12] if x["op"] in (b"", b"and", b"or", b"not") else "badop"))
            r = oracle_eval(op, out) if out != "<missing>" else ("crash", "implementation produced no output")
            if r:
                nviol += 1
                failing.append((op, r[0], r[1]))
        elif op.startswith("dec"):
            kv = kvs(out)
            ctx.record(op, nontrivial=kv.get("cmp") not in (None, "na"))
            ctx.count(f"dec:pa={kv.get('pa')},pb={kv.get('pb')},cmp={kv.get('cmp')}")
            r = oracle_dec(op, out) if out != "<missing>" else ("crash", "implementation produced no output")
            if r:
                nviol += 1
                ctx.violation("property", r[1], signature={"oracle": r[0]}, replay={"ops": [op], "impl": [out]})
    # every oracle failure is attributed: all sub-filters of all failing cases are evaluated in one batch, the
    # smallest sub-filter that still fails gives the signature; the first cases per signature are minimised further
    if failing:
        sub_ops, owner = [], []
        for j, (op, key, _) in enumerate(failing):
            if key == "crash":
                continue
            tags, n = parse_eval(op)
            for c in sorted(all_nodes(n), key=size):
                sub_ops.append(fmt_eval(tags, c))
                owner.append(j)
        sub_out = ctx.go_run(binary, "TestVerifC15", sub_ops)
        smallest = {}
        for o, out, j in zip(sub_ops, sub_out, owner):
            if j not in smallest:
                r = oracle_eval(o, out)
                if r and r[0] == failing[j][1]:
                    smallest[j] = o
        per_sig = {}
        for j, (op, key, msg) in enumerate(failing):
            small = smallest.get(j, op)
            sig = signature(small, key)
            sk = json.dumps(sig, sort_keys=True)
            per_sig[sk] = per_sig.get(sk, 0) + 1
            if per_sig[sk] <= 2 and key != "crash":
                small = blame(ctx, binary, small, key)
                sig = signature(small, key)
            sout = ctx.go_run(binary, "TestVerifC15", [small]) if per_sig[sk] <= 2 else []
            ctx.violation("property", msg, signature=sig, replay={"ops": [small], "impl": sout, "original_op": op})
        ctx.extra["failure_signatures"] = per_sig
    ctx.traces_validated = len(ops)
    ctx.extra["oracle_failures"] = nviol
    ndiff = 0
    for i, op, a, b in diff_lines(ops, [strip_stable(x) for x in impl], model):
        ndiff += 1
        if ndiff <= 3 and model:
            ka, kb = kvs(a), kvs(b)
            fields = [k for k in ("validate", "match", "hash", "pa", "pb", "cmp") if ka.get(k) != kb.get(k)]
            ctx.violation("correspondence", f"model and implementation differ ({','.join(fields)}): impl `{a[:200]}` model `{b[:200]}`",
                          signature={"kind": "diff", "op": op.split()[0], "fields": ",".join(fields)},
                          replay={"ops": [op], "impl": [a], "model": [b],
                                  "correspondence": "Drivers/C15.lean vs internal/filter + udecimal"},
                          no_input=(nviol == 0))
    ctx.extra["disagreements"] = ndiff
    if not proofs_ok:
        ctx.proof_broken()
