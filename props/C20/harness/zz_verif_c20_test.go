//go:build verif

package centrifuge

// Verification harness for C20/C21/C24 (injected with `go test -overlay`, never part of the repo).
// Drives the real MemoryMapBroker inside a testing/synctest bubble (virtual clock) on the op lines
// of $VERIF_OPS and writes one canonical line per op to $VERIF_OUT.  Protocol: see
// /verif/lean/Drivers/C20.lean.  A `reset` line starts a new scenario (= a new bubble, node, broker).
//
// Determinism: the broker's sweepers tick at whole virtual seconds after RegisterEventHandler; the
// harness goroutine runs at +0.5 ms, sleeps whole milliseconds and calls synctest.Wait() after each
// sleep, so a sweep at second k always completes before the op issued at millisecond 1000k.

import (
	"bufio"
	"context"
	"encoding/hex"
	"errors"
	"fmt"
	"os"
	"runtime"
	"strconv"
	"strings"
	"sync"
	"sync/atomic"
	"testing"
	"testing/synctest"
	"time"
)

// verifC20Hook is a one-shot reaction to the sweeper's removal broadcast of (ch, key): the event handler is
// the gate.  conc=false: the op is issued from inside that HandlePublication call (the sweeper is between two
// phase-2 regions, holding only the publish lock of the removal's channel).  conc=true: the op is issued from
// another goroutine while the call is in flight; the handler yields (no timers: a goroutine blocked on a mutex
// keeps the synctest clock from advancing) and completes the delivery of the removal afterwards.
type verifC20Hook struct {
	ch, key string
	conc    bool
	cmd     string
	kv      map[string]string
}

type verifC20Handler struct {
	mu       sync.Mutex
	rec      []string
	fmt      func(ch string, pub *Publication, sp StreamPosition, useDelta bool, prev *Publication) string
	sc       *verifC20Scenario
	hooks    []verifC20Hook
	sleeping atomic.Bool // the driver goroutine sleeps: publications come from the sweeper
	inline   atomic.Bool // an inline reaction is running (its own broadcasts must not fire hooks)
}

func (h *verifC20Handler) add(item string) {
	h.mu.Lock()
	h.rec = append(h.rec, item)
	h.mu.Unlock()
}

func (h *verifC20Handler) takeHook(ch, key string) (verifC20Hook, bool) {
	h.mu.Lock()
	defer h.mu.Unlock()
	for i, hk := range h.hooks {
		if hk.ch == ch && hk.key == key {
			h.hooks = append(h.hooks[:i:i], h.hooks[i+1:]...)
			return hk, true
		}
	}
	return verifC20Hook{}, false
}

func (h *verifC20Handler) HandlePublication(ch string, pub *Publication, sp StreamPosition, useDelta bool, prevPub *Publication) error {
	item := h.fmt(ch, pub, sp, useDelta, prevPub)
	if pub.Removed && h.sleeping.Load() && !h.inline.Load() {
		if hk, ok := h.takeHook(ch, pub.Key); ok {
			opch := "c" + hk.kv["ch"]
			sameLock := index(opch, numPubLocks) == index(ch, numPubLocks)
			hkItem := func(res string) string {
				return "hk:" + hk.kv["ch"] + ":" + strings.ReplaceAll(res, " ", ";")
			}
			if hk.conc && sameLock {
				var done atomic.Bool
				go func() {
					res := h.sc.step(hk.cmd, hk.kv)
					h.add(hkItem(res))
					done.Store(true)
				}()
				for i := 0; i < 20000 && !done.Load(); i++ {
					runtime.Gosched()
				}
				h.add(item) // the removal is delivered when its handler call completes
				return nil
			}
			h.add(item)
			if sameLock {
				// would self-deadlock on the unmodified tree (the sweeper holds this publish lock)
				h.add("hk:refused-same-lock")
				return nil
			}
			h.inline.Store(true)
			res := h.sc.step(hk.cmd, hk.kv)
			h.inline.Store(false)
			h.add(hkItem(res))
			return nil
		}
	}
	h.add(item)
	return nil
}
func (h *verifC20Handler) HandleJoin(string, *ClientInfo) error  { return nil }
func (h *verifC20Handler) HandleLeave(string, *ClientInfo) error { return nil }

func (h *verifC20Handler) drain() string {
	h.mu.Lock()
	defer h.mu.Unlock()
	if len(h.rec) == 0 {
		return "-"
	}
	s := strings.Join(h.rec, ",")
	h.rec = h.rec[:0]
	return s
}

type verifC20Scenario struct {
	emu     sync.Mutex
	epochs  map[string]int
	seen    []string
	t0      int64
	broker  *MemoryMapBroker
	handler *verifC20Handler
}

func (s *verifC20Scenario) ep(e string) string {
	if e == "" {
		return "-"
	}
	s.emu.Lock()
	defer s.emu.Unlock()
	i, ok := s.epochs[e]
	if !ok {
		i = len(s.seen)
		s.epochs[e] = i
		s.seen = append(s.seen, e)
	}
	return "E" + strconv.Itoa(i)
}

func (s *verifC20Scenario) pos(p StreamPosition) string {
	return strconv.FormatUint(p.Offset, 10) + ":" + s.ep(p.Epoch)
}

func verifC20Hex(b string) string {
	if len(b) == 0 {
		return "-"
	}
	return hex.EncodeToString([]byte(b))
}

func verifC20Unhex(x string) (string, bool) {
	if x == "-" {
		return "", true
	}
	b, err := hex.DecodeString(x)
	if err != nil {
		return "", false
	}
	return string(b), true
}

func verifC20Tag(m map[string]string) string {
	if m == nil {
		return "0"
	}
	if len(m) == 0 {
		return "1"
	}
	return m["t"]
}

func verifC20MkTag(n uint64) map[string]string {
	switch n {
	case 0:
		return nil
	case 1:
		return map[string]string{}
	}
	return map[string]string{"t": strconv.FormatUint(n, 10)}
}

func verifC20Data(d []byte) string {
	if len(d) == 0 {
		return "0"
	}
	return string(d)
}

func (s *verifC20Scenario) pub(p *Publication) string {
	r := "0"
	if p.Removed {
		r = "1"
	}
	return fmt.Sprintf("%s/%d/%s/%s/%s/%d/%d", verifC20Hex(p.Key), p.Offset, r, verifC20Data(p.Data), verifC20Tag(p.Tags), p.Score, p.Time-s.t0)
}

func (s *verifC20Scenario) pubs(ps []*Publication) string {
	if len(ps) == 0 {
		return "-"
	}
	out := make([]string, len(ps))
	for i, p := range ps {
		out[i] = s.pub(p)
	}
	return strings.Join(out, ",")
}

func (s *verifC20Scenario) parseEpoch(x string) (string, bool) {
	if x == "-" {
		return "", true
	}
	if strings.HasPrefix(x, "E") {
		k, err := strconv.Atoi(x[1:])
		if err != nil || k < 0 {
			return "", false
		}
		s.emu.Lock()
		defer s.emu.Unlock()
		if k < len(s.seen) {
			return s.seen[k], true
		}
		return "bogus-" + strconv.Itoa(k), true
	}
	return "", false
}

func (s *verifC20Scenario) parsePos(x string) (*StreamPosition, bool) {
	if x == "-" {
		return nil, true
	}
	parts := strings.Split(x, ":")
	if len(parts) != 2 {
		return nil, false
	}
	o, err := strconv.ParseUint(parts[0], 10, 64)
	if err != nil {
		return nil, false
	}
	e, ok := s.parseEpoch(parts[1])
	if !ok {
		return nil, false
	}
	return &StreamPosition{Offset: o, Epoch: e}, true
}

func verifC20Err(err error) string {
	if errors.Is(err, ErrorUnrecoverablePosition) {
		return "unrecoverable"
	}
	m := err.Error()
	switch {
	case strings.Contains(m, "CAS (ExpectedPosition)"):
		return "cas-ephemeral"
	case strings.Contains(m, "version-based dedup"):
		return "version-ephemeral"
	}
	for _, p := range []string{"map channel", "invalid Mode", "KeyTTL", "StreamSize", "StreamTTL", "MetaTTL"} {
		if strings.HasPrefix(m, p) {
			return "config"
		}
	}
	return "other"
}

func verifC20KV(ws []string) map[string]string {
	m := map[string]string{}
	for _, w := range ws {
		if i := strings.IndexByte(w, '='); i >= 0 {
			m[w[:i]] = w[i+1:]
		}
	}
	return m
}

func verifC20ParseCfg(ws []string) (map[string]MapChannelOptions, bool) {
	out := map[string]MapChannelOptions{}
	for _, w := range ws {
		i := strings.IndexByte(w, '=')
		if i < 0 || !strings.HasPrefix(w, "c") {
			return nil, false
		}
		parts := strings.Split(w[i+1:], ":")
		if len(parts) != 4 {
			return nil, false
		}
		var o MapChannelOptions
		switch parts[0] {
		case "E":
			o.Mode = MapModeEphemeral
		case "R":
			o.Mode = MapModeRecoverable
		case "P":
			o.Mode = MapModePersistent
		case "U":
			o.Mode = 0
		case "B":
			o.Mode = 7
		default:
			return nil, false
		}
		ttl, err1 := strconv.ParseInt(parts[1], 10, 64)
		size, err2 := strconv.Atoi(parts[2])
		if err1 != nil || err2 != nil || (parts[3] != "0" && parts[3] != "1") {
			return nil, false
		}
		o.KeyTTL = time.Duration(ttl) * time.Millisecond
		o.StreamSize = size
		o.ordered = parts[3] == "1"
		if o.Mode.HasStream() {
			o.StreamTTL = time.Hour // beyond the virtual horizon of a scenario
		}
		out[w[:i]] = o
	}
	return out, true
}

// step executes one op line (after the clock was advanced) and returns the result part.
func (s *verifC20Scenario) step(cmd string, kv map[string]string) (res string) {
	defer func() {
		if r := recover(); r != nil {
			res = "PANIC"
		}
	}()
	ctx := context.Background()
	ch := "c" + kv["ch"]
	u := func(k string) (uint64, bool) {
		v, err := strconv.ParseUint(kv[k], 10, 64)
		return v, err == nil
	}
	b := func(k string) (bool, bool) {
		switch kv[k] {
		case "0":
			return false, true
		case "1":
			return true, true
		}
		return false, false
	}
	if _, err := strconv.Atoi(kv["ch"]); err != nil {
		return "bad-op"
	}
	update := func(r MapUpdateResult, err error) string {
		if err != nil {
			return "err=" + verifC20Err(err)
		}
		sup := "-"
		if r.Suppressed || r.SuppressReason != "" {
			sup = string(r.SuppressReason)
			if !r.Suppressed || sup == "" {
				sup = "inconsistent-suppressed-flag"
			}
		}
		cur := "-"
		if r.CurrentEntry != nil {
			cur = fmt.Sprintf("%d.%s", r.CurrentEntry.Offset, verifC20Data(r.CurrentEntry.Data))
		}
		return fmt.Sprintf("ok pos=%s sup=%s cur=%s", s.pos(r.Position), sup, cur)
	}
	switch cmd {
	case "pub":
		key, ok0 := verifC20Unhex(kv["key"])
		data, ok1 := u("data")
		tag, ok2 := u("tag")
		score, err3 := strconv.ParseInt(kv["score"], 10, 64)
		rtos, ok4 := b("rtos")
		ver, ok5 := u("ver")
		vep, ok6 := u("vep")
		idem, ok7 := u("idem")
		ittl, ok8 := u("ittl")
		cas, ok9 := s.parsePos(kv["cas"])
		delta, ok10 := b("delta")
		var mode KeyMode
		switch kv["mode"] {
		case "r":
			mode = KeyModeReplace
		case "n":
			mode = KeyModeIfNew
		case "x":
			mode = KeyModeIfExists
		case "o":
			mode = KeyMode("bogus")
		default:
			return "bad-op"
		}
		if !(ok0 && ok1 && ok2 && err3 == nil && ok4 && ok5 && ok6 && ok7 && ok8 && ok9 && ok10) {
			return "bad-op"
		}
		o := MapPublishOptions{Tags: verifC20MkTag(tag), score: score, KeyMode: mode, RefreshTTLOnSuppress: rtos,
			Version: ver, ExpectedPosition: cas, UseDelta: delta,
			IdempotentResultTTL: time.Duration(ittl) * time.Millisecond}
		if data != 0 {
			o.Data = []byte(strconv.FormatUint(data, 10))
		}
		if vep != 0 {
			o.VersionEpoch = "v" + strconv.FormatUint(vep, 10)
		}
		if idem != 0 {
			o.IdempotencyKey = "i" + strconv.FormatUint(idem, 10)
		}
		return update(s.broker.Publish(ctx, ch, key, o))
	case "rm":
		key, ok0 := verifC20Unhex(kv["key"])
		idem, ok1 := u("idem")
		ittl, ok2 := u("ittl")
		cas, ok3 := s.parsePos(kv["cas"])
		tag, ok4 := u("tag")
		if !(ok0 && ok1 && ok2 && ok3 && ok4) {
			return "bad-op"
		}
		o := MapRemoveOptions{ExpectedPosition: cas, Tags: verifC20MkTag(tag),
			IdempotentResultTTL: time.Duration(ittl) * time.Millisecond}
		if idem != 0 {
			o.IdempotencyKey = "i" + strconv.FormatUint(idem, 10)
		}
		return update(s.broker.Remove(ctx, ch, key, o))
	case "clear":
		if err := s.broker.Clear(ctx, ch, MapClearOptions{}); err != nil {
			return "err=" + verifC20Err(err)
		}
		return "ok"
	case "state":
		key, ok0 := verifC20Unhex(kv["key"])
		cur, ok1 := verifC20Unhex(kv["cur"])
		rev, ok2 := s.parsePos(kv["rev"])
		lim, err3 := strconv.Atoi(kv["lim"])
		asc, ok4 := b("asc")
		if !(ok0 && ok1 && ok2 && err3 == nil && ok4) {
			return "bad-op"
		}
		r, err := s.broker.ReadState(ctx, ch, MapReadStateOptions{Revision: rev, Cursor: cur, Limit: lim, Key: key, Asc: asc})
		if err != nil {
			e := verifC20Err(err)
			if e == "unrecoverable" {
				return "err=unrecoverable pos=" + s.pos(r.Position)
			}
			return "err=" + e
		}
		return fmt.Sprintf("ok pos=%s cursor=%s pubs=%s", s.pos(r.Position), verifC20Hex(r.Cursor), s.pubs(r.Publications))
	case "pages":
		// the client's pagination loop: from the empty cursor while the returned cursor is non-empty
		lim, err0 := strconv.Atoi(kv["lim"])
		asc, ok1 := b("asc")
		if !(err0 == nil && ok1) {
			return "bad-op"
		}
		var keys, sizes []string
		var lastPos StreamPosition
		cursor := ""
		done := 0
		n := 0
		for n < 64 {
			r, err := s.broker.ReadState(ctx, ch, MapReadStateOptions{Cursor: cursor, Limit: lim, Asc: asc})
			if err != nil {
				return "err=" + verifC20Err(err)
			}
			n++
			lastPos = r.Position
			for _, p := range r.Publications {
				keys = append(keys, verifC20Hex(p.Key))
			}
			sizes = append(sizes, strconv.Itoa(len(r.Publications)))
			if r.Cursor == "" {
				done = 1
				break
			}
			cursor = r.Cursor
		}
		ks := "-"
		if len(keys) > 0 {
			ks = strings.Join(keys, ",")
		}
		return fmt.Sprintf("ok pos=%s n=%d done=%d sizes=%s keys=%s", s.pos(lastPos), n, done, strings.Join(sizes, ","), ks)
	case "stream":
		since, ok0 := s.parsePos(kv["since"])
		lim, err1 := strconv.Atoi(kv["lim"])
		rev, ok2 := b("rev")
		if !(ok0 && err1 == nil && ok2) {
			return "bad-op"
		}
		r, err := s.broker.ReadStream(ctx, ch, MapReadStreamOptions{Filter: StreamFilter{Since: since, Limit: lim, Reverse: rev}})
		if err != nil {
			return "err=" + verifC20Err(err)
		}
		return fmt.Sprintf("ok pos=%s pubs=%s", s.pos(r.Position), s.pubs(r.Publications))
	}
	return "bad-op"
}

func verifC20RunScenario(t *testing.T, lines []string, emit func(string)) {
	ws := strings.Fields(lines[0])
	cfgs, ok := verifC20ParseCfg(ws[1:])
	if !ok {
		for range lines {
			emit("bad-op")
		}
		return
	}
	outs := make([]string, 0, len(lines))
	synctest.Test(t, func(t *testing.T) {
		node, err := New(Config{})
		if err != nil {
			t.Fatal(err)
		}
		node.config.Map.GetMapChannelOptions = func(ch string) MapChannelOptions {
			return cfgs[ch] // zero value (Mode 0) for unknown channels
		}
		broker, err := NewMemoryMapBroker(node, MemoryMapBrokerConfig{})
		if err != nil {
			t.Fatal(err)
		}
		s := &verifC20Scenario{epochs: map[string]int{}, broker: broker}
		s.handler = &verifC20Handler{sc: s, fmt: func(ch string, pub *Publication, sp StreamPosition, useDelta bool, prev *Publication) string {
			d := "0"
			if useDelta {
				d = "1"
			}
			p := "-"
			if prev != nil {
				p = fmt.Sprintf("%d.%s", prev.Offset, verifC20Data(prev.Data))
			}
			return fmt.Sprintf("%s/%s/%s/%s/%s", strings.TrimPrefix(ch, "c"), s.pub(pub), s.pos(sp), d, p)
		}}
		_ = broker.RegisterEventHandler(s.handler)
		s.t0 = time.Now().UnixMilli()
		time.Sleep(500 * time.Microsecond)
		synctest.Wait()
		outs = append(outs, "ok")
		dead := false
		for _, line := range lines[1:] {
			if dead {
				outs = append(outs, "SKIP")
				continue
			}
			f := strings.Fields(line)
			head := f[1:]
			for i, w := range head {
				if w == "|" {
					head = head[:i]
					break
				}
			}
			kv := verifC20KV(head)
			dt, err := strconv.ParseUint(kv["dt"], 10, 32)
			if err != nil {
				outs = append(outs, "bad-op")
				continue
			}
			s.handler.sleeping.Store(true)
			if dt > 0 {
				time.Sleep(time.Duration(dt) * time.Millisecond)
			}
			synctest.Wait()
			s.handler.sleeping.Store(false)
			sw := s.handler.drain()
			if f[0] == "adv" {
				outs = append(outs, "sw="+sw+" ok bc=-")
				continue
			}
			if f[0] == "hook" {
				// hook ch= key= kind=in|co dt= | <op line>
				sep := -1
				for i, w := range f {
					if w == "|" {
						sep = i
						break
					}
				}
				key, okk := verifC20Unhex(kv["key"])
				if sep < 0 || sep+1 >= len(f) || !okk || (kv["kind"] != "in" && kv["kind"] != "co") {
					outs = append(outs, "bad-op")
					continue
				}
				hkv := verifC20KV(f[1:sep])
				s.handler.mu.Lock()
				s.handler.hooks = append(s.handler.hooks, verifC20Hook{ch: "c" + hkv["ch"], key: key, conc: hkv["kind"] == "co",
					cmd: f[sep+1], kv: verifC20KV(f[sep+2:])})
				s.handler.mu.Unlock()
				outs = append(outs, "sw="+sw+" ok bc=-")
				continue
			}
			res := s.step(f[0], kv)
			synctest.Wait()
			if res == "bad-op" {
				outs = append(outs, res)
				continue
			}
			if res == "PANIC" {
				dead = true
			}
			outs = append(outs, "sw="+sw+" "+res+" bc="+s.handler.drain())
		}
		_ = broker.Close(context.Background())
		_ = node.Shutdown(context.Background())
		synctest.Wait()
	})
	for _, o := range outs {
		emit(o)
	}
	for i := len(outs); i < len(lines); i++ {
		emit("<missing>")
	}
}

func TestVerifC20(t *testing.T) {
	in, err := os.Open(os.Getenv("VERIF_OPS"))
	if err != nil {
		t.Skip("no VERIF_OPS")
	}
	defer in.Close()
	out, err := os.Create(os.Getenv("VERIF_OUT"))
	if err != nil {
		t.Fatal(err)
	}
	defer out.Close()
	w := bufio.NewWriter(out)
	defer w.Flush()
	sc := bufio.NewScanner(in)
	sc.Buffer(make([]byte, 1<<20), 1<<26)
	var cur []string
	// pending holds the positions of comment lines inside the current scenario
	type item struct {
		comment bool
	}
	var layout []item
	flush := func() {
		if len(cur) == 0 {
			for range layout {
				fmt.Fprintln(w, "#")
			}
			layout = layout[:0]
			return
		}
		var res []string
		if strings.HasPrefix(cur[0], "reset") {
			verifC20RunScenario(t, cur, func(s string) { res = append(res, s) })
		} else {
			for range cur {
				res = append(res, "bad-op")
			}
		}
		i := 0
		for _, it := range layout {
			if it.comment {
				fmt.Fprintln(w, "#")
			} else {
				fmt.Fprintln(w, res[i])
				i++
			}
		}
		cur = cur[:0]
		layout = layout[:0]
		w.Flush()
	}
	for sc.Scan() {
		line := sc.Text()
		if line == "" || strings.HasPrefix(line, "#") {
			layout = append(layout, item{comment: true})
			continue
		}
		if strings.HasPrefix(line, "reset") {
			flush()
		}
		cur = append(cur, line)
		layout = append(layout, item{})
	}
	flush()
}
