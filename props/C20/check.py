"""C20 — the memory map broker implements the map-state specification.

Proof: lean/CentrifugeVerif/Props/C20.lean over Model/MapHub.lean (+ Spec/RefMap.lean).
Tie: the real MemoryMapBroker (testing/synctest virtual clock, HandlePublication recorded) and the Lean
driver run on the same generated op sequences; outputs are diffed line by line.
Oracle: the reference map of the property statement (props/C20/refmap.py) is replayed on the same ops
and compared with the implementation's own outputs.
"""
import json
import os
import sys

sys.path.insert(0, os.path.dirname(os.path.abspath(__file__)))
import maplib  # noqa: E402
import refmap  # noqa: E402

I64MAX, I64MIN = 2 ** 63 - 1, -2 ** 63
KEYS = [b"k1", b"k1", b"k2", b"k2", b"k", b"k\x00", b"\xff", b""]
VALID_CFGS = [("R", [700, 1500, 2500, 4000], [0, 1, 2, 3, 5]), ("P", [0], [0, 1, 2, 4]), ("E", [700, 1500, 2500], [0, 0, -1])]
INVALID_CFGS = ["U:0:0:0", "B:1000:0:0", "P:1000:3:0", "R:0:3:0", "R:-5:3:1", "E:1000:2:0", "R:1000:-1:0", "E:0:0:0"]


def hx(b):
    return b.hex() if b else "-"


def gen_cfgs(rng):
    ws = []
    for i in range(3):
        if rng.random() < 0.08:
            ws.append("c%d=%s" % (i, rng.choice(INVALID_CFGS)))
            continue
        m, ttls, sizes = rng.choice(VALID_CFGS + VALID_CFGS[:1])
        ws.append("c%d=%s:%d:%d:%d" % (i, m, rng.choice(ttls), rng.choice(sizes), rng.randint(0, 1)))
    return "reset " + " ".join(ws)


def pick_pos(rng, ref, ch, key, around_top=False):
    """a StreamPosition token: mostly the stored offset of `key` (or the top) with the right epoch."""
    c = ref.chans.get(ch)
    if c is None:
        return rng.choice(["0:-", "1:E0", "0:E7"])
    e = c.state.get(key)
    base = c.top if (around_top or e is None) else e["pub"]["off"]
    r = rng.random()
    off = base if r < 0.6 else max(0, base + rng.choice([-1, 1, 2, -2]))
    r = rng.random()
    ep = "E%d" % c.epoch if r < 0.75 else rng.choice(["-", "E%d" % max(0, c.epoch - 1), "E%d" % (c.epoch + 1), "E9"])
    return "%d:%s" % (off, ep)


def gen_op(rng, ref, i):
    r = rng.random()
    ch = rng.choice([0, 0, 0, 1, 1, 2, 2, 3]) if rng.random() < 0.1 else rng.choice([0, 0, 1, 1, 2])
    key = rng.choice(KEYS)
    c = ref.chans.get(ch)
    e = c.state.get(key) if c else None
    dt = rng.randint(1, 30) if rng.random() < 0.85 else rng.choice([200, 450, 700, 1200])
    if r < 0.50:
        ver = 0
        if e and e["ver"] > 0 and rng.random() < 0.6:
            ver = max(1, e["ver"] + rng.choice([-1, 0, 0, 1]))       # at / just below / just above the stored version
        elif rng.random() < 0.45:
            ver = max(0, (e["ver"] if e else 2) + rng.choice([-1, 0, 1, 1, 2]))
        vep = 0 if rng.random() < 0.5 else (e["vep"] if e and rng.random() < 0.6 else rng.randint(1, 3))
        cas = "-" if rng.random() < 0.65 else pick_pos(rng, ref, ch, key)
        return ("pub ch=%d key=%s dt=%d data=%d tag=%d score=%d mode=%s rtos=%d ver=%d vep=%d idem=%d ittl=%d cas=%s delta=%d" % (
            ch, hx(key), dt, i + 1, rng.choice([0, 0, 1, 5, 6]),
            rng.choice([-5, 0, 0, 3, 3, 3, I64MAX, I64MIN, rng.randint(-3, 3)]),
            rng.choice("rrrrrnnnxxxo"), rng.randint(0, 1), ver, vep,
            0 if rng.random() < 0.7 else rng.randint(1, 3), rng.choice([0, 0, 10, 50, 2000]), cas,
            1 if rng.random() < 0.3 else 0))
    if r < 0.65:
        if c and c.state and rng.random() < 0.6:
            key = rng.choice(sorted(c.state))
        cas = "-" if rng.random() < 0.7 else pick_pos(rng, ref, ch, key)
        return "rm ch=%d key=%s dt=%d idem=%d ittl=%d cas=%s tag=%d" % (
            ch, hx(key), dt, 0 if rng.random() < 0.7 else rng.randint(1, 3), rng.choice([0, 0, 10, 50, 2000]), cas,
            rng.choice([0, 0, 0, 1, 9]))
    if r < 0.78:
        cur = "-"
        if rng.random() < 0.5:
            if c and c.state and rng.random() < 0.7:
                k = rng.choice(sorted(c.state))
                sc = c.state[k]["pub"]["score"]
                raw = (str(sc).encode() + b"\x00" + k) if (c.ordered and rng.random() < 0.85) else k
            else:
                raw = rng.choice([b"abc", b"12", b"\x00k", b"99999999999999999999\x00k", b"+3\x00k1", b"-\x00",
                                  b"3\x00", b"-9223372036854775809\x00k", b"0\x00k1", b"3_0\x00k"])
            cur = hx(raw)
        rev = "-" if rng.random() < 0.7 else pick_pos(rng, ref, ch, key, around_top=True)
        return "state ch=%d dt=%d lim=%d cur=%s key=%s asc=%d rev=%s" % (
            ch, rng.randint(0, 5), rng.choice([-1, -1, 0, 1, 1, 2, 3, -5]), cur,
            hx(key) if rng.random() < 0.2 else "-", rng.randint(0, 1), rev)
    if r < 0.88:
        since = "-" if rng.random() < 0.4 else pick_pos(rng, ref, ch, key, around_top=True)
        if since != "-" and c is not None and rng.random() < 0.5:
            since = "%d:%s" % (rng.randint(0, c.top + 1), since.split(":")[1])
        return "stream ch=%d dt=%d since=%s lim=%d rev=%d" % (ch, rng.randint(0, 5), since, rng.choice([-1, -1, 0, 1, 2, 5]), rng.randint(0, 1))
    if r < 0.91:
        return "clear ch=%d dt=%d" % (ch, dt)
    return "adv dt=%d" % rng.choice([300, 1000, 1700, 2600, 4100])


def gen_scenario(rng, nops):
    ref = refmap.Ref()
    lines = [gen_cfgs(rng)]
    ref.line(lines[0])
    for i in range(nops):
        op = gen_op(rng, ref, i)
        lines.append(op)
        ref.line(op)
    return lines


def run(ctx):
    ctx.rule = ("scenarios of 40 ops over 3 channels (random valid/invalid channel options: ephemeral / recoverable / "
                "persistent x ordered, key TTL, stream size) and a pool of 7 keys incl. the empty key; parameters are chosen "
                "with the reference map's state in view (CAS on the stored offset / off by one / wrong epoch, versions "
                "around the stored one, reused idempotency keys, cursors from stored entries and malformed ones); "
                "non-trivial = scenario in which at least 3 suppress reasons or an expiry removal occur; distinct = "
                "distinct scenario text")
    ctx.assumptions = [
        "stream TTL / meta TTL sweeps are outside the model: the harness sets StreamTTL = 1h (> virtual horizon)",
        "publishes are at least 1 ms apart, so two keys of a channel never share a deadline (heap tie order)",
        "sweep broadcasts of different channels are compared as per-channel sequences",
        "payload / tags / client info are opaque; uint64 offset overflow is not modelled"]
    proofs_ok = ctx.lean_obligations()
    binary = maplib.build(ctx)
    if binary is None:
        ctx.violation("correspondence", "harness no longer builds against package centrifuge",
                      signature={"kind": "harness-build"}, replay={"log": getattr(ctx, "build_error", "")}, no_input=True)
        return
    if ctx.replay:
        ops = json.load(open(ctx.replay)).get("ops", [])
    else:
        corpus = [l.rstrip("\n") for l in open("props/C20/corpus.ops") if l.strip() and not l.startswith("#")]
        n = ctx.scale(800, 12000)
        ops = list(corpus)
        for _ in range(n):
            ops += gen_scenario(ctx.rng, 40)
    def nontrivial(lines, im):
        sups = {maplib.fields(o).get("sup") for o in im} - {None}
        return len(sups) >= 3 or any(o.startswith("sw=") and not o.startswith("sw=- ") for o in im)
    _, _, model_ok = maplib.compare_all(ctx, binary, ops, "memory map broker deviates from the reference map", nontrivial)
    if not (proofs_ok and model_ok):
        ctx.proof_broken()
